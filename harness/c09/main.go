// c09: the field-level JSON codec (transcoding.JSONMarshaler) against canonical proto3 JSON (protojson as reference)
// and the Coq model, on a run-time built schema with every scalar kind as singular, repeated and map fields.
package main

import (
	"bytes"
	"encoding/json"
	"fmt"
	"math"
	"os"
	"sort"
	"strconv"
	"strings"

	vc "github.com/renbou/grpcbridge/internal/zzverif/vcommon"
	"github.com/renbou/grpcbridge/transcoding"
	"google.golang.org/protobuf/encoding/protojson"
	"google.golang.org/protobuf/proto"
	"google.golang.org/protobuf/reflect/protodesc"
	"google.golang.org/protobuf/reflect/protoreflect"
	"google.golang.org/protobuf/reflect/protoregistry"
	"google.golang.org/protobuf/types/descriptorpb"
	"google.golang.org/protobuf/types/dynamicpb"
)

var kindNames = []string{"bool", "int32", "int64", "uint32", "uint64", "float", "double", "string", "bytes", "enum"}
var kindTypes = []descriptorpb.FieldDescriptorProto_Type{
	descriptorpb.FieldDescriptorProto_TYPE_BOOL, descriptorpb.FieldDescriptorProto_TYPE_INT32, descriptorpb.FieldDescriptorProto_TYPE_INT64,
	descriptorpb.FieldDescriptorProto_TYPE_UINT32, descriptorpb.FieldDescriptorProto_TYPE_UINT64, descriptorpb.FieldDescriptorProto_TYPE_FLOAT,
	descriptorpb.FieldDescriptorProto_TYPE_DOUBLE, descriptorpb.FieldDescriptorProto_TYPE_STRING, descriptorpb.FieldDescriptorProto_TYPE_BYTES,
					descriptorpb.FieldDescriptorProto_TYPE_ENUM}
var keyKinds = []int{7, 1, 2, 3, 4, 0} // string int32 int64 uint32 uint64 bool
var enumVals = [][2]any{{"ZERO", 0}, {"ONE", 1}, {"TWO", 2}, {"NEG", -1}, {"BIG", 2147483647}}

func buildSchema() (protoreflect.MessageDescriptor, *dynamicpb.Types) {
	fd := &descriptorpb.FileDescriptorProto{Name: proto.String("c09.proto"), Package: proto.String("c09"), Syntax: proto.String("proto3")}
	en := &descriptorpb.EnumDescriptorProto{Name: proto.String("E")}
	for _, ev := range enumVals {
		en.Value = append(en.Value, &descriptorpb.EnumValueDescriptorProto{Name: proto.String(ev[0].(string)), Number: proto.Int32(int32(ev[1].(int)))})
	}
	fd.EnumType = []*descriptorpb.EnumDescriptorProto{en}
	msg := &descriptorpb.DescriptorProto{Name: proto.String("W")}
	num := int32(1)
	mkField := func(name string, k int, label descriptorpb.FieldDescriptorProto_Label) *descriptorpb.FieldDescriptorProto {
		f := &descriptorpb.FieldDescriptorProto{Name: proto.String(name), Number: proto.Int32(num), Type: kindTypes[k].Enum(), Label: label.Enum()}
		num++
		if k == 9 {
			f.TypeName = proto.String(".c09.E")
		}
		return f
	}
	for k, n := range kindNames {
		sf := mkField("s_"+n, k, descriptorpb.FieldDescriptorProto_LABEL_OPTIONAL)
		if k == 9 {
			// explicit presence (proto3 optional), so that "skipped" can be told from "set to the default"
			sf.Proto3Optional = proto.Bool(true)
			sf.OneofIndex = proto.Int32(0)
			msg.OneofDecl = []*descriptorpb.OneofDescriptorProto{{Name: proto.String("_s_enum")}}
		}
		msg.Field = append(msg.Field, sf)
		msg.Field = append(msg.Field, mkField("r_"+n, k, descriptorpb.FieldDescriptorProto_LABEL_REPEATED))
	}
	for _, kk := range keyKinds {
		for _, vk := range []int{1, 7, 9, 2, 0} {
			name := fmt.Sprintf("m_%s_%s", kindNames[kk], kindNames[vk])
			entry := &descriptorpb.DescriptorProto{Name: proto.String(strings.ReplaceAll(strings.Title(strings.ReplaceAll(name, "_", " ")), " ", "") + "Entry"),
				Options: &descriptorpb.MessageOptions{MapEntry: proto.Bool(true)}}
			kf := &descriptorpb.FieldDescriptorProto{Name: proto.String("key"), Number: proto.Int32(1), Type: kindTypes[kk].Enum(), Label: descriptorpb.FieldDescriptorProto_LABEL_OPTIONAL.Enum()}
			vf := &descriptorpb.FieldDescriptorProto{Name: proto.String("value"), Number: proto.Int32(2), Type: kindTypes[vk].Enum(), Label: descriptorpb.FieldDescriptorProto_LABEL_OPTIONAL.Enum()}
			if vk == 9 {
				vf.TypeName = proto.String(".c09.E")
			}
			entry.Field = []*descriptorpb.FieldDescriptorProto{kf, vf}
			msg.NestedType = append(msg.NestedType, entry)
			f := &descriptorpb.FieldDescriptorProto{Name: proto.String(name), Number: proto.Int32(num), Type: descriptorpb.FieldDescriptorProto_TYPE_MESSAGE.Enum(),
				Label: descriptorpb.FieldDescriptorProto_LABEL_REPEATED.Enum(), TypeName: proto.String(".c09.W." + entry.GetName())}
			num++
			msg.Field = append(msg.Field, f)
		}
	}
	fd.MessageType = []*descriptorpb.DescriptorProto{msg}
	file, err := protodesc.NewFile(fd, &protoregistry.Files{})
	if err != nil {
		panic(err)
	}
	files := &protoregistry.Files{}
	files.RegisterFile(file)
	return file.Messages().ByName("W"), dynamicpb.NewTypes(files)
}

// ---- JSON text -> tree for the model ----
func treeOf(v any) vc.Val {
	switch x := v.(type) {
	case nil:
		return vc.L{0}
	case bool:
		return vc.L{1, x}
	case json.Number:
		return vc.L{2, string(x)}
	case string:
		return vc.L{3, x}
	case []any:
		items := vc.L{}
		for _, e := range x {
			items = append(items, treeOf(e))
		}
		return vc.L{4, items}
	case orderedObj:
		items := vc.L{}
		for _, e := range x {
			items = append(items, vc.L{e.k, treeOf(e.v)})
		}
		return vc.L{5, items}
	}
	panic(fmt.Sprintf("treeOf %T", v))
}

type kv struct {
	k string
	v any
}
type orderedObj []kv

func parseJSON(text string) (any, bool) {
	if !json.Valid([]byte(text)) {
		return nil, false
	}
	dec := json.NewDecoder(strings.NewReader(text))
	dec.UseNumber()
	v, err := parseValue(dec)
	if err != nil {
		return nil, false
	}
	if _, err := dec.Token(); err == nil {
		return nil, false
	}
	return v, true
}

func parseValue(dec *json.Decoder) (any, error) {
	tok, err := dec.Token()
	if err != nil {
		return nil, err
	}
	switch t := tok.(type) {
	case json.Delim:
		if t == '[' {
			arr := []any{}
			for dec.More() {
				v, err := parseValue(dec)
				if err != nil {
					return nil, err
				}
				arr = append(arr, v)
			}
			_, err := dec.Token()
			return arr, err
		}
		if t == '{' {
			obj := orderedObj{}
			for dec.More() {
				kt, err := dec.Token()
				if err != nil {
					return nil, err
				}
				v, err := parseValue(dec)
				if err != nil {
					return nil, err
				}
				obj = append(obj, kv{kt.(string), v})
			}
			_, err := dec.Token()
			return obj, err
		}
		return nil, fmt.Errorf("delim")
	default:
		return tok, nil
	}
}

// ---- protoreflect value -> val ----
func scalarVal(fd protoreflect.FieldDescriptor, v protoreflect.Value) vc.Val {
	switch fd.Kind() {
	case protoreflect.BoolKind:
		return vc.L{1, v.Bool()}
	case protoreflect.Int32Kind, protoreflect.Int64Kind:
		return vc.L{2, v.Int()}
	case protoreflect.Uint32Kind, protoreflect.Uint64Kind:
		return vc.L{2, v.Uint()}
	case protoreflect.FloatKind, protoreflect.DoubleKind:
		f := v.Float()
		switch {
		case math.IsNaN(f):
			return vc.L{3, 0}
		case math.IsInf(f, 1):
			return vc.L{3, 1}
		case math.IsInf(f, -1):
			return vc.L{3, 2}
		}
		return vc.L{4}
	case protoreflect.StringKind:
		return vc.L{5, v.String()}
	case protoreflect.BytesKind:
		return vc.L{6, v.Bytes()}
	case protoreflect.EnumKind:
		return vc.L{7, int(v.Enum())}
	}
	panic("kind")
}

func floatBits(fd protoreflect.FieldDescriptor, v protoreflect.Value, out *[]uint64) {
	if fd.Kind() == protoreflect.FloatKind || fd.Kind() == protoreflect.DoubleKind {
		f := v.Float()
		if math.IsNaN(f) {
			*out = append(*out, 1)
		} else {
			*out = append(*out, math.Float64bits(f))
		}
	}
}

func fieldVal(m protoreflect.Message, fd protoreflect.FieldDescriptor, bits *[]uint64) vc.Val {
	switch {
	case fd.IsList():
		l := m.Get(fd).List()
		items := vc.L{}
		for i := 0; i < l.Len(); i++ {
			items = append(items, scalarVal(fd, l.Get(i)))
			floatBits(fd, l.Get(i), bits)
		}
		return vc.L{8, items}
	case fd.IsMap():
		type ent struct {
			k, v vc.Val
			ks   string
		}
		var es []ent
		m.Get(fd).Map().Range(func(k protoreflect.MapKey, v protoreflect.Value) bool {
			kv := scalarVal(fd.MapKey(), k.Value())
			es = append(es, ent{kv, scalarVal(fd.MapValue(), v), vc.Enc(kv)})
			return true
		})
		sort.Slice(es, func(i, j int) bool {
			a, b := es[i].k.(vc.L), es[j].k.(vc.L)
			switch x := a[1].(type) {
			case int64:
				return x < b[1].(int64)
			case uint64:
				return x < b[1].(uint64)
			case string:
				return x < b[1].(string)
			case bool:
				return !x && b[1].(bool)
			}
			return es[i].ks < es[j].ks
		})
		items := vc.L{}
		for _, e := range es {
			items = append(items, vc.L{e.k, e.v})
		}
		return vc.L{9, items}
	default:
		if fd.HasPresence() && !m.Has(fd) {
			return vc.L{10} // nothing was stored: the text was skipped
		}
		floatBits(fd, m.Get(fd), bits)
		return scalarVal(fd, m.Get(fd))
	}
}

var marshaler = map[bool]*transcoding.JSONMarshaler{
	true:  {MarshalOptions: protojson.MarshalOptions{EmitDefaultValues: true}, UnmarshalOptions: protojson.UnmarshalOptions{DiscardUnknown: true}},
	false: {MarshalOptions: protojson.MarshalOptions{EmitDefaultValues: true}, UnmarshalOptions: protojson.UnmarshalOptions{DiscardUnknown: false}},
}

func runCode(md protoreflect.MessageDescriptor, types *dynamicpb.Types, fd protoreflect.FieldDescriptor, text string, discard bool) (res vc.Val, bits []uint64) {
	m := dynamicpb.NewMessage(md)
	defer func() {
		if r := recover(); r != nil {
			res = vc.L{99}
		}
	}()
	err := marshaler[discard].Unmarshal(types, []byte(text), m, fd)
	if err != nil {
		return vc.L{}, nil
	}
	return vc.L{fieldVal(m, fd, &bits)}, bits
}

// the same text as the next message of a long-lived stream decoder (one per option set, shared by all fields, replaced after
// an error just as a real stream ends at its first error): whatever was decoded before must not show in this message
type streamDec struct {
	buf *bytes.Buffer
	dec transcoding.Decoder
}

var streamDecs = map[bool]*streamDec{}

func runStream(md protoreflect.MessageDescriptor, types *dynamicpb.Types, fd protoreflect.FieldDescriptor, text string, discard bool) (res vc.Val, bits []uint64) {
	s := streamDecs[discard]
	if s == nil {
		s = &streamDec{buf: &bytes.Buffer{}}
		s.dec = marshaler[discard].NewDecoder(types, s.buf)
		streamDecs[discard] = s
	}
	s.buf.WriteString(text)
	s.buf.WriteString("\n")
	m := dynamicpb.NewMessage(md)
	defer func() {
		if r := recover(); r != nil {
			res = vc.L{99}
			delete(streamDecs, discard)
		}
	}()
	if err := s.dec.Decode(m, fd); err != nil {
		delete(streamDecs, discard)
		return vc.L{}, nil
	}
	return vc.L{fieldVal(m, fd, &bits)}, bits
}

func runRef(md protoreflect.MessageDescriptor, types *dynamicpb.Types, fd protoreflect.FieldDescriptor, text string, discard bool) (vc.Val, []uint64) {
	m := dynamicpb.NewMessage(md)
	wrapped := fmt.Sprintf(`{%q: %s}`, fd.JSONName(), text)
	err := protojson.UnmarshalOptions{DiscardUnknown: discard, Resolver: types}.Unmarshal([]byte(wrapped), m)
	if err != nil {
		return vc.L{}, nil
	}
	var bits []uint64
	return vc.L{fieldVal(m, fd, &bits)}, bits
}

func kindSpec(k int) vc.Val {
	if k == 9 {
		names := vc.L{}
		for _, ev := range enumVals {
			names = append(names, vc.L{ev[0].(string), ev[1].(int)})
		}
		return vc.L{9, names}
	}
	return vc.L{k}
}

var intTexts = []string{"0", "1", "-1", "42", "2147483647", "2147483648", "-2147483648", "-2147483649", "4294967295", "4294967296", "9223372036854775807",
	"9223372036854775808", "-9223372036854775808", "-9223372036854775809", "18446744073709551615", "18446744073709551616", "9007199254740993",
	"1.0", "1.5", "-0.0", "1e3", "1E3", "1e-3", "15e-1", "1.50e1", "1e19", "1e400", "1e4000", "2.5e+2", "-1e0", "1099511627776", "0.5", "-0",
	"01", "+1", "1.", ".5", "0x10", "1_000", " 1", "1 ", "NaN", "Infinity", "true", "null", "", "abc", "१",
	// fractions and exponents on integers beyond 2^53: exact decimal arithmetic is needed, a float64 detour alters or rejects them
	"9007199254740993.0", "1234567890123456789e0", "9223372036854775807.0", "922337203685477580.7e1", "1.8446744073709551615e19",
	"18446744073709551615.0", "9007199254740992.5", "1000000000000000000.1", "-9223372036854775808.0", "-922337203685477580.8e1",
	"9223372036854775807.5", "92233720368547758070e-1", "0.9223372036854775807e19", "4611686018427387905.00"}
var floatTexts = []string{"0", "-0", "1", "-1.5", "3.14", "1e10", "1e38", "3.4028234663852886e38", "3.4028235677973366e38", "3.5e38", "1e39", "1e40", "-1e40", "1e308", "1.7976931348623157e308",
	"1e309", "4.9e-324", "1e-400", "0.1", "123456789.125", "16777217", "9007199254740993",
	"16777217.000000000001", "16777216.999999999999", "1.00000017881393432617187500001", "3.4028235677973362e38", "-3.4028235677973366e38", "0.000001e45", "340282356779733661637539395458142568447", "340282356779733661637539395458142568448"}
var floatStrs = []string{"NaN", "Infinity", "-Infinity", "+Infinity", "nan", "inf", "-inf", "Inf", "infinity", "1.5", "1e40", "-1e40", "1e309", " 1", "1 ", "0x1p-2", "1_0", "0x1P+4", "0X.8p1", "0x1", "0x_1p0", "1__0", "_1", "1_", "1_.5", "1._5", "1e1_0", "1e_1", "0x1.fffffep127", "0x1.ffffffp127", "0x1p128", "0x1p1024", "0x1.fffffffffffff8p1023", "1.e5", "e5", ".", "+", "-", "+.e1", "0b1", "0o7", "1p3", "+nan", "-nan", "+inf", "-INF", "INFINITY", "infinit", "in", "", "abc", "+1.5", ".5", "5.", "1e", "--1"}
var strTexts = []string{`""`, `"a"`, `"hello world"`, `"quote\"d"`, `"é中"`, `"line\nbreak"`, `"ZERO"`, `"ONE"`, `"TWO"`, `"NEG"`, `"BIG"`, `"BOGUS"`, `"one"`, `"QUJD"`, `"QUI="`, `"QQ=="`, `"QUI"`, `"QQ"`, `"A"`, `"!!!!"`, `"QUJD\n"`, `"-_-_"`, `"+/+/"`, `"true"`, `"1"`}
var otherTexts = []string{"true", "false", "null", "[]", "{}", "[1]", `{"a":1}`, "[true]", `["x"]`}

func scalarTexts(r *vc.Rand, k int) []string {
	var out []string
	switch k {
	case 1, 2, 3, 4, 9:
		for _, t := range intTexts {
			out = append(out, t, `"`+t+`"`)
		}
	case 5, 6:
		out = append(out, floatTexts...)
		for _, t := range floatTexts {
			out = append(out, `"`+t+`"`)
		}
		for _, t := range floatStrs {
			out = append(out, `"`+t+`"`)
		}
	}
	out = append(out, strTexts...)
	out = append(out, otherTexts...)
	return out
}

func decodePart(w *vc.Writer, r *vc.Rand) {
	md, types := buildSchema()
	emit := func(k, card, keyKind int, fd protoreflect.FieldDescriptor, text string, discard bool) {
		tree, ok := parseJSON(text)
		if !ok {
			return // not a JSON text: encoding/json's tokenizer decides, not the codec
		}
		code, cbits := runCode(md, types, fd, text, discard)
		ref, rbits := runRef(md, types, fd, text, discard)
		agree := true
		if len(cbits) == len(rbits) {
			for i := range cbits {
				if cbits[i] != rbits[i] {
					agree = false
				}
			}
		}
		var cardv vc.Val = vc.L{card}
		if card == 2 {
			cardv = vc.L{2, kindSpec(keyKind)}
		}
		w.Case(vc.L{kindSpec(k), cardv, discard, treeOf(tree)}, vc.L{code, ref, agree}, len(code.(vc.L)) > 0)
		// and once more as the next message of a stream
		scode, sbits := runStream(md, types, fd, text, discard)
		sagree := true
		if len(sbits) == len(rbits) {
			for i := range sbits {
				if sbits[i] != rbits[i] {
					sagree = false
				}
			}
		}
		w.Case(vc.L{kindSpec(k), cardv, discard, treeOf(tree)}, vc.L{scode, ref, sagree}, len(scode.(vc.L)) > 0)
	}
	fields := md.Fields()
	for k, n := range kindNames {
		sf := fields.ByName(protoreflect.Name("s_" + n))
		rf := fields.ByName(protoreflect.Name("r_" + n))
		texts := scalarTexts(r, k)
		for _, t := range texts {
			for _, discard := range []bool{true, false} {
				emit(k, 0, 0, sf, t, discard)
			}
		}
		// lists: random selections
		nl := vc.Scale(60, 3000)
		for i := 0; i < nl; i++ {
			rr := r.Fork()
			var items []string
			for j := 0; j < rr.Intn(4); j++ {
				items = append(items, texts[rr.Intn(len(texts))])
			}
			t := "[" + strings.Join(items, ",") + "]"
			if rr.Chance(5) {
				t = rr.Pick(otherTexts)
			}
			emit(k, 1, 0, rf, t, rr.Bool())
		}
	}
	keyTexts := map[int][]string{
		7: {"", "a", "b c", "é", "0", "true", "ctl\x01", "bell\a", "tag\U000e0001", "zw\u200b", "del\x7f", "q\"uote"},
		1: {"0", "1", "-1", "2147483647", "2147483648", "1.0", "1e2", "1.5", "x", "", "+1", "007"},
		2: {"0", "-5", "9223372036854775807", "9223372036854775808", "1e3", "abc"},
		3: {"0", "7", "4294967295", "4294967296", "-1", "1.0"},
		4: {"0", "18446744073709551615", "18446744073709551616", "-1", "12"},
		0: {"true", "false", "True", "1", "", "yes"},
	}
	for _, kk := range keyKinds {
		for _, vk := range []int{1, 7, 9, 2, 0} {
			fd := fields.ByName(protoreflect.Name(fmt.Sprintf("m_%s_%s", kindNames[kk], kindNames[vk])))
			vtexts := scalarTexts(r, vk)
			nm := vc.Scale(40, 2000)
			for i := 0; i < nm; i++ {
				rr := r.Fork()
				var ents []string
				used := map[string]bool{}
				for j := 0; j < rr.Intn(4); j++ {
					key := rr.Pick(keyTexts[kk])
					// two texts denoting the same key ("1" and "1.0") make the result depend on Go's map iteration order
					class := key
					if f, err := strconv.ParseFloat(key, 64); err == nil && kk != 7 {
						class = strconv.FormatFloat(f, 'g', -1, 64)
					}
					if used[class] {
						continue
					}
					used[class] = true
					kb, _ := json.Marshal(key)
					ents = append(ents, string(kb)+":"+vtexts[rr.Intn(len(vtexts))])
				}
				t := "{" + strings.Join(ents, ",") + "}"
				emit(vk, 2, kk, fd, t, rr.Bool())
			}
		}
	}
}

// round trip: values -> code's Marshal -> code's Unmarshal ; values -> protojson -> code's Unmarshal
func rtPart(w *vc.Writer, r *vc.Rand) {
	md, types := buildSchema()
	fields := md.Fields()
	mar := marshaler[false]
	sameBits := func(a, b []uint64) bool { return fmt.Sprint(a) == fmt.Sprint(b) }
	// set fills the field of a fresh message; card 0 singular, 1 list, 2 map
	run := func(k, card, kk int, fd protoreflect.FieldDescriptor, set func(m protoreflect.Message)) {
		m := dynamicpb.NewMessage(md)
		set(m)
		var b0 []uint64
		want := fieldVal(m, fd, &b0)
		var r1, r2 vc.Val = vc.L{}, vc.L{}
		text, err := mar.Marshal(types, m, fd)
		decode := func(text []byte) vc.Val {
			var res vc.Val = vc.L{}
			m2 := dynamicpb.NewMessage(md)
			func() {
				defer func() { recover() }()
				if mar.Unmarshal(types, text, m2, fd) == nil {
					var b1 []uint64
					v := fieldVal(m2, fd, &b1)
					if sameBits(b0, b1) {
						res = vc.L{v}
					}
				}
			}()
			return res
		}
		if err == nil {
			r1 = decode(text)
		}
		// canonical text of the field: protojson of a message with only this field, value extracted
		full, err2 := protojson.MarshalOptions{Resolver: types, EmitUnpopulated: true}.Marshal(m)
		var canon []byte
		if err2 == nil {
			var obj map[string]json.RawMessage
			if json.Unmarshal(full, &obj) == nil {
				canon = obj[fd.JSONName()]
			}
		}
		if canon != nil {
			r2 = decode(canon)
		}
		var cardv vc.Val = vc.L{card}
		if card == 2 {
			cardv = vc.L{2, kindSpec(kk)}
		}
		w.Case(vc.L{kindSpec(k), cardv, want}, vc.L{r1, r2, bytes.TrimSpace(text)}, true)
	}
	ints := []int64{0, 1, -1, math.MaxInt32, math.MinInt32, math.MaxInt64, math.MinInt64, 1 << 53, 1<<53 + 1, -(1<<53 + 1), 1099511627776}
	uints := []uint64{0, 1, math.MaxUint32, math.MaxUint64, 1 << 63, 1<<53 + 1}
	floats := []float64{0, math.Copysign(0, -1), 1, -1.5, 3.14, math.MaxFloat32, math.SmallestNonzeroFloat32, math.MaxFloat64, math.SmallestNonzeroFloat64, math.NaN(), math.Inf(1), math.Inf(-1), 1e21, 1e-7, 123456789.125}
	strs := []string{"", "a", "quote\"d", "é中", "line\nbreak", " ", "😀", "<&>", "true", "0",
		// characters that Go's own quoting (strconv.Quote) writes differently from JSON: controls, DEL, bell / vertical tab,
		// non-printable runes inside and outside the basic plane
		"ctl\x01", "del\x7f", "bell\a", "vt\v", "zw\u200b", "tag\U000e0001", "nb\u00a0", "\ufeffbom", "back\\slash", "nul\x00"}
	bss := [][]byte{{}, {0}, {0xff, 0xfe}, []byte("ABC"), []byte("AB"), {1, 2, 3, 4, 5}, {0xfb, 0xff, 0xbf}}
	enums := []int32{0, 1, 2, -1, math.MaxInt32, 42, math.MinInt32}
	// pools of protoreflect values per kind
	pool := func(rr *vc.Rand, k int) protoreflect.Value {
		switch k {
		case 0:
			return protoreflect.ValueOfBool(rr.Bool())
		case 1:
			if rr.Chance(2) {
				return protoreflect.ValueOfInt32(int32(rr.U64()))
			}
			for {
				if i := ints[rr.Intn(len(ints))]; i >= math.MinInt32 && i <= math.MaxInt32 {
					return protoreflect.ValueOfInt32(int32(i))
				}
			}
		case 2:
			if rr.Chance(2) {
				return protoreflect.ValueOfInt64(int64(rr.U64()))
			}
			return protoreflect.ValueOfInt64(ints[rr.Intn(len(ints))])
		case 3:
			if rr.Chance(2) {
				return protoreflect.ValueOfUint32(uint32(rr.U64()))
			}
			return protoreflect.ValueOfUint32(uint32(uints[rr.Intn(3)]))
		case 4:
			if rr.Chance(2) {
				return protoreflect.ValueOfUint64(rr.U64())
			}
			return protoreflect.ValueOfUint64(uints[rr.Intn(len(uints))])
		case 5:
			if rr.Chance(2) {
				return protoreflect.ValueOfFloat32(math.Float32frombits(uint32(rr.U64())))
			}
			return protoreflect.ValueOfFloat32(float32(floats[rr.Intn(len(floats))]))
		case 6:
			if rr.Chance(2) {
				return protoreflect.ValueOfFloat64(math.Float64frombits(rr.U64()))
			}
			return protoreflect.ValueOfFloat64(floats[rr.Intn(len(floats))])
		case 7:
			return protoreflect.ValueOfString(strs[rr.Intn(len(strs))])
		case 8:
			if rr.Chance(2) {
				return protoreflect.ValueOfBytes(rr.Bytes(rr.Intn(9)))
			}
			return protoreflect.ValueOfBytes(bss[rr.Intn(len(bss))])
		default:
			return protoreflect.ValueOfEnum(protoreflect.EnumNumber(enums[rr.Intn(len(enums))]))
		}
	}
	single := func(k int, v protoreflect.Value) {
		fd := fields.ByName(protoreflect.Name("s_" + kindNames[k]))
		run(k, 0, 0, fd, func(m protoreflect.Message) { m.Set(fd, v) })
	}
	// every boundary value as a singular field
	single(0, protoreflect.ValueOfBool(true))
	single(0, protoreflect.ValueOfBool(false))
	for _, i := range ints {
		if i >= math.MinInt32 && i <= math.MaxInt32 {
			single(1, protoreflect.ValueOfInt32(int32(i)))
		}
		single(2, protoreflect.ValueOfInt64(i))
	}
	for _, u := range uints {
		if u <= math.MaxUint32 {
			single(3, protoreflect.ValueOfUint32(uint32(u)))
		}
		single(4, protoreflect.ValueOfUint64(u))
	}
	for _, f := range floats {
		single(6, protoreflect.ValueOfFloat64(f))
		single(5, protoreflect.ValueOfFloat32(float32(f)))
	}
	for _, s := range strs {
		single(7, protoreflect.ValueOfString(s))
	}
	for _, b := range bss {
		single(8, protoreflect.ValueOfBytes(b))
	}
	for _, e := range enums {
		single(9, protoreflect.ValueOfEnum(protoreflect.EnumNumber(e)))
	}
	n := vc.Scale(400, 20000)
	for i := 0; i < n; i++ {
		rr := r.Fork()
		k := rr.Intn(10)
		switch rr.Intn(4) {
		case 0, 1:
			single(k, pool(rr, k))
		case 2:
			fd := fields.ByName(protoreflect.Name("r_" + kindNames[k]))
			cnt := rr.Intn(5)
			vals := make([]protoreflect.Value, cnt)
			for j := range vals {
				vals[j] = pool(rr, k)
			}
			run(k, 1, 0, fd, func(m protoreflect.Message) {
				l := m.Mutable(fd).List()
				for _, v := range vals {
					l.Append(v)
				}
			})
		default:
			kk := keyKinds[rr.Intn(len(keyKinds))]
			vk := []int{1, 7, 9, 2, 0}[rr.Intn(5)]
			fd := fields.ByName(protoreflect.Name(fmt.Sprintf("m_%s_%s", kindNames[kk], kindNames[vk])))
			cnt := rr.Intn(4)
			type ent struct{ k, v protoreflect.Value }
			ents := make([]ent, cnt)
			for j := range ents {
				ents[j] = ent{pool(rr, kk), pool(rr, vk)}
			}
			run(vk, 2, kk, fd, func(m protoreflect.Message) {
				mp := m.Mutable(fd).Map()
				for _, e := range ents {
					mp.Set(e.k.MapKey(), e.v)
				}
			})
		}
	}
}

func main() {
	w := vc.NewWriter(os.Args[1])
	defer w.Close()
	r := vc.NewRand(vc.Seed())
	switch os.Args[2] {
	case "decode":
		decodePart(w, r)
	case "rt":
		rtPart(w, r)
	case "wkt":
		wktPart(w, r)
	}
}
