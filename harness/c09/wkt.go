package main

// wkt: fields whose value, element or map value is a message (or the NullValue enum) with a canonical JSON form of its own -
// google.protobuf.Value / Struct / ListValue / NullValue, Duration, Timestamp, FieldMask, the wrappers, Empty, and a plain
// nested message - as singular, repeated, map<string,_> and map<int64,_> fields.  For these the codec hands each element
// to protojson, so the reference is protojson of {"<field>": text}; the checker demands
//   kind 0 (a text from the lattice): both accept => the same stored message, no panic;
//   kind 1 (a value): the codec's own text decodes back to the value, and so does the canonical encoder's text.

import (
	"encoding/json"
	"fmt"
	"strings"

	vc "github.com/renbou/grpcbridge/internal/zzverif/vcommon"
	"google.golang.org/protobuf/encoding/protojson"
	"google.golang.org/protobuf/proto"
	"google.golang.org/protobuf/reflect/protodesc"
	"google.golang.org/protobuf/reflect/protoreflect"
	"google.golang.org/protobuf/reflect/protoregistry"
	"google.golang.org/protobuf/types/descriptorpb"
	"google.golang.org/protobuf/types/dynamicpb"
	"google.golang.org/protobuf/types/known/durationpb"
	"google.golang.org/protobuf/types/known/emptypb"
	"google.golang.org/protobuf/types/known/fieldmaskpb"
	"google.golang.org/protobuf/types/known/structpb"
	"google.golang.org/protobuf/types/known/timestamppb"
	"google.golang.org/protobuf/types/known/wrapperspb"
)

type wktType struct {
	name  string // field name stem
	typ   string // fully qualified type name
	enum  bool
	texts []string // lattice of JSON texts: canonical forms, accepted variants, rejected forms
}

var wktTypes = []wktType{
	{"value", ".google.protobuf.Value", false, []string{`null`, `1`, `-1.5e300`, `"x"`, `""`, `true`, `false`, `[]`, `{}`, `[1,null,"x"]`, `[null]`, `{"a":null}`,
		`{"a":null,"b":[{},[null,false]]}`, `"NaN"`, `1e400`, `{"a":1,"c":{"d":null}}`, `[[[]]]`}},
	{"struct", ".google.protobuf.Struct", false, []string{`{}`, `{"a":null}`, `{"a":{"b":[null,1]}}`, `{"":""}`, `{"k":1,"l":"2","m":[true]}`, `null`, `[]`, `1`, `"x"`}},
	{"list", ".google.protobuf.ListValue", false, []string{`[]`, `[null]`, `[null,null]`, `[1,[2,[3,null]]]`, `[{"a":null}]`, `["x",true]`, `null`, `{}`, `1`}},
	{"nullv", ".google.protobuf.NullValue", true, []string{`null`, `"NULL_VALUE"`, `0`, `1`, `"x"`, `"null"`, `false`, `[]`}},
	{"dur", ".google.protobuf.Duration", false, []string{`"1s"`, `"0s"`, `"-1.5s"`, `"0.000000001s"`, `"-0.000000001s"`, `"315576000000s"`, `"315576000001s"`, `"1.0000000001s"`,
		`"1"`, `"s"`, `1`, `null`, `{}`, `"+1s"`, `"1.s"`, `".5s"`, `"1e3s"`}},
	{"ts", ".google.protobuf.Timestamp", false, []string{`"1970-01-01T00:00:00Z"`, `"2024-02-29T12:34:56.789+01:00"`, `"9999-12-31T23:59:59.999999999Z"`, `"0001-01-01T00:00:00Z"`,
		`"2023-02-29T00:00:00Z"`, `"1970-01-01T00:00:00.1234567891Z"`, `"1970-01-01 00:00:00Z"`, `"1970-01-01T00:00:00"`, `"x"`, `0`, `null`, `"1970-01-01t00:00:00z"`}},
	{"mask", ".google.protobuf.FieldMask", false, []string{`""`, `"a"`, `"a,b.c"`, `"fooBar,baz.quxQuux"`, `"foo_bar"`, `"a,,b"`, `"a, b"`, `1`, `null`, `["a"]`}},
	{"i64", ".google.protobuf.Int64Value", false, []string{`"1"`, `1`, `-1`, `9223372036854775807`, `"9223372036854775807"`, `"9223372036854775808"`, `1.0`, `1.5`, `1e2`, `null`, `"x"`, `true`, `{"value":1}`}},
	{"u64", ".google.protobuf.UInt64Value", false, []string{`"18446744073709551615"`, `18446744073709551615`, `18446744073709551616`, `-1`, `0`, `null`}},
	{"i32", ".google.protobuf.Int32Value", false, []string{`2147483647`, `2147483648`, `"-2147483648"`, `-2147483649`, `1.0`, `0.5`, `null`}},
	{"dbl", ".google.protobuf.DoubleValue", false, []string{`1.5`, `0`, `-0`, `"NaN"`, `"Infinity"`, `"-Infinity"`, `"1"`, `1e400`, `1e-400`, `"x"`, `null`, `true`}},
	{"flt", ".google.protobuf.FloatValue", false, []string{`1.5`, `3.5e38`, `3.4e38`, `"-Infinity"`, `"NaN"`, `1e-50`, `null`}},
	{"byt", ".google.protobuf.BytesValue", false, []string{`""`, `"AQID"`, `"AQI"`, `"AQI="`, `"-_8"`, `"+/8="`, `"A"`, `1`, `null`, `[1]`}},
	{"str", ".google.protobuf.StringValue", false, []string{`""`, `"x"`, `"é\u0000\n"`, `1`, `null`, `true`}},
	{"boo", ".google.protobuf.BoolValue", false, []string{`true`, `false`, `"true"`, `0`, `1`, `null`}},
	{"empty", ".google.protobuf.Empty", false, []string{`{}`, `{"a":1}`, `null`, `[]`, `""`}},
	{"in", ".c09w.In", false, []string{`{}`, `{"a":1}`, `{"a":"1"}`, `{"a":1.0}`, `{"s":"x","a":2147483647}`, `{"a":2147483648}`, `{"a":null}`, `{"z":1}`, `{"s":1}`, `null`, `[]`, `1`,
		`{"v":null}`, `{"v":[null]}`, `{"d":"2s","v":{"k":null}}`, `{"d":null}`}},
}

func buildWkt() (protoreflect.MessageDescriptor, *dynamicpb.Types) {
	typOf := func(t wktType) descriptorpb.FieldDescriptorProto_Type {
		if t.enum {
			return descriptorpb.FieldDescriptorProto_TYPE_ENUM
		}
		return descriptorpb.FieldDescriptorProto_TYPE_MESSAGE
	}
	opt := descriptorpb.FieldDescriptorProto_LABEL_OPTIONAL.Enum()
	rep := descriptorpb.FieldDescriptorProto_LABEL_REPEATED.Enum()
	in := &descriptorpb.DescriptorProto{Name: proto.String("In"), Field: []*descriptorpb.FieldDescriptorProto{
		{Name: proto.String("a"), Number: proto.Int32(1), Type: descriptorpb.FieldDescriptorProto_TYPE_INT32.Enum(), Label: opt},
		{Name: proto.String("s"), Number: proto.Int32(2), Type: descriptorpb.FieldDescriptorProto_TYPE_STRING.Enum(), Label: opt},
		{Name: proto.String("v"), Number: proto.Int32(3), Type: descriptorpb.FieldDescriptorProto_TYPE_MESSAGE.Enum(), TypeName: proto.String(".google.protobuf.Value"), Label: opt},
		{Name: proto.String("d"), Number: proto.Int32(4), Type: descriptorpb.FieldDescriptorProto_TYPE_MESSAGE.Enum(), TypeName: proto.String(".google.protobuf.Duration"), Label: opt},
	}}
	x := &descriptorpb.DescriptorProto{Name: proto.String("X")}
	num := int32(1)
	for _, t := range wktTypes {
		x.Field = append(x.Field, &descriptorpb.FieldDescriptorProto{Name: proto.String("s_" + t.name), Number: proto.Int32(num), Type: typOf(t).Enum(), TypeName: proto.String(t.typ), Label: opt})
		num++
		x.Field = append(x.Field, &descriptorpb.FieldDescriptorProto{Name: proto.String("r_" + t.name), Number: proto.Int32(num), Type: typOf(t).Enum(), TypeName: proto.String(t.typ), Label: rep})
		num++
		for ki, kt := range []descriptorpb.FieldDescriptorProto_Type{descriptorpb.FieldDescriptorProto_TYPE_STRING, descriptorpb.FieldDescriptorProto_TYPE_INT64} {
			name := []string{"m_", "n_"}[ki] + t.name
			ename := strings.ReplaceAll(strings.Title(strings.ReplaceAll(name, "_", " ")), " ", "") + "Entry"
			x.NestedType = append(x.NestedType, &descriptorpb.DescriptorProto{Name: proto.String(ename), Options: &descriptorpb.MessageOptions{MapEntry: proto.Bool(true)},
				Field: []*descriptorpb.FieldDescriptorProto{
					{Name: proto.String("key"), Number: proto.Int32(1), Type: kt.Enum(), Label: opt},
					{Name: proto.String("value"), Number: proto.Int32(2), Type: typOf(t).Enum(), TypeName: proto.String(t.typ), Label: opt}}})
			x.Field = append(x.Field, &descriptorpb.FieldDescriptorProto{Name: proto.String(name), Number: proto.Int32(num), Type: descriptorpb.FieldDescriptorProto_TYPE_MESSAGE.Enum(),
				TypeName: proto.String(".c09w.X." + ename), Label: rep})
			num++
		}
	}
	fdp := &descriptorpb.FileDescriptorProto{Name: proto.String("c09w.proto"), Package: proto.String("c09w"), Syntax: proto.String("proto3"),
		Dependency: []string{"google/protobuf/struct.proto", "google/protobuf/duration.proto", "google/protobuf/timestamp.proto", "google/protobuf/field_mask.proto",
			"google/protobuf/wrappers.proto", "google/protobuf/empty.proto"},
		MessageType: []*descriptorpb.DescriptorProto{in, x}}
	files := &protoregistry.Files{}
	for _, f := range []protoreflect.FileDescriptor{structpb.File_google_protobuf_struct_proto, durationpb.File_google_protobuf_duration_proto, timestamppb.File_google_protobuf_timestamp_proto,
		fieldmaskpb.File_google_protobuf_field_mask_proto, wrapperspb.File_google_protobuf_wrappers_proto, emptypb.File_google_protobuf_empty_proto} {
		if err := files.RegisterFile(f); err != nil {
			panic(err)
		}
	}
	file, err := protodesc.NewFile(fdp, files)
	if err != nil {
		panic(err)
	}
	if err := files.RegisterFile(file); err != nil {
		panic(err)
	}
	return file.Messages().ByName("X"), dynamicpb.NewTypes(files)
}

// the stored message as deterministic wire bytes (maps sorted)
func wireOf(m proto.Message) vc.Val {
	b, err := proto.MarshalOptions{Deterministic: true}.Marshal(m)
	if err != nil {
		return vc.L{98}
	}
	return vc.L{b}
}

func wktCode(md protoreflect.MessageDescriptor, types *dynamicpb.Types, fd protoreflect.FieldDescriptor, text []byte, discard bool) (res vc.Val) {
	m := dynamicpb.NewMessage(md)
	defer func() {
		if r := recover(); r != nil {
			res = vc.L{99}
		}
	}()
	if err := marshaler[discard].Unmarshal(types, text, m, fd); err != nil {
		return vc.L{}
	}
	return wireOf(m)
}

func wktRef(md protoreflect.MessageDescriptor, types *dynamicpb.Types, fd protoreflect.FieldDescriptor, text string, discard bool) (vc.Val, *dynamicpb.Message) {
	m := dynamicpb.NewMessage(md)
	wrapped := fmt.Sprintf(`{%q: %s}`, fd.JSONName(), text)
	if err := (protojson.UnmarshalOptions{DiscardUnknown: discard, Resolver: types}).Unmarshal([]byte(wrapped), m); err != nil {
		return vc.L{}, nil
	}
	return wireOf(m), m
}

func wktPart(w *vc.Writer, r *vc.Rand) {
	md, types := buildWkt()
	fields := md.Fields()
	seen := map[string]bool{}
	emit := func(fd protoreflect.FieldDescriptor, text string, discard bool) {
		key := fmt.Sprint(fd.Name(), "|", text, "|", discard)
		if seen[key] {
			return
		}
		seen[key] = true
		code := wktCode(md, types, fd, []byte(text), discard)
		ref, m := wktRef(md, types, fd, text, discard)
		w.Case(vc.L{0, string(fd.Name()), text, discard}, vc.L{code, ref}, len(code.(vc.L)) > 0 || len(ref.(vc.L)) > 0)
		if m == nil || !m.Has(fd) {
			return
		}
		// the value the reference stored: through the codec's own encoder and through the canonical encoder, back through the codec
		var r1, r2 vc.Val = vc.L{}, vc.L{}
		own, err := func() (b []byte, err error) {
			defer func() {
				if rec := recover(); rec != nil {
					err = fmt.Errorf("panic: %v", rec)
				}
			}()
			return marshaler[discard].Marshal(types, m, fd)
		}()
		if err == nil {
			r1 = wktCode(md, types, fd, own, discard)
		}
		full, err2 := protojson.MarshalOptions{Resolver: types}.Marshal(m)
		if err2 != nil {
			return // not a value the canonical encoder can write (e.g. NaN inside a Value)
		}
		var obj map[string]json.RawMessage
		if json.Unmarshal(full, &obj) != nil || obj[fd.JSONName()] == nil {
			return
		}
		// values that canonical proto3 JSON itself cannot carry (a NullValue field holding the undefined number 1, which the
		// canonical encoder writes as null) are not "representable values"
		if back, _ := wktRef(md, types, fd, string(obj[fd.JSONName()]), discard); fmt.Sprint(back) != fmt.Sprint(ref) {
			return
		}
		r2 = wktCode(md, types, fd, obj[fd.JSONName()], discard)
		w.Case(vc.L{1, string(fd.Name()), string(obj[fd.JSONName()]), discard}, vc.L{r1, r2, ref, string(own)}, true)
	}
	for _, t := range wktTypes {
		sfd := fields.ByName(protoreflect.Name("s_" + t.name))
		rfd := fields.ByName(protoreflect.Name("r_" + t.name))
		mfd := fields.ByName(protoreflect.Name("m_" + t.name))
		nfd := fields.ByName(protoreflect.Name("n_" + t.name))
		for _, discard := range []bool{false, true} {
			for _, tx := range t.texts {
				emit(sfd, tx, discard)
				emit(rfd, "["+tx+"]", discard)
				emit(mfd, `{"k":`+tx+`}`, discard)
				emit(nfd, `{"-7":`+tx+`}`, discard)
			}
			for _, tx := range []string{`null`, `[]`, `{}`, `1`, `"x"`, `[[]]`, `{"a":[]}`, `{"1":{}}`} {
				emit(sfd, tx, discard)
				emit(rfd, tx, discard)
				emit(mfd, tx, discard)
				emit(nfd, tx, discard)
			}
		}
		n := vc.Scale(30, 1500)
		for i := 0; i < n; i++ {
			rr := r.Fork()
			cnt := rr.Intn(4)
			var els []string
			for j := 0; j < cnt; j++ {
				els = append(els, rr.Pick(t.texts))
			}
			discard := rr.Bool()
			switch rr.Intn(3) {
			case 0:
				emit(rfd, "["+strings.Join(els, ",")+"]", discard)
			case 1:
				for j := range els {
					els[j] = fmt.Sprintf("%q:%s", rr.Pick([]string{"a", "b", "", "é", "k\n"})+fmt.Sprint(j), els[j])
				}
				emit(mfd, "{"+strings.Join(els, ",")+"}", discard)
			default:
				for j := range els {
					els[j] = fmt.Sprintf(`"%d":%s`, int64(rr.Intn(5))*1000000007-int64(j), els[j])
				}
				emit(nfd, "{"+strings.Join(els, ",")+"}", discard)
			}
		}
	}
}
