// Package vrefl is a scripted gRPC reflection server behind the grpcadapter.ClientPool / ClientConn / ClientStream
// interfaces (no network): descriptor universes, answering policies, protocol versions and fault injection.
package vrefl

import (
	"context"
	"fmt"
	"io"
	"sort"
	"sync"

	"github.com/renbou/grpcbridge/grpcadapter"
	"github.com/renbou/grpcbridge/internal/rpcutil"
	"google.golang.org/genproto/googleapis/api/annotations"
	"google.golang.org/grpc/codes"
	"google.golang.org/grpc/metadata"
	reflectionpb "google.golang.org/grpc/reflection/grpc_reflection_v1"
	"google.golang.org/grpc/status"
	"google.golang.org/protobuf/proto"
	"google.golang.org/protobuf/types/descriptorpb"
)

// ---- universe ----
type Binding struct {
	Kind, Path, Body, RespBody string // Kind: get put post delete patch or a custom verb
}
type Method struct {
	Name     string
	CS, SS   bool
	In, Out  string // message names within the same package
	Bindings []Binding
}
type Service struct {
	Name    string // simple name
	Methods []Method
}
type File struct {
	Name     string
	Package  string
	Deps     []string
	Messages []string
	Services []Service
	Salt     string // changes the bytes without changing the contract's shape (a new version of the file)
}

func (f File) Proto() *descriptorpb.FileDescriptorProto {
	fd := &descriptorpb.FileDescriptorProto{Name: proto.String(f.Name), Package: proto.String(f.Package), Syntax: proto.String("proto3"), Dependency: f.Deps}
	for _, m := range f.Messages {
		fd.MessageType = append(fd.MessageType, &descriptorpb.DescriptorProto{Name: proto.String(m)})
	}
	if f.Salt != "" {
		fd.MessageType = append(fd.MessageType, &descriptorpb.DescriptorProto{Name: proto.String("Salt" + f.Salt)})
	}
	for _, s := range f.Services {
		sd := &descriptorpb.ServiceDescriptorProto{Name: proto.String(s.Name)}
		for _, m := range s.Methods {
			md := &descriptorpb.MethodDescriptorProto{Name: proto.String(m.Name), InputType: proto.String("." + m.In), OutputType: proto.String("." + m.Out),
				ClientStreaming: proto.Bool(m.CS), ServerStreaming: proto.Bool(m.SS)}
			if len(m.Bindings) > 0 {
				rule := mkRule(m.Bindings[0])
				for _, b := range m.Bindings[1:] {
					rule.AdditionalBindings = append(rule.AdditionalBindings, mkRule(b))
				}
				md.Options = &descriptorpb.MethodOptions{}
				proto.SetExtension(md.Options, annotations.E_Http, rule)
			}
			sd.Method = append(sd.Method, md)
		}
		fd.Service = append(fd.Service, sd)
	}
	return fd
}

func mkRule(b Binding) *annotations.HttpRule {
	r := &annotations.HttpRule{Body: b.Body, ResponseBody: b.RespBody}
	switch b.Kind {
	case "get":
		r.Pattern = &annotations.HttpRule_Get{Get: b.Path}
	case "put":
		r.Pattern = &annotations.HttpRule_Put{Put: b.Path}
	case "post":
		r.Pattern = &annotations.HttpRule_Post{Post: b.Path}
	case "delete":
		r.Pattern = &annotations.HttpRule_Delete{Delete: b.Path}
	case "patch":
		r.Pattern = &annotations.HttpRule_Patch{Patch: b.Path}
	default:
		r.Pattern = &annotations.HttpRule_Custom{Custom: &annotations.CustomHttpPattern{Kind: b.Kind, Path: b.Path}}
	}
	return r
}

// ---- server ----
const (
	PolClosure   = 0 // requested file + transitive dependencies
	PolOnlyFile  = 1 // only the requested file
	PolGrpcGo    = 2 // like grpc-go: requested file always, dependencies unless already sent on this stream
	PolShuffled  = 3 // closure, dependencies first
	PolDuplicate = 4 // closure with every file twice in one response
	PolWrongFile = 5 // NON-conformant: answers a symbol request with some other file
	PolMissDep   = 6 // NON-conformant: never provides one dependency (NotFound error response)
	PolDirect    = 7 // requested file + its direct imports only: later rounds re-send files the client already has
	PolCpp       = 8 // like grpc C++: closure minus everything already sent on this stream - the requested file included (possibly an empty answer)
)

type Server struct {
	Mu        sync.Mutex
	Files     map[string]File
	Listed    []string // service names as listed (may contain duplicates, invalid or administrative names)
	Policy    int
	V1, Alpha bool // which protocol versions are implemented
	// fault injection for the NEXT poll(s): fail at step k of a stream (0 open, 1 list, 2.. k-th request), with a code
	FailStep int // -1 none
	FailCode codes.Code
	Hang     bool          // the failing step hangs until the context ends instead of returning an error
	Gate     chan struct{} // if non-nil, every Recv waits for a token (used to hold a poll open)
	Streams  int
	// VaryOrder: every other stream lists the files of an answer in reverse order (a server is free to; the contract is the same)
	VaryOrder bool
	Methods   []string
}

func (s *Server) symbolFile(sym string) (File, bool) {
	for _, f := range s.Files {
		for _, sv := range f.Services {
			if f.Package+"."+sv.Name == sym {
				return f, true
			}
		}
	}
	return File{}, false
}

func (s *Server) closure(f File, seen map[string]bool, out *[]File) {
	if seen[f.Name] {
		return
	}
	seen[f.Name] = true
	*out = append(*out, f)
	for _, d := range f.Deps {
		if df, ok := s.Files[d]; ok {
			s.closure(df, seen, out)
		}
	}
}

func (s *Server) answer(f File, sent map[string]bool, bySymbol bool) [][]byte {
	var files []File
	switch s.Policy {
	case PolOnlyFile, PolMissDep:
		files = []File{f}
	case PolDirect:
		files = []File{f}
		for _, d := range f.Deps {
			if df, ok := s.Files[d]; ok {
				files = append(files, df)
			}
		}
	case PolGrpcGo:
		var all []File
		s.closure(f, map[string]bool{}, &all)
		for i, x := range all {
			if i == 0 || !sent[x.Name] {
				files = append(files, x)
			}
		}
	case PolCpp:
		var all []File
		s.closure(f, map[string]bool{}, &all)
		for _, x := range all {
			if !sent[x.Name] {
				files = append(files, x)
			}
		}
	case PolShuffled:
		var all []File
		s.closure(f, map[string]bool{}, &all)
		for i := len(all) - 1; i >= 0; i-- {
			files = append(files, all[i])
		}
	case PolDuplicate:
		var all []File
		s.closure(f, map[string]bool{}, &all)
		for _, x := range all {
			files = append(files, x, x)
		}
	case PolWrongFile:
		if bySymbol {
			names := make([]string, 0, len(s.Files))
			for n := range s.Files {
				names = append(names, n)
			}
			sort.Strings(names) // deterministic: the first other file in name order
			for _, n := range names {
				if n != f.Name {
					files = []File{s.Files[n]}
					break
				}
			}
			if files == nil {
				files = []File{f}
			}
		} else {
			files = []File{f}
		}
	default:
		s.closure(f, map[string]bool{}, &files)
	}
	if s.VaryOrder && s.Streams%2 == 0 {
		for i, j := 0, len(files)-1; i < j; i, j = i+1, j-1 {
			files[i], files[j] = files[j], files[i]
		}
	}
	var out [][]byte
	for _, x := range files {
		sent[x.Name] = true
		b, _ := proto.Marshal(x.Proto())
		out = append(out, b)
	}
	return out
}

// Pool / Conn / Stream
type Pool struct{ S *Server }

func (p *Pool) Get(string) (grpcadapter.ClientConn, bool) { return &conn{s: p.S}, true }

type conn struct{ s *Server }

func (c *conn) Close() {}
func (c *conn) Stream(ctx context.Context, method string) (grpcadapter.ClientStream, error) {
	s := c.s
	s.Mu.Lock()
	s.Streams++
	s.Methods = append(s.Methods, method)
	alpha := len(method) > 0 && method[len("/grpc.reflection.v1")] == 'a'
	impl := (alpha && s.Alpha) || (!alpha && s.V1)
	fail := s.FailStep == 0
	hang := s.Hang
	code := s.FailCode
	s.Mu.Unlock()
	if fail {
		if hang {
			<-ctx.Done()
			return nil, rpcutil.ContextError(ctx.Err())
		}
		return nil, status.Error(code, "scripted stream failure")
	}
	return &stream{s: s, impl: impl, sent: map[string]bool{}}, nil
}

type stream struct {
	s       *Server
	impl    bool
	mu      sync.Mutex
	pending []*reflectionpb.ServerReflectionResponse
	sent    map[string]bool
	step    int
	closed  bool
	wake    chan struct{}
}

func (st *stream) Header() metadata.MD  { return nil }
func (st *stream) Trailer() metadata.MD { return nil }
func (st *stream) CloseSend()           { st.mu.Lock(); st.closed = true; st.notify(); st.mu.Unlock() }
func (st *stream) Close()               { st.mu.Lock(); st.closed = true; st.notify(); st.mu.Unlock() }
func (st *stream) notify() {
	if st.wake != nil {
		close(st.wake)
		st.wake = nil
	}
}

func (st *stream) Send(ctx context.Context, msg proto.Message) error {
	if !st.impl {
		return nil // the error surfaces on Recv, as with a real server
	}
	req, ok := msg.(*reflectionpb.ServerReflectionRequest)
	if !ok {
		// v1alpha request: same wire format
		b, _ := proto.Marshal(msg)
		req = &reflectionpb.ServerReflectionRequest{}
		if err := proto.Unmarshal(b, req); err != nil {
			return err
		}
	}
	s := st.s
	s.Mu.Lock()
	defer s.Mu.Unlock()
	st.mu.Lock()
	defer st.mu.Unlock()
	st.step++
	resp := &reflectionpb.ServerReflectionResponse{OriginalRequest: req}
	if s.FailStep > 0 && st.step == s.FailStep {
		if s.Hang {
			resp = nil // never answered
		} else {
			resp.MessageResponse = &reflectionpb.ServerReflectionResponse_ErrorResponse{ErrorResponse: &reflectionpb.ErrorResponse{ErrorCode: int32(s.FailCode), ErrorMessage: "scripted failure"}}
		}
	} else {
		switch r := req.MessageRequest.(type) {
		case *reflectionpb.ServerReflectionRequest_ListServices:
			lr := &reflectionpb.ListServiceResponse{}
			for _, n := range s.Listed {
				lr.Service = append(lr.Service, &reflectionpb.ServiceResponse{Name: n})
			}
			resp.MessageResponse = &reflectionpb.ServerReflectionResponse_ListServicesResponse{ListServicesResponse: lr}
		case *reflectionpb.ServerReflectionRequest_FileContainingSymbol:
			f, ok := s.symbolFile(r.FileContainingSymbol)
			if !ok {
				resp.MessageResponse = &reflectionpb.ServerReflectionResponse_ErrorResponse{ErrorResponse: &reflectionpb.ErrorResponse{ErrorCode: int32(codes.NotFound), ErrorMessage: "symbol not found"}}
			} else {
				resp.MessageResponse = &reflectionpb.ServerReflectionResponse_FileDescriptorResponse{FileDescriptorResponse: &reflectionpb.FileDescriptorResponse{FileDescriptorProto: st.s.answer(f, st.sent, true)}}
			}
		case *reflectionpb.ServerReflectionRequest_FileByFilename:
			f, ok := s.Files[r.FileByFilename]
			if !ok || (s.Policy == PolMissDep && len(f.Deps) == 0 && len(f.Services) == 0) {
				resp.MessageResponse = &reflectionpb.ServerReflectionResponse_ErrorResponse{ErrorResponse: &reflectionpb.ErrorResponse{ErrorCode: int32(codes.NotFound), ErrorMessage: "file not found"}}
			} else {
				resp.MessageResponse = &reflectionpb.ServerReflectionResponse_FileDescriptorResponse{FileDescriptorResponse: &reflectionpb.FileDescriptorResponse{FileDescriptorProto: st.s.answer(f, st.sent, false)}}
			}
		default:
			resp.MessageResponse = &reflectionpb.ServerReflectionResponse_ErrorResponse{ErrorResponse: &reflectionpb.ErrorResponse{ErrorCode: int32(codes.Unimplemented), ErrorMessage: "unsupported request"}}
		}
	}
	if resp != nil {
		st.pending = append(st.pending, resp)
	}
	st.notify()
	return nil
}

func (st *stream) Recv(ctx context.Context, msg proto.Message) error {
	if !st.impl {
		return status.Error(codes.Unimplemented, "unknown service grpc.reflection")
	}
	if g := st.s.Gate; g != nil {
		select {
		case <-g:
		case <-ctx.Done():
			return rpcutil.ContextError(ctx.Err())
		}
	}
	for {
		st.mu.Lock()
		if len(st.pending) > 0 {
			r := st.pending[0]
			st.pending = st.pending[1:]
			st.mu.Unlock()
			b, _ := proto.Marshal(r)
			return proto.Unmarshal(b, msg)
		}
		if st.closed {
			st.mu.Unlock()
			return io.EOF
		}
		if st.wake == nil {
			st.wake = make(chan struct{})
		}
		w := st.wake
		st.mu.Unlock()
		select {
		case <-w:
		case <-ctx.Done():
			return rpcutil.ContextError(ctx.Err())
		}
	}
}

var _ = fmt.Sprint
