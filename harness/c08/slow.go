package main

// slowwriter part: the ORDER of the response frames when the client reads slowly.  A gRPC-Web call on a client- and
// server-streaming method: the target's first response is being written (the writer holds that write), then the request
// direction fails (an oversize frame).  Whatever the bridge does next, the client must see data frames followed by exactly
// one trailer frame - in particular no data frame may land behind the trailer, and the response writer must not be used
// after ServeHTTP has returned.  Deterministic: the writer and the request body are gated by channels.

import (
	"io"
	"net/http"
	"net/http/httptest"
	"sync"
	"time"

	vc "github.com/renbou/grpcbridge/internal/zzverif/vcommon"
	"github.com/renbou/grpcbridge/internal/zzverif/vfake"
	"github.com/renbou/grpcbridge/webbridge"
)

type gateWriter struct {
	mu       sync.Mutex
	h        http.Header
	kinds    []int // completion order: 0 data frame, 1 trailer frame
	first    chan struct{}
	release  chan struct{}
	once     sync.Once
	returned bool // ServeHTTP has returned
	late     int  // writes that completed after ServeHTTP had returned
}

func (w *gateWriter) Header() http.Header { return w.h }
func (w *gateWriter) WriteHeader(int)     {}
func (w *gateWriter) Flush()              {}
func (w *gateWriter) Write(p []byte) (int, error) {
	kind := 0
	if len(p) > 0 && p[0]&0x80 != 0 {
		kind = 1
	}
	if kind == 0 {
		held := false
		w.once.Do(func() { held = true; close(w.first) })
		if held {
			<-w.release // the client is slow: the first data frame stays in flight
		}
	}
	w.mu.Lock()
	w.kinds = append(w.kinds, kind)
	if w.returned {
		w.late++
	}
	w.mu.Unlock()
	return len(p), nil
}

type gateBody struct {
	parts [][]byte
	gate  chan struct{}
	i     int
}

func (b *gateBody) Read(p []byte) (int, error) {
	if b.i == 1 {
		<-b.gate // the rest of the request arrives only when the harness says so
	}
	if b.i >= len(b.parts) {
		return 0, io.EOF
	}
	n := copy(p, b.parts[b.i])
	b.parts[b.i] = b.parts[b.i][n:]
	if len(b.parts[b.i]) == 0 {
		b.i++
	}
	return n, nil
}
func (b *gateBody) Close() error { return nil }

func slowWriterPart(w *vc.Writer, r *vc.Rand) {
	for variant := 0; variant < 4; variant++ {
		conn := vfake.NewConn()
		conn.Script = []vfake.RespItem{{Kind: vfake.KMsg, Payload: []byte{}}, {Kind: vfake.KEOF, NeedHalfClose: true}} // one response at once; the end after the client's half-close
		router := vfake.NewFlowRouter(conn, true, true)
		b := webbridge.NewGRPCWebBridge(router, webbridge.GRPCWebBridgeOpts{})
		x := vfake.Flow("x")
		second := lpm(0, uint32(len(x)), x) // variants 0, 1: the request goes on normally and ends; 2, 3: it fails
		if variant >= 2 {
			second = []byte{0, 0x80, 0, 0, 0} // a frame that claims 2 GiB: refused
		}
		f1 := vfake.Flow("first")
		body := &gateBody{parts: [][]byte{lpm(0, uint32(len(f1)), f1), second}, gate: make(chan struct{})}
		req := httptest.NewRequest("POST", "/x", body)
		req.Header.Set("Content-Type", "application/grpc-web+proto")
		gw := &gateWriter{h: http.Header{}, first: make(chan struct{}), release: make(chan struct{})}
		done := make(chan struct{})
		go func() {
			defer close(done)
			b.ServeHTTP(gw, req)
			gw.mu.Lock()
			gw.returned = true
			gw.mu.Unlock()
		}()
		entered := true
		select {
		case <-gw.first:
		case <-time.After(3 * time.Second):
			entered = false
		}
		close(body.gate) // now the request direction goes on (and, in variants 2 and 3, fails)
		if variant%2 == 0 {
			// the slow client takes the first frame only after the call is over (or after a while, if the bridge waits for it)
			select {
			case <-done:
			case <-time.After(500 * time.Millisecond):
			}
		}
		close(gw.release)
		select {
		case <-done:
		case <-time.After(3 * time.Second):
		}
		time.Sleep(20 * time.Millisecond)
		gw.mu.Lock()
		kinds := vc.L{}
		for _, k := range gw.kinds {
			kinds = append(kinds, k)
		}
		late := gw.late
		gw.mu.Unlock()
		w.Case(vc.L{variant, entered}, vc.L{kinds, late}, true)
	}
	_ = r
}
