// c08: gRPC-Web framing. Parts: frames (request frames under arbitrary chunking), big (real-size frames around the
// 4 MiB limit), ws (grpc-websockets messages), resp (response body shape and status trailer).
package main

import (
	"bytes"
	"encoding/binary"
	"fmt"
	"io"
	"net/http"
	"net/http/httptest"
	"os"
	"strconv"
	"strings"
	"time"

	"github.com/gorilla/websocket"
	"github.com/renbou/grpcbridge/bridgedesc"
	"github.com/renbou/grpcbridge/bridgelog"
	vc "github.com/renbou/grpcbridge/internal/zzverif/vcommon"
	"github.com/renbou/grpcbridge/internal/zzverif/vfake"
	"github.com/renbou/grpcbridge/webbridge"
	"google.golang.org/grpc/codes"
	"google.golang.org/grpc/status"
	"google.golang.org/protobuf/types/known/emptypb"
	"google.golang.org/protobuf/types/known/wrapperspb"
)

func lpm(flag byte, n uint32, data []byte) []byte {
	h := []byte{flag, 0, 0, 0, 0}
	binary.BigEndian.PutUint32(h[1:], n)
	return append(h, data...)
}

// payload: valid protobuf wire data of exactly n bytes made of 2-byte varint fields (+ one 1-byte-tag filler when odd)
func payload(r *vc.Rand, n int) []byte {
	b := make([]byte, 0, n)
	for len(b)+2 <= n {
		b = append(b, 0x08, byte(r.Intn(128)))
	}
	if len(b) < n { // odd: turn the last field into a 3-byte one (two-byte varint)
		if len(b) >= 2 {
			b[len(b)-1] |= 0x80
			b = append(b, 0x01)
		} else {
			return nil // n == 1 is not representable; callers avoid it
		}
	}
	return b
}

type chunkReader struct {
	chunks [][]byte
}

func (c *chunkReader) Read(p []byte) (int, error) {
	for len(c.chunks) > 0 && len(c.chunks[0]) == 0 {
		c.chunks = c.chunks[1:]
	}
	if len(c.chunks) == 0 {
		return 0, io.EOF
	}
	n := copy(p, c.chunks[0])
	c.chunks[0] = c.chunks[0][n:]
	return n, nil
}
func (c *chunkReader) Close() error { return nil }

func dummyRouter(conn *vfake.Conn) *vfake.Router {
	m := bridgedesc.DummyMethod("pkg.Svc", "Method")
	t := &bridgedesc.Target{Name: "t"}
	return &vfake.Router{Conn: conn, Target: t, Service: &bridgedesc.Service{Name: "pkg.Svc"}, Method: m}
}

func trailerStatus(body []byte) int {
	for len(body) >= 5 {
		n := int(binary.BigEndian.Uint32(body[1:5]))
		if 5+n > len(body) {
			break
		}
		if body[0]&0x80 != 0 {
			for _, l := range strings.Split(string(body[5:5+n]), "\r\n") {
				if v, ok := strings.CutPrefix(l, "grpc-status: "); ok {
					c, _ := strconv.Atoi(v)
					return c
				}
			}
		}
		body = body[5+n:]
	}
	return -1
}

func serveWeb(conn *vfake.Conn, body io.ReadCloser) *httptest.ResponseRecorder {
	b := webbridge.NewGRPCWebBridge(dummyRouter(conn), webbridge.GRPCWebBridgeOpts{})
	req := httptest.NewRequest("POST", "/pkg.Svc/Method", nil)
	req.Body = body
	req.Header.Set("Content-Type", "application/grpc-web+proto")
	rec := httptest.NewRecorder()
	b.ServeHTTP(rec, req)
	return rec
}

func sentVal(conn *vfake.Conn) vc.Val {
	out := vc.L{}
	for _, b := range conn.SentBytes {
		out = append(out, b)
	}
	return out
}

var sizes = []int{0, 0, 2, 3, 4, 5, 127, 128, 129, 300, 2000}

func framesPart(w *vc.Writer, r *vc.Rand) {
	n := vc.Scale(400, 20000)
	tails := map[int]int{}
	for i := 0; i < n; i++ {
		rr := r.Fork()
		var stream []byte
		intended := vc.L{}
		k := rr.Intn(6)
		for j := 0; j < k; j++ {
			p := payload(rr, sizes[rr.Intn(len(sizes))])
			flag := byte(0)
			stream = append(stream, lpm(flag, uint32(len(p)), p)...)
			if p == nil {
				p = []byte{}
			}
			intended = append(intended, p)
		}
		tail := 0
		if rr.Chance(45) {
			tail = 1 + rr.Intn(3)
		}
		switch tail {
		case 1: // truncated header
			stream = append(stream, lpm(0, 7, nil)[:1+rr.Intn(4)]...)
		case 2: // truncated body
			p := payload(rr, 10+rr.Intn(200))
			f := lpm(0, uint32(len(p)), p)
			stream = append(stream, f[:5+rr.Intn(len(p))]...)
		case 3: // oversize declared length
			decl := []uint32{1<<22 + 1, 1<<22 + 2, 1 << 23, 1<<32 - 1}[rr.Intn(4)]
			stream = append(stream, lpm(0, decl, payload(rr, 2*rr.Intn(40)))...)
		}
		tails[tail]++
		// random chunking
		var chunks [][]byte
		cv := vc.L{}
		rest := stream
		for len(rest) > 0 {
			m := 1 + rr.Intn(len(rest))
			if rr.Chance(50) && m > 7 {
				m = 1 + rr.Intn(7)
			}
			chunks = append(chunks, rest[:m])
			cv = append(cv, rest[:m])
			rest = rest[m:]
		}
		conn := vfake.NewConn()
		conn.Script = []vfake.RespItem{{Kind: vfake.KEOF, NeedHalfClose: true}}
		rec := serveWeb(conn, &chunkReader{chunks: chunks})
		st := trailerStatus(rec.Body.Bytes())
		w.Case(vc.L{cv, intended, tail}, vc.L{sentVal(conn), st}, k > 0)
	}
	fmt.Printf("STAT tails %q\n", fmt.Sprint(tails))
}

type repReader struct {
	head []byte
	n    int64 // remaining repeated 2-byte fields bytes
	i    int64
}

func (r *repReader) Read(p []byte) (int, error) {
	if len(r.head) > 0 {
		n := copy(p, r.head)
		r.head = r.head[n:]
		return n, nil
	}
	if r.n == 0 {
		return 0, io.EOF
	}
	m := int64(len(p))
	if m > r.n {
		m = r.n
	}
	for j := int64(0); j < m; j++ {
		if (r.i+j)%2 == 0 {
			p[j] = 0x08
		} else {
			p[j] = 0x01
		}
	}
	r.i += m
	r.n -= m
	return int(m), nil
}
func (r *repReader) Close() error { return nil }

func bigPart(w *vc.Writer, r *vc.Rand) {
	decls := []int64{1<<22 - 2, 1 << 22, 1<<22 + 2, 1<<22 + 200, 1 << 23, 1<<32 - 2, 1<<21 + 2, 1 << 16}
	for _, d := range decls {
		for _, a := range []int64{d, 100, d + 2} {
			if a > 1<<23+16 {
				continue
			}
			conn := vfake.NewConn()
			conn.Script = []vfake.RespItem{{Kind: vfake.KEOF, NeedHalfClose: true}}
			h := []byte{0, 0, 0, 0, 0}
			binary.BigEndian.PutUint32(h[1:], uint32(d))
			rec := serveWeb(conn, &repReader{head: h, n: a})
			st := trailerStatus(rec.Body.Bytes())
			delivered := int64(-1)
			if len(conn.SentBytes) > 0 {
				delivered = int64(len(conn.SentBytes[0]))
			}
			if a > d && delivered == d {
				// the two extra bytes are a truncated next header: status is an error although the first frame was fine;
				// the property for THIS frame is delivery; report status 0 when delivery was right
				st = 0
			}
			w.Case(vc.L{d, a}, vc.L{delivered, st}, true)
		}
	}
	manyFrames(w)
}

// several frames in one request body, each within the per-message limit, the body as a whole beyond it: the limit is
// per message. input ( declared actual count ) ; delivered = the frame size if exactly count messages of that size
// arrived, otherwise the number of bytes that did
func manyFrames(w *vc.Writer) {
	for _, c := range [][2]int64{{1 << 21, 3}, {1<<20 + 6, 5}, {1 << 22, 2}, {1 << 16, 70}} {
		d, k := c[0], int(c[1])
		conn := vfake.NewConn()
		conn.Script = []vfake.RespItem{{Kind: vfake.KEOF, NeedHalfClose: true}}
		var rs []io.Reader
		for i := 0; i < k; i++ {
			h := []byte{0, 0, 0, 0, 0}
			binary.BigEndian.PutUint32(h[1:], uint32(d))
			rs = append(rs, &repReader{head: h, n: d})
		}
		rec := serveWeb(conn, io.NopCloser(io.MultiReader(rs...)))
		st := trailerStatus(rec.Body.Bytes())
		delivered, total := d, int64(0)
		for _, b := range conn.SentBytes {
			total += int64(len(b))
			if int64(len(b)) != d {
				delivered = -2
			}
		}
		if len(conn.SentBytes) != k || delivered != d {
			delivered = total
			if total == d {
				delivered = -2 // (one frame of several arrived: not to be mistaken for "delivered whole")
			}
		}
		w.Case(vc.L{d, d, k}, vc.L{delivered, st}, true)
	}
}

func bigWsPart(w *vc.Writer, r *vc.Rand) {
	// the same sizes over grpc-websockets: a WebSocket message is 1 flow-control byte + 5 header bytes + payload, so the
	// message is larger than the payload it carries - frames at the limit must still arrive; over the limit (which this transport does not enforce itself) a frame is either
	// delivered whole or refused with an error, never cut and never dropped silently
	for _, d := range []int64{1<<22 - 8, 1<<22 - 6, 1<<22 - 5, 1<<22 - 1, 1 << 22, 1<<22 + 1, 1<<22 + 4096, 1 << 16} {
		conn := vfake.NewConn()
		conn.Script = []vfake.RespItem{{Kind: vfake.KEOF, NeedHalfClose: true}}
		b := webbridge.NewGRPCWebSocketBridge(dummyRouter(conn), webbridge.GRPCWebBridgeOpts{Logger: bridgelog.Discard()})
		srv := httptest.NewServer(b)
		dl := websocket.Dialer{HandshakeTimeout: 5 * time.Second, Subprotocols: []string{"grpc-websockets"}}
		ws, _, err := dl.Dial("ws"+strings.TrimPrefix(srv.URL, "http")+"/pkg.Svc/Method", nil)
		delivered, st := int64(-1), -1
		if err == nil {
			ws.WriteMessage(websocket.BinaryMessage, []byte("x-a: 1\r\n"))
			p := payload(r, int(d))
			ws.WriteMessage(websocket.BinaryMessage, append([]byte{0}, lpm(0, uint32(len(p)), p)...))
			ws.WriteMessage(websocket.BinaryMessage, []byte{1})
			ws.SetReadDeadline(time.Now().Add(5 * time.Second))
			for {
				_, data, err := ws.ReadMessage()
				if err != nil {
					break
				}
				if s := trailerStatus(data); s >= 0 {
					st = s
				}
			}
			ws.Close()
		}
		srv.Close()
		conn.Lock()
		if len(conn.SentBytes) > 0 {
			delivered = int64(len(conn.SentBytes[0]))
		}
		conn.Unlock()
		w.Case(vc.L{d}, vc.L{delivered, st}, true)
	}
}

func wsPart(w *vc.Writer, r *vc.Rand) {
	n := vc.Scale(150, 5000)
	for i := 0; i < n; i++ {
		rr := r.Fork()
		conn := vfake.NewConn()
		conn.Script = []vfake.RespItem{{Kind: vfake.KEOF, NeedHalfClose: true}}
		b := webbridge.NewGRPCWebSocketBridge(dummyRouter(conn), webbridge.GRPCWebBridgeOpts{Logger: bridgelog.Discard()})
		srv := httptest.NewServer(b)
		d := websocket.Dialer{HandshakeTimeout: 5 * time.Second, Subprotocols: []string{"grpc-websockets"}}
		ws, _, err := d.Dial("ws"+strings.TrimPrefix(srv.URL, "http")+"/pkg.Svc/Method", nil)
		if err != nil {
			srv.Close()
			continue
		}
		ws.WriteMessage(websocket.BinaryMessage, []byte("x-a: 1\r\n"))
		msgs := vc.L{}
		intended := vc.L{}
		end := -1
		k := rr.Intn(6)
		for j := 0; j < k && end == -1; j++ {
			var m []byte
			switch c := rr.Intn(10); {
			case c < 6:
				p := payload(rr, sizes[rr.Intn(len(sizes))])
				fc := byte(0)
				if rr.Chance(10) {
					fc = 1
				}
				m = append([]byte{fc}, lpm(0, uint32(len(p)), p)...)
				if p == nil {
					p = []byte{}
				}
				intended = append(intended, p)
				if fc == 1 {
					end = 0
				}
			case c < 7:
				m = []byte{}
				end = 3
			case c < 8:
				m = append([]byte{0}, lpm(0, 5, nil)[:1+rr.Intn(4)]...)
				end = 3
			default:
				m = []byte{1}
				end = 0
			}
			msgs = append(msgs, m)
			ws.WriteMessage(websocket.BinaryMessage, m)
		}
		if end == 0 && rr.Chance(50) { // messages after the finish marker are ignored
			p := payload(rr, 4)
			m := append([]byte{0}, lpm(0, uint32(len(p)), p)...)
			msgs = append(msgs, m)
			ws.WriteMessage(websocket.BinaryMessage, m)
		}
		got := -1
		if end == -1 {
			// never finished: give the bridge time to deliver, then go away
			deadline := time.Now().Add(2 * time.Second)
			for time.Now().Before(deadline) {
				conn.Lock()
				c := len(conn.SentBytes)
				conn.Unlock()
				if c >= len(intended) {
					break
				}
				time.Sleep(time.Millisecond)
			}
			ws.Close()
		} else {
			ws.SetReadDeadline(time.Now().Add(5 * time.Second))
			for {
				_, data, err := ws.ReadMessage()
				if err != nil {
					break
				}
				if s := trailerStatus(data); s >= 0 {
					got = s
				}
			}
			ws.Close()
		}
		srv.Close()
		conn.Lock()
		sv := sentVal(conn)
		conn.Unlock()
		w.Case(vc.L{msgs, intended, end}, vc.L{sv, got}, len(intended) > 0)
	}
}

var msgPool = []string{"", "ok", "not found", "hello world", "100% sure", "a/b?c=d&e", "line1\nline2", "cr\rlf\n", "tab\t", "ünïcödé ✓", "\x00\x01\x7f", "a+b=c:d@e$f~g", "%41%zz", "trailing %", "é", string([]byte{0xff, 0xfe}), "quote\"'<>"}

func respPart(w *vc.Writer, r *vc.Rand) {
	n := vc.Scale(500, 30000)
	origins := map[int]int{}
	for i := 0; i < n; i++ {
		rr := r.Fork()
		code := rr.Intn(17)
		msg := rr.Pick(msgPool)
		if rr.Chance(20) {
			msg = string(rr.Bytes(rr.Intn(12)))
		}
		origin := rr.Intn(4) // 0,1 target ; 2 router ; 3 stream creation
		if code == 0 {
			origin = 0
		}
		origins[origin]++
		conn := vfake.NewConn()
		router := dummyRouter(conn)
		msgs := vc.L{}
		st := status.New(codes.Code(code), msg)
		if code != 0 && rr.Chance(35) {
			// a status that carries details: arbitrary target-chosen bytes (line breaks, a forged status line) inside them
			detail := rr.Pick([]string{"plain detail", "line\r\nbreak", "\r\ngrpc-status: 0\r\ngrpc-message: forged\r\n", "\x00\xff\x80", "é"})
			if ds, err := st.WithDetails(wrapperspb.Bytes([]byte(detail))); err == nil {
				st = ds
			}
		}
		switch origin {
		case 2:
			router.Err = st.Err()
		case 3:
			conn.StreamErr = st.Err()
		default:
			k := rr.Intn(4)
			for j := 0; j < k; j++ {
				p := payload(rr, sizes[rr.Intn(len(sizes))])
				if p == nil {
					p = []byte{}
				}
				conn.Script = append(conn.Script, vfake.RespItem{Kind: vfake.KMsg, Payload: p, NeedHalfClose: true})
				msgs = append(msgs, p)
			}
			if code == 0 {
				conn.Script = append(conn.Script, vfake.RespItem{Kind: vfake.KEOF, NeedHalfClose: true})
				msg = ""
			} else {
				conn.Script = append(conn.Script, vfake.RespItem{Kind: vfake.KErr, Status: st, NeedHalfClose: true})
			}
		}
		b := webbridge.NewGRPCWebBridge(router, webbridge.GRPCWebBridgeOpts{})
		req := httptest.NewRequest("POST", "/pkg.Svc/Method", bytes.NewReader(nil))
		req.Header.Set("Content-Type", "application/grpc-web+proto")
		rec := httptest.NewRecorder()
		b.ServeHTTP(rec, req)
		w.Case(vc.L{msgs, code, msg}, vc.L{rec.Code, rec.Body.Bytes()}, code != 0 || len(msgs) > 0)
	}
	fmt.Printf("STAT origins %q\n", fmt.Sprint(origins))
	_ = http.StatusOK
	_ = emptypb.Empty{}
}

func main() {
	w := vc.NewWriter(os.Args[1])
	defer w.Close()
	r := vc.NewRand(vc.Seed())
	switch os.Args[2] {
	case "frames":
		framesPart(w, r)
	case "bigws":
		bigWsPart(w, r)
	case "big":
		bigPart(w, r)
	case "ws":
		wsPart(w, r)
	case "resp":
		respPart(w, r)
	case "slowwriter":
		slowWriterPart(w, r)
	}
}
