package main

// stress: free-running parallelism (no yield hooks): background watchers keep updating unrelated targets while a victim
// target is watched, updated and closed; once Close has returned, no lookup may be routed to the victim any more.  This
// is where interleavings finer than the yield points show (e.g. a snapshot published outside the table mutex).

import (
	"fmt"
	"net/http"
	"net/url"
	"runtime"
	"sync"
	"sync/atomic"
	"time"

	"github.com/renbou/grpcbridge/bridgedesc"
	"github.com/renbou/grpcbridge/grpcadapter"
	vc "github.com/renbou/grpcbridge/internal/zzverif/vcommon"
	"github.com/renbou/grpcbridge/routing"
	"google.golang.org/protobuf/reflect/protoreflect"
)

type nilPool struct{}

func (nilPool) Get(string) (grpcadapter.ClientConn, bool) { return nil, true }

func stressDesc(name string, gen int) *bridgedesc.Target {
	return &bridgedesc.Target{Name: name, Services: []bridgedesc.Service{{Name: protoreflect.FullName("pkg." + name), Methods: []bridgedesc.Method{{
		RPCName:  "/pkg." + name + "/M",
		Bindings: []bridgedesc.Binding{{HTTPMethod: "GET", Pattern: fmt.Sprintf("/%s/g%d", name, gen%3)}, {HTTPMethod: "GET", Pattern: "/" + name + "/fixed"}}}}}}}
}

func stressPart(w *vc.Writer, r *vc.Rand, service bool) {
	// (a crash - under the race detector: a report - names this workload as the failing input)
	w.Current(vc.L{"free-running router stress: 8 goroutines watch / describe twice / close their own target, lookups meanwhile", service, int64(vc.Seed())})
	old := runtime.GOMAXPROCS(0)
	if old < 4 {
		runtime.GOMAXPROCS(4)
		defer runtime.GOMAXPROCS(old)
	}
	dur := time.Duration(vc.Scale(1500, 20000)) * time.Millisecond
	pr := routing.NewPatternRouter(nilPool{}, routing.PatternRouterOpts{})
	sr := routing.NewServiceRouter(nilPool{}, routing.ServiceRouterOpts{})
	stop := make(chan struct{})
	var wg sync.WaitGroup
	for i := 0; i < 8; i++ {
		name := fmt.Sprintf("bg%d", i)
		wg.Add(1)
		go func() {
			defer wg.Done()
			for gen := 0; ; gen++ {
				select {
				case <-stop:
					return
				default:
				}
				if service {
					wt, err := sr.Watch(name)
					if err == nil {
						wt.UpdateDesc(stressDesc(name, gen))
						wt.UpdateDesc(stressDesc(name, gen+1))
						wt.Close()
					}
				} else {
					wt, err := pr.Watch(name)
					if err == nil {
						wt.UpdateDesc(stressDesc(name, gen))
						wt.UpdateDesc(stressDesc(name, gen+1))
						wt.Close()
					}
				}
			}
		}()
	}
	// a steady target: re-described all the time, always listing pkg.steady with GET /steady/fixed (plus varying extras).
	// Readers look the stable route up concurrently: it must never be momentarily unroutable, and what a lookup returns
	// must come from ONE description (the returned service is an element of the returned target description, the method
	// of that service, the binding of that method)
	var flicker, mixture, lookups atomic.Int64
	steadyDesc := func(gen int) *bridgedesc.Target {
		d := stressDesc("steady", gen)
		for k := 0; k < gen%3; k++ { // varying extras around the stable service, before and after it
			x := bridgedesc.Service{Name: protoreflect.FullName(fmt.Sprintf("pkg.extra%d", (gen+k)%5)), Methods: []bridgedesc.Method{{RPCName: fmt.Sprintf("/pkg.extra%d/M", (gen+k)%5)}}}
			if k%2 == 0 {
				d.Services = append([]bridgedesc.Service{x}, d.Services...)
			} else {
				d.Services = append(d.Services, x)
			}
		}
		return d
	}
	var steadyUpd func(*bridgedesc.Target)
	if service {
		wt, _ := sr.Watch("steady")
		steadyUpd = wt.UpdateDesc
	} else {
		wt, _ := pr.Watch("steady")
		steadyUpd = wt.UpdateDesc
	}
	steadyUpd(steadyDesc(0))
	wg.Add(1)
	go func() {
		defer wg.Done()
		for gen := 1; ; gen++ {
			select {
			case <-stop:
				return
			default:
			}
			steadyUpd(steadyDesc(gen))
		}
	}()
	oneDesc := func(t *bridgedesc.Target, sv *bridgedesc.Service, m *bridgedesc.Method, b *bridgedesc.Binding) bool {
		for i := range t.Services {
			if &t.Services[i] == sv {
				if m == nil { // the service router hands out a synthetic method: only target and service come from the description
					return true
				}
				for j := range sv.Methods {
					if &sv.Methods[j] == m {
						if b == nil {
							return true
						}
						for k := range m.Bindings {
							if &m.Bindings[k] == b {
								return true
							}
						}
					}
				}
			}
		}
		return false
	}
	for i := 0; i < 3; i++ {
		wg.Add(1)
		go func() {
			defer wg.Done()
			httpReq := &http.Request{Method: "GET", URL: &url.URL{Path: "/steady/fixed", RawPath: "/steady/fixed"}}
			if service {
				httpReq = &http.Request{Method: "POST", URL: &url.URL{Path: "/pkg.steady/M", RawPath: "/pkg.steady/M"}}
			}
			for {
				select {
				case <-stop:
					return
				default:
				}
				lookups.Add(1)
				if service {
					_, rt, err := sr.RouteHTTP(httpReq)
					if err != nil {
						flicker.Add(1)
					} else if rt.Target.Name != "steady" || rt.Service.Name != "pkg.steady" || !oneDesc(rt.Target, rt.Service, nil, nil) {
						mixture.Add(1)
					}
				} else {
					_, rt, err := pr.RouteHTTP(httpReq)
					if err != nil {
						flicker.Add(1)
					} else if rt.Target.Name != "steady" || !oneDesc(rt.Target, rt.Service, rt.Method, rt.Binding) {
						mixture.Add(1)
					}
				}
			}
		}()
	}
	rounds, violations := 0, 0
	deadline := time.Now().Add(dur)
	for time.Now().Before(deadline) {
		name := fmt.Sprintf("victim%d", rounds%3)
		req := &http.Request{Method: "GET", URL: &url.URL{Path: "/" + name + "/fixed", RawPath: "/" + name + "/fixed"}}
		if service {
			req = &http.Request{Method: "POST", URL: &url.URL{Path: "/pkg." + name + "/M", RawPath: "/pkg." + name + "/M"}}
			wt, err := sr.Watch(name)
			if err != nil {
				violations++ // the previous round's Close had returned: the name must be watchable
				rounds++
				continue
			}
			wt.UpdateDesc(stressDesc(name, rounds))
			wt.Close()
			for k := 0; k < 40; k++ {
				if _, _, err := sr.RouteHTTP(req); err == nil {
					violations++
					break
				}
			}
		} else {
			wt, err := pr.Watch(name)
			if err != nil {
				violations++
				rounds++
				continue
			}
			wt.UpdateDesc(stressDesc(name, rounds))
			wt.Close()
			for k := 0; k < 40; k++ {
				if _, _, err := pr.RouteHTTP(req); err == nil {
					violations++
					break
				}
			}
		}
		rounds++
	}
	close(stop)
	wg.Wait()
	fmt.Printf("STAT stress \"rounds=%d violations=%d lookups=%d flicker=%d mixture=%d\"\n", rounds, violations, lookups.Load(), flicker.Load(), mixture.Load())
	w.Case(vc.L{service, rounds}, vc.L{violations, int(flicker.Load()), int(mixture.Load())}, rounds > 100)
}
