package main

// stress: free-running parallelism (no yield hooks): background watchers keep updating unrelated targets while a victim
// target is watched, updated and closed; once Close has returned, no lookup may be routed to the victim any more.  This
// is where interleavings finer than the yield points show (e.g. a snapshot published outside the table mutex).

import (
	"fmt"
	"net/http"
	"net/url"
	"runtime"
	"sync"
	"time"

	"github.com/renbou/grpcbridge/bridgedesc"
	"github.com/renbou/grpcbridge/grpcadapter"
	vc "github.com/renbou/grpcbridge/internal/zzverif/vcommon"
	"github.com/renbou/grpcbridge/routing"
	"google.golang.org/protobuf/reflect/protoreflect"
)

type nilPool struct{}

func (nilPool) Get(string) (grpcadapter.ClientConn, bool) { return nil, true }

func stressDesc(name string, gen int) *bridgedesc.Target {
	return &bridgedesc.Target{Name: name, Services: []bridgedesc.Service{{Name: protoreflect.FullName("pkg." + name), Methods: []bridgedesc.Method{{
		RPCName:  "/pkg." + name + "/M",
		Bindings: []bridgedesc.Binding{{HTTPMethod: "GET", Pattern: fmt.Sprintf("/%s/g%d", name, gen%3)}, {HTTPMethod: "GET", Pattern: "/" + name + "/fixed"}}}}}}}
}

func stressPart(w *vc.Writer, r *vc.Rand, service bool) {
	old := runtime.GOMAXPROCS(0)
	if old < 4 {
		runtime.GOMAXPROCS(4)
		defer runtime.GOMAXPROCS(old)
	}
	dur := time.Duration(vc.Scale(1500, 20000)) * time.Millisecond
	pr := routing.NewPatternRouter(nilPool{}, routing.PatternRouterOpts{})
	sr := routing.NewServiceRouter(nilPool{}, routing.ServiceRouterOpts{})
	stop := make(chan struct{})
	var wg sync.WaitGroup
	for i := 0; i < 8; i++ {
		name := fmt.Sprintf("bg%d", i)
		wg.Add(1)
		go func() {
			defer wg.Done()
			for gen := 0; ; gen++ {
				select {
				case <-stop:
					return
				default:
				}
				if service {
					wt, err := sr.Watch(name)
					if err == nil {
						wt.UpdateDesc(stressDesc(name, gen))
						wt.UpdateDesc(stressDesc(name, gen+1))
						wt.Close()
					}
				} else {
					wt, err := pr.Watch(name)
					if err == nil {
						wt.UpdateDesc(stressDesc(name, gen))
						wt.UpdateDesc(stressDesc(name, gen+1))
						wt.Close()
					}
				}
			}
		}()
	}
	rounds, violations := 0, 0
	deadline := time.Now().Add(dur)
	for time.Now().Before(deadline) {
		name := fmt.Sprintf("victim%d", rounds%3)
		req := &http.Request{Method: "GET", URL: &url.URL{Path: "/" + name + "/fixed", RawPath: "/" + name + "/fixed"}}
		if service {
			req = &http.Request{Method: "POST", URL: &url.URL{Path: "/pkg." + name + "/M", RawPath: "/pkg." + name + "/M"}}
			wt, err := sr.Watch(name)
			if err != nil {
				violations++ // the previous round's Close had returned: the name must be watchable
				rounds++
				continue
			}
			wt.UpdateDesc(stressDesc(name, rounds))
			wt.Close()
			for k := 0; k < 40; k++ {
				if _, _, err := sr.RouteHTTP(req); err == nil {
					violations++
					break
				}
			}
		} else {
			wt, err := pr.Watch(name)
			if err != nil {
				violations++
				rounds++
				continue
			}
			wt.UpdateDesc(stressDesc(name, rounds))
			wt.Close()
			for k := 0; k < 40; k++ {
				if _, _, err := pr.RouteHTTP(req); err == nil {
					violations++
					break
				}
			}
		}
		rounds++
	}
	close(stop)
	wg.Wait()
	fmt.Printf("STAT stress \"rounds=%d violations=%d\"\n", rounds, violations)
	w.Case(vc.L{service, rounds}, vc.L{violations}, rounds > 100)
}
