// c11: forced schedules on the real routers. The extracted model enumerates every interleaving of a small thread set at
// the granularity of the verif yield points; each schedule is replayed on the real PatternRouter / ServiceRouter with one
// goroutine per logical thread, parked at the yield points until the schedule releases it.
package main

import (
	"bufio"
	"bytes"
	"context"
	"fmt"
	"net/http"
	"net/url"
	"os"
	"os/exec"
	"path/filepath"
	"runtime"
	"strconv"
	"strings"
	"sync"
	"time"

	"github.com/renbou/grpcbridge/bridgedesc"
	"github.com/renbou/grpcbridge/grpcadapter"
	vc "github.com/renbou/grpcbridge/internal/zzverif/vcommon"
	"github.com/renbou/grpcbridge/internal/zzverif/vfake"
	"github.com/renbou/grpcbridge/routing"
	"google.golang.org/grpc"
	"google.golang.org/grpc/metadata"
	"google.golang.org/protobuf/reflect/protoreflect"
)

type pool struct{}

func (pool) Get(string) (grpcadapter.ClientConn, bool) { return vfake.NewConn(), true }

type sts struct{ method string }

func (s *sts) Method() string               { return s.method }
func (s *sts) SetHeader(metadata.MD) error  { return nil }
func (s *sts) SendHeader(metadata.MD) error { return nil }
func (s *sts) SetTrailer(metadata.MD) error { return nil }

// ---- thread set description ----
type thr struct {
	kind int // 0 upd 1 close 2 look 3 watch
	w    int
	n    string
	id   int
	svcs []string
}

func (t thr) val() vc.Val {
	switch t.kind {
	case 0:
		return vc.L{0, t.w, t.n, vc.L{t.id, vc.Strs(t.svcs)}}
	case 1:
		return vc.L{1, t.w, t.n}
	case 2:
		return vc.L{2, t.n}
	default:
		return vc.L{3, t.w, t.n}
	}
}

type tset struct {
	kind    int // 0 pattern 1 service
	wmutex  bool
	live    []int
	watched []string
	threads []thr
	probes  []string
}

func (s tset) val() vc.Val {
	lv := vc.L{}
	for _, w := range s.live {
		lv = append(lv, w)
	}
	ts := vc.L{}
	for _, t := range s.threads {
		ts = append(ts, t.val())
	}
	return vc.L{s.kind, s.wmutex, lv, vc.Strs(s.watched), ts}
}

// ---- goroutine identification for the yield hook ----
func goid() int64 {
	var buf [64]byte
	n := runtime.Stack(buf[:], false)
	f := strings.Fields(string(buf[:n]))
	id, _ := strconv.ParseInt(f[1], 10, 64)
	return id
}

type runner struct {
	parked chan string
	resume chan struct{}
	done   chan struct{}
	result vc.Val
}

var (
	regMu   sync.Mutex
	runners = map[int64]*runner{}
)

func hook(point string) {
	regMu.Lock()
	r := runners[goid()]
	regMu.Unlock()
	if r == nil {
		return
	}
	r.parked <- point
	<-r.resume
}

type watcher interface {
	UpdateDesc(*bridgedesc.Target)
	Close()
}

func replay(s tset, sched []int) vc.Val {
	var pr *routing.PatternRouter
	var sr *routing.ServiceRouter
	if s.kind == 0 {
		pr = routing.NewPatternRouter(pool{}, routing.PatternRouterOpts{})
	} else {
		sr = routing.NewServiceRouter(pool{}, routing.ServiceRouterOpts{})
	}
	watch := func(n string) (watcher, error) {
		if pr != nil {
			return pr.Watch(n)
		}
		return sr.Watch(n)
	}
	var wmu sync.Mutex
	watchers := map[int]watcher{}
	descID := map[*bridgedesc.Target]int{}
	// initial live watchers: watcher i watches name watched[i]
	for i, w := range s.live {
		wt, err := watch(s.watched[i])
		if err != nil {
			panic(err)
		}
		watchers[w] = wt
	}
	lookup := func(q string) vc.Val {
		var t *bridgedesc.Target
		if pr != nil {
			_, route, err := pr.RouteHTTP(&http.Request{Method: "GET", URL: &url.URL{Path: "/t/" + q}})
			if err != nil {
				return vc.L{}
			}
			t = route.Target
			// single description: the service must belong to the returned target
			ok := false
			for i := range t.Services {
				if &t.Services[i] == route.Service {
					ok = true
				}
			}
			if !ok {
				return vc.L{"MIXED", -1}
			}
		} else {
			_, route, err := sr.RouteGRPC(grpc.NewContextWithServerTransportStream(context.Background(), &sts{method: "/" + q + "/M"}))
			if err != nil {
				return vc.L{}
			}
			t = route.Target
			ok := false
			for i := range t.Services {
				if &t.Services[i] == route.Service {
					ok = true
				}
			}
			if !ok {
				return vc.L{"MIXED", -1}
			}
		}
		wmu.Lock()
		id := descID[t]
		wmu.Unlock()
		return vc.L{t.Name, id}
	}
	mkDesc := func(t thr) *bridgedesc.Target {
		d := &bridgedesc.Target{Name: t.n}
		if s.kind == 0 {
			svc := bridgedesc.Service{Name: protoreflect.FullName("svc." + t.n)}
			m := *bridgedesc.DummyMethod(svc.Name, "M")
			m.Bindings = []bridgedesc.Binding{{HTTPMethod: "GET", Pattern: "/t/" + t.n}}
			svc.Methods = []bridgedesc.Method{m}
			d.Services = []bridgedesc.Service{svc}
		} else {
			for _, sv := range t.svcs {
				d.Services = append(d.Services, bridgedesc.Service{Name: protoreflect.FullName(sv)})
			}
		}
		wmu.Lock()
		descID[d] = t.id
		wmu.Unlock()
		return d
	}
	rs := make([]*runner, len(s.threads))
	steps := make([]int, len(s.threads))
	body := func(i int) func() vc.Val {
		t := s.threads[i]
		return func() vc.Val {
			switch t.kind {
			case 0:
				wmu.Lock()
				wt := watchers[t.w]
				wmu.Unlock()
				wt.UpdateDesc(mkDesc(t))
				return 9
			case 1:
				wmu.Lock()
				wt := watchers[t.w]
				wmu.Unlock()
				res := 9
				func() {
					defer func() {
						if recover() != nil {
							res = 8
						}
					}()
					wt.Close()
				}()
				return res
			case 2:
				return lookup(t.n)
			default:
				wt, err := watch(t.n)
				if err == nil {
					wmu.Lock()
					watchers[t.w] = wt
					wmu.Unlock()
				}
				return err == nil
			}
		}
	}
	stuck := false
	for _, i := range sched {
		if rs[i] == nil {
			r := &runner{parked: make(chan string), resume: make(chan struct{}), done: make(chan struct{})}
			rs[i] = r
			f := body(i)
			started := make(chan struct{})
			go func() {
				regMu.Lock()
				runners[goid()] = r
				regMu.Unlock()
				close(started)
				r.result = f()
				regMu.Lock()
				delete(runners, goid())
				regMu.Unlock()
				close(r.done)
			}()
			<-started
		} else {
			rs[i].resume <- struct{}{}
		}
		steps[i]++
		select {
		case <-rs[i].parked:
		case <-rs[i].done:
		case <-time.After(400 * time.Millisecond):
			stuck = true
		}
		if stuck {
			break
		}
	}
	// results: finished threads report their result; parked/unstarted ones their progress as the model's pc
	out := vc.L{}
	for i, r := range rs {
		t := s.threads[i]
		if r == nil {
			if t.kind == 2 || t.kind == 3 {
				out = append(out, -1)
			} else {
				out = append(out, 0)
			}
			continue
		}
		select {
		case <-r.done:
			out = append(out, r.result)
		default:
			out = append(out, steps[i]) // parked after its k-th step: pc = k (1 after the first yield, 2 between phases)
		}
	}
	probes := vc.L{}
	if !stuck {
		for _, q := range s.probes {
			probes = append(probes, lookup(q))
		}
	}
	// let parked goroutines finish so nothing leaks into the next schedule
	for _, r := range rs {
		if r == nil {
			continue
		}
		for {
			select {
			case <-r.done:
			case r.resume <- struct{}{}:
				select {
				case <-r.parked:
				case <-r.done:
				case <-time.After(200 * time.Millisecond):
				}
				continue
			case <-time.After(300 * time.Millisecond):
			}
			break
		}
	}
	if stuck {
		return vc.L{-2}
	}
	return vc.L{out, probes}
}

func enumerate(root string, s tset) [][]int {
	cmd := exec.Command(filepath.Join(root, "ocaml", "modelrun"), "enum_c11")
	cmd.Stdin = strings.NewReader(vc.Enc(s.val()) + "\n")
	var outb bytes.Buffer
	cmd.Stdout = &outb
	if err := cmd.Run(); err != nil {
		panic(fmt.Sprintf("modelrun enum_c11: %v", err))
	}
	// parse ( ( #a #b ) ( ... ) )
	var res [][]int
	sc := bufio.NewScanner(&outb)
	sc.Buffer(make([]byte, 1<<20), 1<<28)
	for sc.Scan() {
		toks := strings.Fields(sc.Text())
		depth := 0
		var cur []int
		for _, tk := range toks {
			switch tk {
			case "(":
				depth++
				if depth == 2 {
					cur = []int{}
				}
			case ")":
				if depth == 2 {
					res = append(res, cur)
				}
				depth--
			default:
				n, _ := strconv.ParseInt(strings.TrimPrefix(tk, "#"), 16, 64)
				cur = append(cur, int(n))
			}
		}
	}
	return res
}

func sets(fixed bool) []tset {
	var out []tset
	for kind := 0; kind < 2; kind++ {
		svcA := []string{"s.a", "s.b"}
		svcB := []string{"s.b", "s.c"}
		// 1: update in flight vs close, with lookups (the F11 shape)
		out = append(out, tset{kind: kind, wmutex: fixed, live: []int{1}, watched: []string{"t1"},
			threads: []thr{{kind: 0, w: 1, n: "t1", id: 10, svcs: svcA}, {kind: 1, w: 1, n: "t1"}, {kind: 2, n: pick(kind, "t1", "s.a")}},
			probes:  []string{pick(kind, "t1", "s.a"), pick(kind, "t1", "s.b")}})
		// 2: two updates of one target + lookup (no flicker / single description)
		out = append(out, tset{kind: kind, wmutex: fixed, live: []int{1}, watched: []string{"t1"},
			threads: []thr{{kind: 0, w: 1, n: "t1", id: 10, svcs: svcA}, {kind: 0, w: 1, n: "t1", id: 11, svcs: svcB}, {kind: 2, n: pick(kind, "t1", "s.b")}, {kind: 2, n: pick(kind, "t1", "s.b")}},
			probes:  []string{pick(kind, "t1", "s.a"), pick(kind, "t1", "s.b"), pick(kind, "t1", "s.c")}})
		// 3: close, re-watch, update through the new watcher, stale update through the old one
		out = append(out, tset{kind: kind, wmutex: fixed, live: []int{1}, watched: []string{"t1"},
			threads: []thr{{kind: 0, w: 1, n: "t1", id: 10, svcs: svcA}, {kind: 1, w: 1, n: "t1"}, {kind: 3, w: 2, n: "t1"}, {kind: 0, w: 2, n: "t1", id: 20, svcs: svcB}},
			probes:  []string{pick(kind, "t1", "s.a"), pick(kind, "t1", "s.b"), pick(kind, "t1", "s.c")}})
		// 4: two targets (overlapping services for the service router), one closes
		out = append(out, tset{kind: kind, wmutex: fixed, live: []int{1, 2}, watched: []string{"t1", "t2"},
			threads: []thr{{kind: 0, w: 1, n: "t1", id: 10, svcs: svcA}, {kind: 0, w: 2, n: "t2", id: 20, svcs: svcB}, {kind: 1, w: 1, n: "t1"}, {kind: 2, n: pick(kind, "t2", "s.b")}},
			probes:  []string{pick(kind, "t1", "s.a"), pick(kind, "t2", "s.b"), pick(kind, "t2", "s.c")}})
		// 6: both targets close; the service router's contested service must not be handed to a target that is already gone
		// (t2 lists nothing but the contested service: when it loses the contest it owns no route at all; it closes, then the owner releases)
		out = append(out, tset{kind: kind, wmutex: fixed, live: []int{1, 2}, watched: []string{"t1", "t2"},
			threads: []thr{{kind: 0, w: 1, n: "t1", id: 10, svcs: svcA}, {kind: 0, w: 2, n: "t2", id: 20, svcs: []string{"s.b"}}, {kind: 1, w: 2, n: "t2"}, {kind: 1, w: 1, n: "t1"}},
			probes:  []string{pick(kind, "t1", "s.a"), pick(kind, "t2", "s.b"), pick(kind, "t2", "s.c")}})
		// 5: double close + update
		out = append(out, tset{kind: kind, wmutex: fixed, live: []int{1}, watched: []string{"t1"},
			threads: []thr{{kind: 1, w: 1, n: "t1"}, {kind: 1, w: 1, n: "t1"}, {kind: 0, w: 1, n: "t1", id: 10, svcs: svcA}},
			probes:  []string{pick(kind, "t1", "s.a")}})
	}
	return out
}

func pick(kind int, a, b string) string {
	if kind == 0 {
		return a
	}
	return b
}

func main() {
	w := vc.NewWriter(os.Args[1])
	defer w.Close()
	if len(os.Args) > 2 && (os.Args[2] == "stress_pattern" || os.Args[2] == "stress_service") {
		stressPart(w, vc.NewRand(vc.Seed()), os.Args[2] == "stress_service")
		return
	}
	if len(os.Args) > 2 && os.Args[2] == "inflight" {
		inflightPart(w)
		return
	}
	root := os.Getenv("VERIF_ROOT")
	fixed := len(os.Args) > 2 && os.Args[2] == "wmutex"
	routing.VerifYieldHook = hook
	total := 0
	limit := vc.Scale(700, 100000)
	rnd := vc.NewRand(vc.Seed())
	for _, s := range sets(fixed) {
		scheds := enumerate(root, s)
		per := limit / 12
		step := 1
		if len(scheds) > per {
			step = len(scheds)/per + 1
		}
		// every schedule in which the threads run one after the other (all orders of whole operations), then an even
		// sample and a seeded random sample of the finer interleavings
		chosen := map[int]bool{}
		var order []int
		add := func(i int) {
			if !chosen[i] {
				chosen[i] = true
				order = append(order, i)
			}
		}
		for i, sch := range scheds {
			switches := 0
			for k := 1; k < len(sch); k++ {
				if sch[k] != sch[k-1] {
					switches++
				}
			}
			if switches < len(s.threads) {
				add(i)
			}
		}
		nseq := len(order)
		for i := 0; i < len(scheds); i += step {
			add(i)
		}
		if step > 1 {
			for k := 0; k < per/2; k++ {
				add(rnd.Intn(len(scheds)))
			}
		}
		for _, i := range order {
			sch := scheds[i]
			sv := vc.L{}
			for _, x := range sch {
				sv = append(sv, x)
			}
			out := replay(s, sch)
			w.Case(vc.L{s.val(), sv, vc.Strs(s.probes)}, out, true)
			total++
		}
		fmt.Printf("STAT set_%d_%d \"%d of %d schedules (%d of them whole-operation orders)\"\n", s.kind, len(s.threads), len(order), len(scheds), nseq)
	}
}
