package main

// inflight: "once removal of a target has returned, no later lookup is routed to it, regardless of any update that was in
// flight when removal started" - asked of the implementation directly, without the model's opinion on which interleavings
// exist: an UpdateDesc is parked at its k-th yield point, Close is called and given 60 ms to return IF IT CAN (on the
// unchanged code it cannot: it waits for the watcher mutex the update holds), the update is released and runs to its end,
// Close returns, and then the target must not be routable.
// input ( router-kind park-at ) ; impl ( close-returned-while-the-update-was-parked routed-after-removal )

import (
	"context"
	"net/http"
	"net/url"
	"time"

	vc "github.com/renbou/grpcbridge/internal/zzverif/vcommon"
	"github.com/renbou/grpcbridge/routing"
	"google.golang.org/grpc"
)

func inflightPart(w *vc.Writer) {
	routing.VerifYieldHook = hook
	for kind := 0; kind < 2; kind++ {
		for parkAt := 1; parkAt <= 3; parkAt++ {
			in := vc.L{kind, parkAt}
			w.Current(in)
			var wt watcher
			var routed func() bool
			if kind == 0 {
				pr := routing.NewPatternRouter(pool{}, routing.PatternRouterOpts{})
				x, err := pr.Watch("a")
				if err != nil {
					panic(err)
				}
				wt = x
				routed = func() bool {
					_, _, err := pr.RouteHTTP(&http.Request{Method: "GET", URL: &url.URL{Path: "/a/fixed"}})
					return err == nil
				}
			} else {
				sr := routing.NewServiceRouter(pool{}, routing.ServiceRouterOpts{})
				x, err := sr.Watch("a")
				if err != nil {
					panic(err)
				}
				wt = x
				routed = func() bool {
					_, _, err := sr.RouteGRPC(grpc.NewContextWithServerTransportStream(context.Background(), &sts{method: "/pkg.a/M"}))
					return err == nil
				}
			}
			wt.UpdateDesc(stressDesc("a", 0))
			if !routed() {
				panic("inflight: the target is not routable after its first description")
			}
			r := &runner{parked: make(chan string), resume: make(chan struct{}), done: make(chan struct{})}
			go func() {
				regMu.Lock()
				runners[goid()] = r
				regMu.Unlock()
				wt.UpdateDesc(stressDesc("a", 1))
				regMu.Lock()
				delete(runners, goid())
				regMu.Unlock()
				close(r.done)
			}()
			// let the update run to its parkAt-th yield point (or to its end, if it has fewer)
			finished := false
			for k := 0; k < parkAt && !finished; k++ {
				select {
				case <-r.parked:
					if k < parkAt-1 {
						r.resume <- struct{}{}
					}
				case <-r.done:
					finished = true
				}
			}
			closed := make(chan struct{})
			go func() {
				wt.Close()
				close(closed)
			}()
			early := false
			select {
			case <-closed:
				early = true
			case <-time.After(60 * time.Millisecond):
			}
			// release the update and let it run to its end
			for !finished {
				select {
				case r.resume <- struct{}{}:
				case <-r.parked:
				case <-r.done:
					finished = true
				}
			}
			select {
			case <-closed:
			case <-time.After(3 * time.Second):
				panic("inflight: Close did not return")
			}
			after := routed()
			w.Case(in, vc.L{early, after}, true)
		}
	}
}
