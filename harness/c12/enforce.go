package main

import (
	"bytes"
	"context"
	"encoding/binary"
	"fmt"
	"io"
	"net"
	"net/http"
	"net/http/httptest"
	"strconv"
	"strings"
	"sync"
	"time"

	"github.com/gorilla/websocket"
	grpcbridge "github.com/renbou/grpcbridge"
	"github.com/renbou/grpcbridge/bridgelog"
	"github.com/renbou/grpcbridge/internal/bridgetest/testpb"
	vc "github.com/renbou/grpcbridge/internal/zzverif/vcommon"
	"github.com/renbou/grpcbridge/internal/zzverif/vfake"
	"github.com/renbou/grpcbridge/webbridge"
	"google.golang.org/grpc"
	"google.golang.org/grpc/credentials/insecure"
	"google.golang.org/grpc/status"
	"google.golang.org/grpc/test/bufconn"
)

func lpm(flag byte, data []byte) []byte {
	h := []byte{flag, 0, 0, 0, 0}
	binary.BigEndian.PutUint32(h[1:], uint32(len(data)))
	return append(h, data...)
}

func trailerStatus(body []byte) int {
	for len(body) >= 5 {
		n := int(binary.BigEndian.Uint32(body[1:5]))
		if 5+n > len(body) {
			break
		}
		if body[0]&0x80 != 0 {
			for _, l := range strings.Split(string(body[5:5+n]), "\r\n") {
				if v, ok := strings.CutPrefix(l, "grpc-status: "); ok {
					c, _ := strconv.Atoi(v)
					return c
				}
			}
		}
		body = body[5+n:]
	}
	return -1
}

// shapes: 0 both sides idle (target never answers), 1 target unreachable (stream creation blocks), 2 mid-stream (one response, then silence),
// 3 mid-stream with a stalled client: the target has answered, the client does not read, the response writer blocks (HTTP entries only)
// 4 stalled upload: the request body has no declared length (chunked / HTTP/2: ContentLength -1) and the client stops sending
// before the first byte; the target stays silent (HTTP entries only)
func mkConn(shape int) *vfake.Conn {
	c := vfake.NewConn()
	switch shape {
	case 1:
		c.StreamWait = true
	case 2, 3:
		c.Script = []vfake.RespItem{{Kind: vfake.KMsg, Payload: vfake.Flow("first")}}
	}
	return c
}

type outcome struct {
	code    int // gRPC code observed by the client (4 = DeadlineExceeded); HTTP 504 is mapped to 4
	elapsed time.Duration
	conn    *vfake.Conn
	start   time.Time
}

// stalledWriter is the ResponseWriter of a connection whose peer has stopped reading: Write blocks until released.
// A gRPC-Web handler ends a call by writing the trailer frame (flag 0x80); against a client that does not read, that last
// write blocks like any net/http write, outside the bridge's control: for that entry the call counts as ended when the
// trailer write is attempted.
type stalledWriter struct {
	h       http.Header
	once    sync.Once
	trailer chan struct{}
	release chan struct{}
}

func newStalledWriter() *stalledWriter {
	return &stalledWriter{h: http.Header{}, trailer: make(chan struct{}), release: make(chan struct{})}
}
func (w *stalledWriter) Header() http.Header { return w.h }
func (w *stalledWriter) WriteHeader(int)     {}
func (w *stalledWriter) Flush()              {}
func (w *stalledWriter) Write(p []byte) (int, error) {
	if len(p) > 0 && p[0]&0x80 != 0 {
		w.once.Do(func() { close(w.trailer) })
	}
	<-w.release
	return 0, http.ErrHandlerTimeout
}

// stalledOne: shape 3. The handler is called directly with a writer that blocks; what is measured is when ServeHTTP returns
// (or, with trailerEnds, attempts to write the trailer frame). The status cannot be observed by a client that does not
// read: code 4 stands for "ended", -1 for "still running 2 s after the deadline".
func stalledOne(h http.Handler, req *http.Request, conn *vfake.Conn, d time.Duration, trailerEnds bool) outcome {
	o := outcome{conn: conn, code: -1}
	w := newStalledWriter()
	done := make(chan struct{})
	o.start = time.Now()
	go func() {
		defer close(done)
		h.ServeHTTP(w, req)
	}()
	trailer := w.trailer
	if !trailerEnds {
		trailer = nil
	}
	select {
	case <-done:
		o.code = 4
	case <-trailer:
		o.code = 4
	case <-time.After(d + 2*time.Second):
	}
	o.elapsed = time.Since(o.start)
	close(w.release)
	<-done
	return o
}

// stalledBody is a request body whose next byte never comes (until the harness releases it after the measurement).
type stalledBody struct{ release chan struct{} }

func (b *stalledBody) Read([]byte) (int, error) { <-b.release; return 0, io.ErrUnexpectedEOF }
func (b *stalledBody) Close() error             { return nil }

// uploadOne: shape 4. The handler is called directly; code 4 stands for HTTP 504 (transcoded HTTP) or "ended" (gRPC-Web:
// the trailer is not parsed here), -1 for "still running 2 s after the deadline".
func uploadOne(h http.Handler, req *http.Request, conn *vfake.Conn, d time.Duration, want504 bool) outcome {
	o := outcome{conn: conn, code: -1}
	body := &stalledBody{release: make(chan struct{})}
	req.Body, req.ContentLength = body, -1
	rec := httptest.NewRecorder()
	done := make(chan struct{})
	o.start = time.Now()
	go func() {
		defer close(done)
		h.ServeHTTP(rec, req)
	}()
	select {
	case <-done:
		o.code = 4
		if want504 && rec.Code != 504 {
			o.code = 1000 + rec.Code
		}
	case <-time.After(d + 2*time.Second):
	}
	o.elapsed = time.Since(o.start)
	close(body.release)
	<-done
	return o
}

// the harness's own patience: a call that the bridge never ends is given up after 3 s (and reported as outliving its deadline)
var boundedClient = &http.Client{Timeout: 3 * time.Second}

func enforceOne(entry, shape int, d time.Duration) outcome {
	conn := mkConn(shape)
	hdr := fmt.Sprintf("%dm", d.Milliseconds())
	o := outcome{conn: conn, code: -1}
	switch entry {
	case 0: // transcoded HTTP, server-streaming for mid-stream, unary otherwise
		router := vfake.NewFlowRouter(conn, false, shape >= 2)
		b := webbridge.NewTranscodedHTTPBridge(router, webbridge.TranscodedHTTPBridgeOpts{})
		if shape == 3 {
			req := httptest.NewRequest("POST", "/x", strings.NewReader(`{"message":"hi"}`))
			req.Header.Set("Grpc-Timeout", hdr)
			return stalledOne(b, req, conn, d, false)
		}
		if shape == 4 {
			req := httptest.NewRequest("POST", "/x", nil)
			req.Header.Set("Grpc-Timeout", hdr)
			return uploadOne(b, req, conn, d, true)
		}
		srv := httptest.NewServer(b)
		defer srv.Close()
		req, _ := http.NewRequest("POST", srv.URL+"/x", strings.NewReader(`{"message":"hi"}`))
		req.Header.Set("Grpc-Timeout", hdr)
		o.start = time.Now()
		resp, err := boundedClient.Do(req)
		if err == nil {
			body, _ := io.ReadAll(resp.Body)
			resp.Body.Close()
			if resp.StatusCode == 504 {
				o.code = 4
			} else if resp.StatusCode == 200 && shape == 2 {
				// the status arrives after the first byte: the stream simply ends; the deadline is what ended it
				_ = body
				o.code = 4
			} else {
				o.code = 1000 + resp.StatusCode
			}
		}
		o.elapsed = time.Since(o.start)
	case 1: // transcoded WebSocket
		router := vfake.NewFlowRouter(conn, true, true)
		b := webbridge.NewTranscodedWebSocketBridge(router, webbridge.TranscodedWebSocketBridgeOpts{})
		srv := httptest.NewServer(b)
		defer srv.Close()
		h := http.Header{}
		h.Set("Grpc-Timeout", hdr)
		o.start = time.Now()
		ws, _, err := websocket.DefaultDialer.Dial("ws"+strings.TrimPrefix(srv.URL, "http")+"/x", h)
		if err == nil {
			ws.SetReadDeadline(time.Now().Add(3 * time.Second))
			for {
				_, _, err := ws.ReadMessage()
				if err != nil {
					if ce, ok := err.(*websocket.CloseError); ok && strings.Contains(ce.Text, "DeadlineExceeded") {
						o.code = 4
					} else if ok {
						o.code = 2000 + ce.Code
					}
					break
				}
			}
			ws.Close()
		}
		o.elapsed = time.Since(o.start)
	case 2: // gRPC-Web
		router := vfake.NewFlowRouter(conn, false, shape >= 2)
		b := webbridge.NewGRPCWebBridge(router, webbridge.GRPCWebBridgeOpts{})
		if shape == 3 {
			req := httptest.NewRequest("POST", "/x", bytes.NewReader(lpm(0, vfake.Flow("hi"))))
			req.Header.Set("Content-Type", "application/grpc-web+proto")
			req.Header.Set("Grpc-Timeout", hdr)
			return stalledOne(b, req, conn, d, true)
		}
		if shape == 4 {
			req := httptest.NewRequest("POST", "/x", nil)
			req.Header.Set("Content-Type", "application/grpc-web+proto")
			req.Header.Set("Grpc-Timeout", hdr)
			return uploadOne(b, req, conn, d, false)
		}
		srv := httptest.NewServer(b)
		defer srv.Close()
		req, _ := http.NewRequest("POST", srv.URL+"/x", bytes.NewReader(lpm(0, vfake.Flow("hi"))))
		req.Header.Set("Content-Type", "application/grpc-web+proto")
		req.Header.Set("Grpc-Timeout", hdr)
		o.start = time.Now()
		resp, err := boundedClient.Do(req)
		if err == nil {
			body, _ := io.ReadAll(resp.Body)
			resp.Body.Close()
			o.code = trailerStatus(body)
		}
		o.elapsed = time.Since(o.start)
	case 3: // gRPC-WebSocket
		router := vfake.NewFlowRouter(conn, true, true)
		b := webbridge.NewGRPCWebSocketBridge(router, webbridge.GRPCWebBridgeOpts{Logger: bridgelog.Discard()})
		srv := httptest.NewServer(b)
		defer srv.Close()
		d2 := websocket.Dialer{Subprotocols: []string{"grpc-websockets"}, HandshakeTimeout: 3 * time.Second}
		ws, _, err := d2.Dial("ws"+strings.TrimPrefix(srv.URL, "http")+"/x", nil)
		if err == nil {
			o.start = time.Now()
			ws.WriteMessage(websocket.BinaryMessage, []byte("grpc-timeout: "+hdr+"\r\n"))
			ws.SetReadDeadline(time.Now().Add(3 * time.Second))
			for {
				_, data, err := ws.ReadMessage()
				if err != nil {
					break
				}
				if s := trailerStatus(data); s >= 0 {
					o.code = s
				}
			}
			ws.Close()
		}
		o.elapsed = time.Since(o.start)
	case 4: // gRPC proxy: the client's context deadline travels as grpc-timeout
		router := vfake.NewFlowRouter(conn, true, true)
		proxy := grpcbridge.NewGRPCProxy(router)
		lis := bufconn.Listen(1 << 16)
		srv := grpc.NewServer(proxy.AsServerOption())
		go srv.Serve(lis)
		defer srv.Stop()
		cc, err := grpc.NewClient("passthrough:///b", grpc.WithContextDialer(func(ctx context.Context, _ string) (net.Conn, error) { return lis.DialContext(ctx) }),
			grpc.WithTransportCredentials(insecure.NewCredentials()))
		if err != nil {
			panic(err)
		}
		defer cc.Close()
		ctx, cancel := context.WithTimeout(context.Background(), d)
		defer cancel()
		o.start = time.Now()
		stream, err := cc.NewStream(ctx, &grpc.StreamDesc{ClientStreams: true, ServerStreams: true}, router.Method.RPCName)
		if err == nil {
			for {
				if err = stream.RecvMsg(&testpb.FlowMessage{}); err != nil {
					break
				}
			}
		}
		o.code = int(status.Code(err))
		o.elapsed = time.Since(o.start)
	}
	return o
}

// enforcePart: input ( entry shape timeout-ms ) ; impl ( deadline-seen-by-target-ok  ended-in-time  code )
func enforcePart(w *vc.Writer, r *vc.Rand) {
	type job struct{ entry, shape, ms int }
	var jobs []job
	reps := vc.Scale(1, 8)
	for rep := 0; rep < reps; rep++ {
		for entry := 0; entry < 5; entry++ {
			for shape := 0; shape < 5; shape++ {
				if shape >= 3 && entry != 0 && entry != 2 {
					continue // the stalled client is an http.ResponseWriter that blocks: the two plain-HTTP entries
				}
				jobs = append(jobs, job{entry, shape, 60 + r.Intn(120)})
				if rep == 0 && shape < 3 {
					// a timeout of zero is a timeout: the call is over at once, with DeadlineExceeded
					jobs = append(jobs, job{entry, shape, 0})
				}
			}
		}
	}
	results := make([]vc.Val, len(jobs))
	oks := make([]bool, len(jobs))
	// one measurement of one job: ( deadline seen by the target ok, ended in time, code )
	measure := func(j job) (vc.Val, bool) {
		d := time.Duration(j.ms) * time.Millisecond
		o := enforceOne(j.entry, j.shape, d)
		o.conn.Lock()
		dlOK := true
		if o.conn.Streams > 0 {
			// the target must see a deadline, never later than what the client asked for (margin: scheduling of the handler)
			dlOK = o.conn.HasDeadline && !o.conn.Deadline.After(o.start.Add(d+60*time.Millisecond)) && o.conn.Deadline.After(o.start.Add(d-60*time.Millisecond))
		}
		o.conn.Unlock()
		inTime := o.elapsed <= d+300*time.Millisecond && o.elapsed >= d-20*time.Millisecond
		return vc.L{dlOK, inTime, o.code}, dlOK && inTime
	}
	var wg sync.WaitGroup
	sem := make(chan struct{}, 8)
	for i, j := range jobs {
		wg.Add(1)
		go func(i int, j job) {
			defer wg.Done()
			sem <- struct{}{}
			defer func() { <-sem }()
			results[i], oks[i] = measure(j)
		}(i, j)
	}
	wg.Wait()
	// The margins above are wall-clock measurements taken from outside the bridge (the clock starts before the client has
	// even connected): a loaded machine can exceed them although the bridge did nothing wrong. A measurement outside the
	// margins is therefore repeated alone, up to three times; only a job that is outside the margins every time is reported
	// (a bridge that drops, doubles or postpones the deadline is outside them every time).
	for i, j := range jobs {
		for try := 0; try < 3 && !oks[i]; try++ {
			time.Sleep(50 * time.Millisecond)
			results[i], oks[i] = measure(j)
		}
	}
	for i, j := range jobs {
		w.Case(vc.L{j.entry, j.shape, j.ms}, results[i], true)
	}
}
