package main

// target part: what a REAL gRPC target observes. The bridge's own enforcement is checked with fake connections (enforce);
// here the connection is a real AdaptedClientConn to a grpc-go server on bufconn whose handler records the deadline of its
// stream context: with a grpc-timeout from the client the target must observe a deadline, never later than the client's.

import (
	"context"
	"fmt"
	"net"
	"net/http"
	"net/http/httptest"
	"strings"
	"time"

	"github.com/renbou/grpcbridge/grpcadapter"
	vc "github.com/renbou/grpcbridge/internal/zzverif/vcommon"
	"github.com/renbou/grpcbridge/internal/zzverif/vfake"
	"github.com/renbou/grpcbridge/webbridge"
	"google.golang.org/grpc"
	"google.golang.org/grpc/credentials/insecure"
	"google.golang.org/grpc/test/bufconn"
	"google.golang.org/protobuf/types/known/emptypb"
)

type seen struct {
	has       bool
	remaining time.Duration
}

func targetPart(w *vc.Writer, r *vc.Rand) {
	lis := bufconn.Listen(1 << 20)
	obs := make(chan seen, 16)
	srv := grpc.NewServer(grpc.UnknownServiceHandler(func(_ any, stream grpc.ServerStream) error {
		dl, ok := stream.Context().Deadline()
		obs <- seen{ok, time.Until(dl)}
		var m emptypb.Empty
		stream.RecvMsg(&m)
		return stream.SendMsg(&emptypb.Empty{})
	}))
	go srv.Serve(lis)
	defer srv.Stop()
	pool := grpcadapter.NewAdaptedClientPool(grpcadapter.AdaptedClientPoolOpts{DefaultOpts: []grpc.DialOption{
		grpc.WithTransportCredentials(insecure.NewCredentials()),
		grpc.WithContextDialer(func(ctx context.Context, _ string) (net.Conn, error) { return lis.DialContext(ctx) })}})
	ctl, err := pool.New("t", "passthrough:///t")
	if err != nil {
		panic(err)
	}
	defer ctl.Close()
	conn, _ := pool.Get("t")
	n := vc.Scale(40, 1500)
	for i := 0; i < n; i++ {
		rr := r.Fork()
		ms := []int{200, 500, 1000, 5000, 60000}[rr.Intn(5)]
		withTimeout := rr.Chance(80)
		extraMD := rr.Chance(40) // another (not allow-listed, hence filtered) header besides the timeout
		for len(obs) > 0 {
			<-obs
		}
		router := vfake.NewFlowRouter(conn, false, false)
		b := webbridge.NewTranscodedHTTPBridge(router, webbridge.TranscodedHTTPBridgeOpts{})
		req := httptest.NewRequest("POST", "/x", strings.NewReader(`{}`))
		if withTimeout {
			req.Header.Set("Grpc-Timeout", fmt.Sprintf("%dm", ms))
		}
		if extraMD {
			req.Header.Set("X-Other", "v")
		}
		rec := httptest.NewRecorder()
		start := time.Now()
		b.ServeHTTP(rec, req)
		var s seen
		got := false
		select {
		case s = <-obs:
			got = true
		case <-time.After(2 * time.Second):
		}
		_ = start
		// observed: 0 the target was not reached, 1 no deadline, 2 a deadline within the client's, 3 a later deadline
		o := 0
		switch {
		case !got:
		case !s.has:
			o = 1
		case s.remaining <= time.Duration(ms)*time.Millisecond+20*time.Millisecond:
			o = 2
		default:
			o = 3
		}
		w.Case(vc.L{withTimeout, ms, extraMD}, vc.L{o, rec.Code}, withTimeout)
	}
	_ = http.StatusOK
}
