// c12: exact correspondence of grpcadapter.decodeTimeout with Model/Timeout.v (decode part of C12).
package main

import (
	"fmt"
	"os"
	"strings"

	"github.com/renbou/grpcbridge/grpcadapter"
	vc "github.com/renbou/grpcbridge/internal/zzverif/vcommon"
)

func main() {
	w := vc.NewWriter(os.Args[1])
	defer w.Close()
	if len(os.Args) > 2 && os.Args[2] == "target" {
		targetPart(w, vc.NewRand(vc.Seed()))
		return
	}
	if len(os.Args) > 2 && os.Args[2] == "enforce" {
		enforcePart(w, vc.NewRand(vc.Seed()))
		return
	}
	emit := func(s string) {
		d, ok := grpcadapter.VerifDecodeTimeout(s)
		// non-trivial: ends in a unit letter and has at least one character before it
		nt := len(s) >= 2 && strings.ContainsRune("HMSmun", rune(s[len(s)-1]))
		if ok {
			w.Case(s, vc.Some(int64(d)), nt)
		} else {
			w.Case(s, vc.None(), nt)
		}
	}
	// corpus first (minimised past failures and refutation witnesses)
	for _, s := range []string{"-5S", "+5S", "5S", "", "S", "99999999H", "2562047H", "2562048H", "5124094H", "100000000S", "00000000n", "1_0S", "0x1S", " 1S", "1 S", "1S ", "10s"} {
		emit(s)
	}
	r := vc.NewRand(vc.Seed())
	digitClasses := []func(n int) []byte{
		func(n int) []byte {
			b := make([]byte, n)
			for i := range b {
				b[i] = '0'
			}
			return b
		},
		func(n int) []byte {
			b := make([]byte, n)
			for i := range b {
				b[i] = '9'
			}
			return b
		},
		func(n int) []byte {
			b := make([]byte, n)
			for i := range b {
				b[i] = byte('0' + r.Intn(10))
			}
			return b
		},
		func(n int) []byte {
			b := make([]byte, n)
			for i := range b {
				b[i] = byte('0' + r.Intn(10))
			}
			if n > 0 {
				b[0] = '0'
			}
			return b
		},
	}
	intruders := []byte{'-', '+', ' ', '_', 'x', 'e', '.', 0, 0xff, '/', ':', 'S'}
	// shape sweep: every length 0..10, every final byte, digit classes, one intruder at every position
	for n := 0; n <= 10; n++ {
		for u := 0; u < 256; u++ {
			isUnit := false
			for _, c := range []byte("HMSmun") {
				if byte(u) == c {
					isUnit = true
				}
			}
			for ci, cl := range digitClasses {
				if !isUnit && ci > 1 {
					continue
				}
				ds := cl(n)
				emit(string(ds) + string([]byte{byte(u)}))
				if isUnit {
					for p := 0; p < n; p++ {
						for _, in := range intruders {
							m := append([]byte{}, ds...)
							m[p] = in
							emit(string(m) + string([]byte{byte(u)}))
						}
					}
				}
			}
		}
	}
	// the overflow region: 7- and 8-digit hour values around and beyond MaxInt64/Hour (digits*unit no longer fits: the
	// result must saturate, whatever the product does modulo 2^64), and the largest values of every unit
	for i := 0; i < vc.Scale(400, 20000); i++ {
		emit(fmt.Sprintf("%dH", 2562040+r.Intn(99999999-2562040+1)))
	}
	for d := -8; d <= 8; d++ {
		emit(fmt.Sprintf("%dH", 2562047+d))
	}
	for _, u := range "HMSmun" {
		for _, v := range []int{99999999, 99999998, 10000000, 9999999} {
			emit(fmt.Sprintf("%d%c", v, u))
		}
	}
	// random strings over a small alphabet and over all bytes
	alpha := []byte("0123456789HMSmun-+ _")
	for i := 0; i < vc.Scale(5000, 500000); i++ {
		n := r.Intn(12)
		b := make([]byte, n)
		for j := range b {
			if r.Chance(90) {
				b[j] = alpha[r.Intn(len(alpha))]
			} else {
				b[j] = byte(r.U64())
			}
		}
		emit(string(b))
	}
}
