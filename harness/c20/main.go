// c20: both template parsers and the trie on grammar derivations, their single-edit mutants and noise.
package main

import (
	"fmt"
	"os"

	"github.com/grpc-ecosystem/grpc-gateway/v2/runtime"
	"github.com/grpc-ecosystem/grpc-gateway/v2/utilities"
	"github.com/renbou/grpcbridge/internal/httprule"
	gwbased "github.com/renbou/grpcbridge/internal/httprule/gwbased"
	vc "github.com/renbou/grpcbridge/internal/zzverif/vcommon"
	"github.com/renbou/grpcbridge/internal/zzverif/vtmpl"
)

type tcase struct {
	kind int
	text string
	ast  vc.Val
}

func gen(r *vc.Rand) []tcase {
	var out []tcase
	n := vc.Scale(700, 30000)
	for i := 0; i < n; i++ {
		rr := r.Fork()
		t := vtmpl.Gen(rr)
		text := t.Render(rr)
		out = append(out, tcase{0, text, t.Val()})
		for j := 0; j < 2; j++ {
			out = append(out, tcase{1, vtmpl.Mutate(rr, text), vc.L{}})
		}
		if rr.Chance(30) {
			out = append(out, tcase{1, vtmpl.Noise(rr), vc.L{}})
		}
	}
	// the near misses named in the property, verbatim
	for _, s := range []string{"", "a", "/a//", "//", "/a//b", "/{a", "/a}", "/{a}}", "/{{a}}", "/{a={b}}", "/{}", "/{a.}", "/{.a}", "/{1a}", "/{a b}", "/{a=}", "/{a=/}",
		"/a b", "/a\x00", "/\x00", "/a?b", "/a#b", "/%", "/%4", "/%zz", "/a:", "/:v", "/a/:v", "/a:v:w", "/*:v", "/**:v", "/a/**/b", "/**/**", "/{a=**}/b", "/{a=**}:v",
		"/a/{b=c/*}:verb", "/{a=*}{b=*}", "/a{b}", "/{a}b", "/a:v/b", "/a/{b}:v:w", "/a:}x", "/a:%zz", "/a:v w", "/{a=b:c}", "/{a=b}:", "/***", "/*/**", "/a/",
		// a multi-segment variable is a multi segment: nothing may follow it
		"/{name=**}/tail", "/v1/{name=objects/*/**}/{id}", "/{a=**}/{b=**}", "/{a=**}/**", "/{a=**}/*:verb", "/{a=x/**}/y", "/{a=x/**}/*", "/{a.b=**}/{c}",
		"/v1/{name=**}", "/v1/{name=objects/*/**}", "/v1/{name=objects/*/**}:verb", "/{a=**}/", "/{a=*/**}/x:v"} {
		out = append(out, tcase{1, s, vc.L{}})
	}
	return out
}

func opsVal(t gwbased.Template) vc.Val {
	ops := vc.L{}
	for i := 0; i+1 < len(t.OpCodes); i += 2 {
		code, operand := utilities.OpCode(t.OpCodes[i]), t.OpCodes[i+1]
		switch code {
		case utilities.OpPush:
			ops = append(ops, vc.L{1})
		case utilities.OpPushM:
			ops = append(ops, vc.L{2})
		case utilities.OpLitPush:
			ops = append(ops, vc.L{3, t.Pool[operand]})
		case utilities.OpConcatN:
			ops = append(ops, vc.L{4, operand})
		case utilities.OpCapture:
			ops = append(ops, vc.L{5, t.Pool[operand]})
		default:
			ops = append(ops, vc.L{9, int(code)})
		}
	}
	return ops
}

func gwPart(w *vc.Writer, r *vc.Rand) {
	acc := 0
	cases := gen(r)
	for _, c := range cases {
		var impl vc.Val = vc.L{}
		func() {
			defer func() {
				if rec := recover(); rec != nil {
					impl = vc.L{99}
				}
			}()
			comp, err := gwbased.Parse(c.text)
			if err != nil {
				return
			}
			tp := comp.Compile()
			if _, err := runtime.NewPattern(tp.Version, tp.OpCodes, tp.Pool, tp.Verb); err != nil {
				return
			}
			impl = vc.L{tp.Verb, vc.Strs(tp.Fields), opsVal(tp)}
			acc++
		}()
		w.Case(vc.L{c.kind, c.text, c.ast}, impl, len(impl.(vc.L)) == 3)
	}
	fmt.Printf("STAT gw \"cases=%d accepted=%d\"\n", len(cases), acc)
}

func segsVal(segs []httprule.VerifSeg) vc.Val {
	out := vc.L{}
	for _, s := range segs {
		switch s.Typ {
		case 0, 1:
			out = append(out, vc.L{s.Typ})
		case 2:
			out = append(out, vc.L{2, s.Literal})
		default:
			out = append(out, vc.L{3, vc.Strs(s.Path), segsVal(s.Segs)})
		}
	}
	return out
}

func strictPart(w *vc.Writer, r *vc.Rand) {
	acc := 0
	cases := gen(r)
	for _, c := range cases {
		var impl vc.Val = vc.L{}
		func() {
			defer func() {
				if rec := recover(); rec != nil {
					impl = vc.L{99}
				}
			}()
			t, err := httprule.Parse(c.text)
			if err != nil {
				return
			}
			verb, segs := httprule.VerifDump(t)
			impl = vc.L{vc.L{segsVal(segs), verb}}
			acc++
		}()
		w.Case(vc.L{c.kind, c.text, c.ast}, impl, len(impl.(vc.L)) == 1)
	}
	fmt.Printf("STAT strict \"cases=%d accepted=%d\"\n", len(cases), acc)
}

func triePart(w *vc.Writer, r *vc.Rand) {
	n := vc.Scale(400, 20000)
	found := 0
	for i := 0; i < n; i++ {
		rr := r.Fork()
		nt := 1 + rr.Intn(6)
		var ts []vtmpl.Template
		var parsed []*httprule.Template
		asts := vc.L{}
		trie := httprule.NewTrie()
		for j := 0; j < nt; j++ {
			t := vtmpl.Gen(rr)
			p, err := httprule.Parse(t.Render(rr))
			if err != nil {
				continue
			}
			ts = append(ts, t)
			parsed = append(parsed, p)
			asts = append(asts, t.Val())
			trie.Add("GET", p)
		}
		if len(ts) == 0 {
			continue
		}
		for k := 0; k < 4; k++ {
			path := vtmpl.Path(rr, ts[rr.Intn(len(ts))])
			var impl vc.Val = vc.L{}
			func() {
				defer func() {
					if rec := recover(); rec != nil {
						impl = vc.L{99}
					}
				}()
				got, ok := trie.Find("GET", path)
				if !ok {
					return
				}
				for idx, p := range parsed {
					if p == got {
						impl = vc.L{idx}
						found++
					}
				}
			}()
			w.Case(vc.L{asts, path}, impl, len(impl.(vc.L)) == 1)
		}
	}
	// named cases: literals that contain a colon, verbs equal to the literal's tail, paths that carry one verb too few or
	// too many, wildcards that may have consumed a verb.  Every template set is added in both orders.
	named := []struct {
		tmpls []string
		paths []string
	}{
		{[]string{"/x:v:v"}, []string{"/x:v", "/x:v:v", "/x", "/x:v:v:v"}},
		{[]string{"/a/x:v:v", "/a/{n}:v"}, []string{"/a/x:v", "/a/x:v:v", "/a/y:v", "/a/x"}},
		{[]string{"/a/b:c:c", "/a/b:c"}, []string{"/a/b:c", "/a/b:c:c", "/a/b"}},
		{[]string{"/a/*:v", "/a/b:v:v"}, []string{"/a/b:v", "/a/b:v:v", "/a/:v", "/a/q:v"}},
		{[]string{"/a/**:v", "/a/b/c:v:v"}, []string{"/a/b/c:v", "/a/b/c:v:v", "/a/b/c", "/a:v"}},
		{[]string{"/{n}:a:b", "/{n}:b", "/k:b:b"}, []string{"/foo:a:b", "/k:b", "/k:b:b", "/k:a:b"}},
		{[]string{"/{n=p/*}:v", "/p/q:v:v"}, []string{"/p/q:v", "/p/q:v:v", "/p/z:v"}},
		{[]string{"/", "/:v", "/{n}"}, []string{"/", "/:v", "/:v:v", "/x"}},
		// a wildcard or a variable EARLIER on the path, then a literal whose tail is the verb
		{[]string{"/{x}/b:v:v"}, []string{"/foo/b:v", "/foo/b:v:v", "/foo/b", "/b:v"}},
		{[]string{"/*/b:v:v", "/*/b:v"}, []string{"/foo/b:v", "/foo/b:v:v", "/foo/b"}},
		{[]string{"/a/{n}/c/b:v:v", "/a/{n}/c/{m}:v"}, []string{"/a/1/c/b:v", "/a/1/c/b:v:v", "/a/1/c/b"}},
		{[]string{"/{x=p/*}/q/b:v:v"}, []string{"/p/1/q/b:v", "/p/1/q/b:v:v"}},
	}
	for _, nc := range named {
		for order := 0; order < 2; order++ {
			tm := append([]string{}, nc.tmpls...)
			if order == 1 {
				for i, j := 0, len(tm)-1; i < j; i, j = i+1, j-1 {
					tm[i], tm[j] = tm[j], tm[i]
				}
			}
			trie := httprule.NewTrie()
			var parsed []*httprule.Template
			asts := vc.L{}
			for _, txt := range tm {
				p, err := httprule.Parse(txt)
				if err != nil {
					continue
				}
				verb, segs := httprule.VerifDump(p)
				parsed = append(parsed, p)
				asts = append(asts, vc.L{segsVal(segs), verb})
				trie.Add("GET", p)
			}
			for _, path := range nc.paths {
				var impl vc.Val = vc.L{}
				if got, ok := trie.Find("GET", path); ok {
					for idx, p := range parsed {
						if p == got {
							impl = vc.L{idx}
							found++
						}
					}
				}
				w.Case(vc.L{asts, path}, impl, len(impl.(vc.L)) == 1)
			}
		}
	}
	fmt.Printf("STAT trie \"found=%d\"\n", found)
}

func main() {
	w := vc.NewWriter(os.Args[1])
	defer w.Close()
	r := vc.NewRand(vc.Seed())
	switch os.Args[2] {
	case "gw":
		gwPart(w, r)
	case "strict":
		strictPart(w, r)
	case "trie":
		triePart(w, r)
	}
}
