//go:build verif

package grpcadapter

import "time"

// VerifDecodeTimeout exposes decodeTimeout for the exact correspondence check (overlay-mounted, tag verif).
func VerifDecodeTimeout(s string) (time.Duration, bool) { return decodeTimeout(s) }
