//go:build verif

package httprule

// VerifSeg is the exported image of a parsed segment (overlay-mounted, tag verif).
type VerifSeg struct {
	Typ     int // 0 wildcard, 1 multi wildcard, 2 literal, 3 variable
	Literal string
	Path    []string
	Segs    []VerifSeg
}

func verifSegs(in []segment) []VerifSeg {
	out := make([]VerifSeg, 0, len(in))
	for _, s := range in {
		switch s.typ {
		case segmentWildcard:
			out = append(out, VerifSeg{Typ: 0})
		case segmentMultiWildcard:
			out = append(out, VerifSeg{Typ: 1})
		case segmentLiteral:
			out = append(out, VerifSeg{Typ: 2, Literal: s.literal})
		default:
			out = append(out, VerifSeg{Typ: 3, Path: s.variable.fieldPath, Segs: verifSegs(s.variable.segments)})
		}
	}
	return out
}

// VerifDump exposes the structure of a parsed template.
func VerifDump(t *Template) (verb string, segs []VerifSeg) { return t.verb, verifSegs(t.segments) }
