//go:build verif

package webbridge

import (
	"net/http"

	"google.golang.org/grpc/metadata"
)

// VerifParseMetadataQuery exposes parseMetadataQuery for the exact correspondence check (overlay-mounted, tag verif).
func VerifParseMetadataQuery(r *http.Request, param string) metadata.MD {
	return parseMetadataQuery(r, param)
}
