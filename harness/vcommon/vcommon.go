// Package vcommon holds what every correspondence harness shares: the val text encoding understood by
// modelrun, the single seeded PRNG, and the case writer.
package vcommon

import (
	"bufio"
	"encoding/hex"
	"fmt"
	"math/big"
	"os"
	"strconv"
	"strings"
)

// Val is one of: int, int64, uint64, *big.Int, bool (numbers) ; string, []byte (byte strings) ; []Val / L (lists).
type Val interface{}
type L []Val

func enc(b *strings.Builder, v Val) {
	switch x := v.(type) {
	case int:
		encInt(b, big.NewInt(int64(x)))
	case int32:
		encInt(b, big.NewInt(int64(x)))
	case int64:
		encInt(b, big.NewInt(x))
	case uint32:
		encInt(b, new(big.Int).SetUint64(uint64(x)))
	case uint64:
		encInt(b, new(big.Int).SetUint64(x))
	case *big.Int:
		encInt(b, x)
	case bool:
		if x {
			b.WriteString("#1")
		} else {
			b.WriteString("#0")
		}
	case string:
		b.WriteString("x")
		b.WriteString(hex.EncodeToString([]byte(x)))
	case []byte:
		b.WriteString("x")
		b.WriteString(hex.EncodeToString(x))
	case L:
		b.WriteString("(")
		for _, e := range x {
			b.WriteString(" ")
			enc(b, e)
		}
		b.WriteString(" )")
	case []Val:
		enc(b, L(x))
	case nil:
		b.WriteString("( )")
	default:
		panic(fmt.Sprintf("vcommon: cannot encode %T", v))
	}
}

func encInt(b *strings.Builder, x *big.Int) {
	b.WriteString("#")
	b.WriteString(x.Text(16))
}

func Enc(v Val) string {
	var b strings.Builder
	enc(&b, v)
	return b.String()
}

// Opt encodes an option: none = (), some v = ( v ).
func None() Val      { return L{} }
func Some(v Val) Val { return L{v} }
func Strs(ss []string) Val {
	out := make(L, 0, len(ss))
	for _, s := range ss {
		out = append(out, s)
	}
	return out
}

// ---- PRNG: SplitMix64, seeded from VERIF_SEED ----
type Rand struct{ s uint64 }

func Seed() uint64 {
	if v := os.Getenv("VERIF_SEED"); v != "" {
		if n, err := strconv.ParseUint(v, 10, 64); err == nil {
			return n
		}
		if n, err := strconv.ParseInt(v, 10, 64); err == nil {
			return uint64(n)
		}
	}
	return 20260929
}

func NewRand(seed uint64) *Rand { return &Rand{s: seed} }

func (r *Rand) U64() uint64 {
	r.s += 0x9e3779b97f4a7c15
	z := r.s
	z = (z ^ (z >> 30)) * 0xbf58476d1ce4e5b9
	z = (z ^ (z >> 27)) * 0x94d049bb133111eb
	return z ^ (z >> 31)
}
func (r *Rand) Intn(n int) int {
	if n <= 0 {
		return 0
	}
	return int(r.U64() % uint64(n))
}
func (r *Rand) Bool() bool              { return r.U64()&1 == 1 }
func (r *Rand) Chance(p int) bool       { return r.Intn(100) < p } // p percent
func (r *Rand) Fork() *Rand             { return NewRand(r.U64()) }
func (r *Rand) Pick(ss []string) string { return ss[r.Intn(len(ss))] }
func (r *Rand) Bytes(n int) []byte {
	b := make([]byte, n)
	for i := range b {
		b[i] = byte(r.U64())
	}
	return b
}

// ---- case writer ----
type Writer struct {
	f    *bufio.Writer
	N    int
	path string
}

func NewWriter(path string) *Writer {
	if path == "" || path == "-" {
		return &Writer{f: bufio.NewWriter(os.Stdout)}
	}
	fh, err := os.Create(path)
	if err != nil {
		panic(err)
	}
	return &Writer{f: bufio.NewWriterSize(fh, 1<<20), path: path}
}

// Current records the input that is about to run (and flushes what has completed), so that a crash of the whole
// process - a panic outside any goroutine the harness can guard - still names its input.
func (w *Writer) Current(input Val) {
	if w.path == "" {
		return
	}
	w.f.Flush()
	os.WriteFile(w.path+".current", []byte(Enc(input)+"\n"), 0o644)
}

// Case writes one line: ( input impl nontrivial ) ; nontrivial is the harness's per-property rule saying
// whether this case exercises the property non-trivially (counted, distinct, in the evidence).
func (w *Writer) Case(input, impl Val, nontrivial bool) {
	w.f.WriteString(Enc(L{input, impl, nontrivial}))
	w.f.WriteString("\n")
	w.N++
}
func (w *Writer) Close() {
	w.f.Flush()
	if w.path != "" {
		os.Remove(w.path + ".current")
	}
}

// Tier returns "quick" or "thorough".
func Tier() string {
	if os.Getenv("VERIF_TIER") == "thorough" {
		return "thorough"
	}
	return "quick"
}

// Scale picks the quick or thorough count.
func Scale(quick, thorough int) int {
	if Tier() == "thorough" {
		return thorough
	}
	return quick
}
