// Package vschema builds protobuf schemas at run time (registered nowhere globally) together with their val image for
// the Coq models: one rich fixed schema and random small ones.
package vschema

import (
	"fmt"
	"sort"
	"strings"

	vc "github.com/renbou/grpcbridge/internal/zzverif/vcommon"
	"google.golang.org/protobuf/proto"
	"google.golang.org/protobuf/reflect/protodesc"
	"google.golang.org/protobuf/reflect/protoreflect"
	"google.golang.org/protobuf/reflect/protoregistry"
	"google.golang.org/protobuf/types/descriptorpb"
	"google.golang.org/protobuf/types/dynamicpb"
	"google.golang.org/protobuf/types/known/fieldmaskpb"
	"google.golang.org/protobuf/types/known/wrapperspb"
)

// ---- schema DSL ----
const (
	KBool = iota
	KInt32
	KInt64
	KUint32
	KUint64
	KFloat
	KDouble
	KString
	KBytes
	KEnum
	KMsg
)

var kindTypes = []descriptorpb.FieldDescriptorProto_Type{
	descriptorpb.FieldDescriptorProto_TYPE_BOOL, descriptorpb.FieldDescriptorProto_TYPE_INT32, descriptorpb.FieldDescriptorProto_TYPE_INT64,
	descriptorpb.FieldDescriptorProto_TYPE_UINT32, descriptorpb.FieldDescriptorProto_TYPE_UINT64, descriptorpb.FieldDescriptorProto_TYPE_FLOAT,
	descriptorpb.FieldDescriptorProto_TYPE_DOUBLE, descriptorpb.FieldDescriptorProto_TYPE_STRING, descriptorpb.FieldDescriptorProto_TYPE_BYTES,
	descriptorpb.FieldDescriptorProto_TYPE_ENUM, descriptorpb.FieldDescriptorProto_TYPE_MESSAGE}

type Field struct {
	Name, JSON string
	Kind       int
	Msg        int // index into Schema.Msgs for KMsg
	Card       int // 0 single, 1 list, 2 map
	KeyKind    int
	Oneof      int // 0 none, else real oneof id (1..)
	Optional   bool
}
type Msg struct {
	Name   string // full name
	WKT    int
	Fields []Field
}
type Schema struct {
	Msgs []Msg
}

var EnumVals = [][2]any{{"ZERO", 0}, {"ONE", 1}, {"TWO", 2}, {"NEG", -1}, {"BIG", 2147483647}}

var wktNames = map[int]string{1: "Int32Value", 2: "Int64Value", 3: "UInt32Value", 4: "UInt64Value", 5: "BoolValue", 6: "StringValue", 7: "BytesValue", 8: "FloatValue", 9: "DoubleValue", 10: "FieldMask"}
var WktKinds = map[int]int{1: KInt32, 2: KInt64, 3: KUint32, 4: KUint64, 5: KBool, 6: KString, 7: KBytes, 8: KFloat, 9: KDouble}

func WktMsg(w int) Msg {
	if w == 10 {
		return Msg{Name: "google.protobuf.FieldMask", WKT: 10, Fields: []Field{{Name: "paths", JSON: "paths", Kind: KString, Card: 1}}}
	}
	return Msg{Name: "google.protobuf." + wktNames[w], WKT: w, Fields: []Field{{Name: "value", JSON: "value", Kind: WktKinds[w]}}}
}

func jsonName(s string) string {
	// protoc's default: lowerCamelCase
	out := []byte{}
	up := false
	for i := 0; i < len(s); i++ {
		if s[i] == '_' {
			up = true
			continue
		}
		c := s[i]
		if up && c >= 'a' && c <= 'z' {
			c -= 32
		}
		up = false
		out = append(out, c)
	}
	return string(out)
}

func KindSpec(k int) vc.Val {
	if k == KEnum {
		names := vc.L{}
		for _, ev := range EnumVals {
			names = append(names, vc.L{ev[0].(string), ev[1].(int)})
		}
		return vc.L{9, names}
	}
	return vc.L{k}
}

func (s *Schema) Val() vc.Val {
	out := vc.L{}
	for _, m := range s.Msgs {
		fs := vc.L{}
		syn := 100
		for _, f := range m.Fields {
			var ks vc.Val
			if f.Kind == KMsg {
				ks = vc.L{1, f.Msg}
			} else {
				ks = vc.L{0, KindSpec(f.Kind)}
			}
			var card vc.Val = vc.L{f.Card}
			if f.Card == 2 {
				card = vc.L{2, KindSpec(f.KeyKind)}
			}
			oneof := f.Oneof
			if f.Optional {
				syn++
				oneof = syn
			}
			pres := f.Card == 0 && (f.Kind == KMsg || f.Oneof != 0 || f.Optional)
			fs = append(fs, vc.L{f.Name, f.JSON, ks, card, oneof, pres})
		}
		out = append(out, vc.L{m.WKT, fs})
	}
	return out
}

// build compiles the schema into descriptors of its own (the well-known types are COPIES with the same full names, as a
// target's reflection service would deliver them), registered nowhere globally
func (s *Schema) Build(pkg string) (protoreflect.MessageDescriptor, *dynamicpb.Types) {
	files := &protoregistry.Files{}
	for _, src := range []protoreflect.FileDescriptor{wrapperspb.File_google_protobuf_wrappers_proto, fieldmaskpb.File_google_protobuf_field_mask_proto} {
		fdp := protodesc.ToFileDescriptorProto(src)
		f, err := protodesc.NewFile(fdp, files)
		if err != nil {
			panic(err)
		}
		files.RegisterFile(f)
	}
	fd := &descriptorpb.FileDescriptorProto{Name: proto.String(pkg + ".proto"), Package: proto.String(pkg), Syntax: proto.String("proto3"),
		Dependency: []string{"google/protobuf/wrappers.proto", "google/protobuf/field_mask.proto"}}
	en := &descriptorpb.EnumDescriptorProto{Name: proto.String("E")}
	for _, ev := range EnumVals {
		en.Value = append(en.Value, &descriptorpb.EnumValueDescriptorProto{Name: proto.String(ev[0].(string)), Number: proto.Int32(int32(ev[1].(int)))})
	}
	fd.EnumType = []*descriptorpb.EnumDescriptorProto{en}
	typeName := func(i int) string { return "." + s.Msgs[i].Name }
	for _, m := range s.Msgs {
		if m.WKT != 0 {
			continue
		}
		dp := &descriptorpb.DescriptorProto{Name: proto.String(m.Name[len(pkg)+1:])}
		nreal := 0
		for _, f := range m.Fields {
			if f.Oneof > nreal {
				nreal = f.Oneof
			}
		}
		for i := 1; i <= nreal; i++ {
			dp.OneofDecl = append(dp.OneofDecl, &descriptorpb.OneofDescriptorProto{Name: proto.String(fmt.Sprintf("o%d", i))})
		}
		for i, f := range m.Fields {
			fp := &descriptorpb.FieldDescriptorProto{Name: proto.String(f.Name), JsonName: proto.String(f.JSON), Number: proto.Int32(int32(i + 1)),
				Type: kindTypes[f.Kind].Enum(), Label: descriptorpb.FieldDescriptorProto_LABEL_OPTIONAL.Enum()}
			setType := func(p *descriptorpb.FieldDescriptorProto, kind, msg int) {
				p.Type = kindTypes[kind].Enum()
				if kind == KEnum {
					p.TypeName = proto.String("." + pkg + ".E")
				} else if kind == KMsg {
					p.TypeName = proto.String(typeName(msg))
				}
			}
			switch f.Card {
			case 0:
				setType(fp, f.Kind, f.Msg)
				if f.Oneof != 0 {
					fp.OneofIndex = proto.Int32(int32(f.Oneof - 1))
				}
				if f.Optional {
					fp.Proto3Optional = proto.Bool(true)
					fp.OneofIndex = proto.Int32(int32(len(dp.OneofDecl)))
					dp.OneofDecl = append(dp.OneofDecl, &descriptorpb.OneofDescriptorProto{Name: proto.String("_" + f.Name)})
				}
			case 1:
				setType(fp, f.Kind, f.Msg)
				fp.Label = descriptorpb.FieldDescriptorProto_LABEL_REPEATED.Enum()
			case 2:
				ename := strings.ReplaceAll(strings.Title(strings.ReplaceAll(f.Name, "_", " ")), " ", "") + "Entry"
				entry := &descriptorpb.DescriptorProto{Name: proto.String(ename), Options: &descriptorpb.MessageOptions{MapEntry: proto.Bool(true)}}
				kf := &descriptorpb.FieldDescriptorProto{Name: proto.String("key"), JsonName: proto.String("key"), Number: proto.Int32(1), Label: descriptorpb.FieldDescriptorProto_LABEL_OPTIONAL.Enum()}
				setType(kf, f.KeyKind, 0)
				vf := &descriptorpb.FieldDescriptorProto{Name: proto.String("value"), JsonName: proto.String("value"), Number: proto.Int32(2), Label: descriptorpb.FieldDescriptorProto_LABEL_OPTIONAL.Enum()}
				setType(vf, f.Kind, f.Msg)
				entry.Field = []*descriptorpb.FieldDescriptorProto{kf, vf}
				dp.NestedType = append(dp.NestedType, entry)
				fp.Type = descriptorpb.FieldDescriptorProto_TYPE_MESSAGE.Enum()
				fp.Label = descriptorpb.FieldDescriptorProto_LABEL_REPEATED.Enum()
				fp.TypeName = proto.String("." + m.Name + "." + ename)
			}
			dp.Field = append(dp.Field, fp)
		}
		fd.MessageType = append(fd.MessageType, dp)
	}
	file, err := protodesc.NewFile(fd, files)
	if err != nil {
		panic(fmt.Sprintf("schema does not compile: %v", err))
	}
	files.RegisterFile(file)
	return file.Messages().ByName(protoreflect.Name(s.Msgs[0].Name[len(pkg)+1:])), dynamicpb.NewTypes(files)
}

// the fixed rich schema
func RichSchema(pkg string) *Schema {
	s := &Schema{}
	add := func(m Msg) int { s.Msgs = append(s.Msgs, m); return len(s.Msgs) - 1 }
	add(Msg{Name: pkg + ".R"})
	n := add(Msg{Name: pkg + ".N"})
	d := add(Msg{Name: pkg + ".D"})
	w := map[int]int{}
	for _, k := range []int{1, 2, 4, 5, 6, 7, 8, 10} {
		w[k] = add(WktMsg(k))
	}
	s.Msgs[d].Fields = []Field{{Name: "z", Kind: KInt64}, {Name: "name", Kind: KString}, {Name: "e", Kind: KEnum}}
	s.Msgs[n].Fields = []Field{{Name: "x", Kind: KInt32}, {Name: "y", Kind: KString}, {Name: "deep", Kind: KMsg, Msg: d}, {Name: "rz", Kind: KInt64, Card: 1},
		{Name: "snake_case", Kind: KUint32}, {Name: "name", Kind: KString}}
	s.Msgs[0].Fields = []Field{
		{Name: "i32", Kind: KInt32}, {Name: "i64", Kind: KInt64}, {Name: "u32", Kind: KUint32}, {Name: "u64", Kind: KUint64},
		{Name: "b", Kind: KBool}, {Name: "s", Kind: KString}, {Name: "by", Kind: KBytes}, {Name: "f", Kind: KFloat}, {Name: "d", Kind: KDouble}, {Name: "e", Kind: KEnum},
		{Name: "ri", Kind: KInt32, Card: 1}, {Name: "rs", Kind: KString, Card: 1}, {Name: "re", Kind: KEnum, Card: 1}, {Name: "rb", Kind: KBool, Card: 1},
		{Name: "msi", Kind: KInt32, Card: 2, KeyKind: KString}, {Name: "mis", Kind: KString, Card: 2, KeyKind: KInt32}, {Name: "mbe", Kind: KEnum, Card: 2, KeyKind: KBool},
		{Name: "mu64", Kind: KInt64, Card: 2, KeyKind: KUint64},
		{Name: "n", Kind: KMsg, Msg: n}, {Name: "n2", Kind: KMsg, Msg: n}, {Name: "rn", Kind: KMsg, Msg: n, Card: 1},
		{Name: "oa", Kind: KString, Oneof: 1}, {Name: "ob", Kind: KInt32, Oneof: 1}, {Name: "on", Kind: KMsg, Msg: n, Oneof: 1},
		{Name: "pa", Kind: KBool, Oneof: 2}, {Name: "pb", Kind: KEnum, Oneof: 2},
		{Name: "opt", Kind: KInt32, Optional: true}, {Name: "opts", Kind: KString, Optional: true},
		{Name: "wi", Kind: KMsg, Msg: w[1]}, {Name: "wl", Kind: KMsg, Msg: w[2]}, {Name: "wu", Kind: KMsg, Msg: w[4]}, {Name: "wb", Kind: KMsg, Msg: w[5]},
		{Name: "ws", Kind: KMsg, Msg: w[6]}, {Name: "wy", Kind: KMsg, Msg: w[7]}, {Name: "wf", Kind: KMsg, Msg: w[8]}, {Name: "fm", Kind: KMsg, Msg: w[10]},
		{Name: "rw", Kind: KMsg, Msg: w[1], Card: 1},
		{Name: "snake_case_name", Kind: KString}, {Name: "custom", JSON: "customJSON", Kind: KInt32}, {Name: "UPPER", Kind: KInt32},
	}
	for mi := range s.Msgs {
		for fi := range s.Msgs[mi].Fields {
			if s.Msgs[mi].Fields[fi].JSON == "" {
				s.Msgs[mi].Fields[fi].JSON = jsonName(s.Msgs[mi].Fields[fi].Name)
			}
		}
	}
	return s
}

// random small schemas
func RandomSchema(r *vc.Rand, pkg string) *Schema {
	s := &Schema{}
	nm := 1 + r.Intn(3)
	for i := 0; i < nm; i++ {
		s.Msgs = append(s.Msgs, Msg{Name: fmt.Sprintf("%s.M%d", pkg, i)})
	}
	wk := []int{1, 5, 6, 10}
	wbase := len(s.Msgs)
	for _, k := range wk {
		s.Msgs = append(s.Msgs, WktMsg(k))
	}
	names := []string{"a", "b", "c", "dd", "e_f", "g_h_i", "jK", "l", "m", "nn"}
	for i := 0; i < nm; i++ {
		nf := 2 + r.Intn(7)
		used := map[string]bool{}
		oneofN := 0
		for j := 0; j < nf; j++ {
			name := names[r.Intn(len(names))]
			if used[name] || used[jsonName(name)] {
				continue
			}
			used[name], used[jsonName(name)] = true, true
			f := Field{Name: name, JSON: jsonName(name)}
			switch c := r.Intn(10); {
			case c < 5:
				f.Kind = r.Intn(10)
			case c < 7 && i+1 < nm:
				f.Kind, f.Msg = KMsg, i+1+r.Intn(nm-i-1)
			case c < 8:
				f.Kind, f.Msg = KMsg, wbase+r.Intn(len(wk))
			default:
				f.Kind = r.Intn(10)
			}
			switch c := r.Intn(10); {
			case c < 6:
			case c < 8:
				f.Card = 1
			default:
				if f.Kind != KMsg {
					f.Card, f.KeyKind = 2, []int{KString, KInt32, KInt64, KUint32, KUint64, KBool}[r.Intn(6)]
				}
			}
			if f.Card == 0 && r.Chance(20) {
				if oneofN == 0 || r.Chance(30) {
					oneofN++
				}
				f.Oneof = oneofN
			} else if f.Card == 0 && f.Kind != KMsg && r.Chance(15) {
				f.Optional = true
			}
			s.Msgs[i].Fields = append(s.Msgs[i].Fields, f)
		}
		if len(s.Msgs[i].Fields) == 0 {
			s.Msgs[i].Fields = append(s.Msgs[i].Fields, Field{Name: "a", JSON: "a", Kind: KInt32})
		}
		// the members of a oneof must be declared consecutively
		sort.SliceStable(s.Msgs[i].Fields, func(a, b int) bool { return s.Msgs[i].Fields[a].Oneof < s.Msgs[i].Fields[b].Oneof })
	}
	return s
}
