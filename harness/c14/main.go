// c14: gRPC-style names routed by service name: direct RouteGRPC / RouteHTTP, through the gRPC-Web bridge, and
// through GRPCProxy over bufconn, after small claim histories.
package main

import (
	"bufio"
	"bytes"
	"context"
	"fmt"
	"net"
	"net/http"
	"net/http/httptest"
	"os"
	"strconv"
	"strings"
	"sync"
	"time"

	grpcbridge "github.com/renbou/grpcbridge"
	"github.com/renbou/grpcbridge/bridgedesc"
	"github.com/renbou/grpcbridge/grpcadapter"
	vc "github.com/renbou/grpcbridge/internal/zzverif/vcommon"
	"github.com/renbou/grpcbridge/internal/zzverif/vfake"
	"github.com/renbou/grpcbridge/routing"
	"github.com/renbou/grpcbridge/webbridge"
	"google.golang.org/grpc"
	"google.golang.org/grpc/credentials/insecure"
	"google.golang.org/grpc/metadata"
	"google.golang.org/grpc/status"
	"google.golang.org/grpc/test/bufconn"
	"google.golang.org/protobuf/reflect/protoreflect"
	"google.golang.org/protobuf/types/known/emptypb"
)

type pool struct {
	mu    sync.Mutex
	last  string
	conns map[string]*vfake.Conn
}

func (p *pool) Get(t string) (grpcadapter.ClientConn, bool) {
	p.mu.Lock()
	defer p.mu.Unlock()
	p.last = t
	c := vfake.NewConn()
	c.Script = []vfake.RespItem{{Kind: vfake.KEOF}}
	p.conns[t] = c
	return c, true
}

type sts struct{ method string }

func (s *sts) Method() string               { return s.method }
func (s *sts) SetHeader(metadata.MD) error  { return nil }
func (s *sts) SendHeader(metadata.MD) error { return nil }
func (s *sts) SetTrailer(metadata.MD) error { return nil }

var targets = []string{"t1", "t2", "t3"}
var svcPool = []string{"pkg.A", "pkg.B", "other.D", "x"}
var nextID = 1

func genDesc(r *vc.Rand, name string) (*bridgedesc.Target, vc.Val) {
	t := &bridgedesc.Target{Name: name}
	svcs := vc.L{}
	used := map[string]bool{}
	count := 1 + r.Intn(3)
	if r.Chance(15) {
		count = 0 // a target that stops serving anything (its claims and its listing must go)
	}
	for i := 0; i < count; i++ {
		sn := r.Pick(svcPool)
		if used[sn] {
			continue
		}
		used[sn] = true
		t.Services = append(t.Services, bridgedesc.Service{Name: protoreflect.FullName(sn)})
		svcs = append(svcs, vc.L{sn, vc.L{}})
	}
	id := nextID
	nextID++
	return t, vc.L{id, svcs}
}

var pieces = []string{"", "pkg.A", "pkg.B", "other.D", "x", "unknown.X", "Method", "Get", "a/b", "%2F", "%41", "é", ".", "..", "pkg.a", "PKG.A", "pkg.A.", ":verb", "M/extra", " "}

func genName(r *vc.Rand) string {
	var sb strings.Builder
	n := r.Intn(5)
	if r.Chance(70) {
		sb.WriteString("/")
	}
	if r.Chance(60) {
		sb.WriteString(r.Pick(svcPool))
		sb.WriteString("/")
		sb.WriteString(r.Pick(pieces))
		n = r.Intn(2)
	}
	for i := 0; i < n; i++ {
		if i > 0 || r.Chance(50) {
			if r.Chance(80) {
				sb.WriteString("/")
			}
		}
		sb.WriteString(r.Pick(pieces))
	}
	return sb.String()
}

func escTarget(s string) string {
	// a request-target http.ReadRequest accepts: escape space, controls, non-ASCII; keep existing %XX
	var sb strings.Builder
	for i := 0; i < len(s); i++ {
		c := s[i]
		if c <= 0x20 || c >= 0x7f || c == '?' || c == '#' {
			fmt.Fprintf(&sb, "%%%02X", c)
		} else {
			sb.WriteByte(c)
		}
	}
	return sb.String()
}

func trailerStatus(body []byte) int {
	for len(body) >= 5 {
		n := int(uint32(body[1])<<24 | uint32(body[2])<<16 | uint32(body[3])<<8 | uint32(body[4]))
		if 5+n > len(body) {
			break
		}
		if body[0]&0x80 != 0 {
			for _, l := range strings.Split(string(body[5:5+n]), "\r\n") {
				if v, ok := strings.CutPrefix(l, "grpc-status: "); ok {
					c, _ := strconv.Atoi(v)
					return c
				}
			}
		}
		body = body[5+n:]
	}
	return -1
}

// scripted claim histories that run first (op kinds: 0 watch, 1 update with the listed services, 2 close), each probed
// for pkg.A as gRPC: a losing claimant that stops listing the service must not inherit it later, hand-over to the
// remaining claimant, release by an update, re-claim after release
type sop struct {
	kind   int
	target string
	svcs   []string
}

var scripted = [][]sop{
	{{0, "t1", nil}, {0, "t2", nil}, {1, "t1", []string{"pkg.A"}}, {1, "t2", []string{"pkg.A"}}, {1, "t2", []string{}}, {2, "t1", nil}},
	{{0, "t1", nil}, {0, "t2", nil}, {1, "t1", []string{"pkg.A"}}, {1, "t2", []string{"pkg.A"}}, {1, "t2", []string{}}, {1, "t1", []string{"pkg.B"}}},
	{{0, "t1", nil}, {0, "t2", nil}, {1, "t1", []string{"pkg.A"}}, {1, "t2", []string{"pkg.A"}}, {2, "t1", nil}},
	{{0, "t1", nil}, {0, "t2", nil}, {1, "t1", []string{"pkg.A"}}, {1, "t2", []string{"pkg.A", "pkg.B"}}, {1, "t1", []string{}}},
	{{0, "t1", nil}, {0, "t2", nil}, {0, "t3", nil}, {1, "t2", []string{"pkg.A"}}, {1, "t1", []string{"pkg.A"}}, {1, "t3", []string{"pkg.A"}}, {1, "t2", []string{"x"}}, {1, "t1", []string{}}},
	// three and four claimants released one after the other (by close, by update): every hand-over must still find the next
	{{0, "t1", nil}, {0, "t2", nil}, {0, "t3", nil}, {1, "t1", []string{"pkg.A"}}, {1, "t2", []string{"pkg.A"}}, {1, "t3", []string{"pkg.A"}}, {2, "t1", nil}, {2, "t2", nil}},
	{{0, "t1", nil}, {0, "t2", nil}, {0, "t3", nil}, {0, "t4", nil}, {1, "t1", []string{"pkg.A"}}, {1, "t2", []string{"pkg.A"}}, {1, "t3", []string{"pkg.A", "pkg.B"}}, {1, "t4", []string{"pkg.A"}},
		{1, "t1", []string{}}, {2, "t2", nil}, {1, "t3", []string{"pkg.B"}}},
	{{0, "t1", nil}, {1, "t1", []string{"pkg.A"}}, {1, "t1", []string{}}, {0, "t2", nil}, {1, "t2", []string{"pkg.A"}}, {1, "t1", []string{"pkg.A"}}, {2, "t2", nil}},
}

func scriptedDesc(name string, svcs []string) (*bridgedesc.Target, vc.Val) {
	t := &bridgedesc.Target{Name: name}
	sv := vc.L{}
	for _, sn := range svcs {
		t.Services = append(t.Services, bridgedesc.Service{Name: protoreflect.FullName(sn)})
		sv = append(sv, vc.L{sn, vc.L{}})
	}
	id := nextID
	nextID++
	return t, vc.L{id, sv}
}

func main() {
	w := vc.NewWriter(os.Args[1])
	defer w.Close()
	r := vc.NewRand(vc.Seed())
	n := vc.Scale(2500, 100000)
	kinds := map[int]int{}
	for i := 0; i < n; i++ {
		rr := r.Fork()
		p := &pool{conns: map[string]*vfake.Conn{}}
		sr := routing.NewServiceRouter(p, routing.ServiceRouterOpts{})
		ws := map[string]*routing.ServiceRouterWatcher{}
		ops := vc.L{}
		updates := 0
		var script []sop
		if i < 4*len(scripted) {
			script = scripted[i%len(scripted)]
			for _, o := range script {
				switch o.kind {
				case 0:
					ops = append(ops, vc.L{0, o.target})
					if wt, err := sr.Watch(o.target); err == nil {
						ws[o.target] = wt
					}
				case 1:
					t, v := scriptedDesc(o.target, o.svcs)
					ops = append(ops, vc.L{1, o.target, v})
					ws[o.target].UpdateDesc(t)
					updates++
				default:
					ops = append(ops, vc.L{2, o.target})
					ws[o.target].Close()
					delete(ws, o.target)
				}
			}
		}
		for j := 0; j < 1+rr.Intn(9) && script == nil; j++ {
			name := rr.Pick(targets)
			switch k := rr.Intn(10); {
			case k < 3 || ws[name] == nil:
				ops = append(ops, vc.L{0, name})
				if wt, err := sr.Watch(name); err == nil {
					ws[name] = wt
				}
			case k < 9:
				t, v := genDesc(rr, name)
				ops = append(ops, vc.L{1, name, v})
				ws[name].UpdateDesc(t)
				updates++
			default:
				ops = append(ops, vc.L{2, name})
				ws[name].Close()
				delete(ws, name)
			}
		}
		name := genName(rr)
		kind := rr.Intn(4)
		if script != nil {
			name, kind = []string{"/pkg.A/Get", "pkg.A/Get", "/pkg.B/M", "/x/M"}[(i/len(scripted))%4], []int{0, 1, 0, 2}[(i/len(scripted))%4]
		} else if i%50 == 49 {
			kind = 3
		} else if kind == 3 {
			kind = rr.Intn(3)
		}
		httpMethod := "POST"
		var impl vc.Val
		switch kind {
		case 0:
			ctx := grpc.NewContextWithServerTransportStream(context.Background(), &sts{method: name})
			_, route, err := sr.RouteGRPC(ctx)
			if err != nil {
				impl = vc.L{int(status.Code(err))}
			} else {
				impl = vc.L{0, route.Target.Name, string(route.Service.Name), route.Method.RPCName}
			}
		case 1:
			if rr.Chance(15) {
				httpMethod = rr.Pick([]string{"GET", "PUT", "post", "DELETE"})
			}
			tgt := escTarget(name)
			if !strings.HasPrefix(tgt, "/") {
				tgt = "/" + tgt
			}
			req, err := http.ReadRequest(bufio.NewReader(strings.NewReader(httpMethod + " " + tgt + " HTTP/1.1\r\nHost: x\r\n\r\n")))
			if err != nil {
				continue
			}
			// the path as the client sent it (net/http keeps it in RawPath only when it differs from the default encoding)
			name = req.URL.RawPath
			if name == "" {
				name = req.URL.Path
			}
			_, route, rerr := sr.RouteHTTP(req)
			if rerr != nil {
				if hs, ok := rerr.(interface{ HTTPStatus() int }); ok {
					impl = vc.L{int(status.Code(rerr)), hs.HTTPStatus()}
				} else {
					impl = vc.L{int(status.Code(rerr))}
				}
			} else {
				impl = vc.L{0, route.Target.Name, string(route.Service.Name), route.Method.RPCName}
			}
		case 2:
			tgt := escTarget(name)
			if !strings.HasPrefix(tgt, "/") {
				tgt = "/" + tgt
			}
			req, err := http.ReadRequest(bufio.NewReader(strings.NewReader("POST " + tgt + " HTTP/1.1\r\nHost: x\r\nContent-Type: application/grpc-web+proto\r\nContent-Length: 0\r\n\r\n")))
			if err != nil {
				continue
			}
			name = req.URL.Path
			b := webbridge.NewGRPCWebBridge(sr, webbridge.GRPCWebBridgeOpts{})
			rec := httptest.NewRecorder()
			b.ServeHTTP(rec, req)
			st := trailerStatus(rec.Body.Bytes())
			if c := p.conns[p.last]; c != nil && c.Streams > 0 {
				impl = vc.L{0, p.last, "", c.Method}
			} else {
				impl = vc.L{st}
			}
		case 3:
			// through GRPCProxy over bufconn with a real client; printable names with a leading slash only
			clean := strings.Map(func(c rune) rune {
				if c <= 0x20 || c >= 0x7f || c == '%' {
					return 'z'
				}
				return c
			}, name)
			if !strings.HasPrefix(clean, "/") {
				clean = "/" + clean
			}
			name = clean
			proxy := grpcbridge.NewGRPCProxy(sr)
			lis := bufconn.Listen(1 << 16)
			srv := grpc.NewServer(proxy.AsServerOption())
			go srv.Serve(lis)
			cc, err := grpc.NewClient("passthrough:///b", grpc.WithContextDialer(func(ctx context.Context, _ string) (net.Conn, error) { return lis.DialContext(ctx) }),
				grpc.WithTransportCredentials(insecure.NewCredentials()))
			if err != nil {
				panic(err)
			}
			ctx, cancel := context.WithTimeout(context.Background(), 5*time.Second)
			stream, err := cc.NewStream(ctx, &grpc.StreamDesc{ClientStreams: true, ServerStreams: true}, name)
			code := -1
			if err == nil {
				stream.CloseSend()
				err = stream.RecvMsg(&emptypb.Empty{})
			}
			if err != nil && err.Error() != "EOF" {
				code = int(status.Code(err))
			}
			cancel()
			cc.Close()
			srv.Stop()
			if c := p.conns[p.last]; c != nil && c.Streams > 0 {
				impl = vc.L{0, p.last, "", c.Method}
			} else {
				impl = vc.L{code}
			}
		}
		kinds[kind]++
		_ = bytes.MinRead
		w.Case(vc.L{kind, httpMethod, name, ops}, impl, updates > 0 && strings.Contains(name, "/"))
	}
	fmt.Printf("STAT kinds %q\n", fmt.Sprint(kinds))
}
