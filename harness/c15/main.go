// c15: the reflection resolver's change detection over histories of target states and poll outcomes, and the
// ResolveNow / Close races, against a scripted reflection server (no network).
package main

import (
	"fmt"
	"os"
	"strings"
	"sync"
	"time"

	"github.com/renbou/grpcbridge/bridgedesc"
	vc "github.com/renbou/grpcbridge/internal/zzverif/vcommon"
	"github.com/renbou/grpcbridge/internal/zzverif/vrefl"
	"github.com/renbou/grpcbridge/reflection"
	"google.golang.org/grpc/codes"
	"google.golang.org/protobuf/reflect/protoreflect"
)

type rec struct {
	mu  sync.Mutex
	cbs vc.L
	n   int
}

func (r *rec) UpdateDesc(d *bridgedesc.Target) {
	// identify the contract version: the salt message in the api file, plus the listed services
	ver := -1
	if fr, ok := d.FileResolver.(interface {
		FindDescriptorByName(protoreflect.FullName) (protoreflect.Descriptor, error)
	}); ok {
		for v := 0; v < 4; v++ {
			if _, err := fr.FindDescriptorByName(protoreflect.FullName(fmt.Sprintf("pkg.SaltV%d", v))); err == nil {
				ver = v
			}
		}
		// the dependency's own version (a change confined to an imported file is a contract change too)
		for d := 0; d < 2; d++ {
			if _, err := fr.FindDescriptorByName(protoreflect.FullName(fmt.Sprintf("dep.SaltD%d", d))); err == nil {
				ver += 10 * d
			}
		}
	}
	nsvc := len(d.Services)
	r.mu.Lock()
	r.cbs = append(r.cbs, vc.L{ver*10 + nsvc})
	r.n++
	r.mu.Unlock()
}
func (r *rec) ReportError(error) {
	r.mu.Lock()
	r.cbs = append(r.cbs, vc.L{})
	r.n++
	r.mu.Unlock()
}

// contract c (0..7): v = c%4: the api file's bytes are salted with v%2, and v >= 2 also lists a second service - so that a change of
// the service list alone (0 <-> 2, 1 <-> 3), of the file alone (0 <-> 1) and of both are all reachable;
// dependency version d = c/4 (only dep.proto differs)
func setContract(s *vrefl.Server, c int) int {
	v, d := c%4, c/4
	api := vrefl.File{Name: "api.proto", Package: "pkg", Deps: []string{"dep.proto"}, Messages: []string{"Req", "Resp"}, Salt: fmt.Sprintf("V%d", v%2),
		Services: []vrefl.Service{{Name: "A", Methods: []vrefl.Method{{Name: "Get", In: "pkg.Req", Out: "pkg.Resp"}}}, {Name: "B", Methods: []vrefl.Method{{Name: "Do", In: "pkg.Req", Out: "pkg.Resp", SS: true}}}}}
	dep := vrefl.File{Name: "dep.proto", Package: "dep", Messages: []string{"D"}, Salt: fmt.Sprintf("D%d", d)}
	s.Files = map[string]vrefl.File{"api.proto": api, "dep.proto": dep}
	s.Listed = []string{"pkg.A", "grpc.reflection.v1.ServerReflection"}
	n := 1
	if v >= 2 {
		s.Listed = append(s.Listed, "pkg.B")
		n = 2
	}
	return (v%2+10*d)*10 + n
}

func waitStreams(s *vrefl.Server, want int) bool {
	deadline := time.Now().Add(3 * time.Second)
	for time.Now().Before(deadline) {
		s.Mu.Lock()
		n := s.Streams
		s.Mu.Unlock()
		if n >= want {
			return true
		}
		time.Sleep(200 * time.Microsecond)
	}
	return false
}

func seqPart(w *vc.Writer, r *vc.Rand) {
	n := vc.Scale(120, 5000)
	for h := 0; h < n; h++ {
		rr := r.Fork()
		srv := &vrefl.Server{V1: true, Alpha: true, FailStep: -1, Policy: []int{0, 1, 2, 3, 4, 7, 1, 7, 8}[rr.Intn(9)]}
		srv.VaryOrder = rr.Bool() // the same contract, its files listed in another order on every other poll: not a change
		cur := rr.Intn(8)
		polls := vc.L{}
		// configure the FIRST poll before the resolver starts (Build polls at once)
		type pcfg struct {
			v1, alpha bool
			fail      bool
			contract  int
			late      bool // the failure strikes after the service list was received
		}
		var pending *pcfg
		next := func() pcfg {
			if pending != nil {
				p := *pending
				pending = nil
				return p
			}
			if rr.Chance(12) {
				// a change of the service list (or of an imported file) alone, seen by a poll that fails AFTER the list was
				// received, followed by a successful poll of the very same contract: the update must still arrive
				cur ^= []int{2, 2, 4}[rr.Intn(3)]
				pending = &pcfg{v1: true, alpha: true, contract: cur}
				return pcfg{v1: true, alpha: true, fail: true, late: true, contract: cur}
			}
			p := pcfg{v1: true, alpha: true}
			switch rr.Intn(10) {
			case 0:
				p.v1 = false
			case 1:
				p.alpha = false
			case 2:
				p.v1, p.alpha = false, false
			}
			if rr.Chance(30) {
				cur = rr.Intn(8)
			} else if rr.Chance(15) {
				cur ^= 4 // only the dependency changes
			} else if rr.Chance(20) {
				cur ^= 2 // only the service list changes
			}
			p.fail = rr.Chance(25)
			p.contract = cur
			return p
		}
		apply := func(p pcfg) {
			srv.Mu.Lock()
			srv.V1, srv.Alpha = p.v1, p.alpha
			srv.FailStep, srv.Hang = -1, false
			if p.fail {
				srv.FailStep = []int{0, 1, 2, 2}[rr.Intn(4)] // 0 stream open, 1 ListServices, 2 first FileContainingSymbol: steps every poll reaches
				srv.FailCode = []codes.Code{codes.Internal, codes.Unavailable, codes.PermissionDenied}[rr.Intn(3)]
				srv.Hang = rr.Chance(20)
				if p.late {
					srv.FailStep, srv.Hang = 2, false
				}
			}
			id := setContract(srv, p.contract)
			srv.Mu.Unlock()
			var res vc.Val = vc.L{}
			if !p.fail {
				res = vc.L{id}
			}
			polls = append(polls, vc.L{p.v1, p.alpha, res})
		}
		watcher := &rec{}
		first := next()
		apply(first)
		rb := reflection.NewResolverBuilder(&vrefl.Pool{S: srv}, reflection.ResolverOpts{PollManually: true, ReqTimeout: 40 * time.Millisecond})
		res := rb.Build("t", watcher)
		// wait for a poll to be over: every poll ends with exactly one callback or (unchanged contract) none; watch the
		// server going quiet after at least one new stream
		streamsBefore := 0
		settle := func() {
			waitStreams(srv, streamsBefore+1)
			// quiet period: no new stream and no open request for 15 ms
			last := -1
			stable := 0
			for i := 0; i < 400 && stable < 6; i++ {
				srv.Mu.Lock()
				n := srv.Streams
				srv.Mu.Unlock()
				watcher.mu.Lock()
				c := watcher.n
				watcher.mu.Unlock()
				if n+c*1000 == last {
					stable++
				} else {
					stable = 0
					last = n + c*1000
				}
				time.Sleep(5 * time.Millisecond)
			}
			srv.Mu.Lock()
			streamsBefore = srv.Streams
			srv.Mu.Unlock()
		}
		settle()
		k := rr.Intn(6)
		for i := 0; i < k; i++ {
			apply(next())
			res.ResolveNow()
			settle()
		}
		res.Close()
		watcher.mu.Lock()
		out := append(vc.L{}, watcher.cbs...)
		watcher.mu.Unlock()
		w.Case(polls, out, k >= 2)
	}
}

// randomRace: a random sequence of contract changes, ResolveNow calls, gate closings / openings and pauses against a resolver
// that polls only on request.  Oracle (the property's own words): a resolve-now request issued after the last change is
// never lost - after quiescence the last delivered update is the final contract.  Versions only grow, so "equal to an
// earlier one" cannot hide a loss.
func randomRace(r *vc.Rand) (vc.Val, bool) {
	srv := &vrefl.Server{V1: true, Alpha: true, FailStep: -1}
	want := setContract(srv, 0)
	watcher := &rec{}
	gate := make(chan struct{}, 4000)
	open := func() {
		for len(gate) < 2000 {
			gate <- struct{}{}
		}
	}
	shut := func() {
		for len(gate) > 0 {
			select {
			case <-gate:
			default:
			}
		}
	}
	open()
	srv.Gate = gate
	rb := reflection.NewResolverBuilder(&vrefl.Pool{S: srv}, reflection.ResolverOpts{PollManually: true, ReqTimeout: 2 * time.Second})
	res := rb.Build("t", watcher)
	waitStreams(srv, 1)
	time.Sleep(10 * time.Millisecond)
	version := 0
	requestedAfterChange := true
	acts := ""
	steps := 4 + r.Intn(9)
	for i := 0; i < steps; i++ {
		switch r.Intn(10) {
		case 0, 1, 2:
			version++
			srv.Mu.Lock()
			want = setContract(srv, []int{1, 2, 3, 4, 5, 6, 7}[version%7])
			srv.Mu.Unlock()
			requestedAfterChange = false
			acts += "c"
		case 3, 4, 5:
			res.ResolveNow()
			requestedAfterChange = true
			acts += "r"
		case 6:
			shut()
			acts += "s"
		case 7:
			open()
			acts += "o"
		default:
			time.Sleep(time.Duration(r.Intn(3000)) * time.Microsecond)
			acts += "p"
		}
	}
	open()
	// quiescence: no new stream for a while
	last, stable := -1, 0
	for stable < 8 {
		time.Sleep(10 * time.Millisecond)
		srv.Mu.Lock()
		n := srv.Streams
		srv.Mu.Unlock()
		if n == last {
			stable++
		} else {
			last, stable = n, 0
		}
	}
	ok := true
	if requestedAfterChange {
		watcher.mu.Lock()
		if len(watcher.cbs) == 0 || vc.Enc(watcher.cbs[len(watcher.cbs)-1]) != vc.Enc(vc.L{want}) {
			ok = false
		}
		watcher.mu.Unlock()
	}
	res.Close()
	return vc.L{2, acts}, ok
}

func racePart(w *vc.Writer, r *vc.Rand) {
	n := vc.Scale(30, 1000)
	for i := 0; i < vc.Scale(40, 1500); i++ {
		in, ok := randomRace(r.Fork())
		w.Case(in, vc.L{ok}, true)
	}
	for i := 0; i < n; i++ {
		kind := i % 2
		srv := &vrefl.Server{V1: true, Alpha: true, FailStep: -1}
		setContract(srv, 0)
		watcher := &rec{}
		gate := make(chan struct{}, 1000)
		for j := 0; j < 1000; j++ {
			gate <- struct{}{}
		}
		srv.Gate = gate
		rb := reflection.NewResolverBuilder(&vrefl.Pool{S: srv}, reflection.ResolverOpts{PollManually: true, ReqTimeout: 2 * time.Second})
		res := rb.Build("t", watcher)
		waitStreams(srv, 1)
		time.Sleep(20 * time.Millisecond) // first poll done
		// hold the next poll open: drain the gate
		for len(gate) > 0 {
			<-gate
		}
		srv.Mu.Lock()
		before := srv.Streams
		setContract(srv, 1)
		srv.Mu.Unlock()
		res.ResolveNow()
		waitStreams(srv, before+1) // poll 2 is in progress, blocked in Recv
		ok := true
		if kind == 0 {
			// the contract changes again while poll 2 is in flight, and a resolve-now request is issued after the change
			srv.Mu.Lock()
			want := setContract(srv, 3)
			srv.Mu.Unlock()
			res.ResolveNow()
			for j := 0; j < 1000; j++ {
				gate <- struct{}{}
			}
			// a further poll must follow poll 2 and deliver version 3
			ok = waitStreams(srv, before+2)
			time.Sleep(40 * time.Millisecond)
			watcher.mu.Lock()
			lastCb := watcher.cbs[len(watcher.cbs)-1]
			watcher.mu.Unlock()
			if vc.Enc(lastCb) != vc.Enc(vc.L{want}) {
				ok = false
			}
			res.Close()
		} else {
			closed := make(chan struct{})
			go func() { res.Close(); close(closed) }()
			time.Sleep(5 * time.Millisecond)
			for j := 0; j < 1000; j++ {
				gate <- struct{}{}
			}
			select {
			case <-closed:
			case <-time.After(3 * time.Second):
				ok = false
			}
			watcher.mu.Lock()
			at := watcher.n
			watcher.mu.Unlock()
			time.Sleep(30 * time.Millisecond)
			watcher.mu.Lock()
			if watcher.n != at {
				ok = false
			}
			watcher.mu.Unlock()
		}
		w.Case(vc.L{kind}, vc.L{ok}, true)
	}
	_ = strings.TrimSpace
}

func main() {
	w := vc.NewWriter(os.Args[1])
	defer w.Close()
	r := vc.NewRand(vc.Seed())
	switch os.Args[2] {
	case "seq":
		seqPart(w, r)
	case "race":
		racePart(w, r)
	case "sched":
		schedPart(w, r)
	}
}
