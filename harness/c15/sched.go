package main

// sched part: schedules of the concurrent poller model (Model/ResolverConcRun.v), enumerated by the extracted model and
// forced on the real resolver through the yield points compiled in under the tag verif: the poller and every ResolveNow
// caller are parked at their yield points and released one at a time, in the order the schedule says.

import (
	"bufio"
	"bytes"
	"fmt"
	"os"
	"os/exec"
	"path/filepath"
	"runtime"
	"strconv"
	"strings"
	"sync"
	"time"

	vc "github.com/renbou/grpcbridge/internal/zzverif/vcommon"
	"github.com/renbou/grpcbridge/internal/zzverif/vrefl"
	"github.com/renbou/grpcbridge/reflection"
)

func goid() int64 {
	var buf [64]byte
	n := runtime.Stack(buf[:], false)
	f := strings.Fields(string(buf[:n]))
	id, _ := strconv.ParseInt(f[1], 10, 64)
	return id
}

// one replay's parking state
type parkSt struct {
	mu      sync.Mutex
	free    bool              // quiescence phase: nobody parks any more
	callers map[int64]*parked // ResolveNow goroutines registered by the harness
	poller  *parked           // everything else that reaches a poller yield point is the poller
}

type parked struct {
	at     chan string   // the goroutine announces the point it has reached
	resume chan struct{} // and waits here
}

var cur *parkSt

func schedHook(point string) {
	ps := cur
	if ps == nil {
		return
	}
	ps.mu.Lock()
	if ps.free {
		ps.mu.Unlock()
		return
	}
	var p *parked
	if strings.HasPrefix(point, "resolver:poll:") {
		p = ps.poller
	} else {
		p = ps.callers[goid()]
	}
	ps.mu.Unlock()
	if p == nil {
		return
	}
	p.at <- point
	<-p.resume
}

// a parsed action: kind 0 poller, 1 caller i, 2 close, 3 env c
type action struct{ kind, arg int }

func (a action) val() vc.Val {
	switch a.kind {
	case 0:
		return vc.L{0}
	case 1:
		return vc.L{1, a.arg}
	case 2:
		return vc.L{2}
	default:
		return vc.L{3, a.arg}
	}
}

// parse ( ( ( #0 ) ( #1 #0 ) ... ) ( ... ) ): schedules at depth 2, actions at depth 3
func enumSched(root string, callers, envb int, withClose bool) [][]action {
	cmd := exec.Command(filepath.Join(root, "ocaml", "modelrun"), "enum_c15")
	cmd.Stdin = strings.NewReader(vc.Enc(vc.L{callers, envb, withClose}) + "\n")
	var outb bytes.Buffer
	cmd.Stdout = &outb
	if err := cmd.Run(); err != nil {
		panic(fmt.Sprintf("modelrun enum_c15: %v", err))
	}
	var res [][]action
	sc := bufio.NewScanner(&outb)
	sc.Buffer(make([]byte, 1<<20), 1<<30)
	for sc.Scan() {
		depth := 0
		var cur []action
		var nums []int
		for _, tk := range strings.Fields(sc.Text()) {
			switch tk {
			case "(":
				depth++
				if depth == 2 {
					cur = []action{}
				}
				if depth == 3 {
					nums = nums[:0]
				}
			case ")":
				if depth == 3 {
					a := action{kind: nums[0]}
					if len(nums) > 1 {
						a.arg = nums[1]
					}
					cur = append(cur, a)
				}
				if depth == 2 {
					res = append(res, cur)
				}
				depth--
			default:
				n, _ := strconv.ParseInt(strings.TrimPrefix(tk, "#"), 16, 64)
				nums = append(nums, int(n))
			}
		}
	}
	return res
}

const parkWait = 3 * time.Second

func waitAt(p *parked, want string) bool {
	select {
	case got := <-p.at:
		return got == want
	case <-time.After(parkWait):
		return false
	}
}

// replaySched forces one schedule; returns ( cbs polls close-returned late-callbacks quiescent-last ) or ( -2 ) when a
// goroutine did not arrive where the model says it must
func replaySched(callers int, sched []action) vc.Val {
	srv := &vrefl.Server{V1: true, Alpha: true, FailStep: -1}
	codes := map[string]int{}
	srv.Mu.Lock()
	for c := 3; c >= 0; c-- {
		codes[vc.Enc(vc.L{setContract(srv, c)})] = c
	}
	srv.Mu.Unlock() // contract 0 is current
	watcher := &rec{}
	ps := &parkSt{callers: map[int64]*parked{}, poller: &parked{at: make(chan string), resume: make(chan struct{})}}
	cur = ps
	rb := reflection.NewResolverBuilder(&vrefl.Pool{S: srv}, reflection.ResolverOpts{PollManually: true, ReqTimeout: 2 * time.Second})
	res := rb.Build("t", watcher)
	stuck := vc.L{-2}
	finish := func() {
		ps.mu.Lock()
		ps.free = true
		ps.mu.Unlock()
	}
	// drain: once free is set nobody parks again; whoever is parked, or is just announcing a point, is let go
	stopDrain := make(chan struct{})
	defer close(stopDrain)
	drain := func(ps *parkSt, cs []*parked) {
		for _, p := range append([]*parked{ps.poller}, cs...) {
			go func(p *parked) {
				for {
					select {
					case <-p.at:
						select {
						case p.resume <- struct{}{}:
						case <-stopDrain:
							return
						}
					case p.resume <- struct{}{}:
					case <-stopDrain:
						return
					}
				}
			}(p)
		}
	}
	if !waitAt(ps.poller, "resolver:poll:start") {
		finish()
		drain(ps, nil)
		res.Close()
		return stuck
	}
	polls := 1
	pollerAt := "resolver:poll:start" // where the poller is parked; "" when it has exited
	type cst struct {
		p     *parked
		state int // 0 idle, 1 loaded (parked), 2 returned
		done  chan struct{}
	}
	cs := make([]*cst, callers)
	var cps []*parked
	for i := range cs {
		cs[i] = &cst{p: &parked{at: make(chan string), resume: make(chan struct{})}, done: make(chan struct{})}
		cps = append(cps, cs[i].p)
	}
	closeReturned := false
	cbsAtClose := -1
	// the wake-up channel as the harness sees it: its generation (re-armings so far) and whether a notify function of the
	// current generation has run - needed to drive the resolver to rest afterwards without relying on timing
	gen, chClosed := 0, false
	cgen := make([]int, callers)
	abort := func() vc.Val {
		finish()
		drain(ps, cps)
		if !closeReturned {
			closed := make(chan struct{})
			go func() { res.Close(); close(closed) }()
			select {
			case <-closed:
			case <-time.After(parkWait):
			}
		}
		return stuck
	}
	for _, a := range sched {
		switch a.kind {
		case 0: // the poller, to its next park point
			switch pollerAt {
			case "resolver:poll:start":
				ps.poller.resume <- struct{}{}
				if !waitAt(ps.poller, "resolver:poll:before-select") {
					return abort()
				}
				pollerAt = "resolver:poll:before-select"
			case "resolver:poll:before-select":
				// the model schedules this only when the resolve-now channel is closed: through woken to rearmed
				ps.poller.resume <- struct{}{}
				if !waitAt(ps.poller, "resolver:poll:woken") {
					return abort()
				}
				ps.poller.resume <- struct{}{}
				if !waitAt(ps.poller, "resolver:poll:rearmed") {
					return abort()
				}
				pollerAt = "resolver:poll:rearmed"
				gen, chClosed = gen+1, false
			case "resolver:poll:rearmed":
				ps.poller.resume <- struct{}{}
				if !waitAt(ps.poller, "resolver:poll:start") {
					return abort()
				}
				polls++
				pollerAt = "resolver:poll:start"
			default:
				return abort()
			}
		case 1:
			c := cs[a.arg]
			switch c.state {
			case 0:
				ready := make(chan struct{})
				go func() {
					ps.mu.Lock()
					ps.callers[goid()] = c.p
					ps.mu.Unlock()
					close(ready)
					res.ResolveNow()
					close(c.done)
				}()
				<-ready
				if !waitAt(c.p, "resolver:resolvenow:loaded") {
					return abort()
				}
				c.state = 1
				cgen[a.arg] = gen
			case 1:
				c.p.resume <- struct{}{}
				select {
				case <-c.done:
				case <-time.After(parkWait):
					return abort()
				}
				c.state = 2
				if cgen[a.arg] == gen {
					chClosed = true
				}
			default:
				return abort()
			}
		case 2: // Close: the poller is released into its select, where only the done channel can be ready
			if pollerAt != "resolver:poll:before-select" {
				return abort()
			}
			closed := make(chan struct{})
			go func() { res.Close(); close(closed) }()
			ps.poller.resume <- struct{}{}
			select {
			case <-closed:
			case <-time.After(parkWait):
				return abort()
			}
			closeReturned = true
			pollerAt = ""
			watcher.mu.Lock()
			cbsAtClose = watcher.n
			watcher.mu.Unlock()
		case 3:
			srv.Mu.Lock()
			setContract(srv, a.arg)
			srv.Mu.Unlock()
		}
	}
	// the observation the model predicts: what has been delivered by the end of the schedule
	watcher.mu.Lock()
	delivered := vc.L{}
	for _, cb := range watcher.cbs {
		if c, ok := codes[vc.Enc(cb)]; ok {
			delivered = append(delivered, c)
		} else {
			delivered = append(delivered, -1)
		}
	}
	watcher.mu.Unlock()
	// to rest, step by step (no timing): the pending calls return, then the poller runs its polls until it waits on an
	// open channel - parked at before-select, every callback of the last poll has been made
	if !closeReturned {
		for i, c := range cs {
			if c.state == 1 {
				c.p.resume <- struct{}{}
				select {
				case <-c.done:
				case <-time.After(parkWait):
					return abort()
				}
				c.state = 2
				if cgen[i] == gen {
					chClosed = true
				}
			}
		}
		for rounds := 0; rounds < 50; rounds++ {
			if pollerAt == "resolver:poll:start" {
				ps.poller.resume <- struct{}{}
				if !waitAt(ps.poller, "resolver:poll:before-select") {
					return abort()
				}
				pollerAt = "resolver:poll:before-select"
			}
			if pollerAt == "resolver:poll:before-select" {
				if !chClosed {
					break
				}
				ps.poller.resume <- struct{}{}
				if !waitAt(ps.poller, "resolver:poll:woken") {
					return abort()
				}
				ps.poller.resume <- struct{}{}
				if !waitAt(ps.poller, "resolver:poll:rearmed") {
					return abort()
				}
				pollerAt = "resolver:poll:rearmed"
				gen, chClosed = gen+1, false
			}
			if pollerAt == "resolver:poll:rearmed" {
				ps.poller.resume <- struct{}{}
				if !waitAt(ps.poller, "resolver:poll:start") {
					return abort()
				}
				pollerAt = "resolver:poll:start"
			}
		}
	} else {
		time.Sleep(30 * time.Millisecond) // a callback after Close would have to show up now (waiting longer only finds more)
	}
	late := 0
	quiescentLast := -1
	watcher.mu.Lock()
	if closeReturned && watcher.n != cbsAtClose {
		late = watcher.n - cbsAtClose
	}
	if len(watcher.cbs) > 0 {
		if c, ok := codes[vc.Enc(watcher.cbs[len(watcher.cbs)-1])]; ok {
			quiescentLast = c
		}
	}
	watcher.mu.Unlock()
	finish()
	drain(ps, cps)
	if !closeReturned {
		res.Close()
	}
	return vc.L{delivered, polls, closeReturned, late, quiescentLast}
}

func schedPart(w *vc.Writer, r *vc.Rand) {
	root := os.Getenv("VERIF_ROOT")
	reflection.VerifYieldHook = schedHook
	cfgs := []struct {
		callers, envb int
		withClose     bool
	}{{1, 1, true}, {2, 0, false}, {1, 2, true}, {2, 1, false}, {2, 1, true}, {3, 0, false}, {2, 2, false}}
	limit := vc.Scale(280, 40000)
	per := limit / len(cfgs)
	for _, c := range cfgs {
		scheds := enumSched(root, c.callers, c.envb, c.withClose)
		chosen := map[int]bool{}
		var order []int
		add := func(i int) {
			if !chosen[i] {
				chosen[i] = true
				order = append(order, i)
			}
		}
		step := 1
		if len(scheds) > per {
			step = len(scheds)/per + 1
		}
		for i := 0; i < len(scheds); i += step {
			add(i)
		}
		if step > 1 {
			for k := 0; k < per/2; k++ {
				add(r.Intn(len(scheds)))
			}
		}
		for _, i := range order {
			sv := vc.L{}
			for _, a := range scheds[i] {
				sv = append(sv, a.val())
			}
			in := vc.L{vc.L{c.callers, c.envb, c.withClose}, sv}
			w.Current(in)
			out := replaySched(c.callers, scheds[i])
			w.Case(in, out, true)
		}
		fmt.Printf("STAT sched_%d_%d_%v \"%d of %d schedules\"\n", c.callers, c.envb, c.withClose, len(order), len(scheds))
	}
	cur = nil
}
