package main

// wktparam: the text forms of google.protobuf.Timestamp / Duration / Value / Struct parameters (time.Parse,
// time.ParseDuration and protojson inside gwquery.parseMessage), which the Coq model does not cover.  Reference: canonical
// proto3 JSON parsing of the text (quoted for Timestamp / Duration, as it stands for Value / Struct).
//   kind 1: the text the canonical encoder emits for a value of the type (durations within what Go's time.Duration holds)
//           as a query parameter, a path variable, a nested field and a repeated parameter - the value must arrive;
//   kind 0: a lattice of other texts - when the bridge and the reference both accept, they store the same message, and
//           whatever the bridge does not accept is InvalidArgument.

import (
	"encoding/hex"
	"encoding/json"
	"fmt"
	"net/http"
	"net/url"
	"strings"

	"github.com/renbou/grpcbridge/bridgedesc"
	vc "github.com/renbou/grpcbridge/internal/zzverif/vcommon"
	"github.com/renbou/grpcbridge/transcoding"
	"google.golang.org/grpc/status"
	"google.golang.org/protobuf/encoding/protojson"
	"google.golang.org/protobuf/proto"
	"google.golang.org/protobuf/reflect/protodesc"
	"google.golang.org/protobuf/reflect/protoreflect"
	"google.golang.org/protobuf/reflect/protoregistry"
	"google.golang.org/protobuf/types/descriptorpb"
	"google.golang.org/protobuf/types/dynamicpb"
	"google.golang.org/protobuf/types/known/durationpb"
	"google.golang.org/protobuf/types/known/structpb"
	"google.golang.org/protobuf/types/known/timestamppb"
)

func buildWktParam() (*dynamicpb.Types, protoreflect.MessageDescriptor) {
	msgField := func(name string, num int32, typ string, repeated bool) *descriptorpb.FieldDescriptorProto {
		f := isoField(name, num, descriptorpb.FieldDescriptorProto_TYPE_MESSAGE)
		f.TypeName = proto.String(typ)
		f.JsonName = nil
		if repeated {
			f.Label = descriptorpb.FieldDescriptorProto_LABEL_REPEATED.Enum()
		}
		return f
	}
	fdp := &descriptorpb.FileDescriptorProto{
		Name: proto.String("wktparam/t.proto"), Package: proto.String("wktparam"), Syntax: proto.String("proto3"),
		Dependency: []string{"google/protobuf/timestamp.proto", "google/protobuf/duration.proto", "google/protobuf/struct.proto"},
		MessageType: []*descriptorpb.DescriptorProto{
			{Name: proto.String("In"), Field: []*descriptorpb.FieldDescriptorProto{
				msgField("ts", 1, ".google.protobuf.Timestamp", false), msgField("dur", 2, ".google.protobuf.Duration", false)}},
			{Name: proto.String("Q"), Field: []*descriptorpb.FieldDescriptorProto{
				msgField("ts", 1, ".google.protobuf.Timestamp", false), msgField("dur", 2, ".google.protobuf.Duration", false),
				msgField("val", 3, ".google.protobuf.Value", false), msgField("st", 4, ".google.protobuf.Struct", false),
				msgField("rts", 6, ".google.protobuf.Timestamp", true), msgField("rdur", 7, ".google.protobuf.Duration", true),
				msgField("in", 8, ".wktparam.In", false)}},
		},
	}
	files := new(protoregistry.Files)
	for _, f := range []protoreflect.FileDescriptor{timestamppb.File_google_protobuf_timestamp_proto, durationpb.File_google_protobuf_duration_proto,
		structpb.File_google_protobuf_struct_proto} {
		if err := files.RegisterFile(f); err != nil {
			panic(err)
		}
	}
	fd, err := protodesc.NewFile(fdp, files)
	if err != nil {
		panic(err)
	}
	if err := files.RegisterFile(fd); err != nil {
		panic(err)
	}
	return dynamicpb.NewTypes(files), fd.Messages().ByName("Q")
}

var wktParamTexts = map[string][]string{
	"ts": {"1970-01-01T00:00:00Z", "2024-02-29T12:34:56.789+01:00", "9999-12-31T23:59:59.999999999Z", "0001-01-01T00:00:00Z", "1969-12-31T23:59:59.5Z",
		"2023-02-29T00:00:00Z", "1970-01-01T00:00:00.1234567891Z", "1970-01-01 00:00:00Z", "1970-01-01T00:00:00", "x", "", "0", "1970-01-01t00:00:00z",
		"2024-06-30T23:59:60Z", "2024-01-01T24:00:00Z", "1970-01-01T00:00:00.Z", "1970-01-01T00:00:00,5Z", "1970-01-01T00:00:00-00:00", "1970-01-01T00:00:00+23:59",
		"10000-01-01T00:00:00Z", "0000-01-01T00:00:00Z", "1970-1-1T00:00:00Z", " 1970-01-01T00:00:00Z"},
	"dur": {"1s", "0s", "-1.5s", "0.000000001s", "-0.000000001s", "9223372036s", "9223372037s", "315576000000s", "1.0000000001s", "1", "s", "", "+1s", "1.s", ".5s",
		"1e3s", "1h", "1m30s", "1.5h", "100ms", "1µs", "-0s", "0.5s", "1S", " 1s", "1s ", "0", "-9223372036s", "3.000000000s", "1.10s"},
	"val": {"null", "1", "-1.5e300", `"x"`, "true", "[]", "{}", `[1,null,"x"]`, `{"a":null,"b":[{}]}`, "abc", "", `"NaN"`, "1e400", " 1 ", "01", "[1,]"},
	"st":  {"{}", `{"a":null}`, `{"a":{"b":[null,1]}}`, "null", "[]", "1", `{"a":1,"a":2}`, "", `{"k":1e400}`},
}

func wktParamPart(w *vc.Writer, r *vc.Rand) {
	types, q := buildWktParam()
	tr := transcoding.NewStandardTranscoder(transcoding.StandardTranscoderOpts{})
	wire := func(m proto.Message) string {
		b, _ := proto.MarshalOptions{Deterministic: true}.Marshal(m)
		return hex.EncodeToString(b)
	}
	// place: 0 query parameter, 1 path variable, 2 nested field (in.ts / in.dur) by query, 3 repeated parameter twice
	run := func(kind int, field, text string, place int) {
		name, jsonPath := field, []string{field}
		switch place {
		case 2:
			name, jsonPath = "in."+field, []string{"in", field}
		case 3:
			name, jsonPath = "r"+field, []string{"r" + field}
		}
		in := vc.L{kind, name, text, place}
		w.Current(in)
		var got, want vc.Val = vc.L{98}, vc.L{98}
		func() {
			defer func() {
				if rec := recover(); rec != nil {
					got = vc.L{99}
				}
			}()
			// reference
			lit := text
			if field == "ts" || field == "dur" {
				b, _ := json.Marshal(text)
				lit = string(b)
			}
			if place == 3 {
				lit = "[" + lit + "," + lit + "]"
			}
			wrapped := lit
			for i := len(jsonPath) - 1; i >= 0; i-- {
				wrapped = `{"` + jsonPath[i] + `":` + wrapped + `}`
			}
			ref := dynamicpb.NewMessage(q)
			if !json.Valid([]byte(wrapped)) || (protojson.UnmarshalOptions{Resolver: types}).Unmarshal([]byte(wrapped), ref) != nil {
				want = vc.L{3}
			} else {
				want = vc.L{0, wire(ref)}
			}
			raw := &http.Request{Method: "GET", URL: &url.URL{Path: "/x"}, Header: http.Header{}}
			params := map[string]string{}
			pattern := "/x"
			switch place {
			case 1:
				params[name] = text
				pattern = "/x/{" + name + "}"
			case 3:
				raw.URL.RawQuery = url.Values{name: {text, text}}.Encode()
			default:
				raw.URL.RawQuery = url.Values{name: {text}}.Encode()
			}
			req := transcoding.HTTPRequest{
				Target:     &bridgedesc.Target{Name: "wktparam", TypeResolver: types},
				Service:    &bridgedesc.Service{Name: "svc"},
				Method:     &bridgedesc.Method{RPCName: "/svc/M", Input: bridgedesc.DynamicMessage(q), Output: bridgedesc.DynamicMessage(q)},
				Binding:    &bridgedesc.Binding{HTTPMethod: "GET", Pattern: pattern},
				RawRequest: raw, PathParams: params,
			}
			tin, _, err := tr.Bind(req)
			if err != nil {
				st, _ := status.FromError(err)
				got = vc.L{int(st.Code())}
				return
			}
			m := dynamicpb.NewMessage(q)
			if err := tin.Transcode(nil, m); err != nil {
				st, _ := status.FromError(err)
				got = vc.L{int(st.Code())}
			} else {
				got = vc.L{0, wire(m)}
			}
		}()
		w.Case(in, vc.L{got, want}, fmt.Sprint(got) != "[3]" || fmt.Sprint(want) != "[3]")
	}
	places := func(field string) []int {
		if field == "ts" || field == "dur" {
			return []int{0, 1, 2, 3}
		}
		return []int{0, 1}
	}
	// FieldMask is not here: its parameter form is the gateway's (the paths between commas, verbatim - modelled and proved in
	// the bind part), not the JSON form (lowerCamel names converted to snake_case); protojson is no reference for it
	for _, field := range []string{"ts", "dur", "val", "st"} {
		for _, t := range wktParamTexts[field] {
			for _, p := range places(field) {
				if p == 1 && (t == "" || strings.Contains(t, "/")) {
					continue
				}
				run(0, field, t, p)
			}
		}
	}
	// canonical texts of values
	canon := func(m proto.Message) string {
		b, err := protojson.Marshal(m)
		if err != nil {
			panic(err)
		}
		var s string
		if json.Unmarshal(b, &s) == nil {
			return s
		}
		return string(b)
	}
	n := vc.Scale(300, 20000)
	for i := 0; i < n; i++ {
		rr := r.Fork()
		switch rr.Intn(3) {
		case 0, 1:
			// 0001-01-01T00:00:00Z .. 9999-12-31T23:59:59Z
			secs := int64(rr.U64()%315537897600) - 62135596800
			if rr.Intn(4) == 0 {
				secs = []int64{0, -1, 1, -62135596800, 253402300799, 951782400, 68169600}[rr.Intn(7)]
			}
			nanos := []int32{0, 0, 500000000, 120000000, 1000, 1, 999999999, int32(rr.Intn(1000)) * 1000000, int32(rr.Intn(1000000)) * 1000, int32(rr.Intn(1000000000))}[rr.Intn(10)]
			run(1, "ts", canon(&timestamppb.Timestamp{Seconds: secs, Nanos: nanos}), rr.Intn(4))
		default:
			// within time.Duration: |seconds| <= 9223372035
			secs := int64(rr.U64()%9223372036) * int64(1-2*rr.Intn(2))
			if rr.Intn(3) == 0 {
				secs = int64(rr.Intn(100)) * int64(1-2*rr.Intn(2))
			}
			nanos := []int32{0, 0, 500000000, 120000000, 1000, 1, 999999999, int32(rr.Intn(1000000000))}[rr.Intn(8)]
			if secs < 0 {
				nanos = -nanos
			} else if secs == 0 && rr.Bool() {
				nanos = -nanos
			}
			run(1, "dur", canon(&durationpb.Duration{Seconds: secs, Nanos: nanos}), rr.Intn(4))
		}
	}
}
