package main

// anyelem: google.protobuf.Any values of a type that only the TARGET's descriptors know, at every place of a body where a
// value can sit - the whole message, a singular field, the elements of a repeated field, the values of a map, nested one
// level down - with the body bound to each of those fields in turn.  Reference: canonical proto3 JSON parsing of
// {"<field>": body} with the target's own resolver.  The response direction likewise (response_body).

import (
	"encoding/hex"
	"fmt"
	"net/http"
	"net/url"

	"github.com/renbou/grpcbridge/bridgedesc"
	vc "github.com/renbou/grpcbridge/internal/zzverif/vcommon"
	"github.com/renbou/grpcbridge/transcoding"
	"google.golang.org/grpc/status"
	"google.golang.org/protobuf/encoding/protojson"
	"google.golang.org/protobuf/proto"
	"google.golang.org/protobuf/reflect/protodesc"
	"google.golang.org/protobuf/reflect/protoreflect"
	"google.golang.org/protobuf/reflect/protoregistry"
	"google.golang.org/protobuf/types/descriptorpb"
	"google.golang.org/protobuf/types/dynamicpb"
	"google.golang.org/protobuf/types/known/anypb"
)

func buildAnyElem() (*dynamicpb.Types, protoreflect.MessageDescriptor) {
	msgField := func(name string, num int32, typ string, repeated bool) *descriptorpb.FieldDescriptorProto {
		f := isoField(name, num, descriptorpb.FieldDescriptorProto_TYPE_MESSAGE)
		f.TypeName = proto.String(typ)
		if repeated {
			f.Label = descriptorpb.FieldDescriptorProto_LABEL_REPEATED.Enum()
		}
		return f
	}
	entry := &descriptorpb.DescriptorProto{Name: proto.String("ByKeyEntry"), Options: &descriptorpb.MessageOptions{MapEntry: proto.Bool(true)},
		Field: []*descriptorpb.FieldDescriptorProto{isoField("key", 1, descriptorpb.FieldDescriptorProto_TYPE_STRING), msgField("value", 2, ".google.protobuf.Any", false)}}
	fdp := &descriptorpb.FileDescriptorProto{
		Name: proto.String("anyelem/t.proto"), Package: proto.String("anyelem"), Syntax: proto.String("proto3"),
		Dependency: []string{"google/protobuf/any.proto"},
		MessageType: []*descriptorpb.DescriptorProto{
			{Name: proto.String("Payload"), Field: []*descriptorpb.FieldDescriptorProto{isoField("count", 1, descriptorpb.FieldDescriptorProto_TYPE_INT32), isoField("label", 2, descriptorpb.FieldDescriptorProto_TYPE_STRING)}},
			{Name: proto.String("Item"), Field: []*descriptorpb.FieldDescriptorProto{msgField("payload", 1, ".google.protobuf.Any", false), isoField("tag", 2, descriptorpb.FieldDescriptorProto_TYPE_STRING)}},
			{Name: proto.String("Holder"), NestedType: []*descriptorpb.DescriptorProto{entry}, Field: []*descriptorpb.FieldDescriptorProto{
				msgField("items", 1, ".google.protobuf.Any", true), msgField("by_key", 2, ".anyelem.Holder.ByKeyEntry", true),
				msgField("one", 3, ".google.protobuf.Any", false), msgField("nested", 4, ".anyelem.Item", false), msgField("wrapped", 5, ".anyelem.Item", true),
				isoField("name", 6, descriptorpb.FieldDescriptorProto_TYPE_STRING)}},
		},
	}
	for _, f := range fdp.MessageType[2].Field {
		f.JsonName = nil
	}
	files := new(protoregistry.Files)
	if err := files.RegisterFile(anypb.File_google_protobuf_any_proto); err != nil {
		panic(err)
	}
	fd, err := protodesc.NewFile(fdp, files)
	if err != nil {
		panic(err)
	}
	if err := files.RegisterFile(fd); err != nil {
		panic(err)
	}
	return dynamicpb.NewTypes(files), fd.Messages().ByName("Holder")
}

const anyP = `{"@type":"type.googleapis.com/anyelem.Payload","count":5,"label":"x"}`
const anyQ = `{"@type":"type.googleapis.com/anyelem.Payload","count":-1}`
const anyBad = `{"@type":"type.googleapis.com/anyelem.Payload","count":"many"}`
const anyUnknown = `{"@type":"type.googleapis.com/anyelem.Nope","count":1}`

// body path -> bodies for that field
var anyBodies = map[string][]string{
	"items":   {`[` + anyP + `]`, `[` + anyP + `,` + anyQ + `]`, `[]`, `[` + anyBad + `]`, `[` + anyUnknown + `]`, `[` + anyQ + `,` + anyP + `,` + anyQ + `]`},
	"by_key":  {`{"a":` + anyP + `}`, `{"a":` + anyP + `,"b":` + anyQ + `}`, `{}`, `{"k":` + anyBad + `}`, `{"k":` + anyUnknown + `}`},
	"one":     {anyP, anyQ, anyBad, anyUnknown},
	"nested":  {`{"payload":` + anyP + `,"tag":"t"}`, `{"payload":` + anyBad + `}`, `{"tag":"only"}`},
	"wrapped": {`[{"payload":` + anyP + `,"tag":"t"},{"payload":` + anyQ + `}]`, `[{"payload":` + anyUnknown + `}]`, `[{"tag":"t"}]`},
	"*": {`{"items":[` + anyP + `],"by_key":{"a":` + anyQ + `},"one":` + anyP + `,"nested":{"payload":` + anyQ + `},"wrapped":[{"payload":` + anyP + `}],"name":"n"}`,
		`{"items":[` + anyUnknown + `]}`, `{"name":"plain"}`},
}

func anyElemPart(w *vc.Writer, r *vc.Rand) {
	types, holder := buildAnyElem()
	jm := &transcoding.JSONMarshaler{MarshalOptions: protojson.MarshalOptions{EmitDefaultValues: true}, UnmarshalOptions: protojson.UnmarshalOptions{}}
	trs := []*transcoding.StandardTranscoder{
		transcoding.NewStandardTranscoder(transcoding.StandardTranscoderOpts{}),
		transcoding.NewStandardTranscoder(transcoding.StandardTranscoderOpts{Marshalers: []transcoding.Marshaler{jm}, DefaultMarshaler: jm}),
	}
	differ := 0
	for _, path := range []string{"items", "by_key", "one", "nested", "wrapped", "*"} {
		for bi, body := range anyBodies[path] {
			for ti, tr := range trs {
				in := vc.L{path, bi, ti}
				w.Current(in)
				raw := &http.Request{Method: "POST", URL: &url.URL{Path: "/x"}, Header: http.Header{}}
				req := transcoding.HTTPRequest{
					Target:     &bridgedesc.Target{Name: "anyelem", TypeResolver: types},
					Service:    &bridgedesc.Service{Name: "svc"},
					Method:     &bridgedesc.Method{RPCName: "/svc/M", Input: bridgedesc.DynamicMessage(holder), Output: bridgedesc.DynamicMessage(holder)},
					Binding:    &bridgedesc.Binding{HTTPMethod: "POST", Pattern: "/x", RequestBodyPath: path, ResponseBodyPath: map[bool]string{true: "", false: path}[path == "*"]},
					RawRequest: raw, PathParams: map[string]string{},
				}
				var got, want, gotResp, wantResp vc.Val = vc.L{98}, vc.L{98}, vc.L{98}, vc.L{98}
				func() {
					defer func() {
						if rec := recover(); rec != nil {
							got = vc.L{99}
						}
					}()
					// reference: canonical proto3 JSON with the target's own resolver
					ref := dynamicpb.NewMessage(holder)
					wrapped := body
					if path != "*" {
						wrapped = `{"` + path + `":` + body + `}`
					}
					refErr := protojson.UnmarshalOptions{Resolver: types}.Unmarshal([]byte(wrapped), ref)
					if refErr != nil {
						want = vc.L{3}
					} else {
						b, _ := proto.MarshalOptions{Deterministic: true}.Marshal(ref)
						want = vc.L{0, hex.EncodeToString(b)}
					}
					tin, tout, err := tr.Bind(req)
					if err != nil {
						got = vc.L{97}
						return
					}
					m := dynamicpb.NewMessage(holder)
					if err := tin.Transcode([]byte(body), m); err != nil {
						st, _ := status.FromError(err)
						got = vc.L{int(st.Code())}
					} else {
						b, _ := proto.MarshalOptions{Deterministic: true}.Marshal(m)
						got = vc.L{0, hex.EncodeToString(b)}
					}
					// the response direction, for bodies the reference accepts: render the reference message's bound field
					if refErr == nil {
						text, err := tout.Transcode(ref)
						if err != nil {
							gotResp = vc.L{1}
						} else {
							var a any
							_ = jsonUnmarshal(text, &a)
							gotResp = vc.L{0, fmt.Sprint(a)}
						}
						full, err := protojson.MarshalOptions{Resolver: types, EmitDefaultValues: true, EmitUnpopulated: false}.Marshal(ref)
						if err != nil {
							wantResp = vc.L{1}
						} else {
							var a any
							_ = jsonUnmarshal(full, &a)
							if path != "*" {
								if mp, ok := a.(map[string]any); ok {
									a = mp[jsonName(holder, path)]
								}
							}
							wantResp = vc.L{0, fmt.Sprint(a)}
						}
					}
				}()
				if fmt.Sprint(got) != fmt.Sprint(want) || fmt.Sprint(gotResp) != fmt.Sprint(wantResp) {
					differ++
				}
				w.Case(in, vc.L{got, want, gotResp, wantResp}, true)
			}
		}
	}
	fmt.Printf("STAT anyelem \"differing=%d\"\n", differ)
	_ = r
}

func jsonName(md protoreflect.MessageDescriptor, field string) string {
	return md.Fields().ByName(protoreflect.Name(field)).JSONName()
}
