// c04: request transcoding (body -> path variables -> filtered query) on run-time built schemas that are NOT registered in
// the process-global protobuf registry, run once with a clean registry and once after conflicting types with the same full
// names have been registered; compared with the Coq model.
package main

import (
	"encoding/json"
	"fmt"
	"io"
	"math"
	"net/http"
	"net/url"
	"os"
	"sort"
	"strings"

	"net/http/httptest"

	"github.com/renbou/grpcbridge/bridgedesc"
	"github.com/renbou/grpcbridge/grpcadapter"
	vc "github.com/renbou/grpcbridge/internal/zzverif/vcommon"
	"github.com/renbou/grpcbridge/internal/zzverif/vfake"
	"github.com/renbou/grpcbridge/internal/zzverif/vschema"
	"github.com/renbou/grpcbridge/routing"
	"github.com/renbou/grpcbridge/transcoding"
	"github.com/renbou/grpcbridge/webbridge"
	"google.golang.org/grpc/status"
	"google.golang.org/protobuf/proto"
	"google.golang.org/protobuf/reflect/protodesc"
	"google.golang.org/protobuf/reflect/protoreflect"
	"google.golang.org/protobuf/reflect/protoregistry"
	"google.golang.org/protobuf/types/descriptorpb"
	"google.golang.org/protobuf/types/dynamicpb"
)

func jsonUnmarshal(b []byte, v any) error { return json.Unmarshal(b, v) }

// ---- schema DSL: package vschema ----
const (
	kBool   = vschema.KBool
	kInt32  = vschema.KInt32
	kInt64  = vschema.KInt64
	kUint32 = vschema.KUint32
	kUint64 = vschema.KUint64
	kFloat  = vschema.KFloat
	kDouble = vschema.KDouble
	kString = vschema.KString
	kBytes  = vschema.KBytes
	kEnum   = vschema.KEnum
	kMsg    = vschema.KMsg
)

type (
	Field  = vschema.Field
	Msg    = vschema.Msg
	Schema = vschema.Schema
)

var wktKinds = vschema.WktKinds

func richSchema(pkg string) *Schema               { return vschema.RichSchema(pkg) }
func randomSchema(r *vc.Rand, pkg string) *Schema { return vschema.RandomSchema(r, pkg) }

// ---- message dump ----
func scalarVal(fd protoreflect.FieldDescriptor, v protoreflect.Value) vc.Val {
	switch fd.Kind() {
	case protoreflect.BoolKind:
		return vc.L{1, v.Bool()}
	case protoreflect.Int32Kind, protoreflect.Int64Kind:
		return vc.L{2, v.Int()}
	case protoreflect.Uint32Kind, protoreflect.Uint64Kind:
		return vc.L{2, v.Uint()}
	case protoreflect.FloatKind, protoreflect.DoubleKind:
		f := v.Float()
		switch {
		case math.IsNaN(f):
			return vc.L{3, 0}
		case math.IsInf(f, 1):
			return vc.L{3, 1}
		case math.IsInf(f, -1):
			return vc.L{3, 2}
		}
		return vc.L{4}
	case protoreflect.StringKind:
		return vc.L{5, v.String()}
	case protoreflect.BytesKind:
		return vc.L{6, v.Bytes()}
	case protoreflect.EnumKind:
		return vc.L{7, int(v.Enum())}
	case protoreflect.MessageKind:
		return vc.L{11, dumpMsg(v.Message())}
	}
	panic("kind")
}

func keyLess(a, b vc.Val) bool {
	x, y := a.(vc.L), b.(vc.L)
	switch p := x[1].(type) {
	case int64:
		return p < y[1].(int64)
	case uint64:
		return p < y[1].(uint64)
	case string:
		return p < y[1].(string)
	case bool:
		return !p && y[1].(bool)
	}
	return false
}

func dumpMsg(m protoreflect.Message) vc.Val {
	out := vc.L{}
	fds := m.Descriptor().Fields()
	for i := 0; i < fds.Len(); i++ {
		fd := fds.Get(i)
		switch {
		case fd.IsList():
			l := m.Get(fd).List()
			items := vc.L{}
			for j := 0; j < l.Len(); j++ {
				items = append(items, scalarVal(fd, l.Get(j)))
			}
			out = append(out, vc.L{string(fd.Name()), vc.L{8, items}})
		case fd.IsMap():
			type ent struct{ k, v vc.Val }
			var es []ent
			m.Get(fd).Map().Range(func(k protoreflect.MapKey, v protoreflect.Value) bool {
				es = append(es, ent{scalarVal(fd.MapKey(), k.Value()), scalarVal(fd.MapValue(), v)})
				return true
			})
			sort.Slice(es, func(a, b int) bool { return keyLess(es[a].k, es[b].k) })
			items := vc.L{}
			for _, e := range es {
				items = append(items, vc.L{e.k, e.v})
			}
			out = append(out, vc.L{string(fd.Name()), vc.L{9, items}})
		default:
			if fd.HasPresence() && !m.Has(fd) {
				continue
			}
			out = append(out, vc.L{string(fd.Name()), scalarVal(fd, m.Get(fd))})
		}
	}
	return out
}

// ---- one case ----
type kvs struct {
	k    string
	vs   []string
	norm []string // the proto-name field path the key addresses, when the generator knows it
}
type tcase struct {
	schema   *Schema
	root     protoreflect.MessageDescriptor
	types    *dynamicpb.Types
	bodyPath string
	params   [][2]string
	query    []kvs
	bodies   []*string // nil: empty body
	trees    vc.L
	stream   bool
	must     vc.L // ( field-path text ): planted unbound string parameters
}

var transcoder = transcoding.NewStandardTranscoder(transcoding.StandardTranscoderOpts{})

func (c *tcase) run() vc.Val {
	q := url.Values{}
	for _, e := range c.query {
		q[e.k] = e.vs
	}
	pp := map[string]string{}
	for _, p := range c.params {
		pp[p[0]] = p[1]
	}
	raw := &http.Request{Method: "POST", URL: &url.URL{Path: "/x", RawQuery: q.Encode()}, Header: http.Header{}}
	req := transcoding.HTTPRequest{
		Target:     &bridgedesc.Target{Name: "t", TypeResolver: c.types},
		Service:    &bridgedesc.Service{Name: "svc"},
		Method:     &bridgedesc.Method{RPCName: "/svc/M", Input: bridgedesc.DynamicMessage(c.root), Output: bridgedesc.DynamicMessage(c.root), ClientStreaming: c.stream},
		Binding:    &bridgedesc.Binding{HTTPMethod: "POST", Pattern: "/x", RequestBodyPath: c.bodyPath},
		RawRequest: raw,
		PathParams: pp,
	}
	in, _, err := transcoder.Bind(req)
	if err != nil {
		return vc.L{vc.L{98}}
	}
	results := vc.L{}
	one := func(f func(m proto.Message) error) (stop bool) {
		defer func() {
			if r := recover(); r != nil {
				results = append(results, vc.L{99})
				stop = true
			}
		}()
		m := dynamicpb.NewMessage(c.root)
		if err := f(m); err != nil {
			st, ok := status.FromError(err)
			if !ok {
				results = append(results, vc.L{97})
			} else {
				results = append(results, vc.L{int(st.Code())})
			}
			return true
		}
		results = append(results, vc.L{0, dumpMsg(m)})
		return false
	}
	if c.stream {
		var sb strings.Builder
		for _, b := range c.bodies {
			sb.WriteString(*b)
			sb.WriteString("\n")
		}
		st := in.(transcoding.RequestStreamTranscoder).Stream(io.NopCloser(strings.NewReader(sb.String())))
		for range c.bodies {
			if one(func(m proto.Message) error { return st.Transcode(m) }) {
				break
			}
		}
		return results
	}
	for _, b := range c.bodies {
		var data []byte
		if b != nil {
			data = []byte(*b)
		}
		if one(func(m proto.Message) error { return in.Transcode(data, m) }) {
			break
		}
	}
	return results
}

// unbound returns the case without the query keys that address something bound by the body or a path variable (nil when
// there is none): such keys must not have any effect
func (c *tcase) unbound() *tcase {
	var seqs [][]string
	if c.bodyPath != "" && c.bodyPath != "*" {
		seqs = append(seqs, strings.Split(c.bodyPath, "."))
	}
	for _, p := range c.params {
		seqs = append(seqs, strings.Split(p[0], "."))
	}
	c2 := *c
	c2.query = nil
	removed := false
	for _, e := range c.query {
		bound := false
		for _, sq := range seqs {
			if e.norm != nil && len(sq) <= len(e.norm) && strings.Join(e.norm[:len(sq)], ".") == strings.Join(sq, ".") {
				bound = true
			}
		}
		if bound {
			removed = true
		} else {
			c2.query = append(c2.query, e)
		}
	}
	if !removed {
		return nil
	}
	return &c2
}

func (c *tcase) input() vc.Val {
	ps := vc.L{}
	for _, p := range c.params {
		ps = append(ps, vc.L{p[0], p[1]})
	}
	qs := vc.L{}
	for _, e := range c.query {
		qs = append(qs, vc.L{e.k, vc.Strs(e.vs)})
	}
	must := vc.L{}
	must = append(must, c.must...)
	return vc.L{c.schema.Val(), c.bodyPath, ps, qs, c.trees, must}
}

// ---- JSON trees ----
type jnode struct {
	kind  int // 0 null 1 bool 2 num 3 str 4 arr 5 obj
	b     bool
	s     string
	items []jnode
	keys  []string
}

func (n jnode) text() string {
	switch n.kind {
	case 0:
		return "null"
	case 1:
		if n.b {
			return "true"
		}
		return "false"
	case 2:
		return n.s
	case 3:
		b, _ := json.Marshal(n.s)
		return string(b)
	case 4:
		parts := make([]string, len(n.items))
		for i, it := range n.items {
			parts[i] = it.text()
		}
		return "[" + strings.Join(parts, ",") + "]"
	default:
		parts := make([]string, len(n.items))
		for i, it := range n.items {
			k, _ := json.Marshal(n.keys[i])
			parts[i] = string(k) + ":" + it.text()
		}
		return "{" + strings.Join(parts, ",") + "}"
	}
}
func (n jnode) tree() vc.Val {
	switch n.kind {
	case 0:
		return vc.L{0}
	case 1:
		return vc.L{1, n.b}
	case 2:
		return vc.L{2, n.s}
	case 3:
		return vc.L{3, n.s}
	case 4:
		items := vc.L{}
		for _, it := range n.items {
			items = append(items, it.tree())
		}
		return vc.L{4, items}
	default:
		items := vc.L{}
		for i, it := range n.items {
			items = append(items, vc.L{n.keys[i], it.tree()})
		}
		return vc.L{5, items}
	}
}

func num(s string) jnode   { return jnode{kind: 2, s: s} }
func str(s string) jnode   { return jnode{kind: 3, s: s} }
func jbool(b bool) jnode   { return jnode{kind: 1, b: b} }
func arr(it []jnode) jnode { return jnode{kind: 4, items: it} }

// canonical JSON value of a scalar kind (forms on which protojson and the field codec agree), sometimes an invalid one
func jsonScalar(r *vc.Rand, k int, allowBad bool) jnode {
	if allowBad && r.Chance(5) {
		return []jnode{str("bad value"), num("1.5"), jbool(true), arr(nil), num("99999999999999999999")}[r.Intn(5)]
	}
	switch k {
	case kBool:
		return jbool(r.Bool())
	case kInt32:
		return num(r.Pick([]string{"0", "7", "-12", "2147483647", "-2147483648"}))
	case kInt64:
		if r.Bool() {
			return str(r.Pick([]string{"9223372036854775807", "-5", "0"}))
		}
		return num(r.Pick([]string{"123456789012", "-1", "0"}))
	case kUint32:
		return num(r.Pick([]string{"0", "4294967295", "17"}))
	case kUint64:
		return str(r.Pick([]string{"18446744073709551615", "1", "0"}))
	case kFloat, kDouble:
		return []jnode{num("1.5"), num("-2"), str("NaN"), str("Infinity"), num("0")}[r.Intn(5)]
	case kString:
		return str(r.Pick([]string{"", "hello", "a b", "é", "x,y"}))
	case kBytes:
		return str(r.Pick([]string{"", "QUJD", "QUI=", "QQ=="}))
	default:
		return []jnode{str("ONE"), str("TWO"), str("NEG"), num("1"), num("0"), str("BIG"), str("BOGUS")}[r.Intn(7)]
	}
}

func mapKeyText(r *vc.Rand, k int) string {
	switch k {
	case kString:
		// keys with the characters the query-key syntax itself uses: dots, slashes, brackets
		return r.Pick([]string{"", "k", "a b", "k2", "a.b", "app.kubernetes.io/name", "x.y.z", "k[1]", "[", "a]b", ".", "é"})
	case kBool:
		return r.Pick([]string{"true", "false"})
	case kInt32, kInt64:
		return r.Pick([]string{"0", "-3", "12"})
	default:
		return r.Pick([]string{"0", "5", "4294967295"})
	}
}

func jsonField(r *vc.Rand, s *Schema, f Field, depth int, allowBad bool) jnode {
	switch f.Card {
	case 1:
		n := r.Intn(3)
		items := make([]jnode, n)
		for i := range items {
			if f.Kind == kMsg {
				items[i] = jsonMsg(r, s, f.Msg, depth+1, allowBad)
			} else {
				items[i] = jsonScalar(r, f.Kind, allowBad)
			}
		}
		return arr(items)
	case 2:
		o := jnode{kind: 5}
		used := map[string]bool{}
		for i := 0; i < r.Intn(3); i++ {
			k := mapKeyText(r, f.KeyKind)
			if used[k] {
				continue
			}
			used[k] = true
			o.keys = append(o.keys, k)
			o.items = append(o.items, jsonScalar(r, f.Kind, allowBad))
		}
		return o
	}
	if f.Kind == kMsg {
		return jsonMsg(r, s, f.Msg, depth+1, allowBad)
	}
	return jsonScalar(r, f.Kind, allowBad)
}

// a JSON object for message mi: a random subset of its non-WKT fields by proto or JSON name, plus unknown names and nulls
func jsonMsg(r *vc.Rand, s *Schema, mi int, depth int, allowBad bool) jnode {
	o := jnode{kind: 5}
	m := s.Msgs[mi]
	oneofUsed := map[int]bool{}
	for _, f := range m.Fields {
		if !r.Chance(35) || (f.Kind == kMsg && (s.Msgs[f.Msg].WKT != 0 || depth >= 2)) {
			continue
		}
		if f.Oneof != 0 {
			if oneofUsed[f.Oneof] && !r.Chance(10) {
				continue
			}
			oneofUsed[f.Oneof] = true
		}
		name := f.JSON
		if r.Chance(30) {
			name = f.Name
		}
		if r.Chance(6) {
			o.keys, o.items = append(o.keys, name), append(o.items, jnode{kind: 0})
			continue
		}
		o.keys, o.items = append(o.keys, name), append(o.items, jsonField(r, s, f, depth, allowBad))
	}
	if r.Chance(10) {
		o.keys, o.items = append(o.keys, "unknownField"), append(o.items, num("1"))
	}
	return o
}

// ---- text pools for path and query values ----
var goodPool = map[int][]string{
	kBool:   {"true", "false", "1", "0", "T", "F", "TRUE", "False", "t"},
	kInt32:  {"0", "-1", "+5", "2147483647", "-2147483648", "007", "-0"},
	kInt64:  {"9223372036854775807", "-9223372036854775808", "12", "+0"},
	kUint32: {"0", "4294967295", "17"},
	kUint64: {"18446744073709551615", "5"},
	kFloat:  {"1.5", "-0", "NaN", "inf", "-Infinity", "+Inf", "1_0", "0x1p-2", ".5", "5.", "3.4028235677973362e38"},
	kDouble: {"1e308", "2.5", "nan", "-1e-400"},
	kString: {"", "hello", "a b", "é", "a,b", "x=y", "[z]", "a.b"},
	kBytes:  {"QUJD", "QUI=", "QQ==", "-_-_", "+/+/", "", "QUJD\n"},
	kEnum:   {"ZERO", "ONE", "TWO", "NEG", "BIG", "0", "1", "-1", "2147483647", "+1", "01"},
}
var badPool = map[int][]string{
	kBool:   {"yes", "", "tru"},
	kInt32:  {"2147483648", "-2147483649", "1.0", "1e3", "", "abc", "1_000", "0x10", " 1", "--1"},
	kInt64:  {"9223372036854775808", "-9223372036854775809", "1.5"},
	kUint32: {"4294967296", "-1", "+1", "-0"},
	kUint64: {"18446744073709551616", "+5", ""},
	kFloat:  {"1e40", "3.4028235677973366e38", "infinit", "", "abc", "1e400"},
	kDouble: {"1e309", "0x1p1024", "1e"},
	kString: {},
	kBytes:  {"QUI", "-_+/", "!!!!"},
	kEnum:   {"3", "BOGUS", "one", "4294967297", "4294967296", "-4294967295", "1.0", "", "9223372036854775808"},
}

func pick(r *vc.Rand, k int) string {
	if len(badPool[k]) > 0 && r.Chance(10) {
		return r.Pick(badPool[k])
	}
	return r.Pick(goodPool[k])
}

func textFor(r *vc.Rand, s *Schema, f Field) string {
	if f.Kind == kMsg {
		w := s.Msgs[f.Msg].WKT
		switch {
		case w == 10:
			return r.Pick([]string{"a,b", "", "a", "a,,b", "x.y,z"})
		case w != 0:
			return pick(r, wktKinds[w])
		default:
			return r.Pick([]string{"x", "{}", ""})
		}
	}
	return pick(r, f.Kind)
}

// a random field path from message mi: elements by proto name (or JSON name when allowed), the final field descriptor, and
// the normalized (proto-name) path
type fpath struct {
	elems []string
	norm  []string
	final Field
	ok    bool // resolves to a field
}

func randPath(r *vc.Rand, s *Schema, useJSON bool, maxDepth int) fpath {
	mi := 0
	var p fpath
	for d := 0; ; d++ {
		m := s.Msgs[mi]
		f := m.Fields[r.Intn(len(m.Fields))]
		name := f.Name
		if useJSON && r.Chance(40) {
			name = f.JSON
		}
		p.elems, p.norm, p.final, p.ok = append(p.elems, name), append(p.norm, f.Name), f, true
		if f.Kind == kMsg && f.Card == 0 && d < maxDepth && r.Chance(65) {
			mi = f.Msg
			continue
		}
		return p
	}
}

func genCase(r *vc.Rand, s *Schema, root protoreflect.MessageDescriptor, types *dynamicpb.Types) *tcase {
	c := &tcase{schema: s, root: root, types: types}
	// body path
	var bodyField *Field
	switch x := r.Intn(20); {
	case x < 7:
		c.bodyPath = ""
	case x < 10:
		c.bodyPath = "*"
	case x < 19:
		for tries := 0; tries < 20; tries++ {
			p := randPath(r, s, false, 2)
			f := p.final
			if f.Kind == kMsg && (s.Msgs[f.Msg].WKT != 0 || f.Card != 0) {
				continue // wrappers / lists of messages as a body: their JSON forms are outside the modelled subset
			}
			c.bodyPath = strings.Join(p.elems, ".")
			bodyField = &f
			break
		}
	default:
		c.bodyPath = r.Pick([]string{"nope", "i32.x", "ri.x", "n.nope", "a..b", ".a"})
		if r.Bool() {
			c.bodyPath = ""
		}
	}
	// path parameters: distinct fields, at most one per oneof of the root
	usedNorm := map[string]bool{}
	usedOneof := map[string]bool{}
	oneofKey := func(p fpath) string {
		// the oneof of the FIRST element decides order dependence at the root; nested ones are keyed by their prefix
		mi := 0
		key := ""
		for i, e := range p.norm {
			for _, f := range s.Msgs[mi].Fields {
				if f.Name == e {
					if f.Oneof != 0 {
						return fmt.Sprintf("%s/%d:%d", key, mi, f.Oneof)
					}
					if f.Optional {
						return fmt.Sprintf("%s/%d:opt:%s", key, mi, f.Name)
					}
					if f.Kind == kMsg {
						mi = f.Msg
					}
					break
				}
			}
			key += "." + p.norm[i]
		}
		return ""
	}
	if bodyField != nil && bodyField.Kind == kMsg && bodyField.Card == 0 && r.Chance(25) {
		// a path variable INSIDE the body field: the bound sequences are then prefixes of one another
		sub := s.Msgs[bodyField.Msg]
		f := sub.Fields[r.Intn(len(sub.Fields))]
		key := c.bodyPath + "." + f.Name
		if f.Kind == kMsg && f.Card == 0 && s.Msgs[f.Msg].WKT == 0 {
			g := s.Msgs[f.Msg].Fields[r.Intn(len(s.Msgs[f.Msg].Fields))]
			key, f = key+"."+g.Name, g
		}
		if f.Kind != kMsg || s.Msgs[f.Msg].WKT != 0 {
			c.params = append(c.params, [2]string{key, textFor(r, s, f)})
			usedNorm[key] = true
		}
	}
	np := r.Intn(4)
	for i := 0; i < np; i++ {
		p := randPath(r, s, false, 2)
		if p.final.Kind == kMsg && s.Msgs[p.final.Msg].WKT == 0 && r.Chance(85) {
			continue // a plain message has no text form: an error, kept rare
		}
		norm := strings.Join(p.norm, ".")
		ok := oneofKey(p)
		conflict := usedNorm[norm] || (ok != "" && usedOneof[ok])
		for q := range usedNorm {
			if strings.HasPrefix(q+".", norm+".") || strings.HasPrefix(norm+".", q+".") {
				conflict = true
			}
		}
		if conflict {
			continue
		}
		usedNorm[norm] = true
		if ok != "" {
			usedOneof[ok] = true
		}
		key := strings.Join(p.elems, ".")
		if r.Chance(5) {
			key = r.Pick([]string{"nope", "n.nope", "i32.x"})
		}
		c.params = append(c.params, [2]string{key, textFor(r, s, p.final)})
	}
	sort.Slice(c.params, func(a, b int) bool { return c.params[a][0] < c.params[b][0] })
	// query
	qUsed := map[string]bool{}
	qOneof := map[string]bool{}
	nq := r.Intn(6)
	for i := 0; i < nq; i++ {
		var key string
		var vs []string
		switch x := r.Intn(20); {
		case x < 14:
			p := randPath(r, s, true, 2)
			if p.final.Kind == kMsg && s.Msgs[p.final.Msg].WKT == 0 && r.Chance(85) {
				continue
			}
			norm := strings.Join(p.norm, ".")
			ok := oneofKey(p)
			conflict := qUsed[norm] || (ok != "" && qOneof[ok])
			for q := range qUsed {
				if strings.HasPrefix(q+".", norm+".") || strings.HasPrefix(norm+".", q+".") {
					conflict = true
				}
			}
			if conflict {
				continue
			}
			qUsed[norm] = true
			if ok != "" {
				qOneof[ok] = true
			}
			key = strings.Join(p.elems, ".")
			nv := 1
			if p.final.Card == 1 || r.Chance(8) {
				nv = 1 + r.Intn(3)
			}
			if p.final.Card == 2 {
				key += "[" + mapKeyText(r, p.final.KeyKind) + "]"
				if r.Chance(10) {
					nv = 2
				}
			}
			for j := 0; j < nv; j++ {
				vs = append(vs, textFor(r, s, p.final))
			}
			c.query = append(c.query, kvs{key, vs, p.norm})
			continue
		case x < 16:
			// a key under something that may be bound by the body or a path variable
			base := c.bodyPath
			if len(c.params) > 0 && r.Bool() {
				base = c.params[r.Intn(len(c.params))][0]
			}
			if base == "" || base == "*" || qUsed[base] {
				continue
			}
			key = base
			if r.Chance(40) {
				key += "." + r.Pick([]string{"x", "y", "z", "value", "deep.z"})
			}
			if qUsed[key] {
				continue
			}
			qUsed[key] = true
			vs = []string{r.Pick([]string{"1", "zz", "true"})}
			c.query = append(c.query, kvs{key, vs, strings.Split(key, ".")})
			continue
		case x < 18:
			// an UNBOUND sibling whose name merely starts with the name of a bound field (n / n2, s / snake_case_name, opt / opts,
			// b / by ...): it is a different field and must be populated from the query
			base := c.bodyPath
			if len(c.params) > 0 && (base == "" || base == "*" || r.Bool()) {
				base = c.params[r.Intn(len(c.params))][0]
			}
			if base == "" || base == "*" {
				continue
			}
			el := strings.Split(base, ".")
			mi, okp := 0, true
			for _, e := range el[:len(el)-1] {
				found := false
				for _, f := range s.Msgs[mi].Fields {
					if f.Name == e && f.Kind == kMsg && f.Card == 0 {
						mi, found = f.Msg, true
					}
				}
				okp = okp && found
			}
			if !okp {
				continue
			}
			var sibs []Field
			for _, f := range s.Msgs[mi].Fields {
				if f.Name != el[len(el)-1] && strings.HasPrefix(f.Name, el[len(el)-1]) {
					sibs = append(sibs, f)
				}
			}
			if len(sibs) == 0 {
				continue
			}
			f := sibs[r.Intn(len(sibs))]
			norm := append(append([]string{}, el[:len(el)-1]...), f.Name)
			if f.Kind == kMsg && f.Card == 0 && s.Msgs[f.Msg].WKT == 0 {
				g := s.Msgs[f.Msg].Fields[r.Intn(len(s.Msgs[f.Msg].Fields))]
				norm, f = append(norm, g.Name), g
			}
			if f.Kind == kMsg && s.Msgs[f.Msg].WKT == 0 {
				continue
			}
			key = strings.Join(norm, ".")
			pth := fpath{elems: norm, norm: norm, final: f, ok: true}
			okey := oneofKey(pth)
			conflict := qUsed[key] || (okey != "" && (qOneof[okey] || usedOneof[okey]))
			for q := range qUsed {
				if strings.HasPrefix(q+".", key+".") || strings.HasPrefix(key+".", q+".") {
					conflict = true
				}
			}
			for q := range usedNorm {
				if strings.HasPrefix(q+".", key+".") || strings.HasPrefix(key+".", q+".") {
					conflict = true
				}
			}
			if bp := c.bodyPath; bp != "" && (strings.HasPrefix(bp+".", key+".") || strings.HasPrefix(key+".", bp+".")) {
				conflict = true // bound by the body after all
			}
			if conflict {
				continue
			}
			qUsed[key] = true
			if okey != "" {
				qOneof[okey] = true
			}
			if f.Card == 2 {
				key += "[" + mapKeyText(r, f.KeyKind) + "]"
			}
			vs = []string{textFor(r, s, f)}
			c.query = append(c.query, kvs{key, vs, norm})
			if f.Kind == kString && f.Card == 0 && f.Oneof == 0 && c.bodyPath != "*" {
				// an unbound single string field outside any oneof: the value must arrive verbatim
				c.must = append(c.must, vc.L{vc.Strs(norm), vs[0]})
			}
			continue
		default:
			key = r.Pick([]string{"unknown", "n.unknown", "a[b][c]", "x[", "]", "[k]", "", "n..x", "i32.x", "ri[0]", "unknown[k]",
				// a non-message field named by its JSON name, with something below it: an error, as with the proto name
				"snakeCaseName.x", "customJSON.y", "n.snakeCase.x", "snake_case_name.x"})
			base := key
			if i := strings.IndexByte(key, '['); i > 0 {
				base = key[:i] // the bracket form addresses the same field as the plain key: never both (order dependent)
			}
			if qUsed[key] || qUsed[base] {
				continue
			}
			qUsed[key], qUsed[base] = true, true
			vs = []string{r.Pick([]string{"1", "v"})}
		}
		c.query = append(c.query, kvs{key, vs, nil})
	}
	sort.Slice(c.query, func(a, b int) bool { return c.query[a].k < c.query[b].k })
	// bodies
	nb := 1
	c.stream = r.Chance(25)
	if c.stream || r.Chance(15) {
		nb = 1 + r.Intn(3)
	}
	for i := 0; i < nb; i++ {
		var node *jnode
		switch {
		case c.bodyPath == "*":
			n := jsonMsg(r, s, 0, 0, true)
			node = &n
		case bodyField != nil:
			n := jsonField(r, s, *bodyField, 0, true)
			node = &n
		default:
			if r.Bool() {
				n := jsonMsg(r, s, 0, 0, false)
				node = &n // ignored by the code when there is no body binding
			}
		}
		if node != nil && !c.stream && r.Chance(10) {
			node = nil // an empty request body
		}
		if node == nil && c.stream {
			n := jnode{kind: 5}
			node = &n
		}
		if node == nil {
			c.bodies = append(c.bodies, nil)
			c.trees = append(c.trees, vc.L{})
		} else {
			t := node.text()
			c.bodies = append(c.bodies, &t)
			if c.bodyPath == "" {
				c.trees = append(c.trees, vc.L{}) // never looked at
			} else {
				c.trees = append(c.trees, vc.L{node.tree()})
			}
		}
	}
	if c.stream && c.bodyPath == "" {
		c.stream = false // a stream decoder without a body binding never reads: per-message calls instead
	}
	return c
}

// poison registers, under the schema's full names, types with DIFFERENT definitions in the process-global registry
func poison(pkgs []string) {
	for _, pkg := range pkgs {
		fd := &descriptorpb.FileDescriptorProto{Name: proto.String("poison_" + pkg + ".proto"), Package: proto.String(pkg), Syntax: proto.String("proto3")}
		en := &descriptorpb.EnumDescriptorProto{Name: proto.String("E")}
		for i, n := range []string{"BOGUS", "ZERO", "ONE", "TWO", "NEG", "BIG", "EXTRA"} {
			en.Value = append(en.Value, &descriptorpb.EnumValueDescriptorProto{Name: proto.String(n), Number: proto.Int32(int32(i))})
		}
		fd.EnumType = []*descriptorpb.EnumDescriptorProto{en}
		for _, mn := range []string{"R", "N", "D", "M0", "M1", "M2"} {
			fd.MessageType = append(fd.MessageType, &descriptorpb.DescriptorProto{Name: proto.String(mn),
				Field: []*descriptorpb.FieldDescriptorProto{{Name: proto.String("x"), JsonName: proto.String("x"), Number: proto.Int32(1),
					Type: descriptorpb.FieldDescriptorProto_TYPE_STRING.Enum(), Label: descriptorpb.FieldDescriptorProto_LABEL_OPTIONAL.Enum()}}})
		}
		file, err := protodesc.NewFile(fd, &protoregistry.Files{})
		if err != nil {
			panic(err)
		}
		if err := protoregistry.GlobalTypes.RegisterEnum(dynamicpb.NewEnumType(file.Enums().Get(0))); err != nil {
			panic(err)
		}
		for i := 0; i < file.Messages().Len(); i++ {
			if err := protoregistry.GlobalTypes.RegisterMessage(dynamicpb.NewMessageType(file.Messages().Get(i))); err != nil {
				panic(err)
			}
		}
	}
}

// ---- end to end: the same requests through PatternRouter + TranscodedHTTPBridge; the observable is the message the
// target receives and the HTTP status ----
type e2ePool struct{ conn *vfake.Conn }

func (p *e2ePool) Get(string) (grpcadapter.ClientConn, bool) { return p.conn, true }

func (c *tcase) runE2E() vc.Val {
	pool := &e2ePool{}
	router := routing.NewPatternRouter(pool, routing.PatternRouterOpts{})
	pattern, urlPath := "/e2e", "/e2e"
	for _, p := range c.params {
		pattern += "/{" + p[0] + "}"
		urlPath += "/" + url.PathEscape(p[1])
	}
	in := bridgedesc.DynamicMessage(c.root)
	desc := &bridgedesc.Target{Name: "t", TypeResolver: c.types, Services: []bridgedesc.Service{{Name: "c04.Svc", Methods: []bridgedesc.Method{{
		RPCName: "/c04.Svc/M", Input: in, Output: in,
		Bindings: []bridgedesc.Binding{{HTTPMethod: "POST", Pattern: pattern, RequestBodyPath: c.bodyPath}}}}}}}
	wt, err := router.Watch("t")
	if err != nil {
		panic(err)
	}
	wt.UpdateDesc(desc)
	q := url.Values{}
	for _, e := range c.query {
		q[e.k] = e.vs
	}
	target := urlPath
	if len(q) > 0 {
		target += "?" + q.Encode()
	}
	var body io.Reader
	if c.bodies[0] != nil {
		body = strings.NewReader(*c.bodies[0])
	}
	conn := vfake.NewConn()
	empty, _ := proto.Marshal(dynamicpb.NewMessage(c.root))
	conn.Script = []vfake.RespItem{{Kind: vfake.KMsg, Payload: empty, NeedReqs: 1}, {Kind: vfake.KEOF}}
	pool.conn = conn
	bridge := webbridge.NewTranscodedHTTPBridge(e2eRouter{router}, webbridge.TranscodedHTTPBridgeOpts{})
	req := httptest.NewRequest("POST", target, body)
	rec := httptest.NewRecorder()
	var res vc.Val
	func() {
		defer func() {
			if r := recover(); r != nil {
				res = vc.L{vc.L{99}}
			}
		}()
		bridge.ServeHTTP(rec, req)
	}()
	if res != nil {
		return res
	}
	switch rec.Code {
	case 200:
		conn.Lock()
		sent := conn.SentBytes
		conn.Unlock()
		if len(sent) != 1 {
			return vc.L{vc.L{96, len(sent)}}
		}
		m := dynamicpb.NewMessage(c.root)
		if err := proto.Unmarshal(sent[0], m); err != nil {
			return vc.L{vc.L{95}}
		}
		return vc.L{vc.L{0, dumpMsg(m)}}
	case 400:
		return vc.L{vc.L{3}}
	case 500:
		return vc.L{vc.L{13}}
	}
	return vc.L{vc.L{rec.Code}}
}

type e2eRouter struct{ *routing.PatternRouter }

func e2ePart(w *vc.Writer, r *vc.Rand) {
	rich := richSchema("c04")
	rroot, rtypes := rich.Build("c04")
	n := vc.Scale(500, 15000)
	ok := 0
	for i := 0; i < n; i++ {
		c := genCase(r.Fork(), rich, rroot, rtypes)
		c.stream = false
		c.bodies, c.trees = c.bodies[:1], c.trees[:1]
		// path variables travel inside the URL path: values a path segment cannot carry are left out
		usable := true
		for _, p := range c.params {
			if strings.ContainsAny(p[1], "\x00") {
				usable = false
			}
		}
		if !usable {
			continue
		}
		res := c.runE2E()
		good := len(res.(vc.L)[0].(vc.L)) == 2
		if good {
			ok++
		}
		w.Case(c.input(), vc.L{res, res, res}, good)
	}
	fmt.Printf("STAT e2e \"ok=%d\"\n", ok)
}

func main() {
	w := vc.NewWriter(os.Args[1])
	defer w.Close()
	r := vc.NewRand(vc.Seed())
	if len(os.Args) > 2 && os.Args[2] == "e2e" {
		e2ePart(w, r)
		return
	}
	if len(os.Args) > 2 && os.Args[2] == "iso" {
		isoPart(w, r)
		return
	}
	if len(os.Args) > 2 && os.Args[2] == "anyelem" {
		anyElemPart(w, r)
		return
	}
	if len(os.Args) > 2 && os.Args[2] == "wktparam" {
		wktParamPart(w, r)
		return
	}
	var cases []*tcase
	rich := richSchema("c04")
	rroot, rtypes := rich.Build("c04")
	// corpus: hand-written requests that run first
	mk := func(body string, params [][2]string, query []kvs, bodyJSON *jnode) *tcase {
		c := &tcase{schema: rich, root: rroot, types: rtypes, bodyPath: body, params: params, query: query}
		if bodyJSON == nil {
			c.bodies, c.trees = []*string{nil}, vc.L{vc.L{}}
		} else {
			t := bodyJSON.text()
			c.bodies, c.trees = []*string{&t}, vc.L{vc.L{bodyJSON.tree()}}
		}
		return c
	}
	obj := func(kv ...any) *jnode {
		o := jnode{kind: 5}
		for i := 0; i < len(kv); i += 2 {
			o.keys, o.items = append(o.keys, kv[i].(string)), append(o.items, kv[i+1].(jnode))
		}
		return &o
	}
	cases = append(cases,
		// a path variable inside the body field, and a query key next to it (still inside the body field)
		mk("n", [][2]string{{"n.deep.z", "5"}}, []kvs{{"n.deep.name", []string{"fromQuery"}, []string{"n", "deep", "name"}}}, obj("deep", *obj("name", str("fromBody")))),
		mk("n", [][2]string{{"n.deep.z", "5"}}, []kvs{{"n.y", []string{"fromQuery"}, []string{"n", "y"}}}, obj("y", str("fromBody"))),
		mk("n", [][2]string{{"n.deep.z", "5"}}, []kvs{{"n.deep", []string{"x"}, []string{"n", "deep"}}}, obj("y", str("fromBody"))),
		mk("", [][2]string{{"n.deep.z", "5"}, {"n.x", "1"}}, []kvs{{"n.deep.name", []string{"q"}, nil}, {"n.deep.z", []string{"9"}, []string{"n", "deep", "z"}}}, nil),
		// two path variables that share field names at different depths (like {book.shelf.id} and {book.id}), and the same keys in the query
		mk("", [][2]string{{"n.deep.name", "fromPath1"}, {"n.name", "fromPath2"}},
			[]kvs{{"n.deep.name", []string{"fromQuery1"}, []string{"n", "deep", "name"}}, {"n.name", []string{"fromQuery2"}, []string{"n", "name"}}}, nil),
		mk("", [][2]string{{"n.deep.name", "fromPath1"}, {"n.name", "fromPath2"}, {"n2.name", "p3"}, {"n2.deep.name", "p4"}},
			[]kvs{{"n.deep.name", []string{"fromQuery1"}, []string{"n", "deep", "name"}}, {"n2.deep.name", []string{"fromQuery2"}, []string{"n2", "deep", "name"}}}, nil),
		// precedence: body < path < query on different fields, query never over body / path
		mk("s", [][2]string{{"i32", "7"}}, []kvs{{"i32", []string{"9"}, []string{"i32"}}, {"s", []string{"q"}, []string{"s"}}, {"i64", []string{"3"}, nil}}, &jnode{kind: 3, s: "fromBody"}),
		mk("*", [][2]string{{"i32", "7"}}, []kvs{{"i64", []string{"3"}, nil}}, obj("i32", num("1"), "i64", str("2"))),
		// JSON names and bracket keys in the query
		mk("", nil, []kvs{{"snakeCaseName", []string{"v"}, nil}, {"customJSON", []string{"4"}, nil}, {"msi[k]", []string{"1"}, nil}, {"n.snakeCase", []string{"2"}, nil}}, nil),
	)
	n := vc.Scale(1200, 40000)
	for i := 0; i < n; i++ {
		cases = append(cases, genCase(r.Fork(), rich, rroot, rtypes))
	}
	ns := vc.Scale(40, 600)
	for i := 0; i < ns; i++ {
		rr := r.Fork()
		s := randomSchema(rr, "c04r")
		root, types := s.Build("c04r")
		for j := 0; j < 12; j++ {
			cases = append(cases, genCase(rr.Fork(), s, root, types))
		}
	}
	clean := make([]vc.Val, len(cases))
	without := make([]vc.Val, len(cases))
	nested := 0
	for i, c := range cases {
		clean[i] = c.run()
		without[i] = clean[i]
		if c2 := c.unbound(); c2 != nil && c.bodyPath != "*" {
			without[i] = c2.run()
			nested++
		}
	}
	poison([]string{"c04", "c04r"})
	ok, errs, streams := 0, 0, 0
	for i, c := range cases {
		poisoned := c.run()
		res := clean[i].(vc.L)
		good := len(res) > 0 && len(res[0].(vc.L)) == 2
		if good {
			ok++
		} else {
			errs++
		}
		if c.stream {
			streams++
		}
		w.Case(c.input(), vc.L{clean[i], poisoned, without[i]}, good)
	}
	fmt.Printf("STAT outcomes \"ok=%d error=%d streams=%d with_bound_query_keys=%d\"\n", ok, errs, streams, nested)
}
