package main

// iso: the message a request produces (and the text a response is rendered to) must depend on the request and on the
// target's own descriptors only - not on which OTHER targets the same bridge served before.  Several targets define types
// with the same full names differently; requests carrying google.protobuf.Any values of those types go through ONE shared
// transcoder in random order, and each is compared with the same request through a transcoder of its own.

import (
	"encoding/hex"
	"fmt"
	"net/http"
	"net/url"

	"github.com/renbou/grpcbridge/bridgedesc"
	vc "github.com/renbou/grpcbridge/internal/zzverif/vcommon"
	"github.com/renbou/grpcbridge/transcoding"
	"google.golang.org/grpc/status"
	"google.golang.org/protobuf/encoding/protojson"
	"google.golang.org/protobuf/proto"
	"google.golang.org/protobuf/reflect/protodesc"
	"google.golang.org/protobuf/reflect/protoreflect"
	"google.golang.org/protobuf/reflect/protoregistry"
	"google.golang.org/protobuf/types/descriptorpb"
	"google.golang.org/protobuf/types/dynamicpb"
	"google.golang.org/protobuf/types/known/anypb"
)

type isoTarget struct {
	variant int
	types   *dynamicpb.Types
	req     protoreflect.MessageDescriptor
	payload protoreflect.MessageDescriptor // nil when the target has no such type
}

func isoField(name string, num int32, typ descriptorpb.FieldDescriptorProto_Type) *descriptorpb.FieldDescriptorProto {
	return &descriptorpb.FieldDescriptorProto{Name: proto.String(name), JsonName: proto.String(name), Number: proto.Int32(num),
		Label: descriptorpb.FieldDescriptorProto_LABEL_OPTIONAL.Enum(), Type: typ.Enum()}
}

func buildIsoTarget(variant int) *isoTarget {
	var payload *descriptorpb.DescriptorProto
	switch variant {
	case 0:
		payload = &descriptorpb.DescriptorProto{Name: proto.String("Payload"), Field: []*descriptorpb.FieldDescriptorProto{isoField("count", 1, descriptorpb.FieldDescriptorProto_TYPE_INT32)}}
	case 1:
		payload = &descriptorpb.DescriptorProto{Name: proto.String("Payload"), Field: []*descriptorpb.FieldDescriptorProto{isoField("count", 1, descriptorpb.FieldDescriptorProto_TYPE_STRING)}}
	case 2:
		payload = &descriptorpb.DescriptorProto{Name: proto.String("Payload"), Field: []*descriptorpb.FieldDescriptorProto{
			isoField("label", 1, descriptorpb.FieldDescriptorProto_TYPE_STRING), isoField("count", 2, descriptorpb.FieldDescriptorProto_TYPE_INT32)}}
	default:
		payload = &descriptorpb.DescriptorProto{Name: proto.String("Other"), Field: []*descriptorpb.FieldDescriptorProto{isoField("count", 1, descriptorpb.FieldDescriptorProto_TYPE_INT32)}}
	}
	anyF := isoField("payload", 1, descriptorpb.FieldDescriptorProto_TYPE_MESSAGE)
	anyF.TypeName = proto.String(".google.protobuf.Any")
	fdp := &descriptorpb.FileDescriptorProto{
		Name: proto.String(fmt.Sprintf("iso/v%d.proto", variant)), Package: proto.String("iso"), Syntax: proto.String("proto3"),
		Dependency: []string{"google/protobuf/any.proto"},
		MessageType: []*descriptorpb.DescriptorProto{payload,
			{Name: proto.String("Request"), Field: []*descriptorpb.FieldDescriptorProto{anyF, isoField("name", 2, descriptorpb.FieldDescriptorProto_TYPE_STRING)}}},
	}
	files := new(protoregistry.Files)
	if err := files.RegisterFile(anypb.File_google_protobuf_any_proto); err != nil {
		panic(err)
	}
	fd, err := protodesc.NewFile(fdp, files)
	if err != nil {
		panic(err)
	}
	if err := files.RegisterFile(fd); err != nil {
		panic(err)
	}
	t := &isoTarget{variant: variant, types: dynamicpb.NewTypes(files), req: fd.Messages().ByName("Request")}
	t.payload = fd.Messages().ByName("Payload")
	return t
}

var isoBodies = []string{
	`{"payload":{"@type":"type.googleapis.com/iso.Payload","count":5},"name":"a"}`,
	`{"payload":{"@type":"type.googleapis.com/iso.Payload","count":"7"},"name":"b"}`,
	`{"payload":{"@type":"type.googleapis.com/iso.Payload","count":"seven"}}`,
	`{"payload":{"@type":"type.googleapis.com/iso.Payload","label":"L","count":3}}`,
	`{"payload":{"@type":"type.googleapis.com/iso.Other","count":1},"name":"c"}`,
	`{"payload":{"@type":"type.googleapis.com/iso.Payload"},"name":"d"}`,
	`{"name":"no any at all"}`,
}

func isoRun(tr *transcoding.StandardTranscoder, t *isoTarget, body string) (reqRes, respRes vc.Val) {
	raw := &http.Request{Method: "POST", URL: &url.URL{Path: "/x"}, Header: http.Header{}}
	req := transcoding.HTTPRequest{
		Target:     &bridgedesc.Target{Name: fmt.Sprintf("t%d", t.variant), TypeResolver: t.types},
		Service:    &bridgedesc.Service{Name: "svc"},
		Method:     &bridgedesc.Method{RPCName: "/svc/M", Input: bridgedesc.DynamicMessage(t.req), Output: bridgedesc.DynamicMessage(t.req)},
		Binding:    &bridgedesc.Binding{HTTPMethod: "POST", Pattern: "/x", RequestBodyPath: "*"},
		RawRequest: raw, PathParams: map[string]string{},
	}
	reqRes, respRes = vc.L{98}, vc.L{98}
	defer func() {
		if r := recover(); r != nil {
			reqRes = vc.L{99}
		}
	}()
	in, out, err := tr.Bind(req)
	if err != nil {
		return
	}
	m := dynamicpb.NewMessage(t.req)
	if err := in.Transcode([]byte(body), m); err != nil {
		st, _ := status.FromError(err)
		reqRes = vc.L{int(st.Code())}
	} else {
		b, _ := proto.MarshalOptions{Deterministic: true}.Marshal(m)
		reqRes = vc.L{0, hex.EncodeToString(b)}
	}
	// the response direction: a message of this target carrying an Any of its own Payload type
	resp := dynamicpb.NewMessage(t.req)
	resp.Set(t.req.Fields().ByName("name"), protoreflect.ValueOfString("r"))
	if t.payload != nil {
		p := dynamicpb.NewMessage(t.payload)
		cf := t.payload.Fields().ByName("count")
		if cf.Kind() == protoreflect.StringKind {
			p.Set(cf, protoreflect.ValueOfString("nine"))
		} else {
			p.Set(cf, protoreflect.ValueOfInt32(9))
		}
		pb, _ := proto.Marshal(p)
		a := dynamicpb.NewMessage(t.req.Fields().ByName("payload").Message())
		a.Set(a.Descriptor().Fields().ByName("type_url"), protoreflect.ValueOfString("type.googleapis.com/iso.Payload"))
		a.Set(a.Descriptor().Fields().ByName("value"), protoreflect.ValueOfBytes(pb))
		resp.Set(t.req.Fields().ByName("payload"), protoreflect.ValueOfMessage(a))
	}
	text, err := out.Transcode(resp)
	if err != nil {
		respRes = vc.L{1}
	} else {
		// canonical form of the text (protojson adds random whitespace)
		var buf map[string]any
		_ = jsonUnmarshal(text, &buf)
		respRes = vc.L{0, fmt.Sprint(buf)}
	}
	return
}

func isoPart(w *vc.Writer, r *vc.Rand) {
	var targets []*isoTarget
	for v := 0; v < 4; v++ {
		targets = append(targets, buildIsoTarget(v))
	}
	own := func() *transcoding.StandardTranscoder {
		m := &transcoding.JSONMarshaler{MarshalOptions: protojson.MarshalOptions{EmitDefaultValues: true}, UnmarshalOptions: protojson.UnmarshalOptions{DiscardUnknown: true}}
		return transcoding.NewStandardTranscoder(transcoding.StandardTranscoderOpts{Marshalers: []transcoding.Marshaler{m}, DefaultMarshaler: m})
	}
	n := vc.Scale(60, 3000)
	differ := 0
	for s := 0; s < n; s++ {
		rr := r.Fork()
		// one bridge-wide transcoder per sequence: half of them the package default (what a bridge uses when nothing is configured),
		// half an explicitly configured one
		var shared *transcoding.StandardTranscoder
		if s%2 == 0 {
			shared = transcoding.NewStandardTranscoder(transcoding.StandardTranscoderOpts{})
		} else {
			shared = own()
		}
		steps := 2 + rr.Intn(4)
		for k := 0; k < steps; k++ {
			t := targets[rr.Intn(len(targets))]
			bi := rr.Intn(len(isoBodies))
			sReq, sResp := isoRun(shared, t, isoBodies[bi])
			aReq, aResp := isoRun(own(), t, isoBodies[bi])
			if fmt.Sprint(sReq) != fmt.Sprint(aReq) || fmt.Sprint(sResp) != fmt.Sprint(aResp) {
				differ++
			}
			ok := false
			if l, isL := aReq.(vc.L); isL && len(l) == 2 {
				ok = true
			}
			w.Case(vc.L{s, k, t.variant, bi}, vc.L{sReq, aReq, sResp, aResp}, ok)
		}
	}
	fmt.Printf("STAT iso \"sequences=%d differing=%d\"\n", n, differ)
}
