package main

// ws part: many client-streaming WebSocket calls at once, each sending its frames back to back (the next frame arrives
// while the previous one is still being decoded), on the transcoded WebSocket bridge and the gRPC-WebSocket bridge over a
// fake target that records what it receives.  Built with the race detector like the mixed workload; additionally every
// message the target received must be one the client sent (a recycled read buffer shows up as a damaged message even
// when the detector misses the moment).

import (
	"encoding/binary"
	"fmt"
	"net/http/httptest"
	"strings"
	"sync"
	"sync/atomic"
	"time"

	"github.com/gorilla/websocket"
	"github.com/renbou/grpcbridge/bridgelog"
	"github.com/renbou/grpcbridge/internal/bridgetest/testpb"
	vc "github.com/renbou/grpcbridge/internal/zzverif/vcommon"
	"github.com/renbou/grpcbridge/internal/zzverif/vfake"
	"github.com/renbou/grpcbridge/webbridge"
	"google.golang.org/protobuf/proto"
)

func wsStreams(w *vc.Writer, r *vc.Rand) {
	dur := time.Duration(vc.Scale(3, 60)) * time.Second
	w.Current(vc.L{"concurrent client-streaming WebSocket calls", int64(vc.Seed()), int64(dur / time.Second)})
	var calls, damaged int64
	stop := make(chan struct{})
	var wg sync.WaitGroup
	for g := 0; g < 8; g++ {
		rr := r.Fork()
		grpcws := g%2 == 1
		wg.Add(1)
		go func() {
			defer wg.Done()
			for {
				select {
				case <-stop:
					return
				default:
				}
				conn := vfake.NewConn()
				router := vfake.NewFlowRouter(conn, true, true)
				var srv *httptest.Server
				var protos []string
				if grpcws {
					srv = httptest.NewServer(webbridge.NewGRPCWebSocketBridge(router, webbridge.GRPCWebBridgeOpts{Logger: bridgelog.Discard()}))
					protos = []string{"grpc-websockets"}
				} else {
					srv = httptest.NewServer(webbridge.NewTranscodedWebSocketBridge(router, webbridge.TranscodedWebSocketBridgeOpts{}))
				}
				d := websocket.Dialer{HandshakeTimeout: 2 * time.Second, Subprotocols: protos}
				ws, _, err := d.Dial("ws"+strings.TrimPrefix(srv.URL, "http")+"/x", nil)
				sent := map[string]bool{}
				n := 10 + rr.Intn(30)
				if err == nil {
					if grpcws {
						ws.WriteMessage(websocket.BinaryMessage, []byte("content-type: application/grpc-web+proto\r\n"))
					}
					for i := 0; i < n; i++ {
						text := fmt.Sprintf("m%d-%s", i, strings.Repeat(string(rune('a'+i%26)), 1+rr.Intn(200)))
						sent[text] = true
						if grpcws {
							pb, _ := proto.Marshal(&testpb.FlowMessage{Message: text})
							frame := make([]byte, 6+len(pb))
							binary.BigEndian.PutUint32(frame[2:], uint32(len(pb)))
							copy(frame[6:], pb)
							ws.WriteMessage(websocket.BinaryMessage, frame)
						} else {
							ws.WriteMessage(websocket.TextMessage, []byte(`{"message":"`+text+`"}`))
						}
					}
					// wait until the target has everything (or a second has passed), then go away
					deadline := time.Now().Add(time.Second)
					for time.Now().Before(deadline) {
						conn.Lock()
						got := len(conn.SentBytes)
						conn.Unlock()
						if got >= n {
							break
						}
						time.Sleep(time.Millisecond)
					}
					ws.Close()
				}
				srv.Close()
				conn.Lock()
				for _, sb := range conn.SentBytes {
					fm := &testpb.FlowMessage{}
					if proto.Unmarshal(sb, fm) != nil || !sent[fm.GetMessage()] {
						atomic.AddInt64(&damaged, 1)
					}
				}
				conn.Unlock()
				atomic.AddInt64(&calls, 1)
			}
		}()
	}
	time.Sleep(dur)
	close(stop)
	wg.Wait()
	fmt.Printf("STAT ws \"calls=%d damaged=%d seconds=%d\"\n", calls, damaged, dur/time.Second)
	verdict := 0
	if damaged > 0 {
		verdict = 3
	}
	w.Case(vc.L{int64(vc.Seed()), int64(dur / time.Second)}, vc.L{verdict, calls}, calls > 20)
}
