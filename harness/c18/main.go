// c18: a mixed concurrent workload on a complete bridge (ReflectionRouter with polling, GRPCProxy, WebBridge over a real
// gRPC target on bufconn), built with the race detector.  A data race makes the process exit with the race detector's
// exit code, a tripped concurrent-use guard (or any other panic) crashes it; both name this workload as the failing input.
package main

import (
	"bytes"
	"context"
	"encoding/binary"
	"fmt"
	"io"
	"net"
	"net/http"
	"net/http/httptest"
	"os"
	"strings"
	"sync"
	"sync/atomic"
	"time"

	"github.com/gorilla/websocket"
	grpcbridge "github.com/renbou/grpcbridge"
	"github.com/renbou/grpcbridge/bridgelog"
	"github.com/renbou/grpcbridge/internal/bridgetest/testpb"
	vc "github.com/renbou/grpcbridge/internal/zzverif/vcommon"
	"google.golang.org/grpc"
	"google.golang.org/grpc/credentials/insecure"
	"google.golang.org/grpc/metadata"
	"google.golang.org/grpc/reflection"
	"google.golang.org/grpc/test/bufconn"
	"google.golang.org/protobuf/proto"
)

const dialTarget = "passthrough:///bridgetest"

func main() {
	w := vc.NewWriter(os.Args[1])
	defer w.Close()
	seed := vc.Seed()
	r := vc.NewRand(seed)
	if len(os.Args) > 2 && os.Args[2] == "ws" {
		wsStreams(w, r)
		return
	}
	if len(os.Args) > 2 && os.Args[2] == "tick" {
		tickPart(w, r)
		return
	}
	dur := time.Duration(vc.Scale(6, 150)) * time.Second
	w.Current(vc.L{"mixed concurrent workload", int64(seed), int64(dur / time.Second)})

	// the target
	tl := bufconn.Listen(1 << 20)
	ts := grpc.NewServer()
	testpb.RegisterTestServiceServer(ts, testpb.NewTestService())
	reflection.Register(ts)
	go ts.Serve(tl)
	defer ts.Stop()

	router := grpcbridge.NewReflectionRouter(
		grpcbridge.WithLogger(bridgelog.Discard()),
		grpcbridge.WithDialOpts(grpc.WithTransportCredentials(insecure.NewCredentials()),
			grpc.WithContextDialer(func(ctx context.Context, s string) (net.Conn, error) { return tl.Dial() })),
		grpcbridge.WithConnFunc(grpc.NewClient),
		grpcbridge.WithReflectionPollInterval(3*time.Millisecond), // polls run all the time, concurrently with everything else
	)
	if ok, err := router.Add("main", dialTarget); err != nil || !ok {
		panic(fmt.Sprint("Add(main): ", ok, err))
	}
	time.Sleep(100 * time.Millisecond)
	proxy := grpcbridge.NewGRPCProxy(router, grpcbridge.WithLogger(bridgelog.Discard()))
	bridge := grpcbridge.NewWebBridge(router, grpcbridge.WithLogger(bridgelog.Discard()))
	bl := bufconn.Listen(1 << 20)
	gs := grpc.NewServer(proxy.AsServerOption())
	go gs.Serve(bl)
	defer gs.Stop()
	hs := httptest.NewServer(bridge)
	defer hs.Close()
	gc, err := grpc.NewClient(dialTarget, grpc.WithTransportCredentials(insecure.NewCredentials()),
		grpc.WithContextDialer(func(ctx context.Context, s string) (net.Conn, error) { return bl.Dial() }))
	if err != nil {
		panic(err)
	}
	defer gc.Close()
	client := testpb.NewTestServiceClient(gc)
	hc := hs.Client()

	var ops [8]int64
	stop := make(chan struct{})
	var wg sync.WaitGroup
	spawn := func(n int, f func(rr *vc.Rand)) {
		for i := 0; i < n; i++ {
			rr := r.Fork()
			wg.Add(1)
			go func() {
				defer wg.Done()
				for {
					select {
					case <-stop:
						return
					default:
						f(rr)
					}
				}
			}()
		}
	}
	// request metadata on most calls: a deadline, gateway-prefixed and plain headers (the filters and the deadline handling run
	// on every call; with the default allow-lists nothing is forwarded, which is exactly when shared state is tempting)
	hdrs := func(rr *vc.Rand, set func(k, v string)) {
		if rr.Chance(70) {
			set("Grpc-Timeout", rr.Pick([]string{"5S", "900m", "2000000u", "1M"}))
		}
		if rr.Chance(40) {
			set("Grpc-Metadata-X-Req", "v")
		}
		if rr.Chance(40) {
			set("Authorization", "Bearer t")
		}
		if rr.Chance(20) {
			set("X-Bin-Bin", "QUJD")
		}
	}
	body := `{"scalars":{"stringValue":"s","int32Value":5},"nonScalars":{"str2strMap":{"k":"v"}}}`
	// transcoded HTTP
	spawn(4, func(rr *vc.Rand) {
		// (the test service's UnaryBound / UnaryCombined handlers record their request in a shared field: not used here)
		url := rr.Pick([]string{"/service/echo", "/service/echo?scalars.int32Value=3", "/service/bad-response-path", "/nope", "/flow/server", "/service/echo"})
		b := body
		if rr.Chance(10) {
			b = `{"scalars":{"int32Value":"not a number"}}`
		}
		method := "POST"
		if url == "/flow/server" {
			method, b = "GET", ""
		}
		req, _ := http.NewRequest(method, hs.URL+url, strings.NewReader(b))
		hdrs(rr, req.Header.Set)
		if resp, err := hc.Do(req); err == nil {
			io.Copy(io.Discard, resp.Body)
			resp.Body.Close()
		}
		atomic.AddInt64(&ops[0], 1)
	})
	// gRPC-Web
	spawn(2, func(rr *vc.Rand) {
		msg, _ := proto.Marshal(&testpb.Combined{Scalars: &testpb.Scalars{StringValue: "w"}})
		frame := make([]byte, 5+len(msg))
		binary.BigEndian.PutUint32(frame[1:], uint32(len(msg)))
		copy(frame[5:], msg)
		req, _ := http.NewRequest("POST", hs.URL+"/"+testpb.TestService_ServiceDesc.ServiceName+"/Echo", bytes.NewReader(frame))
		req.Header.Set("Content-Type", "application/grpc-web+proto")
		hdrs(rr, req.Header.Set)
		if resp, err := hc.Do(req); err == nil {
			io.Copy(io.Discard, resp.Body)
			resp.Body.Close()
		}
		atomic.AddInt64(&ops[1], 1)
	})
	// WebSockets (transcoded and gRPC-WebSocket)
	spawn(2, func(rr *vc.Rand) {
		var protos []string
		path := "/flow/server"
		if rr.Bool() {
			protos, path = []string{"grpc-websockets"}, "/"+testpb.TestService_ServiceDesc.ServiceName+"/Echo"
		}
		d := websocket.Dialer{HandshakeTimeout: 2 * time.Second, Subprotocols: protos}
		dh := http.Header{}
		first := "content-type: application/grpc-web+proto\r\n"
		hdrs(rr, func(k, v string) {
			dh.Set(k, v)
			first += strings.ToLower(k) + ": " + v + "\r\n"
		})
		ws, _, err := d.Dial("ws"+strings.TrimPrefix(hs.URL, "http")+path, dh)
		if err == nil {
			ws.WriteMessage(websocket.BinaryMessage, []byte(first))
			ws.WriteMessage(websocket.BinaryMessage, []byte{0, 0, 0, 0, 0, 0})
			if rr.Bool() {
				ws.WriteMessage(websocket.BinaryMessage, []byte{1})
			}
			ws.SetReadDeadline(time.Now().Add(200 * time.Millisecond))
			for {
				if _, _, err := ws.ReadMessage(); err != nil {
					break
				}
			}
			ws.Close()
		}
		atomic.AddInt64(&ops[2], 1)
	})
	// gRPC through the proxy: unary and streaming
	spawn(3, func(rr *vc.Rand) {
		ctx, cancel := context.WithTimeout(context.Background(), time.Second)
		defer cancel()
		if rr.Chance(50) {
			ctx = metadata.AppendToOutgoingContext(ctx, "x-req", "v", "authorization", "Bearer t")
		}
		switch rr.Intn(3) {
		case 0:
			client.Echo(ctx, &testpb.Combined{Scalars: &testpb.Scalars{StringValue: "g"}})
		case 1:
			if st, err := client.BiDiFlow(ctx); err == nil {
				st.Send(&testpb.FlowMessage{})
				st.CloseSend()
				st.Recv()
			}
		default:
			client.UnaryUnbound(ctx, &testpb.Scalars{Int32Value: 1})
		}
		atomic.AddInt64(&ops[3], 1)
	})
	// target additions and removals, three goroutines fighting over the same names - "main" included, so that the
	// connection serving the calls in flight is closed under them and the services are handed over between targets
	spawn(3, func(rr *vc.Rand) {
		name := rr.Pick([]string{"t2", "t3", "main", "main"})
		if rr.Bool() {
			router.Add(name, dialTarget)
		} else {
			router.Remove(name)
		}
		atomic.AddInt64(&ops[4], 1)
		time.Sleep(time.Duration(rr.Intn(3)) * time.Millisecond)
	})
	time.Sleep(dur)
	close(stop)
	wg.Wait()
	router.Remove("t2")
	router.Remove("t3")
	router.Remove("main")
	total := int64(0)
	for _, o := range ops {
		total += o
	}
	fmt.Printf("STAT ops \"http=%d grpcweb=%d ws=%d grpc=%d addremove=%d seconds=%d\"\n", ops[0], ops[1], ops[2], ops[3], ops[4], dur/time.Second)
	w.Case(vc.L{int64(seed), int64(dur / time.Second)}, vc.L{0, total}, total > 100)
}
