package main

// tick: the one interleaving of the reflection resolver that the mixed workload cannot produce, because the poll interval has
// a floor of one second and the window is a few instructions wide: a ResolveNow caller that has LOADED the notify function
// but not yet called it while the interval timer fires and the next poll starts.  The yield hook of the verif build
// (resolver:resolvenow:loaded) holds the first caller for 1.5 s - by sleeping, which creates no happens-before edge that the
// real program would not have - the scripted reflection server holds the timer's poll open, and a second caller arrives
// while it is.  Whatever the poller writes on the timer branch without synchronisation is then read by the first caller
// (race detector), and a notify function that fires twice on one channel panics.

import (
	"sync/atomic"
	"time"

	"github.com/renbou/grpcbridge/bridgedesc"
	vc "github.com/renbou/grpcbridge/internal/zzverif/vcommon"
	"github.com/renbou/grpcbridge/internal/zzverif/vrefl"
	"github.com/renbou/grpcbridge/reflection"
)

type tickWatcher struct{ updates, errs int64 }

func (t *tickWatcher) UpdateDesc(*bridgedesc.Target) { atomic.AddInt64(&t.updates, 1) }
func (t *tickWatcher) ReportError(error)             { atomic.AddInt64(&t.errs, 1) }

func tickPart(w *vc.Writer, r *vc.Rand) {
	w.Current(vc.L{"ResolveNow loaded before, called after the interval tick", int64(vc.Seed())})
	srv := &vrefl.Server{V1: true, Alpha: true, FailStep: -1}
	srv.Files = map[string]vrefl.File{"api.proto": {Name: "api.proto", Package: "pkg", Messages: []string{"Req", "Resp"},
		Services: []vrefl.Service{{Name: "A", Methods: []vrefl.Method{{Name: "Get", In: "pkg.Req", Out: "pkg.Resp"}}}}}}
	srv.Listed = []string{"pkg.A"}
	var arrivals int64
	reflection.VerifYieldHook = func(point string) {
		if point == "resolver:resolvenow:loaded" && atomic.AddInt64(&arrivals, 1) == 1 {
			time.Sleep(1500 * time.Millisecond)
		}
	}
	watcher := &tickWatcher{}
	rb := reflection.NewResolverBuilder(&vrefl.Pool{S: srv}, reflection.ResolverOpts{PollInterval: time.Second, ReqTimeout: 2 * time.Second})
	res := rb.Build("t", watcher)
	// the first caller: loads the notify function at once and sits on it across the tick
	done := make(chan struct{})
	go func() {
		res.ResolveNow()
		close(done)
	}()
	// the first poll is over within milliseconds; every later one is held open at ListServices until its request times out
	time.Sleep(300 * time.Millisecond)
	srv.Mu.Lock()
	srv.FailStep, srv.Hang = 1, true
	srv.Mu.Unlock()
	time.Sleep(1700 * time.Millisecond) // t = 2.0 s: the tick's poll has been open for about a second, the first caller fired at 1.5 s
	res.ResolveNow()
	res.ResolveNow()
	<-done
	srv.Mu.Lock()
	srv.FailStep, srv.Hang = -1, false
	srv.Mu.Unlock()
	res.Close()
	w.Case(vc.L{int64(vc.Seed())}, vc.L{0, atomic.LoadInt64(&watcher.updates) + atomic.LoadInt64(&watcher.errs) + 200}, true)
	_ = r
}
