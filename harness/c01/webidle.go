package main

// web_idle: the context-awareness of the web adapters, which the progress theorem of C02 takes as a hypothesis, checked on
// the real handlers: a client that is idle on an open call (it has sent nothing yet, or everything it will ever send)
// while the target is silent, and then (a) goes away, or (b) the call's grpc-timeout expires.  The handler must return
// promptly in both cases, and in (b) the client must be told DeadlineExceeded.

import (
	"context"
	"fmt"
	"io"
	"net/http"
	"net/http/httptest"
	"os"
	"strings"
	"sync/atomic"
	"time"

	"github.com/gorilla/websocket"
	"github.com/renbou/grpcbridge/bridgelog"
	vc "github.com/renbou/grpcbridge/internal/zzverif/vcommon"
	"github.com/renbou/grpcbridge/internal/zzverif/vfake"
	"github.com/renbou/grpcbridge/webbridge"
	"google.golang.org/grpc/codes"
	"google.golang.org/grpc/status"
)

type activeHandler struct {
	h      http.Handler
	active int32
}

func (a *activeHandler) ServeHTTP(w http.ResponseWriter, r *http.Request) {
	atomic.AddInt32(&a.active, 1)
	defer atomic.AddInt32(&a.active, -1)
	a.h.ServeHTTP(w, r)
}

func (a *activeHandler) waitIdle(d time.Duration) bool {
	deadline := time.Now().Add(d)
	for time.Now().Before(deadline) {
		if atomic.LoadInt32(&a.active) == 0 {
			return true
		}
		time.Sleep(time.Millisecond)
	}
	return false
}

// entry: 0 transcoded WebSocket, 1 gRPC-WebSocket, 2 gRPC-Web over HTTP with an unfinished request body ;
// how: 0 client hangs up, 1 deadline, 2 the target ends the call with PermissionDenied ; sent: messages the client sends
// before going idle (0 or 1)
func webIdleCase(entry, how, sent int, cs, ss bool) vc.Val {
	conn := vfake.NewConn() // a silent target: no scripted response at all
	if how == 2 {
		// ... or one that ends the call with a status of its own, once it has the client's messages, while the client is idle
		conn.Script = []vfake.RespItem{{NeedReqs: sent, Kind: vfake.KErr, Status: status.New(codes.PermissionDenied, "target says no")}}
	}
	router := vfake.NewFlowRouter(conn, cs, ss)
	if entry == 2 {
		return grpcWebIdle(conn, router, how, sent)
	}
	var h http.Handler
	var protos []string
	path := "/x"
	if entry == 0 {
		h = webbridge.NewTranscodedWebSocketBridge(router, webbridge.TranscodedWebSocketBridgeOpts{Logger: bridgelog.Discard()})
	} else {
		h = webbridge.NewGRPCWebSocketBridge(router, webbridge.GRPCWebBridgeOpts{Logger: bridgelog.Discard()})
		protos = []string{"grpc-websockets"}
		path = "/pkg.Svc/Method"
	}
	ah := &activeHandler{h: h}
	srv := httptest.NewServer(ah)
	defer srv.Close()
	url := "ws" + strings.TrimPrefix(srv.URL, "http") + path
	hdr := http.Header{}
	if how == 1 && entry == 0 {
		hdr.Set("Grpc-Timeout", "300m")
	}
	d := websocket.Dialer{HandshakeTimeout: 3 * time.Second, Subprotocols: protos}
	ws, _, err := d.Dial(url, hdr)
	if err != nil {
		return vc.L{97, 0}
	}
	if entry == 1 {
		md := "content-type: application/grpc-web+proto\r\n"
		if how == 1 {
			md += "grpc-timeout: 300m\r\n"
		}
		ws.WriteMessage(websocket.BinaryMessage, []byte(md))
	}
	for i := 0; i < sent; i++ {
		if entry == 0 {
			ws.WriteMessage(websocket.TextMessage, []byte(`{"message":"m"}`))
		} else {
			p := vfake.Flow("m")
			frame := append([]byte{0, 0, 0, 0, 0, byte(len(p))}, p...)
			ws.WriteMessage(websocket.BinaryMessage, frame)
		}
	}
	time.Sleep(30 * time.Millisecond) // let the call reach its idle state
	code := 0
	start := time.Now()
	if how == 0 {
		ws.UnderlyingConn().Close() // the client disappears without a word
	} else {
		// how 1: wait for the deadline to strike ; how 2: the target has already ended the call
		ws.SetReadDeadline(time.Now().Add(2 * time.Second))
		for {
			_, data, err := ws.ReadMessage()
			if err != nil {
				if os.Getenv("VERIF_DEBUG") != "" {
					fmt.Fprintf(os.Stderr, "web_idle entry=%d how=%d sent=%d: read ended with %v\n", entry, how, sent, err)
				}
				if ce, ok := err.(*websocket.CloseError); ok && code == 0 {
					code = ce.Code // (a status trailer seen before the close frame is what counts)
				}
				break
			}
			if s := grpcStatusOf(data); s >= 0 {
				code = 4000 + s
			}
		}
		ws.Close()
	}
	returned := ah.waitIdle(1500 * time.Millisecond)
	elapsed := time.Since(start)
	conn.Release()
	r := 0
	if !returned {
		r = 1
	}
	_ = elapsed
	return vc.L{r, code}
}

// grpcWebIdle: gRPC-Web over plain HTTP with a request body that stays open (the client has sent `sent` messages and then
// nothing, without finishing the body) - the handler is driven directly with a blocking body reader
func grpcWebIdle(conn *vfake.Conn, router *vfake.Router, how, sent int) vc.Val {
	b := webbridge.NewGRPCWebBridge(router, webbridge.GRPCWebBridgeOpts{Logger: bridgelog.Discard()})
	pr, pw := io.Pipe()
	ctx, cancel := context.WithCancel(context.Background())
	defer cancel()
	req := httptest.NewRequest("POST", "/pkg.Svc/Method", pr).WithContext(ctx)
	req.Header.Set("Content-Type", "application/grpc-web+proto")
	if how == 1 {
		req.Header.Set("Grpc-Timeout", "300m")
	}
	rec := httptest.NewRecorder()
	done := make(chan struct{})
	go func() { b.ServeHTTP(rec, req); close(done) }()
	go func() {
		for i := 0; i < sent; i++ {
			p := vfake.Flow("m")
			pw.Write(append([]byte{0, 0, 0, 0, byte(len(p))}, p...))
		}
	}()
	time.Sleep(30 * time.Millisecond)
	if how == 0 {
		cancel() // net/http cancels the request context when the client goes away
	}
	stuck := 0
	select {
	case <-done:
	case <-time.After(1500 * time.Millisecond):
		stuck = 1
	}
	pw.CloseWithError(io.ErrClosedPipe) // release whatever still reads the body
	conn.Release()
	code := 0
	if stuck == 0 {
		data := rec.Body.Bytes()
		for len(data) >= 5 {
			n := int(data[1])<<24 | int(data[2])<<16 | int(data[3])<<8 | int(data[4])
			if len(data) < 5+n {
				break
			}
			if s := grpcStatusOf(data[:5+n]); s >= 0 {
				code = 4000 + s
			}
			data = data[5+n:]
		}
	}
	return vc.L{stuck, code}
}

func grpcStatusOf(frame []byte) int {
	if len(frame) < 5 || frame[0]&0x80 == 0 {
		return -1
	}
	for _, line := range strings.Split(string(frame[5:]), "\r\n") {
		if v, ok := strings.CutPrefix(strings.ToLower(line), "grpc-status:"); ok {
			var s int
			fmt.Sscanf(strings.TrimSpace(v), "%d", &s)
			return s
		}
	}
	return -1
}

func webIdlePart(w *vc.Writer, r *vc.Rand) {
	n := vc.Scale(3, 40)
	for rep := 0; rep < n; rep++ {
		for entry := 0; entry < 3; entry++ {
			for how := 0; how < 3; how++ {
				for sent := 0; sent < 2; sent++ {
					for _, kind := range [][2]bool{{true, true}, {true, false}, {false, true}, {false, false}} {
						if how == 2 && !kind[0] && sent == 0 {
							continue // a unary-request call contacts the target only once the request has arrived
						}
						res := webIdleCase(entry, how, sent, kind[0], kind[1])
						w.Case(vc.L{entry, how, sent, kind[0], kind[1]}, res, true)
					}
				}
			}
		}
	}
}
