package main

import "io"

func eofErr() error { return io.EOF }
