package main

// bytes: "byte-for-byte" through the real ServiceRouter and GRPCProxy.  The description the router holds LISTS the called
// methods with their real message types, the client (raw codec) sends valid but non-canonical encodings - fields explicitly
// set to their default, fields out of order, a singular field given twice, unknown fields, an empty message - and the scripted
// target answers with the same kind of payloads.  What the target received and what the client received must be the bytes
// that were sent, in order.
// In a third of the calls the target ends with a non-OK status that carries a message (non-ASCII included) and details;
// the client must receive that status: code, message and details (compared as the bytes of the status proto).
// input ( method requests responses final-status ) ; impl ( received-by-target received-by-client final-status )

import (
	"context"
	"fmt"
	"io"
	"net"
	"time"

	grpcbridge "github.com/renbou/grpcbridge"
	"github.com/renbou/grpcbridge/grpcadapter"
	"github.com/renbou/grpcbridge/internal/bridgetest/testpb"
	vc "github.com/renbou/grpcbridge/internal/zzverif/vcommon"
	"github.com/renbou/grpcbridge/internal/zzverif/vfake"
	"github.com/renbou/grpcbridge/routing"
	"google.golang.org/grpc"
	"google.golang.org/grpc/codes"
	"google.golang.org/grpc/credentials/insecure"
	"google.golang.org/grpc/status"
	"google.golang.org/protobuf/proto"
	"google.golang.org/grpc/test/bufconn"
)

type rawCodec struct{}

func (rawCodec) Marshal(v any) ([]byte, error) { return *(v.(*[]byte)), nil }
func (rawCodec) Unmarshal(d []byte, v any) error {
	*(v.(*[]byte)) = append([]byte{}, d...)
	return nil
}
func (rawCodec) Name() string { return "proto" }

type onePool struct{ c grpcadapter.ClientConn }

func (p onePool) Get(string) (grpcadapter.ClientConn, bool) { return p.c, true }

// FlowMessage { string message = 1; } - valid encodings that a decode / re-encode round does not reproduce
var rawPayloads = [][]byte{
	{},                                   // empty
	{0x0a, 0x01, 'a'},                    // canonical
	{0x0a, 0x00},                         // the default value, written out
	{0x0a, 0x01, 'a', 0x0a, 0x01, 'b'},   // a singular field twice (the last one counts)
	{0x78, 0x01, 0x0a, 0x01, 'a'},        // an unknown field (15, varint) before a known one
	{0x0a, 0x01, 'a', 0x78, 0x01},        // ... and after
	{0x78, 0x81, 0x00},                   // an unknown varint in a non-minimal encoding
	{0x7a, 0x02, 0x08, 0x00},             // an unknown length-delimited field
	{0x0a, 0x81, 0x00, 'z'},              // a non-minimal length prefix
	{0x0a, 0x02, 0xc3, 0xa9, 0x78, 0x00}, // non-ASCII text, unknown field with value zero
}

func bytesPart(w *vc.Writer, r *vc.Rand) {
	n := vc.Scale(60, 1500)
	for i := 0; i < n; i++ {
		rr := r.Fork()
		name := []string{"BiDiFlow", "ClientFlow", "ServerFlow", "UnaryFlow"}[i%4]
		cs, ss := name == "BiDiFlow" || name == "ClientFlow", name == "BiDiFlow" || name == "ServerFlow"
		nreq, nresp := 1, 1
		if cs {
			nreq = rr.Intn(4)
		}
		if ss {
			nresp = rr.Intn(4)
		}
		var reqs, resps [][]byte
		conn := vfake.NewConn()
		for j := 0; j < nreq; j++ {
			reqs = append(reqs, rawPayloads[rr.Intn(len(rawPayloads))])
		}
		for j := 0; j < nresp; j++ {
			p := rawPayloads[rr.Intn(len(rawPayloads))]
			resps = append(resps, p)
			conn.Script = append(conn.Script, vfake.RespItem{Kind: vfake.KMsg, Payload: p, NeedReqs: nreq, NeedHalfClose: true})
		}
		var wantStatus []byte
		if rr.Intn(3) == 0 {
			st := status.New(codes.Code(1+rr.Intn(16)), rr.Pick([]string{"target says no", "", "ünïcode ✓ %d", "line\nbreak"}))
			for j := 0; j < rr.Intn(3); j++ {
				if st2, err := st.WithDetails(&testpb.FlowMessage{Message: fmt.Sprint("detail ", j)}); err == nil {
					st = st2
				}
			}
			wantStatus, _ = proto.MarshalOptions{Deterministic: true}.Marshal(st.Proto())
			conn.Script = append(conn.Script, vfake.RespItem{Kind: vfake.KErr, Status: st, NeedReqs: nreq, NeedHalfClose: true})
		} else {
			conn.Script = append(conn.Script, vfake.RespItem{Kind: vfake.KEOF, NeedReqs: nreq, NeedHalfClose: true})
		}
		in := vc.L{name, bytesVal(reqs), bytesVal(resps), append([]byte{}, wantStatus...)}
		w.Current(in)

		sr := routing.NewServiceRouter(onePool{conn}, routing.ServiceRouterOpts{})
		watcher, err := sr.Watch(testpb.TestServiceDesc.Name)
		if err != nil {
			panic(err)
		}
		watcher.UpdateDesc(testpb.TestServiceDesc)
		proxy := grpcbridge.NewGRPCProxy(sr)
		lis := bufconn.Listen(1 << 16)
		srv := grpc.NewServer(proxy.AsServerOption())
		go srv.Serve(lis)
		cc, err := grpc.NewClient("passthrough:///b", grpc.WithContextDialer(func(ctx context.Context, _ string) (net.Conn, error) { return lis.DialContext(ctx) }),
			grpc.WithTransportCredentials(insecure.NewCredentials()))
		if err != nil {
			panic(err)
		}
		ctx, cancel := context.WithTimeout(context.Background(), 3*time.Second)
		gotStatus := []byte("no status")
		var got [][]byte
		stream, err := cc.NewStream(ctx, &grpc.StreamDesc{ClientStreams: true, ServerStreams: true},
			"/"+string(testpb.TestServiceDesc.Services[0].Name)+"/"+name, grpc.ForceCodec(rawCodec{}))
		if err == nil {
			for _, p := range reqs {
				p := p
				if err = stream.SendMsg(&p); err != nil {
					break
				}
			}
			stream.CloseSend()
			for err == nil {
				var b []byte
				if err = stream.RecvMsg(&b); err == nil {
					got = append(got, b)
				}
			}
		}
		if err == io.EOF {
			gotStatus = []byte{}
		} else if err != nil {
			gotStatus, _ = proto.MarshalOptions{Deterministic: true}.Marshal(status.Convert(err).Proto())
		}
		cancel()
		cc.Close()
		srv.Stop()
		watcher.Close()
		conn.Lock()
		seen := append([][]byte{}, conn.SentBytes...)
		conn.Unlock()
		w.Case(in, vc.L{bytesVal(seen), bytesVal(got), gotStatus}, nreq+nresp > 1)
	}
}

func bytesVal(l [][]byte) vc.Val {
	out := vc.L{}
	for _, b := range l {
		out = append(out, append([]byte{}, b...))
	}
	return out
}
