// c01: the real ProxyForwarder.Forward (and grpcbridge.Forwarder) driven by scripted fake streams under perturbed
// schedules; serves C01 (messages and status), C02 (termination and cleanup) and C12 (deadline enforcement).
package main

import (
	"context"
	"fmt"
	"os"
	"runtime"
	"strconv"
	"sync"
	"sync/atomic"
	"time"

	grpcbridge "github.com/renbou/grpcbridge"
	"github.com/renbou/grpcbridge/grpcadapter"
	"github.com/renbou/grpcbridge/internal/bridgetest/testpb"
	vc "github.com/renbou/grpcbridge/internal/zzverif/vcommon"
	"github.com/renbou/grpcbridge/internal/zzverif/vfake"
	"google.golang.org/grpc/codes"
	"google.golang.org/grpc/status"
	"google.golang.org/protobuf/proto"
)

// fireCtx is a context whose error the harness sets (Canceled or DeadlineExceeded).
type fireCtx struct {
	context.Context
	mu   sync.Mutex
	done chan struct{}
	err  error
}

func newFireCtx() *fireCtx               { return &fireCtx{Context: context.Background(), done: make(chan struct{})} }
func (c *fireCtx) Done() <-chan struct{} { return c.done }
func (c *fireCtx) Err() error {
	c.mu.Lock()
	defer c.mu.Unlock()
	return c.err
}
func (c *fireCtx) fire(err error) {
	c.mu.Lock()
	defer c.mu.Unlock()
	if c.err == nil {
		c.err = err
		close(c.done)
	}
}
func (c *fireCtx) Deadline() (time.Time, bool) { return time.Time{}, false }

type scriptT struct {
	cs, ss      bool
	inRecv      [][2]int // kind, value
	inSendFail  []int    // k, code or empty
	open        []int    // empty ok, [-1] block, [code]
	outSendFail []int    // k, code(-1 eof)
	outRecv     [][4]int // need, hc, kind, value
	ctxKind     int
	inAware     bool
	outAware    bool
}

func (s scriptT) val() vc.Val {
	ir := vc.L{}
	for _, it := range s.inRecv {
		ir = append(ir, vc.L{it[0], it[1]})
	}
	or := vc.L{}
	for _, it := range s.outRecv {
		or = append(or, vc.L{it[0], it[1] == 1, it[2], it[3]})
	}
	ints := func(a []int) vc.Val {
		out := vc.L{}
		for _, x := range a {
			out = append(out, x)
		}
		return out
	}
	return vc.L{s.cs, s.ss, ir, ints(s.inSendFail), ints(s.open), ints(s.outSendFail), or, s.ctxKind, s.inAware, s.outAware}
}

var errCodes = []int{3, 5, 7, 9, 13, 14, 16}

func gen(r *vc.Rand) scriptT {
	s := scriptT{cs: r.Bool(), ss: r.Bool(), inAware: true, outAware: true}
	id := 100
	nIn := r.Intn(4)
	if !s.cs {
		nIn = r.Intn(2)
		if r.Chance(70) {
			nIn = 1
		}
	}
	for i := 0; i < nIn; i++ {
		s.inRecv = append(s.inRecv, [2]int{0, id})
		id++
	}
	switch k := r.Intn(10); {
	case k < 6:
		s.inRecv = append(s.inRecv, [2]int{1, 0})
	case k < 7:
		s.inRecv = append(s.inRecv, [2]int{2, errCodes[r.Intn(len(errCodes))]})
	}
	if r.Chance(8) {
		s.inSendFail = []int{r.Intn(3), errCodes[r.Intn(len(errCodes))]}
	}
	switch k := r.Intn(20); {
	case k == 0:
		s.open = []int{errCodes[r.Intn(len(errCodes))]}
	case k == 1:
		s.open = []int{-1}
	}
	if r.Chance(10) {
		c := errCodes[r.Intn(len(errCodes))]
		if r.Bool() {
			c = -1
		}
		s.outSendFail = []int{r.Intn(3), c}
	}
	nOut := r.Intn(4)
	rid := 200
	for i := 0; i < nOut; i++ {
		need := 0
		if r.Chance(50) {
			need = r.Intn(nIn + 1)
		}
		hc := 0
		if r.Chance(25) {
			hc = 1
		}
		s.outRecv = append(s.outRecv, [4]int{need, hc, 0, rid})
		rid++
	}
	switch k := r.Intn(10); {
	case k < 5:
		hc := 0
		if r.Chance(50) {
			hc = 1
		}
		s.outRecv = append(s.outRecv, [4]int{0, hc, 1, 0})
	case k < 8:
		s.outRecv = append(s.outRecv, [4]int{0, 0, 2, errCodes[r.Intn(len(errCodes))]})
	}
	s.ctxKind = 0
	if r.Chance(45) {
		s.ctxKind = 1 + r.Intn(2)
	}
	if s.ctxKind == 0 && r.Chance(97) {
		// without a context event the call can only end through the target: give it a reachable terminal item
		hasEOF := false
		for _, it := range s.inRecv {
			if it[0] == 1 {
				hasEOF = true
			}
		}
		last := len(s.outRecv) - 1
		if last < 0 || s.outRecv[last][2] == 0 {
			s.outRecv = append(s.outRecv, [4]int{0, 0, 1, 0})
		}
		for i := range s.outRecv {
			if len(s.outSendFail) == 2 || !s.cs {
				if s.outRecv[i][0] > 1 || len(s.outSendFail) == 2 {
					s.outRecv[i][0] = 0
				}
			}
			if s.cs && (!hasEOF || len(s.outSendFail) == 2) {
				s.outRecv[i][1] = 0
			}
		}
		if len(s.open) == 1 && s.open[0] == -1 {
			s.open = nil
		}
	}
	return s
}

func flowMsg(id int) []byte { return vfake.Flow(strconv.Itoa(id)) }

func idsOf(msgs []proto.Message) vc.Val {
	out := vc.L{}
	for _, m := range msgs {
		// contents are read only now, at the end of the call: a re-used message buffer shows up as a wrong id
		b, merr := proto.Marshal(m)
		fm := &testpb.FlowMessage{}
		if merr != nil || proto.Unmarshal(b, fm) != nil {
			out = append(out, -7)
			continue
		}
		n, err := strconv.Atoi(fm.GetMessage())
		if err != nil {
			n = -8
		}
		out = append(out, n)
	}
	return out
}

type fwd interface {
	Forward(context.Context, grpcadapter.ForwardParams) error
}

func runOne(s scriptT, r *vc.Rand, f fwd) vc.Val {
	in := vfake.NewIncoming()
	in.Aware = s.inAware
	for _, it := range s.inRecv {
		switch it[0] {
		case 0:
			in.Items = append(in.Items, vfake.InItem{Kind: vfake.KMsg, Payload: flowMsg(it[1])})
		case 1:
			in.Items = append(in.Items, vfake.InItem{Kind: vfake.KEOF})
		default:
			in.Items = append(in.Items, vfake.InItem{Kind: vfake.KErr, Status: status.New(codes.Code(it[1]), "client error")})
		}
	}
	if len(s.inSendFail) == 2 {
		in.SendFailAt = s.inSendFail[0]
		in.SendErr = status.Error(codes.Code(s.inSendFail[1]), "client send error")
	}
	conn := vfake.NewConn()
	conn.Unaware = !s.outAware
	if len(s.open) == 1 {
		if s.open[0] == -1 {
			conn.StreamWait = true
		} else {
			conn.StreamErr = status.Error(codes.Code(s.open[0]), "open error")
		}
	}
	if len(s.outSendFail) == 2 {
		conn.SendErrAt = s.outSendFail[0]
		if s.outSendFail[1] == -1 {
			conn.SendErr = errEOF
		} else {
			conn.SendErr = status.Error(codes.Code(s.outSendFail[1]), "target send error")
		}
	}
	for _, it := range s.outRecv {
		ri := vfake.RespItem{NeedReqs: it[0], NeedHalfClose: it[1] == 1}
		switch it[2] {
		case 0:
			ri.Kind, ri.Payload = vfake.KMsg, flowMsg(it[3])
		case 1:
			ri.Kind = vfake.KEOF
		default:
			ri.Kind, ri.Status = vfake.KErr, status.New(codes.Code(it[3]), "target status")
		}
		conn.Script = append(conn.Script, ri)
	}
	// schedule perturbation + context event
	ctx := newFireCtx()
	var ops atomic.Int64
	fireAt := int64(-1)
	var ctxErr error
	if s.ctxKind == 1 {
		ctxErr = context.Canceled
	} else if s.ctxKind == 2 {
		ctxErr = context.DeadlineExceeded
	}
	if ctxErr != nil {
		fireAt = int64(r.Intn(12))
	}
	seed := r.U64()
	var pmu sync.Mutex
	pr := vc.NewRand(seed)
	hook := func() {
		n := ops.Add(1)
		if fireAt >= 0 && n > fireAt {
			ctx.fire(ctxErr)
		}
		pmu.Lock()
		k := pr.Intn(6)
		pmu.Unlock()
		switch k {
		case 0:
			runtime.Gosched()
		case 1:
			time.Sleep(time.Duration(20+k*30) * time.Microsecond)
		}
	}
	in.Hook, conn.Hook = hook, hook
	if fireAt == 0 {
		ctx.fire(ctxErr)
	}
	_, svc, m := vfake.FlowMethod(s.cs, s.ss)
	done := make(chan error, 1)
	go func() {
		done <- f.Forward(ctx, grpcadapter.ForwardParams{Target: nil, Service: svc, Method: m, Incoming: in, Outgoing: conn})
	}()
	var res error
	returned := true
	timer := time.NewTimer(40 * time.Millisecond)
	select {
	case res = <-done:
	case <-timer.C:
		// nothing happened for a while: if a context event is scripted, it strikes now (both sides idle)
		if ctxErr != nil {
			ctx.fire(ctxErr)
		}
		select {
		case res = <-done:
		case <-time.After(1500 * time.Millisecond):
			returned = false
		}
	}
	timer.Stop()
	in.Release()
	conn.Release()
	if !returned {
		ctx.fire(context.Canceled)
		select {
		case <-done:
		case <-time.After(time.Second):
		}
		return vc.L{-1}
	}
	code := 0
	if res != nil {
		code = int(status.Code(res))
	}
	conn.Lock()
	in.Lock()
	defer conn.Unlock()
	defer in.Unlock()
	return vc.L{idsOf(conn.Sent), conn.CloseSends > 0, conn.Closes > 0, idsOf(in.Sent), len(in.HeaderMD) > 0, len(in.TrailerMD) > 0, code, conn.Created}
}

var errEOF = fmt.Errorf("wrapped: %w", eofErr())

func main() {
	w := vc.NewWriter(os.Args[1])
	defer w.Close()
	r := vc.NewRand(vc.Seed())
	if len(os.Args) > 2 && os.Args[2] == "e2e" {
		e2ePart(w, r)
		return
	}
	if len(os.Args) > 2 && os.Args[2] == "bytes" {
		bytesPart(w, r)
		return
	}
	if len(os.Args) > 2 && os.Args[2] == "web_idle" {
		webIdlePart(w, r)
		return
	}
	n := vc.Scale(400, 8000)
	pert := vc.Scale(3, 5)
	pf := grpcadapter.NewProxyForwarder(grpcadapter.ProxyForwarderOpts{})
	gf := grpcbridge.NewForwarder()
	kinds := map[string]int{}
	for i := 0; i < n; i++ {
		rr := r.Fork()
		s := gen(rr)
		kinds[fmt.Sprintf("cs=%v,ss=%v", s.cs, s.ss)]++
		for p := 0; p < pert; p++ {
			var f fwd = pf
			if p == pert-1 {
				f = gf
			}
			out := runOne(s, rr, f)
			w.Case(s.val(), out, len(s.inRecv) > 0 && len(s.outRecv) > 0)
		}
	}
	fmt.Printf("STAT kinds %q\n", fmt.Sprint(kinds))
}
