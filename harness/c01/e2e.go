package main

import (
	"context"
	"net"
	"time"

	grpcbridge "github.com/renbou/grpcbridge"
	"github.com/renbou/grpcbridge/internal/bridgetest/testpb"
	vc "github.com/renbou/grpcbridge/internal/zzverif/vcommon"
	"github.com/renbou/grpcbridge/internal/zzverif/vfake"
	"google.golang.org/grpc"
	"google.golang.org/grpc/codes"
	"google.golang.org/grpc/credentials/insecure"
	"google.golang.org/grpc/status"
	"google.golang.org/grpc/test/bufconn"
)

// e2ePart: through GRPCProxy over bufconn with a real gRPC client that stays idle on an open stream after sending
// k messages, while the target ends the call with a status at once (C02 "idle client learns of the target's termination").
// input ( cs ss k code ) ; impl ( observed-code timely )
func e2ePart(w *vc.Writer, r *vc.Rand) {
	n := vc.Scale(24, 400)
	for i := 0; i < n; i++ {
		cs := true
		ss := i%2 == 0
		k := r.Intn(3)
		code := errCodes[r.Intn(len(errCodes))]
		conn := vfake.NewConn()
		conn.Script = []vfake.RespItem{{Kind: vfake.KErr, Status: status.New(codes.Code(code), "target says no"), NeedReqs: k}}
		router := vfake.NewFlowRouter(conn, cs, ss)
		proxy := grpcbridge.NewGRPCProxy(router)
		lis := bufconn.Listen(1 << 16)
		srv := grpc.NewServer(proxy.AsServerOption())
		go srv.Serve(lis)
		cc, err := grpc.NewClient("passthrough:///b", grpc.WithContextDialer(func(ctx context.Context, _ string) (net.Conn, error) { return lis.DialContext(ctx) }),
			grpc.WithTransportCredentials(insecure.NewCredentials()))
		if err != nil {
			panic(err)
		}
		ctx, cancel := context.WithTimeout(context.Background(), 3*time.Second)
		start := time.Now()
		stream, err := cc.NewStream(ctx, &grpc.StreamDesc{ClientStreams: true, ServerStreams: true}, router.Method.RPCName)
		got := -1
		if err == nil {
			for j := 0; j < k; j++ {
				stream.SendMsg(&testpb.FlowMessage{Message: "m"})
			}
			// idle: no further send, no CloseSend; just wait for what the bridge tells us
			err = stream.RecvMsg(&testpb.FlowMessage{})
		}
		if err != nil {
			got = int(status.Code(err))
		}
		timely := time.Since(start) < 1500*time.Millisecond
		cancel()
		cc.Close()
		srv.Stop()
		w.Case(vc.L{cs, ss, k, code}, vc.L{got, timely}, true)
	}
}
