// c19: dispatch by header semantics (through WebBridge.ServeHTTP) and _metadata[...] query extraction.
package main

import (
	"bufio"
	"fmt"
	"net/http"
	"net/http/httptest"
	"net/url"
	"os"
	"sort"
	"strings"

	grpcbridge "github.com/renbou/grpcbridge"
	vc "github.com/renbou/grpcbridge/internal/zzverif/vcommon"
	"github.com/renbou/grpcbridge/internal/zzverif/vfake"
	"github.com/renbou/grpcbridge/webbridge"
	"google.golang.org/grpc/codes"
	"google.golang.org/grpc/metadata"
	"google.golang.org/grpc/status"
)

var connVals = []string{"Upgrade", "upgrade", "UPGRADE", "keep-alive, Upgrade", "Upgrade, keep-alive", "keep-alive", "upgrade ,x", "upgrade,", ",upgrade", "Upgrades", "up grade", "keep-alive,upgrade", "close", "\tupgrade"}
var upgVals = []string{"websocket", "WebSocket", "WEBSOCKET", "websocket, h2c", "h2c, websocket", "h2c", "websockets", "web socket", "websocket/13",
	// bytes that only Unicode case folding (not ASCII folding) maps onto the token: U+017F long s, U+212A Kelvin sign
	"web\u017focket", "websoc\u212aet", "h2c, web\u017focket", "WEB\u017fOC\u212aET"}
var swpVals = []string{"grpc-websockets", "a, grpc-websockets", "grpc-websockets, b", "GRPC-Websockets", "grpc-websockets2", "xgrpc-websockets", "a,grpc-websockets,b", "graphql-ws", "grpc-websockets ;q=1", "grpc-web\u017fockets", "a, grpc-websoc\u212aets"}
var ctVals = []string{"application/grpc-web", "application/grpc-web+proto", "Application/GRPC-Web+proto", "application/grpc-web-text", "application/grpc-web; charset=utf-8", "application/grpc-web+json ; a=b",
	"application/grpc", "application/json", "text/plain; x=application/grpc-web", "APPLICATION/GRPC-WEB-TEXT+PROTO", "application/grpc-webby", "xapplication/grpc-web", "application /grpc-web",
	// parameter sections that a MIME parser rejects: the media type in front of them is what decides
	"application/grpc-web-text; base64", "application/grpc-web+proto;; charset=utf-8", "application/grpc-web+proto; charset=utf-8; charset=UTF-8", "application/grpc-web;",
	"application/grpc-web ;", "application/grpc-web;=x", "application/grpc-web; a=\"unterminated", "application/grpc-web; a b", "application/grpc-web\t; q", "application/grpc-web+proto; charset",
	"application/json; x=application/grpc-web;;", "application/json;; charset=utf-8", "application/grpc-web/extra", "application/grpc-web+proto+x; a=1; A=2"}

func pickLines(r *vc.Rand, name string, pool []string, pPresent int) [][2]string {
	var out [][2]string
	if !r.Chance(pPresent) {
		return out
	}
	n := 1
	if r.Chance(25) {
		n = 2
	}
	for i := 0; i < n; i++ {
		nm := name
		switch r.Intn(3) {
		case 0:
			nm = strings.ToLower(name)
		case 1:
			nm = strings.ToUpper(name)
		}
		out = append(out, [2]string{nm, r.Pick(pool)})
	}
	return out
}

func classify(router *vfake.Router, rec *httptest.ResponseRecorder) int {
	ct := rec.Header().Get("Content-Type")
	switch {
	case router.GRPCCalls > 0 && strings.HasPrefix(ct, "application/grpc-web"):
		return 3 // gRPC-Web
	case router.GRPCCalls == 0 && router.HTTPCalls == 0:
		return 2 // gRPC-WebSocket: upgrades before routing (upgrade fails on a recorder)
	case router.HTTPCalls > 0 && !strings.Contains(router.LastQuery, "_metadata"):
		return 1 // transcoded WebSocket: strips _metadata[...] before routing
	case router.HTTPCalls > 0:
		return 0 // transcoded HTTP
	}
	return -1
}

func headerVal(h http.Header) vc.Val {
	keys := make([]string, 0, len(h))
	for k := range h {
		keys = append(keys, k)
	}
	sort.Strings(keys)
	out := vc.L{}
	for _, k := range keys {
		for _, v := range h[k] {
			out = append(out, vc.L{k, v})
		}
	}
	return out
}

func dispatchPart(w *vc.Writer, r *vc.Rand) {
	n := vc.Scale(3000, 200000)
	corpus := [][][2]string{
		{{"Connection", "keep-alive, Upgrade"}, {"Upgrade", "websocket"}},
		{{"Connection", "Upgrade"}, {"Upgrade", "websocket"}, {"Sec-WebSocket-Protocol", "a, grpc-websockets"}},
		{{"Content-Type", "Application/GRPC-Web"}},
		{{"Connection", "keep-alive"}, {"Connection", "Upgrade"}, {"Upgrade", "websocket"}},
	}
	for i := 0; i < n; i++ {
		var lines [][2]string
		if i < len(corpus) {
			lines = corpus[i]
		} else {
			rr := r.Fork()
			lines = append(lines, pickLines(rr, "Connection", connVals, 75)...)
			lines = append(lines, pickLines(rr, "Upgrade", upgVals, 75)...)
			lines = append(lines, pickLines(rr, "Sec-WebSocket-Protocol", swpVals, 50)...)
			lines = append(lines, pickLines(rr, "Content-Type", ctVals, 60)...)
			// shuffle
			for j := len(lines) - 1; j > 0; j-- {
				k := rr.Intn(j + 1)
				lines[j], lines[k] = lines[k], lines[j]
			}
		}
		var sb strings.Builder
		sb.WriteString("POST /pkg.Svc/Method?_metadata[x-a]=1&a=b HTTP/1.1\r\nHost: example\r\nContent-Length: 0\r\nSec-WebSocket-Key: dGhlIHNhbXBsZSBub25jZQ==\r\nSec-WebSocket-Version: 13\r\n")
		for _, l := range lines {
			fmt.Fprintf(&sb, "%s: %s\r\n", l[0], l[1])
		}
		sb.WriteString("\r\n")
		req, err := http.ReadRequest(bufio.NewReader(strings.NewReader(sb.String())))
		if err != nil {
			continue
		}
		router := &vfake.Router{Err: status.Error(codes.NotFound, "no route")}
		b := grpcbridge.NewWebBridge(router)
		rec := httptest.NewRecorder()
		h := req.Header.Clone()
		func() {
			defer func() { recover() }()
			b.ServeHTTP(rec, req)
		}()
		// input: the four relevant headers as net/http parsed them
		in := http.Header{}
		for _, k := range []string{"Connection", "Upgrade", "Sec-Websocket-Protocol", "Content-Type"} {
			if v, ok := h[k]; ok {
				in[k] = v
			}
		}
		nt := len(h["Connection"]) > 0 || len(h["Content-Type"]) > 0
		w.Case(headerVal(in), classify(router, rec), nt)
	}
}

func valuesVal(v url.Values) vc.Val {
	keys := make([]string, 0, len(v))
	for k := range v {
		keys = append(keys, k)
	}
	sort.Strings(keys)
	out := vc.L{}
	for _, k := range keys {
		out = append(out, vc.L{k, vc.Strs(v[k])})
	}
	return out
}

func mdVal(md metadata.MD) vc.Val { return valuesVal(url.Values(md)) }

func mdqueryPart(w *vc.Writer, r *vc.Rand) {
	n := vc.Scale(3000, 200000)
	keys := []string{"x-a", "X-B", "a.b_c-d", "", "bad key", "k\x00", "ключ", "x[y]", "x]", "[", "x-a",
		// spellings that only Unicode case mapping turns into an ASCII key
		"x-\u212a", "\u017fet-cookie", "x-\u0130d", "X-\u212aEY", "flow-\u0131d"}
	vals := []string{"v", "hello world", "", "tab\there", "nl\n", "\x7f", "ünï", "~ok~", "a=b&c"}
	params := []string{"", "", "_metadata", "md", "_m[x]"}
	for i := 0; i < n; i++ {
		rr := r.Fork()
		param := rr.Pick(params)
		eff := param
		if eff == "" {
			eff = "_metadata"
		}
		q := url.Values{}
		cnt := rr.Intn(7)
		for j := 0; j < cnt; j++ {
			var k string
			switch rr.Intn(6) {
			case 0:
				k = rr.Pick([]string{"a", "b", "page", eff, eff + "[", eff + "x[k]", "x" + eff + "[k]", eff + "[k]x"})
			case 1:
				k = "_metadata[" + rr.Pick(keys) + "]"
			default:
				k = eff + "[" + rr.Pick(keys) + "]"
			}
			m := 1 + rr.Intn(2)
			for t := 0; t < m; t++ {
				q.Add(k, rr.Pick(vals))
			}
		}
		if rr.Chance(20) {
			// two spellings of one key that differ only in letter case: their values are merged under the lower-case key (the same
			// value for both, because the order in which Go walks the query map - hence the order of the merged values - is not fixed)
			pair := [][2]string{{"x-a", "X-A"}, {"X-B", "x-b"}, {"a.b_c-d", "A.B_C-D"}, {"x-tag", "X-Tag"}}[rr.Intn(4)]
			v := rr.Pick([]string{"v", "hello world", "~ok~", "a=b&c"})
			q.Del(eff + "[" + pair[0] + "]")
			q.Del(eff + "[" + pair[1] + "]")
			q.Add(eff+"["+pair[0]+"]", v)
			q.Add(eff+"["+pair[1]+"]", v)
		}
		u := &url.URL{Path: "/x", RawQuery: q.Encode()}
		req := &http.Request{Method: "GET", URL: u, Header: http.Header{}}
		orig := req.URL.Query()
		md := webbridge.VerifParseMetadataQuery(req, param)
		rest := req.URL.Query()
		nt := false
		for k := range orig {
			if strings.HasPrefix(k, eff+"[") {
				nt = true
			}
		}
		w.Case(vc.L{param, valuesVal(orig)}, vc.L{mdVal(md), valuesVal(rest)}, nt)
	}
}

func main() {
	w := vc.NewWriter(os.Args[1])
	defer w.Close()
	r := vc.NewRand(vc.Seed())
	switch os.Args[2] {
	case "dispatch":
		dispatchPart(w, r)
	case "mdquery":
		mdqueryPart(w, r)
	}
}
