package main

import (
	"fmt"

	"github.com/grpc-ecosystem/grpc-gateway/v2/utilities"
)

func main() {
	for _, seqs := range [][][]string{
		{{"n", "deep", "z"}, {"n", "x"}},
		{{"n", "x"}, {"n", "deep", "z"}},
		{{"b", "a", "d"}, {"b", "d"}},
		{{"parent", "id"}, {"parent", "name"}},
		{{"parent", "name"}, {"parent", "id"}},
		{{"book", "shelf", "id"}, {"book", "id"}},
		{{"book", "id"}, {"book", "shelf", "id"}},
		{{"a", "b"}, {"a", "c"}, {"a", "d"}},
	} {
		da := utilities.NewDoubleArray(seqs)
		for _, s := range seqs {
			fmt.Println(seqs, "lookup", s, "=>", da.HasCommonPrefix(s))
		}
	}
}
