package main

import (
	"fmt"

	"google.golang.org/protobuf/encoding/protojson"
	"google.golang.org/protobuf/types/known/wrapperspb"
)

func main() {
	for _, t := range []string{"0", "1", "42", `"0"`} {
		m := &wrapperspb.Int32Value{}
		err := protojson.Unmarshal([]byte(t), m)
		fmt.Println(t, m.Value, err)
	}
}
