// c16: Add/Remove/re-Add lifecycle: AdaptedClientPool histories (with a re-entrant, failing constructor) and
// ReflectionRouter histories against a bufconn target with reflection, in-flight calls at removal time, leak check.
package main

import (
	"context"
	"errors"
	"fmt"
	"net"
	"os"
	"runtime"
	"strings"
	"time"

	grpcbridge "github.com/renbou/grpcbridge"
	"github.com/renbou/grpcbridge/grpcadapter"
	"github.com/renbou/grpcbridge/internal/bridgetest/testpb"
	vc "github.com/renbou/grpcbridge/internal/zzverif/vcommon"
	"google.golang.org/grpc"
	"google.golang.org/grpc/codes"
	"google.golang.org/grpc/credentials/insecure"
	"google.golang.org/grpc/metadata"
	"google.golang.org/grpc/reflection"
	"google.golang.org/grpc/status"
	"google.golang.org/grpc/test/bufconn"
	"google.golang.org/protobuf/types/known/emptypb"
)

var names = []string{"a", "b", "c"}

// names of targets whose description never arrives (their server has no reflection service): removed before any
// description was delivered, they must be addable again like any other
var silentNames = []string{"n1", "n2"}
var noReflect *bufconn.Listener

func isSilent(name string) bool { return strings.HasPrefix(name, "n") }

type sts struct{ method string }

func (s *sts) Method() string               { return s.method }
func (s *sts) SetHeader(metadata.MD) error  { return nil }
func (s *sts) SendHeader(metadata.MD) error { return nil }
func (s *sts) SetTrailer(metadata.MD) error { return nil }

func dialer(lis *bufconn.Listener) []grpc.DialOption {
	return []grpc.DialOption{grpc.WithTransportCredentials(insecure.NewCredentials()),
		grpc.WithContextDialer(func(ctx context.Context, _ string) (net.Conn, error) { return lis.DialContext(ctx) })}
}

func poolHistories(w *vc.Writer, r *vc.Rand, lis *bufconn.Listener) {
	n := vc.Scale(300, 20000)
	for h := 0; h < n; h++ {
		w.Current(vc.L{"history number (the histories are generated from the seed in this order)", h})
		rr := r.Fork()
		var pool *grpcadapter.AdaptedClientPool
		failNext := false
		innerGet, innerNew := -1, -1
		curName := ""
		pool = grpcadapter.NewAdaptedClientPool(grpcadapter.AdaptedClientPoolOpts{
			DefaultOpts: dialer(lis),
			NewClientFunc: func(target string, opts ...grpc.DialOption) (*grpc.ClientConn, error) {
				// re-entrant observations while the name is being constructed
				c, ok := pool.Get(curName)
				switch {
				case !ok:
					innerGet = 0
				case c == nil || isNil(c):
					innerGet = 2
				default:
					innerGet = 1
				}
				if _, err := pool.New(curName, "passthrough:///x"); errors.Is(err, grpcadapter.ErrAlreadyDialed) {
					innerNew = 1
				} else if err == nil {
					innerNew = 0
				} else {
					innerNew = 2
				}
				if failNext {
					return nil, errors.New("scripted constructor failure")
				}
				return grpc.NewClient(target, opts...)
			},
		})
		ctrls := map[string]*grpcadapter.AdaptedClientPoolController{}
		conns := map[int]grpcadapter.ClientConn{}
		connOf := map[string]int{}
		next := 1
		ops, outs := vc.L{}, vc.L{}
		fails, closes := 0, 0
		for i := 0; i < 1+rr.Intn(15); i++ {
			name := rr.Pick(names)
			switch k := rr.Intn(10); {
			case k < 4:
				failNext = rr.Chance(35)
				curName = name
				innerGet, innerNew = -1, -1
				ops = append(ops, vc.L{0, name, failNext})
				c, err := pool.New(name, "passthrough:///x")
				res := 0
				if errors.Is(err, grpcadapter.ErrAlreadyDialed) {
					res = 1
				} else if err != nil {
					res = 2
					fails++
				} else {
					ctrls[name] = c
					cc, _ := pool.Get(name)
					conns[next] = cc
					connOf[name] = next
					next++
				}
				outs = append(outs, vc.L{res, innerGet, innerNew})
			case k < 6:
				ops = append(ops, vc.L{1, name})
				if c := ctrls[name]; c != nil {
					c.Close()
					delete(ctrls, name)
					outs = append(outs, vc.L{connOf[name]})
					closes++
				} else {
					outs = append(outs, vc.L{0})
				}
			case k < 8:
				ops = append(ops, vc.L{2, name})
				c, ok := pool.Get(name)
				res := 0
				if ok && (c == nil || isNil(c)) {
					res = 2
				} else if ok {
					res = 1
				}
				outs = append(outs, vc.L{res})
			default:
				if next == 1 {
					continue
				}
				id := 1 + rr.Intn(next-1)
				ops = append(ops, vc.L{3, id})
				ctx, cancel := context.WithTimeout(context.Background(), 2*time.Second)
				st, err := conns[id].Stream(ctx, "/x.Y/Z")
				code := 0
				if err != nil {
					code = int(status.Code(err))
				} else {
					st.Close()
				}
				cancel()
				outs = append(outs, vc.L{code})
			}
		}
		for _, c := range ctrls {
			c.Close()
		}
		w.Case(ops, outs, fails > 0 && closes > 0)
	}
}

func isNil(c grpcadapter.ClientConn) bool {
	if a, ok := c.(*grpcadapter.AdaptedClientConn); ok {
		return a == nil
	}
	return false
}

func bridgeGoroutines() int {
	buf := make([]byte, 1<<20)
	buf = buf[:runtime.Stack(buf, true)]
	n := 0
	for _, g := range strings.Split(string(buf), "\n\n") {
		if strings.Contains(g, "main.main") {
			continue
		}
		if strings.Contains(g, "grpcbridge/reflection.") || strings.Contains(g, "grpcbridge/grpcadapter.") || strings.Contains(g, "grpcbridge.(") {
			n++
		}
	}
	return n
}

func routerHistories(w *vc.Writer, r *vc.Rand, lis *bufconn.Listener) {
	n := vc.Scale(120, 5000)
	for h := 0; h < n; h++ {
		w.Current(vc.L{"history number (the histories are generated from the seed in this order)", h})
		rr := r.Fork()
		failNext := false
		router := grpcbridge.NewReflectionRouter(
			grpcbridge.WithDialOpts(dialer(lis)...),
			grpcbridge.WithDisabledReflectionPolling(),
			grpcbridge.WithConnFunc(func(target string, opts ...grpc.DialOption) (*grpc.ClientConn, error) {
				if failNext {
					return nil, errors.New("scripted constructor failure")
				}
				if target == "passthrough:///noreflect" {
					opts = append(append([]grpc.DialOption{}, opts...), dialer(noReflect)...)
				}
				return grpc.NewClient(target, opts...)
			}))
		present := map[string]bool{}
		ops, outs := vc.L{}, vc.L{}
		fails, removes := 0, 0
		// scripted histories run first: a target removed before any description was delivered is added again
		type pstep struct {
			add  bool
			name string
			fail bool
		}
		scripts := [][]pstep{
			{{true, "n1", false}, {false, "n1", false}, {true, "n1", false}, {false, "n1", false}, {true, "n1", false}},
			{{true, "a", false}, {true, "n1", false}, {false, "n1", false}, {true, "n1", false}, {false, "a", false}, {true, "a", false}},
			{{true, "n1", true}, {true, "n1", false}, {false, "n1", false}, {true, "n1", false}, {true, "n2", false}, {false, "n2", false}, {true, "n2", false}},
		}
		var plan []pstep
		if h < len(scripts) {
			plan = scripts[h]
		} else {
			for i := 0; i < 1+rr.Intn(12); i++ {
				name := rr.Pick(names)
				if rr.Chance(30) {
					name = rr.Pick(silentNames)
				}
				plan = append(plan, pstep{rr.Chance(60), name, rr.Chance(30)})
			}
		}
		for _, st := range plan {
			name := st.name
			dial := "passthrough:///x"
			if isSilent(name) {
				dial = "passthrough:///noreflect"
			}
			if st.add {
				failNext = st.fail
				ops = append(ops, vc.L{4, name, failNext})
				ok, err := router.Add(name, dial)
				res := 0
				if ok && err == nil {
					res = 1
					present[name] = true
				} else if failNext {
					fails++
				}
				outs = append(outs, vc.L{res})
				continue
			}
			ops = append(ops, vc.L{5, name})
			// before removing a present target: open an in-flight call through the router, if it is routable by now
			var inflight grpcadapter.ClientStream
			var conn grpcadapter.ClientConn
			if present[name] && !isSilent(name) {
				deadline := time.Now().Add(3 * time.Second)
				for time.Now().Before(deadline) {
					c, _, err := router.RouteGRPC(grpc.NewContextWithServerTransportStream(context.Background(), &sts{method: "/grpcbridge.internal.bridgetest.testpb.TestService/BiDiFlow"}))
					if err == nil {
						conn = c
						break
					}
					time.Sleep(2 * time.Millisecond)
				}
				if conn != nil && conn.(*grpcadapter.AdaptedClientConn) != nil && present[name] {
					// the service is routed to SOME present target (all list it); only use it if it is the one being removed is unknowable here,
					// so in-flight checking is done when exactly one target is present
					if len(present) == 1 {
						ctx := metadata.NewOutgoingContext(context.Background(), metadata.Pairs("hold", "1"))
						inflight, _ = conn.Stream(ctx, "/hold.Svc/Hold")
					} else {
						conn = nil
					}
				}
			}
			ok := router.Remove(name)
			res := 0
			if ok {
				res = 1
				removes++
				delete(present, name)
			}
			if inflight != nil {
				done := make(chan error, 1)
				go func() { done <- inflight.Recv(context.Background(), &emptypb.Empty{}) }()
				select {
				case err := <-done:
					if err == nil {
						res = -11
					}
				case <-time.After(3 * time.Second):
					res = -11
				}
				inflight.Close()
			}
			if conn != nil && ok {
				ctx, cancel := context.WithTimeout(context.Background(), 2*time.Second)
				if _, err := conn.Stream(ctx, "/hold.Svc/Hold"); status.Code(err) != codes.Unavailable {
					res = -12
				}
				cancel()
			}
			outs = append(outs, vc.L{res})
		}
		// remove everything, then nothing of the bridge may keep running
		for name := range present {
			router.Remove(name)
		}
		leak := 0
		for i := 0; i < 200; i++ {
			if leak = bridgeGoroutines(); leak == 0 {
				break
			}
			time.Sleep(5 * time.Millisecond)
		}
		if leak > 0 {
			ops = append(ops, vc.L{5, "zz-leakcheck"})
			outs = append(outs, vc.L{-13})
			buf := make([]byte, 1<<16)
			fmt.Printf("LEAK %d goroutines:\n%s\n", leak, buf[:runtime.Stack(buf, true)])
		}
		w.Case(ops, outs, fails > 0 && removes > 0)
	}
}

// waitingPart: stream attempts that are WAITING for the connection (the target is unreachable) when the target is removed:
// they must end promptly with Unavailable, with or without a deadline of their own
func waitingPart(w *vc.Writer, r *vc.Rand) {
	n := vc.Scale(12, 300)
	for i := 0; i < n; i++ {
		rr := r.Fork()
		pool := grpcadapter.NewAdaptedClientPool(grpcadapter.AdaptedClientPoolOpts{
			DefaultOpts: []grpc.DialOption{grpc.WithTransportCredentials(insecure.NewCredentials()),
				grpc.WithContextDialer(func(ctx context.Context, _ string) (net.Conn, error) { return nil, errors.New("unreachable") })}})
		ctl, err := pool.New("a", "passthrough:///unreachable")
		if err != nil {
			panic(err)
		}
		conn, _ := pool.Get("a")
		callers := 1 + rr.Intn(4)
		withDeadline := rr.Bool()
		type res struct{ code int }
		done := make(chan res, callers)
		for c := 0; c < callers; c++ {
			go func() {
				ctx := context.Background()
				if withDeadline {
					var cancel context.CancelFunc
					ctx, cancel = context.WithTimeout(ctx, 20*time.Second)
					defer cancel()
				}
				_, err := conn.Stream(ctx, "/pkg.Svc/M")
				done <- res{int(status.Code(err))}
			}()
		}
		time.Sleep(time.Duration(5+rr.Intn(30)) * time.Millisecond)
		ctl.Close()
		codes := vc.L{}
		deadline := time.After(2 * time.Second)
		stuck := 0
		for c := 0; c < callers; c++ {
			select {
			case x := <-done:
				codes = append(codes, x.code)
			case <-deadline:
				stuck = callers - c
				c = callers
			}
		}
		w.Case(vc.L{callers, withDeadline}, vc.L{stuck, codes}, true)
	}
}

func main() {
	w := vc.NewWriter(os.Args[1])
	defer w.Close()
	r := vc.NewRand(vc.Seed())
	lis := bufconn.Listen(1 << 20)
	srv := grpc.NewServer(grpc.UnknownServiceHandler(func(_ any, stream grpc.ServerStream) error {
		<-stream.Context().Done() // hold the call open until the client side goes away
		return status.Error(codes.Canceled, "held call ended")
	}))
	testpb.RegisterTestServiceServer(srv, testpb.NewTestService())
	reflection.Register(srv)
	go srv.Serve(lis)
	defer srv.Stop()
	// a target that answers but has no reflection service: polls fail at once, no description is ever delivered
	lisNR := bufconn.Listen(1 << 20)
	srvNR := grpc.NewServer()
	testpb.RegisterTestServiceServer(srvNR, testpb.NewTestService())
	go srvNR.Serve(lisNR)
	defer srvNR.Stop()
	noReflect = lisNR
	switch os.Args[2] {
	case "pool":
		poolHistories(w, r, lis)
	case "router":
		routerHistories(w, r, lis)
	case "waiting":
		waitingPart(w, r)
	}
}
