// c06: histories of Watch / UpdateDesc / Close on PatternRouter and ServiceRouter with probes after every step.
package main

import (
	"context"
	"fmt"
	"net/http"
	"net/url"
	"os"

	"github.com/renbou/grpcbridge/bridgedesc"
	"github.com/renbou/grpcbridge/grpcadapter"
	vc "github.com/renbou/grpcbridge/internal/zzverif/vcommon"
	"github.com/renbou/grpcbridge/internal/zzverif/vfake"
	"github.com/renbou/grpcbridge/routing"
	"google.golang.org/grpc"
	"google.golang.org/grpc/metadata"
	"google.golang.org/grpc/status"
	"google.golang.org/protobuf/reflect/protoreflect"
)

type pool struct{}

func (pool) Get(string) (grpcadapter.ClientConn, bool) { return vfake.NewConn(), true }

type sts struct{ method string }

func (s *sts) Method() string               { return s.method }
func (s *sts) SetHeader(metadata.MD) error  { return nil }
func (s *sts) SendHeader(metadata.MD) error { return nil }
func (s *sts) SetTrailer(metadata.MD) error { return nil }

var targets = []string{"t1", "t2", "t3"}
var svcPool = []string{"pkg.A", "pkg.B", "pkg.C", "other.D"}
var methPool = []string{"Get", "List", "Do"}
var httpPool = []string{"GET", "POST", "DELETE"}
var pathPool = []string{"/v1/a", "/v1/b", "/v1/a/b", "/v2/x", "/x.y-z_0", "/v1/c"}
var invalidPool = []string{"noslash", "/v1/{open", "/v1/{a=}", "/{}"}

type gdesc struct {
	id  int
	t   *bridgedesc.Target
	val vc.Val
}

var nextID = 1
var byPtr = map[*bridgedesc.Target]*gdesc{}

func genDesc(r *vc.Rand, name string) *gdesc {
	t := &bridgedesc.Target{Name: name}
	id := nextID
	nextID++
	svcs := vc.L{}
	used := map[string]bool{}
	ns := r.Intn(4)
	for i := 0; i < ns; i++ {
		sn := r.Pick(svcPool)
		if used[sn] {
			continue
		}
		used[sn] = true
		svc := bridgedesc.Service{Name: protoreflect.FullName(sn)}
		ms := vc.L{}
		nm := r.Intn(3)
		usedM := map[string]bool{}
		for j := 0; j < nm; j++ {
			mn := r.Pick(methPool)
			if usedM[mn] {
				continue
			}
			usedM[mn] = true
			m := *bridgedesc.DummyMethod(svc.Name, protoreflect.Name(mn))
			bs := vc.L{}
			nb := r.Intn(4)
			if r.Chance(25) {
				nb = 0
			}
			for k := 0; k < nb; k++ {
				pat := r.Pick(pathPool)
				if r.Chance(12) {
					pat = r.Pick(invalidPool)
				}
				b := bridgedesc.Binding{HTTPMethod: r.Pick(httpPool), Pattern: pat, RequestBodyPath: "*"}
				m.Bindings = append(m.Bindings, b)
				bs = append(bs, vc.L{b.HTTPMethod, b.Pattern})
			}
			svc.Methods = append(svc.Methods, m)
			ms = append(ms, vc.L{mn, bs})
		}
		t.Services = append(t.Services, svc)
		svcs = append(svcs, vc.L{sn, ms})
	}
	g := &gdesc{id: id, t: t, val: vc.L{id, svcs}}
	byPtr[t] = g
	return g
}

func code(err error) int { return int(status.Code(err)) }

func probeHTTP(pr *routing.PatternRouter, method, path string) vc.Val {
	req := &http.Request{Method: method, URL: &url.URL{Path: path}}
	_, route, err := pr.RouteHTTP(req)
	if err != nil {
		return vc.L{code(err)}
	}
	g := byPtr[route.Target]
	if g == nil {
		return vc.L{-1}
	}
	si, mi, bi := -1, -1, -1
	for i := range route.Target.Services {
		if &route.Target.Services[i] == route.Service {
			si = i
			for j := range route.Service.Methods {
				if &route.Service.Methods[j] == route.Method {
					mi = j
					for k := range route.Method.Bindings {
						if &route.Method.Bindings[k] == route.Binding {
							bi = k
						}
					}
				}
			}
		}
	}
	return vc.L{0, route.Target.Name, g.id, si, mi, bi}
}

func probeGRPC(sr *routing.ServiceRouter, svc string) vc.Val {
	ctx := grpc.NewContextWithServerTransportStream(context.Background(), &sts{method: "/" + svc + "/Any"})
	_, route, err := sr.RouteGRPC(ctx)
	if err != nil {
		return vc.L{code(err)}
	}
	g := byPtr[route.Target]
	if g == nil {
		return vc.L{-1}
	}
	si := -1
	for i := range route.Target.Services {
		if &route.Target.Services[i] == route.Service {
			si = i
		}
	}
	return vc.L{0, route.Target.Name, g.id, si}
}

func main() {
	w := vc.NewWriter(os.Args[1])
	defer w.Close()
	r := vc.NewRand(vc.Seed())
	// probe sets
	var hp [][2]string
	for _, m := range httpPool {
		for _, p := range pathPool {
			hp = append(hp, [2]string{m, p})
		}
	}
	for _, s := range svcPool {
		for _, m := range methPool {
			hp = append(hp, [2]string{"POST", "/" + s + "/" + m})
		}
	}
	hpv := vc.L{}
	for _, p := range hp {
		hpv = append(hpv, vc.L{p[0], p[1]})
	}
	gpv := vc.Strs(svcPool)
	nh := vc.Scale(300, 20000)
	opKinds := map[string]int{}
	for h := 0; h < nh; h++ {
		rr := r.Fork()
		pr := routing.NewPatternRouter(pool{}, routing.PatternRouterOpts{})
		sr := routing.NewServiceRouter(pool{}, routing.ServiceRouterOpts{})
		pw := map[string]*routing.PatternRouterWatcher{}
		sw := map[string]*routing.ServiceRouterWatcher{}
		ops := vc.L{}
		outs := vc.L{}
		nops := 1 + rr.Intn(25)
		drops, updates := 0, 0
		for i := 0; i < nops; i++ {
			name := rr.Pick(targets)
			res := 0
			switch k := rr.Intn(10); {
			case k < 3:
				opKinds["watch"]++
				ops = append(ops, vc.L{0, name})
				w1, err1 := pr.Watch(name)
				w2, err2 := sr.Watch(name)
				if err1 == nil && err2 == nil {
					pw[name], sw[name] = w1, w2
					res = 1
				} else if (err1 == nil) != (err2 == nil) {
					res = 2
				}
			case k < 8:
				opKinds["update"]++
				g := genDesc(rr, name)
				ops = append(ops, vc.L{1, name, g.val})
				if pw[name] != nil {
					pw[name].UpdateDesc(g.t)
					sw[name].UpdateDesc(g.t)
					res = 1
					updates++
				}
			default:
				opKinds["close"]++
				ops = append(ops, vc.L{2, name})
				if pw[name] != nil {
					pw[name].Close()
					sw[name].Close()
					delete(pw, name)
					delete(sw, name)
					res = 1
					drops++
				}
			}
			hr := vc.L{}
			for _, p := range hp {
				hr = append(hr, probeHTTP(pr, p[0], p[1]))
			}
			gr := vc.L{}
			for _, s := range svcPool {
				gr = append(gr, probeGRPC(sr, s))
			}
			outs = append(outs, vc.L{res, hr, gr})
		}
		w.Case(vc.L{ops, hpv, gpv}, outs, updates >= 1 && drops >= 1)
	}
	fmt.Printf("STAT op_kinds %q\n", fmt.Sprint(opKinds))
}
