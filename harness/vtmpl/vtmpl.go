// Package vtmpl generates path templates from the grammar of internal/httprule/httprule.bnf as abstract syntax, renders
// them, mutates their text, and generates request paths that match or nearly match them.
package vtmpl

import (
	"strings"

	vc "github.com/renbou/grpcbridge/internal/zzverif/vcommon"
)

type Seg struct {
	Typ  int // 0 *, 1 **, 2 literal, 3 variable
	Lit  string
	Path []string
	Segs []Seg
}
type Template struct {
	Segs []Seg
	Verb string
}

func (s Seg) Val() vc.Val {
	switch s.Typ {
	case 0, 1:
		return vc.L{s.Typ}
	case 2:
		return vc.L{2, s.Lit}
	}
	inner := vc.L{}
	for _, i := range s.Segs {
		inner = append(inner, i.Val())
	}
	return vc.L{3, vc.Strs(s.Path), inner}
}
func (t Template) Val() vc.Val {
	segs := vc.L{}
	for _, s := range t.Segs {
		segs = append(segs, s.Val())
	}
	return vc.L{segs, t.Verb}
}

func (s Seg) render(short bool) string {
	switch s.Typ {
	case 0:
		return "*"
	case 1:
		return "**"
	case 2:
		return s.Lit
	}
	if short && len(s.Segs) == 1 && s.Segs[0].Typ == 0 {
		return "{" + strings.Join(s.Path, ".") + "}"
	}
	parts := make([]string, len(s.Segs))
	for i, x := range s.Segs {
		parts[i] = x.render(false)
	}
	return "{" + strings.Join(s.Path, ".") + "=" + strings.Join(parts, "/") + "}"
}

// Render gives the text; short uses "{a}" for "{a=*}" at random
func (t Template) Render(r *vc.Rand) string {
	parts := make([]string, len(t.Segs))
	for i, s := range t.Segs {
		parts[i] = s.render(r != nil && r.Bool())
	}
	out := "/" + strings.Join(parts, "/")
	if t.Verb != "" {
		out += ":" + t.Verb
	}
	return out
}

var literals = []string{"v1", "a", "users", "x-y", "a.b", "a_b~c", "%41", "a%2Fb", "%e4%b8%ad", "!$&'()+,;=@", "1", "-", "objects", "v2", "b", "star*x", "a=b"}
var idents = []string{"a", "id", "name", "_x", "a1", "user_id", "B", "parent"}
var verbs = []string{"watch", "get", "v", "x-y", "%41", "a.b"}

func lit(r *vc.Rand, last bool, hasVerb bool) string {
	l := r.Pick(literals)
	if r.Chance(8) && (!last || hasVerb) {
		l = r.Pick([]string{"a:b", "x:", "u:v:w"}) // a colon inside a literal that cannot be taken for the verb
	}
	return l
}

func ident(r *vc.Rand) string { return r.Pick(idents) }

func fieldPath(r *vc.Rand) []string {
	n := 1
	if r.Chance(30) {
		n += 1 + r.Intn(2)
	}
	p := make([]string, n)
	for i := range p {
		p[i] = ident(r)
	}
	return p
}

// Gen derives a template from the grammar: single segments, a multi segment only last, an optional verb
func Gen(r *vc.Rand) Template {
	var t Template
	if r.Chance(3) {
		return Template{Segs: []Seg{{Typ: 2, Lit: ""}}} // "/"
	}
	n := 1 + r.Intn(4)
	hasVerb := r.Chance(30)
	if hasVerb {
		t.Verb = r.Pick(verbs)
	}
	for i := 0; i < n; i++ {
		last := i == n-1
		switch x := r.Intn(10); {
		case x < 5:
			t.Segs = append(t.Segs, Seg{Typ: 2, Lit: lit(r, last, hasVerb)})
		case x < 6:
			t.Segs = append(t.Segs, Seg{Typ: 0})
		case x < 7 && last:
			t.Segs = append(t.Segs, Seg{Typ: 1})
		default:
			v := Seg{Typ: 3, Path: fieldPath(r)}
			m := 1
			if r.Chance(35) {
				m += r.Intn(3)
			}
			for j := 0; j < m; j++ {
				switch y := r.Intn(10); {
				case y < 4:
					v.Segs = append(v.Segs, Seg{Typ: 0})
				case y < 6 && last && j == m-1:
					v.Segs = append(v.Segs, Seg{Typ: 1})
				default:
					v.Segs = append(v.Segs, Seg{Typ: 2, Lit: lit(r, false, true)})
				}
			}
			t.Segs = append(t.Segs, v)
		}
	}
	// a last literal that itself ends in ":verb" ("/x/b:v:v" = literal "b:v" + verb "v"): a path that carries one verb too few
	// ("/x/b:v") ends in the literal's own tail and must not be taken for a match
	if last := &t.Segs[len(t.Segs)-1]; hasVerb && last.Typ == 2 && r.Chance(15) {
		last.Lit += ":" + t.Verb
	}
	// a verb containing a colon is only unambiguous after a variable
	if last := t.Segs[len(t.Segs)-1]; hasVerb && last.Typ == 3 && r.Chance(20) {
		t.Verb = "a:b"
	}
	return t
}

// Mutate applies one edit to a template text: the near misses of the grammar
func Mutate(r *vc.Rand, s string) string {
	b := []byte(s)
	pos := func() int { return r.Intn(len(b) + 1) }
	ins := []string{"/", "{", "}", "=", ".", ":", "*", "**", "%", "%4", "%zz", " ", "\x00", "?", "#", "{a}", "{a=", "é", "[", "\\", "\"", "{}", "{a.}", "{.a}", "{1a}", "{a..b}", "//"}
	switch r.Intn(5) {
	case 0: // insert
		p := pos()
		return string(b[:p]) + r.Pick(ins) + string(b[p:])
	case 1: // delete one byte
		if len(b) == 0 {
			return "/"
		}
		p := r.Intn(len(b))
		return string(b[:p]) + string(b[p+1:])
	case 2: // replace one byte
		if len(b) == 0 {
			return "x"
		}
		p := r.Intn(len(b))
		return string(b[:p]) + r.Pick(ins) + string(b[p+1:])
	case 3: // duplicate a slice
		if len(b) < 2 {
			return s + s
		}
		p := r.Intn(len(b) - 1)
		q := p + 1 + r.Intn(len(b)-p-1)
		return string(b[:q]) + string(b[p:q]) + string(b[q:])
	default: // drop the leading slash / append
		if r.Bool() {
			return strings.TrimPrefix(s, "/")
		}
		return s + r.Pick(ins)
	}
}

// Noise: arbitrary byte strings over the template alphabet
func Noise(r *vc.Rand) string {
	alpha := []string{"/", "{", "}", "=", ".", ":", "*", "a", "b", "1", "_", "%", "4", "-", "\x00", " ", "é"}
	n := r.Intn(12)
	var sb strings.Builder
	if r.Chance(70) {
		sb.WriteString("/")
	}
	for i := 0; i < n; i++ {
		sb.WriteString(r.Pick(alpha))
	}
	return sb.String()
}

var compPool = []string{"x", "123", "a b", "%20", "a%2Fb", "%2f", "%25", "%2520", "é", "%E4%B8%AD", "", "a:b", ":v", "x:watch", "%3A", "%3a", "a+b", "%2B", "%41", "~", "a.b", "%00", "%zz", "%4"}

// Path builds a request path for the template: literals verbatim, wildcards from a pool of components (escapes of every
// class), then optionally damages it
func Path(r *vc.Rand, t Template) string {
	var comps []string
	var fill func(segs []Seg)
	fill = func(segs []Seg) {
		for _, s := range segs {
			switch s.Typ {
			case 0:
				comps = append(comps, r.Pick(compPool))
			case 1:
				for i := 0; i < r.Intn(4); i++ {
					comps = append(comps, r.Pick(compPool))
				}
			case 2:
				comps = append(comps, s.Lit)
			default:
				fill(s.Segs)
			}
		}
	}
	fill(t.Segs)
	p := "/" + strings.Join(comps, "/")
	if t.Verb != "" {
		p += ":" + t.Verb
	}
	switch r.Intn(12) {
	case 0:
		p += "/"
	case 1:
		p += "/extra"
	case 2:
		p = strings.Replace(p, "/", "//", 1)
	case 3:
		if len(comps) > 0 {
			p = "/" + strings.Join(comps[:len(comps)-1], "/")
		}
	case 4:
		p += ":" + r.Pick(verbs)
	case 5:
		p = strings.TrimSuffix(p, ":"+t.Verb)
	}
	return p
}
