// c13: streamed responses are framed one message per record (NDJSON, SSE) and WebSocket flows are one-to-one.
package main

import (
	"encoding/json"
	"fmt"
	"net/http"
	"net/http/httptest"
	"os"
	"strings"
	"time"

	"github.com/gorilla/websocket"
	"github.com/renbou/grpcbridge/bridgedesc"
	"github.com/renbou/grpcbridge/internal/bridgetest/testpb"
	vc "github.com/renbou/grpcbridge/internal/zzverif/vcommon"
	"github.com/renbou/grpcbridge/internal/zzverif/vfake"
	"github.com/renbou/grpcbridge/transcoding"
	"github.com/renbou/grpcbridge/webbridge"
	"google.golang.org/grpc/codes"
	"google.golang.org/grpc/status"
	"google.golang.org/protobuf/encoding/protojson"
	"google.golang.org/protobuf/proto"
)

var strPool = []string{"plain", "", "quote\"inside", "line1\nline2", "tab\t", "back\\slash", "sep para ", "emoji 😀 non-BMP", "<html>&", "ünï", "\r\n\r\n", "data: x", "{\"a\":1}"}

func echoStreaming() (*bridgedesc.Target, *bridgedesc.Service, *bridgedesc.Method) {
	t := testpb.TestServiceDesc
	svc := &t.Services[0]
	for i := range svc.Methods {
		if strings.HasSuffix(svc.Methods[i].RPCName, "/Echo") {
			m := svc.Methods[i]
			m.ServerStreaming = true
			return t, svc, &m
		}
	}
	panic("Echo not found")
}

func canon(v any) []byte {
	b, err := json.Marshal(v)
	if err != nil {
		panic(err)
	}
	return b
}

func httpPart(w *vc.Writer, r *vc.Rand) {
	t, svc, m := echoStreaming()
	paths := []string{"", "non_scalars", "non_scalars.str_list", "non_scalars.str2str_map", "scalars.string_value", "non_scalars.root_digits"}
	n := vc.Scale(300, 20000)
	for i := 0; i < n; i++ {
		rr := r.Fork()
		mode := rr.Intn(2)
		rb := rr.Pick(paths)
		k := rr.Intn(5)
		conn := vfake.NewConn()
		expected := vc.L{}
		for j := 0; j < k; j++ {
			msg := &testpb.Combined{Scalars: &testpb.Scalars{StringValue: rr.Pick(strPool), Int64Value: int64(rr.Intn(1000)) - 500}, NonScalars: &testpb.NonScalars{}}
			for x := 0; x < rr.Intn(4); x++ {
				msg.NonScalars.StrList = append(msg.NonScalars.StrList, rr.Pick(strPool))
			}
			msg.NonScalars.Str2StrMap = map[string]string{}
			for x := 0; x < rr.Intn(3); x++ {
				msg.NonScalars.Str2StrMap[rr.Pick(strPool)] = rr.Pick(strPool)
			}
			msg.NonScalars.RootDigits = testpb.Digits(rr.Intn(3))
			b, _ := proto.Marshal(msg)
			conn.Script = append(conn.Script, vfake.RespItem{Kind: vfake.KMsg, Payload: b})
			var exp []byte
			switch rb {
			case "":
				exp, _ = protojson.MarshalOptions{EmitDefaultValues: true}.Marshal(msg)
			case "non_scalars":
				exp, _ = protojson.MarshalOptions{EmitDefaultValues: true}.Marshal(msg.NonScalars)
			case "non_scalars.str_list":
				l := msg.NonScalars.StrList
				if l == nil {
					l = []string{}
				}
				exp = canon(l)
			case "non_scalars.str2str_map":
				exp = canon(msg.NonScalars.Str2StrMap)
			case "scalars.string_value":
				exp = canon(msg.Scalars.StringValue)
			case "non_scalars.root_digits":
				exp = canon(msg.NonScalars.RootDigits.String())
			case "scalars.int64_value":
				exp = canon(fmt.Sprint(msg.Scalars.Int64Value)) // proto3 JSON: 64-bit integers are strings
			}
			expected = append(expected, exp)
		}
		if k > 0 && rr.Chance(35) {
			// the target fails after the first byte: nothing but the k records may be in the body
			conn.Script = append(conn.Script, vfake.RespItem{Kind: vfake.KErr, Status: status.New(codes.Internal, "late failure")})
		} else {
			conn.Script = append(conn.Script, vfake.RespItem{Kind: vfake.KEOF})
		}
		router := &vfake.Router{Conn: conn, Target: t, Service: svc, Method: m,
			Binding: &bridgedesc.Binding{HTTPMethod: "POST", Pattern: "/x", RequestBodyPath: "*", ResponseBodyPath: rb}}
		b := webbridge.NewTranscodedHTTPBridge(router, webbridge.TranscodedHTTPBridgeOpts{})
		req := httptest.NewRequest("POST", "/x", strings.NewReader(`{}`))
		if mode == 1 {
			req.Header.Set("Accept", "text/event-stream")
		}
		rec := httptest.NewRecorder()
		b.ServeHTTP(rec, req)
		ct := rec.Header().Get("Content-Type")
		if k == 0 {
			// nothing was sent: no content type is set by the stream; report what the format prescribes so that only framing is judged
			if mode == 0 {
				ct = "application/json"
			} else {
				ct = "text/event-stream"
			}
		}
		w.Case(vc.L{mode, k, expected}, vc.L{ct, rec.Body.Bytes()}, k > 0)
	}
}

type flowMsg struct {
	Message string `json:"message"`
}

func wsPart(w *vc.Writer, r *vc.Rand) {
	n := vc.Scale(150, 6000)
	for i := 0; i < n; i++ {
		rr := r.Fork()
		cs := rr.Bool()
		hasBody := rr.Chance(70)
		nFrames := rr.Intn(4)
		reqBin, respBin := rr.Chance(30), rr.Chance(30)
		frames := vc.L{}
		type fr struct {
			text bool
			p    []byte
		}
		var fs []fr
		for j := 0; j < nFrames; j++ {
			p := canon(flowMsg{rr.Pick(strPool)})
			if reqBin && rr.Chance(20) {
				p = []byte{} // an empty binary frame is an empty message, not the end of the stream
			}
			text := !rr.Chance(15)
			if reqBin {
				text = !text
			}
			fs = append(fs, fr{text, p})
			if len(p) == 0 {
				frames = append(frames, vc.L{text, canon(flowMsg{""})}) // what an empty frame denotes: the empty message
			} else {
				frames = append(frames, vc.L{text, p})
			}
			if text == reqBin {
				// gws closes the TCP connection right after writing the close frame: client data still unread at that moment
				// resets the connection and can destroy the close frame (dependency behaviour, DESIGN §6) - send nothing after it
				break
			}
		}
		nFrames = len(fs)
		// expected number of request messages and whether a wrong-typed frame ends the call
		wrong := false
		expectReqs := 0
		if cs {
			for _, f := range fs {
				if f.text == reqBin {
					wrong = true
					break
				}
				expectReqs++
			}
		} else if hasBody {
			if len(fs) > 0 {
				if fs[0].text != reqBin {
					expectReqs = 1
				} else {
					wrong = true
				}
			}
		} else {
			expectReqs = 1
		}
		if !cs && hasBody && len(fs) == 0 {
			continue // the call would wait for a body for ever; nothing to observe
		}
		outcome := 0
		if rr.Chance(40) {
			outcome = []int{3, 5, 7, 13, 14}[rr.Intn(5)]
		}
		conn := vfake.NewConn()
		responses := vc.L{}
		emsg := ""
		if !wrong {
			for j := 0; j < rr.Intn(4); j++ {
				s := rr.Pick(strPool)
				conn.Script = append(conn.Script, vfake.RespItem{Kind: vfake.KMsg, Payload: vfake.Flow(s), NeedReqs: expectReqs})
				responses = append(responses, canon(flowMsg{s}))
			}
			if outcome == 0 {
				conn.Script = append(conn.Script, vfake.RespItem{Kind: vfake.KEOF, NeedReqs: expectReqs})
			} else {
				// the reason of a close frame is limited to 123 bytes: long messages (also multi-byte ones cut in the middle) must
				// still end the socket with a well-formed close frame that carries the code
				emsg = rr.Pick([]string{"target failed", "target failed", strings.Repeat("long reason ", 20), strings.Repeat("é中", 70), strings.Repeat("x", 123), strings.Repeat("y", 124), ""})
				conn.Script = append(conn.Script, vfake.RespItem{Kind: vfake.KErr, Status: status.New(codes.Code(outcome), emsg), NeedReqs: expectReqs})
			}
		}
		// the target answers only once the client has sent everything and the bridge had time to read it: closing a socket
		// with unread client data resets the connection and can destroy the close frame (a transport race, not framing)
		gate := make(chan struct{})
		conn.Hook = func() { <-gate }
		router := vfake.NewFlowRouter(conn, cs, true)
		if !hasBody {
			router.Binding = &bridgedesc.Binding{HTTPMethod: "GET", Pattern: "/x", RequestBodyPath: ""}
		}
		tr := transcoding.NewStandardTranscoder(transcoding.StandardTranscoderOpts{Marshalers: []transcoding.Marshaler{transcoding.DefaultJSONMarshaler, binMarshaler{transcoding.DefaultJSONMarshaler}}})
		b := webbridge.NewTranscodedWebSocketBridge(router, webbridge.TranscodedWebSocketBridgeOpts{Transcoder: tr})
		srv := httptest.NewServer(b)
		hdr := http.Header{}
		if reqBin {
			hdr.Set("Content-Type", binCT)
		}
		if respBin != reqBin || rr.Chance(30) {
			if respBin {
				hdr.Set("Accept", binCT)
			} else {
				hdr.Set("Accept", "application/json")
			}
		}
		ws, _, err := websocket.DefaultDialer.Dial("ws"+strings.TrimPrefix(srv.URL, "http")+"/x", hdr)
		if err != nil {
			srv.Close()
			continue
		}
		for _, f := range fs {
			op := websocket.TextMessage
			if !f.text {
				op = websocket.BinaryMessage
			}
			ws.WriteMessage(op, f.p)
		}
		time.Sleep(30 * time.Millisecond)
		close(gate)
		got := vc.L{}
		closeCode, reasonHasCode := -1, false
		reasonText := ""
		ws.SetReadDeadline(time.Now().Add(5 * time.Second))
		for {
			op, data, err := ws.ReadMessage()
			if err != nil {
				if ce, ok := err.(*websocket.CloseError); ok {
					closeCode = ce.Code
					reasonHasCode = strings.HasPrefix(ce.Text, "code ")
					reasonText = ce.Text
				}
				break
			}
			var fm flowMsg
			c := data
			if json.Unmarshal(data, &fm) == nil {
				c = canon(fm)
			}
			got = append(got, vc.L{op == websocket.TextMessage, c})
		}
		ws.Close()
		srv.Close()
		conn.Lock()
		toTarget := vc.L{}
		for idx, sb := range conn.SentBytes {
			fm := &testpb.FlowMessage{}
			proto.Unmarshal(sb, fm)
			if !hasBody {
				if fm.GetMessage() == "" {
					toTarget = append(toTarget, []byte{})
				} else {
					toTarget = append(toTarget, []byte("MISMATCH"))
				}
				continue
			}
			_ = idx
			toTarget = append(toTarget, canon(flowMsg{fm.GetMessage()}))
		}
		conn.Unlock()
		if wrong {
			outcome = 3
			reasonText = "" // the text of the wrong-frame-type error is not modelled
		}
		w.Case(vc.L{cs, hasBody, frames, responses, outcome, reqBin, respBin, emsg}, vc.L{toTarget, got, closeCode, reasonHasCode, reasonText}, nFrames > 0)
	}
}

func main() {
	w := vc.NewWriter(os.Args[1])
	defer w.Close()
	r := vc.NewRand(vc.Seed())
	switch os.Args[2] {
	case "http":
		httpPart(w, r)
	case "ws":
		wsPart(w, r)
	}
}

// binMarshaler: the JSON marshaler under a binary content type, to exercise codecs whose WebSocket frames are binary
const binCT = "application/x-verif-bin"

type binMarshaler struct{ *transcoding.JSONMarshaler }

func (binMarshaler) ContentType() (string, bool) { return binCT, true }
