// Package vfake provides in-process fakes of the public interfaces the bridge is written against:
// a scripted target (grpcadapter.ClientConn / ClientStream) and a fixed router (routing.HTTPRouter / GRPCRouter).
// The fakes consume the same scripts the Coq models get, and record what the target observes.
package vfake

import (
	"context"
	"io"
	"net/http"
	"sync"
	"time"

	"github.com/renbou/grpcbridge/bridgedesc"
	"github.com/renbou/grpcbridge/grpcadapter"
	"github.com/renbou/grpcbridge/internal/bridgetest/testpb"
	"github.com/renbou/grpcbridge/internal/rpcutil"
	"github.com/renbou/grpcbridge/routing"
	"google.golang.org/grpc"
	"google.golang.org/grpc/codes"
	"google.golang.org/grpc/metadata"
	"google.golang.org/grpc/status"
	"google.golang.org/protobuf/proto"
)

const (
	KMsg = 0 // a response message
	KEOF = 1 // clean end of stream (status OK)
	KErr = 2 // status error
)

// RespItem is one item of the target's scripted response stream.
type RespItem struct {
	Kind          int
	Payload       []byte // serialized message (KMsg)
	Status        *status.Status
	NeedReqs      int  // available only after the bridge has sent this many requests
	NeedHalfClose bool // available only after CloseSend
}

// Conn is a scripted target. One Conn serves one call (Stream is expected once; more are recorded).
type Conn struct {
	mu      sync.Mutex
	changed chan struct{}

	// script
	StreamErr  error
	StreamWait bool // Stream() blocks until ctx is done (unreachable target)
	Script     []RespItem
	HeaderMD   metadata.MD
	TrailerMD  metadata.MD
	SendErrAt  int   // index of the Send that fails (-1: never)
	SendErr    error // io.EOF or a status error
	NewOutput  func() proto.Message
	Hook       func() // called at the start of every operation
	Unaware    bool   // the adapter ignores the context (blocks until Release)
	release    chan struct{}
	Created    bool

	// records
	Streams       int
	Method        string
	OutMD         metadata.MD
	HasDeadline   bool
	Deadline      time.Time
	StreamAt      time.Time
	Sent          []proto.Message // retained pointers; contents compared at the end
	SentBytes     [][]byte
	CloseSends    int
	Closes        int
	ConnCloses    int
	next          int // next script item
	RecvCalls     int
	Events        []string
	ctxCancelSeen bool
	sendCalls     int
}

func NewConn() *Conn {
	return &Conn{changed: make(chan struct{}), SendErrAt: -1, release: make(chan struct{})}
}

func (c *Conn) hook() {
	if c.Hook != nil {
		c.Hook()
	}
}

// Release unblocks operations of an unaware fake at the end of a case.
func (c *Conn) Release() {
	c.mu.Lock()
	defer c.mu.Unlock()
	select {
	case <-c.release:
	default:
		close(c.release)
	}
}

func (c *Conn) bump() {
	close(c.changed)
	c.changed = make(chan struct{})
}

func (c *Conn) Stream(ctx context.Context, method string) (grpcadapter.ClientStream, error) {
	c.hook()
	c.mu.Lock()
	c.Streams++
	c.Method = method
	c.StreamAt = time.Now()
	md, _ := metadata.FromOutgoingContext(ctx)
	c.OutMD = md.Copy()
	c.Deadline, c.HasDeadline = ctx.Deadline()
	wait := c.StreamWait
	serr := c.StreamErr
	c.mu.Unlock()
	if wait {
		if c.Unaware {
			<-c.release
			return nil, status.Error(codes.Unavailable, "released")
		}
		<-ctx.Done()
		return nil, rpcutil.ContextError(ctx.Err())
	}
	if !c.Unaware && ctx.Err() != nil {
		return nil, rpcutil.ContextError(ctx.Err())
	}
	if serr != nil {
		return nil, serr
	}
	c.mu.Lock()
	c.Created = true
	c.mu.Unlock()
	return &Stream{c: c}, nil
}

func (c *Conn) Close() {
	c.mu.Lock()
	c.ConnCloses++
	c.mu.Unlock()
}

// Snapshot of the records under the lock.
func (c *Conn) Lock()   { c.mu.Lock() }
func (c *Conn) Unlock() { c.mu.Unlock() }

type Stream struct{ c *Conn }

func (s *Stream) Send(ctx context.Context, msg proto.Message) error {
	c := s.c
	c.hook()
	c.mu.Lock()
	defer c.mu.Unlock()
	if c.Closes > 0 {
		return status.Error(codes.Canceled, "fake stream closed")
	}
	if !c.Unaware && ctx.Err() != nil {
		return rpcutil.ContextError(ctx.Err())
	}
	if c.Closes > 0 {
		return status.Error(codes.Canceled, "fake stream closed")
	}
	idx := c.sendCalls
	c.sendCalls++
	if c.SendErrAt >= 0 && idx >= c.SendErrAt {
		return c.SendErr
	}
	c.Sent = append(c.Sent, msg)
	b, _ := proto.Marshal(msg)
	c.SentBytes = append(c.SentBytes, b)
	c.bump()
	return nil
}

func (s *Stream) Recv(ctx context.Context, msg proto.Message) error {
	c := s.c
	c.hook()
	for {
		c.mu.Lock()
		c.RecvCalls++
		if c.Closes > 0 {
			c.mu.Unlock()
			return status.Error(codes.Canceled, "fake stream closed")
		}
		if !c.Unaware && ctx.Err() != nil {
			c.mu.Unlock()
			return rpcutil.ContextError(ctx.Err())
		}
		if c.next < len(c.Script) {
			it := c.Script[c.next]
			if len(c.Sent) >= it.NeedReqs && (!it.NeedHalfClose || c.CloseSends > 0) {
				c.next++
				c.mu.Unlock()
				switch it.Kind {
				case KMsg:
					if err := proto.Unmarshal(it.Payload, msg); err != nil {
						return status.Error(codes.Internal, "fake: bad payload")
					}
					return nil
				case KEOF:
					return io.EOF
				default:
					return it.Status.Err()
				}
			}
		}
		ch := c.changed
		c.mu.Unlock()
		if c.Unaware {
			select {
			case <-ch:
			case <-c.release:
				return status.Error(codes.Unavailable, "released")
			}
			continue
		}
		select {
		case <-ch:
		case <-ctx.Done():
			return rpcutil.ContextError(ctx.Err())
		}
	}
}

func (s *Stream) Header() metadata.MD  { return s.c.HeaderMD.Copy() }
func (s *Stream) Trailer() metadata.MD { return s.c.TrailerMD.Copy() }
func (s *Stream) CloseSend() {
	s.c.mu.Lock()
	s.c.CloseSends++
	s.c.bump()
	s.c.mu.Unlock()
}
func (s *Stream) Close() {
	s.c.mu.Lock()
	s.c.Closes++
	s.c.bump()
	s.c.mu.Unlock()
}

// ---- router ----

// Router returns one fixed route for every request.
type Router struct {
	Conn       grpcadapter.ClientConn
	Target     *bridgedesc.Target
	Service    *bridgedesc.Service
	Method     *bridgedesc.Method
	Binding    *bridgedesc.Binding
	PathParams map[string]string
	Err        error

	mu         sync.Mutex
	GRPCMethod string
	HTTPCalls  int
	GRPCCalls  int
	LastQuery  string
}

func (r *Router) RouteHTTP(req *http.Request) (grpcadapter.ClientConn, routing.HTTPRoute, error) {
	r.mu.Lock()
	r.HTTPCalls++
	r.LastQuery = req.URL.RawQuery
	r.mu.Unlock()
	if r.Err != nil {
		return nil, routing.HTTPRoute{}, r.Err
	}
	return r.Conn, routing.HTTPRoute{Target: r.Target, Service: r.Service, Method: r.Method, Binding: r.Binding, PathParams: r.PathParams}, nil
}

func (r *Router) RouteGRPC(ctx context.Context) (grpcadapter.ClientConn, routing.GRPCRoute, error) {
	m, _ := grpc.Method(ctx)
	r.mu.Lock()
	r.GRPCCalls++
	r.GRPCMethod = m
	r.mu.Unlock()
	if r.Err != nil {
		return nil, routing.GRPCRoute{}, r.Err
	}
	return r.Conn, routing.GRPCRoute{Target: r.Target, Service: r.Service, Method: r.Method}, nil
}

// FlowMethod returns the testpb flow method of the given kind (all use FlowMessage both ways).
func FlowMethod(clientStreaming, serverStreaming bool) (*bridgedesc.Target, *bridgedesc.Service, *bridgedesc.Method) {
	name := "UnaryFlow"
	switch {
	case clientStreaming && serverStreaming:
		name = "BiDiFlow"
	case clientStreaming:
		name = "ClientFlow"
	case serverStreaming:
		name = "ServerFlow"
	}
	t := testpb.TestServiceDesc
	svc := &t.Services[0]
	for i := range svc.Methods {
		if svc.Methods[i].RPCName == "/"+string(svc.Name)+"/"+name {
			return t, svc, &svc.Methods[i]
		}
	}
	panic("vfake: flow method not found: " + name)
}

// NewFlowRouter builds a router for a flow method with the default binding (POST, body "*").
func NewFlowRouter(conn grpcadapter.ClientConn, clientStreaming, serverStreaming bool) *Router {
	t, s, m := FlowMethod(clientStreaming, serverStreaming)
	return &Router{Conn: conn, Target: t, Service: s, Method: m, Binding: bridgedesc.DefaultBinding(m)}
}

// Flow marshals a FlowMessage.
func Flow(s string) []byte {
	b, _ := proto.Marshal(&testpb.FlowMessage{Message: s})
	return b
}
