package vfake

import (
	"context"
	"io"
	"sync"

	"github.com/renbou/grpcbridge/internal/rpcutil"
	"google.golang.org/grpc/metadata"
	"google.golang.org/grpc/status"
	"google.golang.org/protobuf/proto"
)

// InItem is one item the scripted client yields from Recv; after the last one the client stays silent (blocks).
type InItem struct {
	Kind    int // KMsg, KEOF, KErr
	Payload []byte
	Status  *status.Status
}

// Incoming is a scripted grpcadapter.ServerStream (the client side of a bridged call).
type Incoming struct {
	mu         sync.Mutex
	Items      []InItem
	pos        int
	SendFailAt int // -1: never
	SendErr    error
	Aware      bool   // honours the context (all web adapters do)
	Hook       func() // called at the start of every operation (schedule perturbation / context events)

	Sent      []proto.Message
	HeaderMD  []metadata.MD
	TrailerMD []metadata.MD
	sends     int
	release   chan struct{}
}

func NewIncoming() *Incoming {
	return &Incoming{SendFailAt: -1, Aware: true, release: make(chan struct{})}
}

// Release unblocks operations of an unaware fake at the end of a case.
func (in *Incoming) Release() {
	in.mu.Lock()
	defer in.mu.Unlock()
	select {
	case <-in.release:
	default:
		close(in.release)
	}
}

func (in *Incoming) hook() {
	if in.Hook != nil {
		in.Hook()
	}
}

func (in *Incoming) Recv(ctx context.Context, msg proto.Message) error {
	in.hook()
	in.mu.Lock()
	if in.Aware && ctx.Err() != nil {
		in.mu.Unlock()
		return rpcutil.ContextError(ctx.Err())
	}
	if in.pos < len(in.Items) {
		it := in.Items[in.pos]
		in.pos++
		in.mu.Unlock()
		switch it.Kind {
		case KMsg:
			return proto.Unmarshal(it.Payload, msg)
		case KEOF:
			return io.EOF
		default:
			return it.Status.Err()
		}
	}
	in.mu.Unlock()
	if in.Aware {
		select {
		case <-ctx.Done():
			return rpcutil.ContextError(ctx.Err())
		case <-in.release:
			return io.EOF
		}
	}
	<-in.release
	return io.EOF
}

func (in *Incoming) Send(ctx context.Context, msg proto.Message) error {
	in.hook()
	in.mu.Lock()
	defer in.mu.Unlock()
	if in.Aware && ctx.Err() != nil {
		return rpcutil.ContextError(ctx.Err())
	}
	k := in.sends
	in.sends++
	if in.SendFailAt >= 0 && k >= in.SendFailAt {
		return in.SendErr
	}
	in.Sent = append(in.Sent, msg)
	return nil
}

func (in *Incoming) SetHeader(md metadata.MD) {
	in.mu.Lock()
	in.HeaderMD = append(in.HeaderMD, md)
	in.mu.Unlock()
}

func (in *Incoming) SetTrailer(md metadata.MD) {
	in.mu.Lock()
	in.TrailerMD = append(in.TrailerMD, md)
	in.mu.Unlock()
}

func (in *Incoming) Lock()   { in.mu.Lock() }
func (in *Incoming) Unlock() { in.mu.Unlock() }
