// c03: PatternRouter.RouteHTTP on binding sets generated from the template grammar and request URLs parsed the way
// net/http parses a request target.
package main

import (
	"fmt"
	"net/http"
	"net/url"
	"os"
	"sort"
	"strings"

	"github.com/renbou/grpcbridge/bridgedesc"
	"github.com/renbou/grpcbridge/grpcadapter"
	vc "github.com/renbou/grpcbridge/internal/zzverif/vcommon"
	"github.com/renbou/grpcbridge/internal/zzverif/vtmpl"
	"github.com/renbou/grpcbridge/routing"
	"google.golang.org/grpc/status"
	"google.golang.org/protobuf/reflect/protoreflect"
)

type pool struct{}

func (pool) Get(string) (grpcadapter.ClientConn, bool) { return nil, true }

// HTTP methods are case-sensitive tokens: custom binding kinds in lower and mixed case, and requests in the other case
var methods = []string{"GET", "POST", "PUT", "CUSTOM", "purge", "PURGE", "Search", "get"}

func main() {
	w := vc.NewWriter(os.Args[1])
	defer w.Close()
	r := vc.NewRand(vc.Seed())
	n := vc.Scale(250, 8000)
	routed, notfound, invalid := 0, 0, 0
	for i := 0; i < n; i++ {
		rr := r.Fork()
		router := routing.NewPatternRouter(pool{}, routing.PatternRouterOpts{})
		nt := 1 + rr.Intn(3)
		targetsVal := vc.L{}
		var all []vtmpl.Template
		var allMethods []string
		type bref struct{ ti, bi int }
		index := map[*bridgedesc.Binding]bref{}
		var keep []*bridgedesc.Target
		var unboundPaths []string
		catchAllNext := false
		for ti := 0; ti < nt; ti++ {
			catchAllNext = false
			desc := &bridgedesc.Target{Name: fmt.Sprintf("t%d", ti)}
			bindingsVal := vc.L{}
			ns := 1 + rr.Intn(2)
			bi := 0
			desc.Services = make([]bridgedesc.Service, ns)
			for si := 0; si < ns; si++ {
				svc := &desc.Services[si]
				svc.Name = protoreflect.FullName(fmt.Sprintf("pkg%d.Svc%d", ti, si))
				nm := 1 + rr.Intn(3)
				svc.Methods = make([]bridgedesc.Method, nm)
				for mi := 0; mi < nm; mi++ {
					m := &svc.Methods[mi]
					m.RPCName = fmt.Sprintf("/%s/M%d", svc.Name, mi)
					nb := rr.Intn(4)
					if rr.Chance(15) {
						nb = 0
					}
					if nb == 0 {
						// no bindings: the default POST /package.Service/Method
						bindingsVal = append(bindingsVal, vc.L{"POST", m.RPCName})
						bi++
						unboundPaths = append(unboundPaths, m.RPCName)
						catchAllNext = rr.Chance(40)
						continue
					}
					m.Bindings = make([]bridgedesc.Binding, nb)
					for k := 0; k < nb; k++ {
						t := vtmpl.Gen(rr)
						text := t.Render(rr)
						if catchAllNext && k == 0 {
							// a POST binding that also matches the default path of the unbound method declared BEFORE it: description
							// order must decide (the default binding stands at its method's own position)
							catchAllNext = false
							text = rr.Pick([]string{"/{svc}/{m}", "/**", "/{all=**}", "/*/*"})
							m.Bindings[k] = bridgedesc.Binding{HTTPMethod: "POST", Pattern: text}
							bindingsVal = append(bindingsVal, vc.L{"POST", text})
							bi++
							continue
						}
						if rr.Chance(8) {
							text = vtmpl.Mutate(rr, text) // a template that may be rejected: then there is no such route
						} else {
							all = append(all, t)
						}
						m.Bindings[k] = bridgedesc.Binding{HTTPMethod: methods[rr.Intn(len(methods))], Pattern: text}
						if len(allMethods) < len(all) {
							allMethods = append(allMethods, m.Bindings[k].HTTPMethod)
						}
						bindingsVal = append(bindingsVal, vc.L{m.Bindings[k].HTTPMethod, text})
						bi++
					}
				}
			}
			// index bindings by address in description order (defaults are created inside the router: matched by pattern)
			bi = 0
			for si := range desc.Services {
				for mi := range desc.Services[si].Methods {
					m := &desc.Services[si].Methods[mi]
					if len(m.Bindings) == 0 {
						bi++
						continue
					}
					for k := range m.Bindings {
						index[&m.Bindings[k]] = bref{ti, bi}
						bi++
					}
				}
			}
			targetsVal = append(targetsVal, vc.L{bindingsVal})
			wt, err := router.Watch(desc.Name)
			if err != nil {
				panic(err)
			}
			wt.UpdateDesc(desc)
			keep = append(keep, desc)
		}
		for k := 0; k < 6; k++ {
			var raw string
			preferred := ""
			switch {
			case len(all) > 0 && rr.Chance(80):
				pick := rr.Intn(len(all))
				raw, preferred = vtmpl.Path(rr, all[pick]), allMethods[pick]
				// the verb of ANOTHER binding with the same HTTP method on a path built for this one
				if rr.Chance(40) {
					var cands []int
					for j := range all {
						if j != pick && all[j].Verb != "" && all[j].Verb != all[pick].Verb && allMethods[j] == allMethods[pick] {
							cands = append(cands, j)
						}
					}
					if len(cands) > 0 {
						raw += ":" + all[cands[rr.Intn(len(cands))]].Verb
					}
				}
			case len(unboundPaths) > 0 && rr.Chance(50):
				raw, preferred = unboundPaths[rr.Intn(len(unboundPaths))], "POST"
			case rr.Chance(50):
				raw = fmt.Sprintf("/pkg%d.Svc%d/M%d", rr.Intn(nt), rr.Intn(2), rr.Intn(3))
			default:
				raw = rr.Pick([]string{"/", "", "//", "/a/../b", "/%", "/a%2", "*", "/v1/a%2520b", "/v1/%2F", "/é", "/a b"})
			}
			u, err := url.ParseRequestURI(raw)
			if err != nil {
				continue // net/http answers 400 before any routing
			}
			method := methods[rr.Intn(len(methods))]
			if preferred != "" && rr.Chance(80) {
				method = preferred
				if rr.Chance(12) {
					method = strings.ToUpper(method)
				} else if rr.Chance(6) {
					method = strings.ToLower(method)
				}
			} else if rr.Chance(50) {
				method = "POST"
			}
			req := &http.Request{Method: method, URL: u}
			var impl vc.Val
			func() {
				defer func() {
					if rec := recover(); rec != nil {
						impl = vc.L{99}
					}
				}()
				_, route, err := router.RouteHTTP(req)
				if err != nil {
					st, _ := status.FromError(err)
					impl = vc.L{int(st.Code())}
					if st.Code() == 5 {
						notfound++
					} else {
						invalid++
					}
					return
				}
				routed++
				ref, ok := index[route.Binding]
				if !ok {
					// a default binding: find its position by the method's RPC name
					for ti, d := range keep {
						if d != route.Target {
							continue
						}
						bi := 0
						for si := range d.Services {
							for mi := range d.Services[si].Methods {
								m := &d.Services[si].Methods[mi]
								if len(m.Bindings) == 0 {
									if m == route.Method {
										ref, ok = bref{ti, bi}, true
									}
									bi++
								} else {
									bi += len(m.Bindings)
								}
							}
						}
					}
				}
				if !ok {
					impl = vc.L{98}
					return
				}
				names := make([]string, 0, len(route.PathParams))
				for k := range route.PathParams {
					names = append(names, k)
				}
				sort.Strings(names)
				vars := vc.L{}
				for _, k := range names {
					vars = append(vars, vc.L{k, route.PathParams[k]})
				}
				impl = vc.L{0, ref.ti, ref.bi, vars}
			}()
			w.Case(vc.L{targetsVal, method, u.EscapedPath(), raw}, impl, len(impl.(vc.L)) == 4)
		}
	}
	fmt.Printf("STAT outcomes \"routed=%d notfound=%d invalid=%d\"\n", routed, notfound, invalid)
}
