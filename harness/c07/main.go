// c07: metadata crosses the bridge only when allow-listed — driven through all five entry points with a
// recording fake target; observables: outgoing MD seen by the target, target header/trailer pairs seen by the client.
package main

import (
	"bytes"
	"context"
	"encoding/base64"
	"encoding/binary"
	"fmt"
	"io"
	"net"
	"net/http"
	"net/http/httptest"
	"net/url"
	"os"
	"sort"
	"strings"
	"time"

	"github.com/gorilla/websocket"
	grpcbridge "github.com/renbou/grpcbridge"
	"github.com/renbou/grpcbridge/bridgelog"
	"github.com/renbou/grpcbridge/grpcadapter"
	"github.com/renbou/grpcbridge/internal/bridgetest/testpb"
	vc "github.com/renbou/grpcbridge/internal/zzverif/vcommon"
	"github.com/renbou/grpcbridge/internal/zzverif/vfake"
	"github.com/renbou/grpcbridge/webbridge"
	"google.golang.org/grpc"
	"google.golang.org/grpc/credentials/insecure"
	"google.golang.org/grpc/metadata"
	"google.golang.org/grpc/test/bufconn"
)

const (
	eHTTP = iota
	eWS
	eGrpcWeb
	eGrpcWS
	eGrpc
)

var keyPool = []string{"x-a", "X-B", "x-c-bin", "Authorization", "Grpc-Metadata-x-d", "grpc-metadata-X-E-bin", "x-f", "Grpc-Timeout", "timeout", "Cookie", "x-g.h_i",
	// the same names with and without the gateway prefix: an allow-listed name must not be satisfied by its other spelling
	"x-d", "Grpc-Metadata-x-a", "grpc-metadata-x-f", "X-E-bin", "Grpc-Metadata-Authorization"}
var prefixPool = []string{"", "", "p-", "Grpc-Metadata-", "grpc-", "X-"}
var respPool = []string{"x-r1", "X-R2", "set-cookie", "x-r3-bin", "x-internal", "x-a"}

type tcase struct {
	entry                         int
	allowReq, allowResp, allowTrl []string
	prefReq, prefResp, prefTrl    string
	headers, query                [][2]string
	tHdr, tTrl                    metadata.MD
}

func subset(r *vc.Rand, pool []string, p int) []string {
	var out []string
	for _, k := range pool {
		if r.Chance(p) {
			// vary case of allow-list entries
			switch r.Intn(3) {
			case 0:
				out = append(out, strings.ToLower(k))
			case 1:
				out = append(out, strings.ToUpper(k))
			default:
				out = append(out, k)
			}
		}
	}
	// duplicates / reordering
	if len(out) > 1 && r.Chance(20) {
		out = append(out, out[0])
	}
	return out
}

func value(r *vc.Rand, key string) string {
	if strings.HasSuffix(strings.ToLower(key), "-bin") {
		raw := r.Bytes(r.Intn(7))
		switch r.Intn(4) {
		case 0:
			return base64.StdEncoding.EncodeToString(raw)
		case 1:
			return base64.RawStdEncoding.EncodeToString(raw)
		case 2:
			return "!!notbase64"
		default:
			return base64.StdEncoding.EncodeToString(raw) + "="
		}
	}
	if strings.EqualFold(key, "grpc-timeout") {
		return r.Pick([]string{"5S", "100m", "-5S", "abc", "99999999H", "1H", ""})
	}
	return r.Pick([]string{"v1", "v2", "hello world", "a,b", "", "Z"})
}

func gen(r *vc.Rand, entry int) tcase {
	tc := tcase{entry: entry}
	if r.Chance(25) { // default deny
	} else {
		tc.allowReq = subset(r, keyPool, 40)
		tc.allowResp = subset(r, respPool, 40)
		tc.allowTrl = subset(r, respPool, 40)
		tc.prefReq, tc.prefResp, tc.prefTrl = r.Pick(prefixPool), r.Pick(prefixPool), r.Pick(prefixPool)
	}
	for _, k := range keyPool {
		n := 0
		if r.Chance(55) {
			n = 1 + r.Intn(2)
		}
		for j := 0; j < n; j++ {
			kk := k
			if entry == eGrpc {
				kk = strings.ToLower(k)
			} else if r.Chance(30) {
				kk = strings.ToLower(k)
			}
			v := value(r, k)
			if entry == eGrpc && v == "" && strings.EqualFold(k, "grpc-timeout") {
				v = "1S"
			}
			tc.headers = append(tc.headers, [2]string{kk, v})
		}
	}
	if entry == eWS {
		// query metadata keys: the pool's names, and spellings that only Unicode case mapping (ToLower / ToUpper / EqualFold)
		// turns into a pool name: U+212A KELVIN SIGN -> k, U+017F LONG S -> s, U+0130 -> i
		qkeys := append([]string{"bad key", "x-q"}, keyPool[:5]...)
		for _, k := range keyPool {
			for _, f := range [][2]string{{"k", "\u212a"}, {"s", "\u017f"}, {"i", "\u0130"}, {"K", "\u212a"}, {"S", "\u017f"}, {"I", "\u0130"}} {
				if strings.Contains(k, f[0]) {
					qkeys = append(qkeys, strings.Replace(k, f[0], f[1], 1))
				}
			}
		}
		for _, k := range qkeys {
			if r.Chance(40) {
				tc.query = append(tc.query, [2]string{k, r.Pick([]string{"q1", "q 2", "bad\x01", "ünï"})})
			}
		}
	}
	tc.tHdr, tc.tTrl = metadata.MD{}, metadata.MD{}
	for _, k := range respPool {
		if r.Chance(50) {
			tc.tHdr.Append(k, value(r, "x"))
			if r.Chance(30) {
				tc.tHdr.Append(k, "second")
			}
		}
		if r.Chance(50) {
			tc.tTrl.Append(k, value(r, "x")+"-t")
		}
	}
	return tc
}

func strs(ss []string) vc.Val { return vc.Strs(ss) }
func pairsVal(p [][2]string) vc.Val {
	out := vc.L{}
	for _, kv := range p {
		out = append(out, vc.L{kv[0], kv[1]})
	}
	return out
}
func mdVal(md metadata.MD) vc.Val {
	keys := make([]string, 0, len(md))
	for k := range md {
		keys = append(keys, k)
	}
	sort.Strings(keys)
	out := vc.L{}
	for _, k := range keys {
		out = append(out, vc.L{k, strs(md[k])})
	}
	return out
}

func (tc tcase) input() vc.Val {
	return vc.L{tc.entry, strs(tc.allowReq), tc.prefReq, strs(tc.allowResp), tc.prefResp, strs(tc.allowTrl), tc.prefTrl,
		pairsVal(tc.headers), pairsVal(tc.query), mdVal(tc.tHdr), mdVal(tc.tTrl)}
}

// candidate client-visible keys: lower(prefix+poolkey) for both prefixes, and pool keys themselves
func (tc tcase) clientKeys() map[string]bool {
	m := map[string]bool{}
	for _, k := range respPool {
		for _, p := range prefixPool {
			m[strings.ToLower(p+k)] = true
		}
	}
	return m
}

func sortedPairs(p [][2]string) vc.Val {
	sort.Slice(p, func(i, j int) bool {
		if p[i][0] != p[j][0] {
			return p[i][0] < p[j][0]
		}
		return p[i][1] < p[j][1]
	})
	return pairsVal(p)
}

func forwarder(tc tcase) *grpcadapter.ProxyForwarder {
	return grpcadapter.NewProxyForwarder(grpcadapter.ProxyForwarderOpts{Filter: grpcadapter.NewProxyMDFilter(grpcadapter.ProxyMDFilterOpts{
		AllowRequestMD: tc.allowReq, PrefixRequestMD: tc.prefReq,
		AllowResponseMD: tc.allowResp, PrefixResponseMD: tc.prefResp,
		AllowTrailerMD: tc.allowTrl, PrefixTrailerMD: tc.prefTrl,
	})})
}

func lpm(flag byte, data []byte) []byte {
	h := []byte{flag, 0, 0, 0, 0}
	binary.BigEndian.PutUint32(h[1:], uint32(len(data)))
	return append(h, data...)
}

// parse gRPC-Web frames; returns data payloads and the trailer block pairs
func parseFrames(b []byte) (msgs [][]byte, trailers [][2]string, headerFrames [][][2]string) {
	for len(b) >= 5 {
		n := int(binary.BigEndian.Uint32(b[1:5]))
		if 5+n > len(b) {
			break
		}
		body := b[5 : 5+n]
		if b[0]&0x80 != 0 {
			var ps [][2]string
			for _, line := range strings.Split(string(body), "\r\n") {
				if line == "" {
					continue
				}
				k, v, _ := strings.Cut(line, ": ")
				ps = append(ps, [2]string{k, v})
			}
			headerFrames = append(headerFrames, ps)
		} else {
			msgs = append(msgs, body)
		}
		b = b[5+n:]
	}
	return
}

type result struct {
	out      metadata.MD
	client   [][2]string
	deadline bool
	timeout  time.Duration
}

func pickClient(tc tcase, kv [][2]string) [][2]string {
	cand := tc.clientKeys()
	var out [][2]string
	for _, p := range kv {
		lk := strings.ToLower(p[0])
		lk = strings.TrimPrefix(lk, "trailer:")
		if cand[lk] {
			out = append(out, [2]string{lk, p[1]})
		}
	}
	return out
}

func headerPairs(h http.Header) [][2]string {
	var out [][2]string
	for k, vs := range h {
		for _, v := range vs {
			out = append(out, [2]string{k, v})
		}
	}
	return out
}

func newConn(tc tcase, serverStreaming bool) *vfake.Conn {
	c := vfake.NewConn()
	c.HeaderMD, c.TrailerMD = tc.tHdr, tc.tTrl
	c.Script = []vfake.RespItem{{Kind: vfake.KMsg, Payload: vfake.Flow("resp")}, {Kind: vfake.KEOF}}
	return c
}

func runHTTP(tc tcase, serverStreaming bool) result {
	conn := newConn(tc, serverStreaming)
	router := vfake.NewFlowRouter(conn, false, serverStreaming)
	b := webbridge.NewTranscodedHTTPBridge(router, webbridge.TranscodedHTTPBridgeOpts{Forwarder: forwarder(tc)})
	req := httptest.NewRequest("POST", "/x", strings.NewReader(`{"message":"hi"}`))
	for _, kv := range tc.headers {
		req.Header.Add(kv[0], kv[1])
	}
	// the handler's context already carries OUTGOING metadata (as a middleware in front of the bridge that makes calls of its
	// own would leave it): none of it may reach the target - what reaches the target is the filter's result and nothing else
	req = req.WithContext(metadata.NewOutgoingContext(req.Context(), metadata.Pairs("x-upstream-token", "secret", "authorization", "Bearer middleware")))
	rec := httptest.NewRecorder()
	b.ServeHTTP(rec, req)
	res := rec.Result()
	kv := headerPairs(res.Header)
	kv = append(kv, headerPairs(res.Trailer)...)
	return result{out: conn.OutMD, client: pickClient(tc, kv), deadline: conn.HasDeadline}
}

func runGrpcWeb(tc tcase, serverStreaming bool) result {
	conn := newConn(tc, serverStreaming)
	router := vfake.NewFlowRouter(conn, false, serverStreaming)
	b := webbridge.NewGRPCWebBridge(router, webbridge.GRPCWebBridgeOpts{Forwarder: forwarder(tc)})
	req := httptest.NewRequest("POST", "/"+string(router.Service.Name)+"/UnaryFlow", bytes.NewReader(lpm(0, vfake.Flow("hi"))))
	req.Header.Set("Content-Type", "application/grpc-web+proto")
	for _, kv := range tc.headers {
		req.Header.Add(kv[0], kv[1])
	}
	rec := httptest.NewRecorder()
	b.ServeHTTP(rec, req)
	res := rec.Result()
	body, _ := io.ReadAll(res.Body)
	kv := headerPairs(res.Header)
	_, _, hfs := parseFrames(body)
	for _, hf := range hfs {
		kv = append(kv, hf...)
	}
	return result{out: conn.OutMD, client: pickClient(tc, kv), deadline: conn.HasDeadline}
}

func wsURL(srv *httptest.Server, path string, q url.Values) string {
	u := "ws" + strings.TrimPrefix(srv.URL, "http") + path
	if len(q) > 0 {
		u += "?" + q.Encode()
	}
	return u
}

func runWS(tc tcase) result {
	conn := newConn(tc, true)
	router := vfake.NewFlowRouter(conn, true, true)
	b := webbridge.NewTranscodedWebSocketBridge(router, webbridge.TranscodedWebSocketBridgeOpts{Forwarder: forwarder(tc)})
	srv := httptest.NewServer(b)
	defer srv.Close()
	q := url.Values{}
	for _, kv := range tc.query {
		q.Add("_metadata["+kv[0]+"]", kv[1])
	}
	h := http.Header{}
	for _, kv := range tc.headers {
		h.Add(kv[0], kv[1])
	}
	d := websocket.Dialer{HandshakeTimeout: 5 * time.Second}
	ws, resp, err := d.Dial(wsURL(srv, "/x", q), h)
	var kv [][2]string
	if resp != nil {
		kv = headerPairs(resp.Header)
	}
	if err == nil {
		ws.SetReadDeadline(time.Now().Add(5 * time.Second))
		for {
			if _, _, err := ws.ReadMessage(); err != nil {
				break
			}
		}
		ws.Close()
	}
	waitStream(conn)
	return result{out: conn.OutMD, client: pickClient(tc, kv), deadline: conn.HasDeadline}
}

func waitStream(conn *vfake.Conn) {
	for i := 0; i < 500; i++ {
		conn.Lock()
		n := conn.Streams
		conn.Unlock()
		if n > 0 {
			return
		}
		time.Sleep(2 * time.Millisecond)
	}
}

func runGrpcWS(tc tcase) result {
	conn := newConn(tc, true)
	router := vfake.NewFlowRouter(conn, true, true)
	b := webbridge.NewGRPCWebSocketBridge(router, webbridge.GRPCWebBridgeOpts{Logger: bridgelog.Discard(), Forwarder: forwarder(tc)})
	srv := httptest.NewServer(b)
	defer srv.Close()
	d := websocket.Dialer{HandshakeTimeout: 5 * time.Second, Subprotocols: []string{"grpc-websockets"}}
	ws, _, err := d.Dial(wsURL(srv, "/"+string(router.Service.Name)+"/BiDiFlow", nil), nil)
	var kv [][2]string
	if err == nil {
		var hb strings.Builder
		for _, p := range tc.headers {
			fmt.Fprintf(&hb, "%s: %s\r\n", p[0], p[1])
		}
		ws.WriteMessage(websocket.BinaryMessage, []byte(hb.String()))
		ws.WriteMessage(websocket.BinaryMessage, append([]byte{0}, lpm(0, vfake.Flow("hi"))...))
		ws.WriteMessage(websocket.BinaryMessage, []byte{1})
		ws.SetReadDeadline(time.Now().Add(5 * time.Second))
		for {
			_, data, err := ws.ReadMessage()
			if err != nil {
				break
			}
			_, _, hfs := parseFrames(data)
			for _, hf := range hfs {
				kv = append(kv, hf...)
			}
		}
		ws.Close()
	}
	waitStream(conn)
	return result{out: conn.OutMD, client: pickClient(tc, kv), deadline: conn.HasDeadline}
}

func runGrpc(tc tcase, clientStreaming, serverStreaming bool) result {
	conn := newConn(tc, serverStreaming)
	router := vfake.NewFlowRouter(conn, false, false)
	proxy := grpcbridge.NewGRPCProxy(router, grpcbridge.WithForwarder(forwarder(tc)))
	lis := bufconn.Listen(1 << 20)
	srv := grpc.NewServer(proxy.AsServerOption())
	go srv.Serve(lis)
	defer srv.Stop()
	cc, err := grpc.NewClient("passthrough:///bufnet", grpc.WithContextDialer(func(ctx context.Context, _ string) (net.Conn, error) { return lis.DialContext(ctx) }),
		grpc.WithTransportCredentials(insecure.NewCredentials()))
	if err != nil {
		panic(err)
	}
	defer cc.Close()
	var mdPairs []string
	for _, kv := range tc.headers {
		if strings.EqualFold(kv[0], "grpc-timeout") {
			continue // a real gRPC client expresses its timeout via the context, see below
		}
		mdPairs = append(mdPairs, kv[0], kv[1])
	}
	ctx, cancel := context.WithTimeout(context.Background(), 10*time.Second)
	defer cancel()
	ctx = metadata.NewOutgoingContext(ctx, metadata.Pairs(mdPairs...))
	var hdr, trl metadata.MD
	out := &testpb.FlowMessage{}
	_ = cc.Invoke(ctx, router.Method.RPCName, &testpb.FlowMessage{Message: "hi"}, out, grpc.Header(&hdr), grpc.Trailer(&trl))
	var kv [][2]string
	for k, vs := range hdr {
		for _, v := range vs {
			kv = append(kv, [2]string{k, v})
		}
	}
	for k, vs := range trl {
		for _, v := range vs {
			kv = append(kv, [2]string{k, v})
		}
	}
	return result{out: conn.OutMD, client: pickClient(tc, kv), deadline: conn.HasDeadline}
}

func main() {
	w := vc.NewWriter(os.Args[1])
	defer w.Close()
	r := vc.NewRand(vc.Seed())
	counts := map[int]int{}
	n := vc.Scale(120, 3000)
	for entry := eHTTP; entry <= eGrpc; entry++ {
		for i := 0; i < n; i++ {
			tc := gen(r.Fork(), entry)
			var res result
			switch entry {
			case eHTTP:
				res = runHTTP(tc, i%2 == 1)
			case eWS:
				res = runWS(tc)
			case eGrpcWeb:
				res = runGrpcWeb(tc, i%2 == 1)
			case eGrpcWS:
				res = runGrpcWS(tc)
			case eGrpc:
				// the gRPC client library never sends raw grpc-timeout metadata; drop those pairs from the input too
				var hs [][2]string
				for _, kv := range tc.headers {
					if !strings.EqualFold(kv[0], "grpc-timeout") {
						hs = append(hs, kv)
					}
				}
				tc.headers = hs
				res = runGrpc(tc, false, false)
			}
			impl := vc.L{mdVal(res.out), sortedPairs(res.client), res.deadline}
			nt := len(tc.allowReq)+len(tc.allowResp)+len(tc.allowTrl) > 0 && len(tc.headers) > 0
			w.Case(tc.input(), impl, nt)
			counts[entry]++
		}
	}
	fmt.Printf("STAT per_entry %v\n", fmt.Sprintf("\"%v\"", counts))
}
