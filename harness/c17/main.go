// c17: structured fuzz stream against the whole WebBridge (real PatternRouter + ServiceRouter, scripted target) on four
// entry points: transcoded HTTP, transcoded WebSocket, gRPC-Web, gRPC-WebSocket.  Every handler invocation is monitored
// for panics and for not returning.
package main

import (
	"bufio"
	"bytes"
	"context"
	"encoding/base64"
	"encoding/binary"
	"encoding/json"
	"fmt"
	"io"
	"net"
	"net/http"
	"net/http/httptest"
	"os"
	"strconv"
	"strings"
	"sync"
	"sync/atomic"
	"time"

	"github.com/gorilla/websocket"
	grpcbridge "github.com/renbou/grpcbridge"
	"github.com/renbou/grpcbridge/bridgedesc"
	"github.com/renbou/grpcbridge/grpcadapter"
	vc "github.com/renbou/grpcbridge/internal/zzverif/vcommon"
	"github.com/renbou/grpcbridge/internal/zzverif/vfake"
	"github.com/renbou/grpcbridge/internal/zzverif/vschema"
	"github.com/renbou/grpcbridge/routing"
	"google.golang.org/protobuf/proto"
	"google.golang.org/protobuf/reflect/protoreflect"
	"google.golang.org/protobuf/types/dynamicpb"
)

// ---- the target: every call gets a fresh scripted connection answering one empty message ----
type pool struct {
	empty []byte
	mu    sync.Mutex
	conns []*vfake.Conn
}

func (p *pool) Get(string) (grpcadapter.ClientConn, bool) {
	c := vfake.NewConn()
	c.Script = []vfake.RespItem{{Kind: vfake.KMsg, Payload: p.empty}, {Kind: vfake.KEOF}}
	p.mu.Lock()
	p.conns = append(p.conns, c)
	p.mu.Unlock()
	return c, true
}

// ---- handler monitor ----
type monitor struct {
	h      http.Handler
	active int32
	panics int32
}

func (m *monitor) ServeHTTP(w http.ResponseWriter, r *http.Request) {
	atomic.AddInt32(&m.active, 1)
	defer atomic.AddInt32(&m.active, -1)
	defer func() {
		if rec := recover(); rec != nil {
			if rec == http.ErrAbortHandler {
				panic(rec)
			}
			atomic.AddInt32(&m.panics, 1)
			fmt.Fprintf(os.Stderr, "PANIC in handler: %v\n", rec)
			panic(http.ErrAbortHandler)
		}
	}()
	m.h.ServeHTTP(w, r)
}

// quiesce waits for every handler to return; false = stuck
func (m *monitor) quiesce() bool {
	deadline := time.Now().Add(4 * time.Second)
	for time.Now().Before(deadline) {
		if atomic.LoadInt32(&m.active) == 0 {
			return true
		}
		time.Sleep(200 * time.Microsecond)
	}
	return false
}

// ---- pieces ----
var noise = []string{"", "\x00", "\xff\xfe", "%", "%zz", "%00", "{", "}", "[", "]", "\"", "\\", "null", "true", "1e999", "-", "--1", "é", "\r\n", " ", "\t", "'", "<script>", "\u2028",
	strings.Repeat("a", 300), strings.Repeat("[", 200), strings.Repeat("{\"n\":", 60), "9999999999999999999999", "0x10", "NaN", "\"\\ud800\"", "\"\\x\"", "[1,]", "{\"a\"}", "{\"i32\":}", "BOGUS"}

var goodJSON = []string{`{}`, `{"i32":1}`, `{"s":"x","n":{"x":2}}`, `{"e":"ONE"}`, `{"ri":[1,2]}`, `{"msi":{"k":1}}`, `{"oa":"q"}`, `{"wi":5}`, `{"fm":"a,b"}`, `{"n":{"deep":{"z":"5"}}}`,
	`"ONE"`, `1`, `[1,2,3]`, `{"k":1}`, `"str"`, `{"x":1,"y":"s"}`, `null`, `{"e":"BOGUS"}`, `{"unknown":1}`, `{"rn":[{"x":1}]}`}

func pickBody(r *vc.Rand) (string, bool) {
	switch x := r.Intn(10); {
	case x < 4:
		return r.Pick(goodJSON), false
	case x < 6:
		// a valid document damaged by one edit
		b := []byte(r.Pick(goodJSON))
		if len(b) > 0 {
			p := r.Intn(len(b))
			switch r.Intn(3) {
			case 0:
				b = append(b[:p], b[p+1:]...)
			case 1:
				b[p] = "x{}[]\",:0"[r.Intn(9)]
			default:
				b = append(b[:p], append([]byte(r.Pick(noise)), b[p:]...)...)
			}
		}
		return string(b), false
	case x < 8:
		return r.Pick(noise), true
	default:
		return string(r.Bytes(r.Intn(40))), true
	}
}

var routes = []struct {
	method, path string
	body         bool
}{
	{"POST", "/v1/all", true}, {"GET", "/v1/items/%s/%s", false}, {"POST", "/v1/field/%s", true}, {"PUT", "/v1/n", true}, {"POST", "/v1/ri", true}, {"POST", "/v1/msi", true},
	{"GET", "/v1/stream/%s", false}, {"POST", "/v1/cstream", true}, {"POST", "/v1/bidi", true}, {"POST", "/c17.Svc/M6", true}, {"POST", "/v1/opt/%s:check", true},
}
var pathVals = []string{"1", "x", "-1", "2147483648", "a%2Fb", "%zz", "%", "%00", "a b", "é", "", ":check", "a:b", "..", "%2e%2e", strings.Repeat("9", 40), "ONE", "1.5"}
var queryKeys = []string{"i32", "i64", "u32", "u64", "b", "s", "by", "f", "d", "e", "ri", "rs", "re", "msi[k]", "mis[1]", "mbe[true]", "n.x", "n.deep.z", "oa", "ob", "on.x", "opt", "wi", "ws", "fm", "rw",
	"snakeCaseName", "customJSON", "nope", "n", "n.nope", "a[b][c]", "x[", "[", "", "page]", "]", "x]y]", "][", "a[]", "[]", "%5D", "msi]", "msi[k]]", "msi[[k]", "_metadata[k]", "i32.x", "ri[0]", "%zz", "é",
	// a field path that continues BEHIND a map, a list, a scalar, an enum, a wrapper or a well-known type
	"msi.k", "mis.1", "mbe.true", "msi.k.x", "ri.0", "rs.x", "re.ONE", "s.x", "e.x", "by.x", "wi.value", "wi.x", "ws.value.x", "fm.paths", "fm.paths.x", "n.x.y", "n.deep.z.w", "oa.x", "on.x.y", "rw.value"}
var queryVals = []string{"1", "-1", "x", "", "true", "ONE", "BOGUS", "1e40", "NaN", "QUJD", "!!!", "4294967297", "18446744073709551616", "a,b", "%zz", "\x00", "é", strings.Repeat("1", 50)}

func build() (*monitor, *pool) {
	s := vschema.RichSchema("c17")
	root, types := s.Build("c17")
	in := bridgedesc.DynamicMessage(root)
	b := func(m, p, body string) bridgedesc.Binding {
		return bridgedesc.Binding{HTTPMethod: m, Pattern: p, RequestBodyPath: body}
	}
	desc := &bridgedesc.Target{Name: "t", TypeResolver: types, Services: []bridgedesc.Service{{Name: protoreflect.FullName("c17.Svc"), Methods: []bridgedesc.Method{
		{RPCName: "/c17.Svc/M1", Input: in, Output: in, Bindings: []bridgedesc.Binding{b("POST", "/v1/all", "*"), b("GET", "/v1/items/{i32}/{n.x}", ""), b("GET", "/v1/ws/all", "*")}},
		{RPCName: "/c17.Svc/M2", Input: in, Output: in, Bindings: []bridgedesc.Binding{b("POST", "/v1/field/{s}", "e"), b("PUT", "/v1/n", "n"), b("POST", "/v1/ri", "ri"), b("POST", "/v1/msi", "msi"), b("POST", "/v1/opt/{opt}:check", "by")}},
		{RPCName: "/c17.Svc/M3", Input: in, Output: in, ServerStreaming: true, Bindings: []bridgedesc.Binding{b("GET", "/v1/stream/{s=**}", "")}},
		{RPCName: "/c17.Svc/M4", Input: in, Output: in, ClientStreaming: true, Bindings: []bridgedesc.Binding{b("POST", "/v1/cstream", "*"), b("GET", "/v1/ws/cstream", "*")}},
		{RPCName: "/c17.Svc/M5", Input: in, Output: in, ClientStreaming: true, ServerStreaming: true, Bindings: []bridgedesc.Binding{b("POST", "/v1/bidi", "n"), b("GET", "/v1/ws/bidi/{s}", "n"), b("GET", "/v1/ws/bidi", "")}},
		{RPCName: "/c17.Svc/M6", Input: in, Output: in},
	}}}}
	empty, _ := proto.Marshal(dynamicpb.NewMessage(root))
	p := &pool{empty: empty}
	pr := routing.NewPatternRouter(p, routing.PatternRouterOpts{})
	sr := routing.NewServiceRouter(p, routing.ServiceRouterOpts{})
	w1, _ := pr.Watch("t")
	w1.UpdateDesc(desc)
	w2, _ := sr.Watch("t")
	w2.UpdateDesc(desc)
	return &monitor{h: grpcbridge.NewWebBridge(combined{pr, sr})}, p
}

type combined struct {
	*routing.PatternRouter
	sr *routing.ServiceRouter
}

func (c combined) RouteGRPC(ctx context.Context) (grpcadapter.ClientConn, routing.GRPCRoute, error) {
	return c.sr.RouteGRPC(ctx)
}

func target(r *vc.Rand) (method, url string, hasBody bool) {
	rt := routes[r.Intn(len(routes))]
	method, hasBody = rt.method, rt.body
	path := rt.path
	for strings.Contains(path, "%s") {
		path = strings.Replace(path, "%s", r.Pick(pathVals), 1)
	}
	if r.Chance(10) {
		path = r.Pick([]string{"/", "//", "/v1", "/v1/all/", "/nope", "/v1/all:verb", "/%zz", "/v1/%2e%2e/all", "*", "/v1/all?", "/v1/items/1",
			// absolute-form request targets (RFC 9112 3.2.2): the handler sees an EMPTY path for the first two
			"http://x", "http://x?a=b", "http://x/v1/all", "HTTP://X:80", "http://x/"})
	}
	if r.Chance(10) {
		method = r.Pick([]string{"GET", "POST", "PUT", "DELETE", "PATCH", "X", "get"})
	}
	var q []string
	for i := 0; i < r.Intn(4); i++ {
		q = append(q, r.Pick(queryKeys)+"="+r.Pick(queryVals))
	}
	if r.Chance(8) {
		q = append(q, r.Pick([]string{"&&", "=", "a=%", ";", "a=b;c=d", "%"}))
	}
	url = path
	if len(q) > 0 {
		url += "?" + strings.Join(q, "&")
	}
	return
}

func readReq(raw string) *http.Request {
	req, err := http.ReadRequest(bufio.NewReader(strings.NewReader(raw)))
	if err != nil {
		return nil
	}
	return req
}

// declLen: the Content-Length a (hostile) client declares for a body of n bytes: mostly honest, sometimes short, long or absurd
func declLen(r *vc.Rand, n int) string {
	if !r.Chance(12) {
		return strconv.Itoa(n)
	}
	switch r.Intn(8) {
	case 0:
		return strconv.Itoa(n + 1)
	case 1:
		return strconv.Itoa(n + 1000)
	case 2:
		if n > 0 {
			return strconv.Itoa(n - 1)
		}
		return "0"
	case 3:
		return "0"
	case 4:
		return "2147483648"
	case 5:
		return "1099511627776"
	case 6:
		return "9223372036854775806"
	default:
		return "9223372036854775807"
	}
}

func atoi(s string) int { n, _ := strconv.Atoi(s); return n }

// ---- entry 1: transcoded HTTP ----
func httpCase(m *monitor, r *vc.Rand) (vc.Val, vc.Val, bool) {
	method, url, hasBody := target(r)
	body, garbage := "", false
	if hasBody || r.Chance(20) {
		body, garbage = pickBody(r)
	}
	hdr := ""
	switch r.Intn(8) {
	case 0:
		hdr += "Content-Type: " + r.Pick([]string{"application/json", "application/json; charset=utf-8", "text/plain", "", ";;", "application/x-protobuf", "APPLICATION/JSON"}) + "\r\n"
	case 1:
		hdr += "Accept: " + r.Pick([]string{"text/event-stream", "application/json", "*/*", "x"}) + "\r\n"
	case 2:
		// (no zero timeouts such as "0n": 504 is the right answer to them, and a 5xx counts as a failure here)
		hdr += "Grpc-Timeout: " + r.Pick([]string{"1S", "-1S", "x", "99999999999S", "1", "", " ", "S", "H", "99999999H", "1s", "\xff", "1S,2S", "123456789"}) + "\r\n"
	}
	decl := declLen(r, len(body))
	raw := fmt.Sprintf("%s %s HTTP/1.1\r\nHost: x\r\n%sContent-Length: %s\r\n\r\n%s", method, url, hdr, decl, body)
	req := readReq(raw)
	if req == nil {
		return nil, nil, false
	}
	rec := httptest.NewRecorder()
	truncated := len(decl) > 10 || atoi(decl) > len(body) // fewer bytes arrive than were announced: a transport failure, not bad syntax
	current(vc.L{1, method + " " + url, body, decl, truncated})
	panicked := serve(m, rec, req)
	class := 0
	if panicked {
		class = 99
	} else if !m.quiesce() {
		class = 98
	}
	wellFormed := rec.Code >= 100 && rec.Code < 600
	if ct := rec.Header().Get("Content-Type"); strings.HasPrefix(ct, "application/json") && rec.Body.Len() > 0 {
		// one JSON document per line
		for _, line := range bytes.Split(bytes.TrimSpace(rec.Body.Bytes()), []byte("\n")) {
			if !json.Valid(line) {
				wellFormed = false
			}
		}
	}
	_ = garbage
	return vc.L{1, method + " " + url, body, decl, truncated}, vc.L{class, rec.Code, wellFormed}, rec.Code == 200
}

// current is told the input before anything is served
var current func(vc.Val)

func serve(m *monitor, w http.ResponseWriter, req *http.Request) (panicked bool) {
	before := atomic.LoadInt32(&m.panics)
	func() {
		defer func() { recover() }()
		m.ServeHTTP(w, req)
	}()
	return atomic.LoadInt32(&m.panics) != before
}

// ---- entry 3: gRPC-Web over HTTP ----
func lpm(flag byte, n uint32, data []byte) []byte {
	b := make([]byte, 5+len(data))
	b[0] = flag
	binary.BigEndian.PutUint32(b[1:], n)
	copy(b[5:], data)
	return b
}

func webFrames(r *vc.Rand) []byte {
	var out []byte
	for i := 0; i < r.Intn(4); i++ {
		p := r.Bytes(r.Intn(20))
		switch r.Intn(8) {
		case 0:
			out = append(out, lpm(byte(r.Intn(256)), uint32(len(p)), p)...)
		case 1:
			out = append(out, lpm(0, uint32(r.U64()), p)...) // a length that lies
		case 2:
			out = append(out, lpm(0, 1<<31, nil)...)
		case 3:
			out = append(out, lpm(0, uint32(len(p)), p)[:r.Intn(5+len(p))]...) // truncated
		case 4:
			out = append(out, lpm(0x80, uint32(len(p)), p)...) // a trailer frame from the client
		default:
			out = append(out, lpm(0, 0, nil)...) // an empty (valid) message
		}
	}
	return out
}

// forcedBody, when set, replaces the random frames of a gRPC-Web request
var forcedBody []byte

func webCase(m *monitor, r *vc.Rand) (vc.Val, vc.Val, bool) {
	path := r.Pick([]string{"/c17.Svc/M1", "/c17.Svc/M3", "/c17.Svc/M4", "/c17.Svc/M5", "/c17.Svc/M6", "/c17.Svc/Nope", "/nope.Svc/M", "/", "/c17.Svc/", "/c17.Svc/M1/x", "/%zz/M1", "//M1"})
	ct := r.Pick([]string{"application/grpc-web", "application/grpc-web+proto", "application/grpc-web-text", "application/grpc-web-text+proto", "application/grpc-web+json", "application/grpc-web+", "application/grpc-web;x"})
	body := webFrames(r)
	if forcedBody != nil {
		body = append([]byte{}, forcedBody...)
	}
	if strings.Contains(ct, "text") {
		if r.Chance(70) {
			body = []byte(base64.StdEncoding.EncodeToString(body))
		}
		if r.Chance(20) {
			body = append(body, []byte(r.Pick([]string{"=", "!!", "\n", "A"}))...)
		}
	}
	hdr := ""
	if r.Chance(30) {
		hdr = r.Pick([]string{"Grpc-Timeout: 1S\r\n", "Grpc-Timeout: -5S\r\n", "X-Grpc-Web: 1\r\n", "Grpc-Encoding: gzip\r\n", "Te: trailers\r\n", "Grpc-Timeout: \xff\r\n", "Grpc-Timeout:\r\n", "Grpc-Timeout: S\r\n", "Grpc-Timeout: 1S\r\nGrpc-Timeout:\r\n"})
	}
	decl := declLen(r, len(body))
	if forcedBody != nil {
		decl = strconv.Itoa(len(body))
	}
	raw := fmt.Sprintf("POST %s HTTP/1.1\r\nHost: x\r\nContent-Type: %s\r\n%sContent-Length: %s\r\n\r\n%s", path, ct, hdr, decl, body)
	req := readReq(raw)
	if req == nil {
		return nil, nil, false
	}
	rec := httptest.NewRecorder()
	current(vc.L{3, path + " " + ct, body, decl})
	panicked := serve(m, rec, req)
	class := 0
	if panicked {
		class = 99
	} else if !m.quiesce() {
		class = 98
	}
	// well-formed: an HTTP error, or 200 with a body that is a sequence of frames ending in exactly one trailer frame
	wellFormed := rec.Code >= 100 && rec.Code < 600
	status := -1
	if rec.Code == 200 {
		data := rec.Body.Bytes()
		if strings.Contains(rec.Header().Get("Content-Type"), "text") {
			dec, err := base64.StdEncoding.DecodeString(string(data))
			if err != nil {
				wellFormed = false
			}
			data = dec
		}
		trailers := 0
		for len(data) >= 5 {
			n := int(binary.BigEndian.Uint32(data[1:5]))
			if len(data) < 5+n {
				wellFormed = false
				break
			}
			if data[0]&0x80 != 0 {
				trailers++
				for _, line := range strings.Split(string(data[5:5+n]), "\r\n") {
					if v, ok := strings.CutPrefix(strings.ToLower(line), "grpc-status:"); ok {
						fmt.Sscanf(strings.TrimSpace(v), "%d", &status)
					}
				}
				if len(data) != 5+n {
					wellFormed = false // something after the trailer
				}
			}
			data = data[5+n:]
		}
		if len(data) != 0 || trailers != 1 {
			wellFormed = false
		}
		if status < 0 {
			if v := rec.Header().Get("Grpc-Status"); v != "" {
				fmt.Sscanf(v, "%d", &status)
			} else {
				wellFormed = false
			}
		}
	}
	if !wellFormed && class == 0 && rec.Code == 200 && lateDataFrame(rec.Body.Bytes()) {
		class = 97
	}
	out := vc.L{class, rec.Code, wellFormed}
	if !wellFormed {
		// diagnostics for the replay: what the response looked like
		b := rec.Body.Bytes()
		if len(b) > 600 {
			b = b[:600]
		}
		out = append(out, vc.L{rec.Header().Get("Content-Type"), rec.Header().Get("Grpc-Status"), b})
	}
	return vc.L{3, path + " " + ct, body, decl}, out, status == 0
}

// lateDataFrame: the body is a sequence of whole frames with at most one trailer frame, and its only defect is where the
// data frames are: behind the trailer, or present while the trailer is not there (yet)
func lateDataFrame(data []byte) bool {
	trailerAt, frames := -1, 0
	for len(data) >= 5 {
		n := int(binary.BigEndian.Uint32(data[1:5]))
		if len(data) < 5+n {
			return false
		}
		if data[0]&0x80 != 0 {
			if trailerAt >= 0 {
				return false
			}
			trailerAt = frames
		}
		frames++
		data = data[5+n:]
	}
	if len(data) != 0 || frames == 0 {
		return false
	}
	return trailerAt < frames-1 // no trailer at all (-1), or something behind it
}

// ---- entries 2 and 4: WebSockets (real TCP, gorilla client, raw frames where malformed ones are wanted) ----
func rawFrame(fin bool, opcode byte, masked bool, claim int, payload []byte) []byte {
	var b []byte
	h := opcode
	if fin {
		h |= 0x80
	}
	b = append(b, h)
	mb := byte(0)
	if masked {
		mb = 0x80
	}
	switch {
	case claim < 126:
		b = append(b, mb|byte(claim))
	case claim < 65536:
		b = append(b, mb|126, byte(claim>>8), byte(claim))
	default:
		b = append(b, mb|127, 0, 0, 0, 0, byte(claim>>24), byte(claim>>16), byte(claim>>8), byte(claim))
	}
	key := [4]byte{1, 2, 3, 4}
	if masked {
		b = append(b, key[:]...)
		for i, c := range payload {
			b = append(b, c^key[i%4])
		}
	} else {
		b = append(b, payload...)
	}
	return b
}

// forced, when set, replaces the random messages of a gRPC-WebSocket session: a valid header message followed by these
var forced [][]byte

func wsCase(m *monitor, srv *httptest.Server, r *vc.Rand, grpcws bool) (vc.Val, vc.Val, bool) {
	_, url, _ := target(r)
	var proto []string
	if grpcws {
		url = r.Pick([]string{"/c17.Svc/M1", "/c17.Svc/M5", "/c17.Svc/M4", "/c17.Svc/Nope", "/", "/c17.Svc/M3"})
		proto = []string{"grpc-websockets"}
	} else if r.Chance(50) {
		url = r.Pick([]string{"/v1/ws/bidi/x?i32=1", "/v1/ws/cstream", "/v1/ws/all", "/v1/stream/x", "/v1/ws/bidi", "/v1/ws/bidi/%2F?e=BOGUS", "/v1/items/1/2"})
	}
	if strings.ContainsAny(url, " \x00\r\n") || !strings.HasPrefix(url, "/") {
		return nil, nil, false
	}
	current(vc.L{2, url, "websocket session (frames follow the seed)"})
	d := websocket.Dialer{HandshakeTimeout: 3 * time.Second, Subprotocols: proto}
	ws, resp, err := d.Dial("ws"+strings.TrimPrefix(srv.URL, "http")+url, nil)
	entry := 2
	if grpcws {
		entry = 4
	}
	var script vc.L
	if err != nil {
		if resp == nil {
			return nil, nil, false // the client library refused the URL: nothing was sent
		}
		code := resp.StatusCode
		class := 0
		if !m.quiesce() {
			class = 98
		}
		if atomic.LoadInt32(&m.panics) > 0 {
			class = 99
		}
		return vc.L{entry, url, script}, vc.L{class, code, code >= 400 && code < 600}, false
	}
	raw := ws.UnderlyingConn()
	nmsg := r.Intn(5)
	if forced != nil {
		ws.WriteMessage(websocket.BinaryMessage, []byte("content-type: application/grpc-web+proto\r\nx-grpc-web: 1\r\n"))
		for _, f := range forced {
			script = append(script, vc.L{0, f})
			ws.WriteMessage(websocket.BinaryMessage, f)
		}
		nmsg = 0
	}
	for i := 0; i < nmsg; i++ {
		var payload []byte
		if grpcws {
			switch r.Intn(6) {
			case 0:
				payload = []byte(r.Pick([]string{"content-type: application/grpc-web+proto\r\nx-grpc-web: 1\r\n", "x", "a: b\r\n\r\n", ": \r\n", "grpc-timeout: -1S\r\n", "\xff: \xfe\r\n", ""}))
			case 1:
				payload = append([]byte{byte(r.Intn(3))}, webFrames(r)...)
			case 2:
				payload = []byte{1}
			case 3:
				payload = r.Bytes(r.Intn(8))
			default:
				payload = append([]byte{0}, lpm(0, 0, nil)...)
			}
		} else {
			b, _ := pickBody(r)
			payload = []byte(b)
		}
		kind := r.Intn(12)
		script = append(script, vc.L{kind, payload})
		switch kind {
		case 0:
			ws.WriteMessage(websocket.BinaryMessage, payload)
		case 1:
			raw.Write(rawFrame(true, 1, false, len(payload), payload)) // unmasked
		case 2:
			raw.Write(rawFrame(false, 1, true, len(payload), payload)) // fragment never finished
		case 3:
			raw.Write(rawFrame(true, byte(3+r.Intn(5)), true, len(payload), payload)) // reserved opcode
		case 4:
			raw.Write(rawFrame(true, 2, true, len(payload)+1000, payload)) // claims more than it sends
		case 5:
			raw.Write(rawFrame(true, 8, true, len(payload), payload)) // close with an arbitrary payload
		case 6:
			raw.Write(rawFrame(true, 9, true, len(payload)%120, payload[:len(payload)%120])) // ping
		case 7:
			raw.Write(rawFrame(true, 0, true, len(payload), payload)) // continuation without a start
		case 8:
			raw.Write(rawFrame(true, 1, true, len(payload), append([]byte{0xff, 0xfe}, payload...)[:len(payload)])) // text, invalid UTF-8
		default:
			ws.WriteMessage(websocket.TextMessage, payload)
		}
	}
	end := r.Intn(4)
	script = append(script, vc.L{100 + end})
	switch end {
	case 0:
		ws.WriteControl(websocket.CloseMessage, websocket.FormatCloseMessage(1000, ""), time.Now().Add(time.Second))
	case 1:
		raw.(*net.TCPConn).CloseWrite()
	case 2:
		// go silent: the server must still finish once we hang up below
	default:
		raw.Close()
	}
	// read what the server says until it closes or we give up, then hang up
	closeCode := 0
	raw.SetReadDeadline(time.Now().Add(1500 * time.Millisecond))
	for {
		_, _, err := ws.ReadMessage()
		if err != nil {
			if ce, ok := err.(*websocket.CloseError); ok {
				closeCode = ce.Code
			}
			break
		}
	}
	ws.Close()
	class := 0
	if !m.quiesce() {
		class = 98
	}
	if atomic.LoadInt32(&m.panics) > 0 {
		class = 99
	}
	return vc.L{entry, url, script}, vc.L{class, closeCode, true}, closeCode == 1000
}

func main() {
	w := vc.NewWriter(os.Args[1])
	defer w.Close()
	r := vc.NewRand(vc.Seed())
	m, _ := build()
	part := os.Args[2]
	current = w.Current
	counts := map[string]int{}
	emit := func(in, impl vc.Val, nt bool) {
		if in == nil {
			return
		}
		l := impl.(vc.L)
		counts[fmt.Sprintf("class%v", l[0])]++
		counts[fmt.Sprintf("status%v", l[1])]++
		w.Case(in, impl, nt)
	}
	switch part {
	case "http":
		n := vc.Scale(1500, 200000)
		for i := 0; i < n; i++ {
			emit(httpCase(m, r.Fork()))
		}
	case "grpcweb":
		for l := 0; l <= 16; l++ {
			forcedBody = make([]byte, l)
			emit(webCase(m, r.Fork()))
			if l > 0 {
				forcedBody[0] = 0x80
			}
			emit(webCase(m, r.Fork()))
		}
		forcedBody = nil
		n := vc.Scale(800, 100000)
		for i := 0; i < n; i++ {
			emit(webCase(m, r.Fork()))
		}
	case "ws", "grpcws":
		srv := httptest.NewServer(m)
		srv.Config.ErrorLog = nil
		if part == "grpcws" {
			// every short length of a data message after a valid header message, with each flow-control byte
			for l := 0; l <= 12; l++ {
				for _, fc := range []byte{0, 1, 2} {
					f := make([]byte, l)
					if l > 0 {
						f[0] = fc
					}
					forced = [][]byte{f}
					atomic.StoreInt32(&m.panics, 0)
					emit(wsCase(m, srv, r.Fork(), true))
				}
			}
			forced = nil
		}
		n := vc.Scale(120, 900)
		for i := 0; i < n; i++ {
			atomic.StoreInt32(&m.panics, 0)
			emit(wsCase(m, srv, r.Fork(), part == "grpcws"))
		}
		srv.CloseClientConnections()
		srv.Close()
	}
	fmt.Printf("STAT outcomes %q\n", fmt.Sprint(counts))
	_ = io.EOF
}
