package main

import "mime"

func parseMT(s string) (string, bool) {
	mt, _, err := mime.ParseMediaType(s)
	return mt, err == nil
}
