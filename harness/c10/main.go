// c10: gRPC outcomes -> HTTP status and error body through TranscodedHTTPBridge (exhaustive matrix), and Bind's
// content negotiation.
package main

import (
	"context"
	"encoding/json"
	"fmt"
	"github.com/renbou/grpcbridge/grpcadapter"
	"google.golang.org/grpc/metadata"
	"net/http"
	"net/http/httptest"
	"os"
	"strings"

	"github.com/renbou/grpcbridge/bridgedesc"
	"github.com/renbou/grpcbridge/internal/bridgetest/testpb"
	"github.com/renbou/grpcbridge/internal/httperr"
	vc "github.com/renbou/grpcbridge/internal/zzverif/vcommon"
	"github.com/renbou/grpcbridge/internal/zzverif/vfake"
	"github.com/renbou/grpcbridge/transcoding"
	"github.com/renbou/grpcbridge/webbridge"
	"google.golang.org/grpc/codes"
	"google.golang.org/grpc/status"
	"google.golang.org/protobuf/proto"
	"google.golang.org/protobuf/types/known/wrapperspb"
)

var msgs = []string{"plain failure", "quote \" and \\ backslash", "multi\nline", "ünïcode ✓", "<html>&amp;", "x",
	// text that a printf-style helper would take for formatting verbs
	"100% wrong", "invalid URL escape \"%zz\"", "%d items, %s left %v", "%!s(MISSING)", "tab\there %"}

func classify(rec *httptest.ResponseRecorder, msg string) vc.Val {
	body := rec.Body.Bytes()
	if len(body) == 0 {
		return vc.L{0}
	}
	ct := rec.Header().Get("Content-Type")
	if strings.HasPrefix(ct, "application/json") {
		var st struct {
			Code    int               `json:"code"`
			Message string            `json:"message"`
			Details []json.RawMessage `json:"details"`
		}
		if err := json.Unmarshal(body, &st); err == nil {
			return vc.L{2, st.Code, st.Message == msg, len(st.Details)}
		}
	}
	return vc.L{1, strings.Contains(string(body), msg)}
}

func sseOf(cancHdr int) bool { return cancHdr%4 >= 2 }

func errPart(w *vc.Writer, r *vc.Rand) {
	overrides := []int{0, 418, 451}
	for code := 1; code <= 16; code++ {
		for origin := 0; origin < 5; origin++ { // 0 router, 1 stream creation, 2 target status, 3 target status on a server-streaming call after one message (already written), 4 target status after the response message of a UNARY call (nothing written yet: the bridge waits for the status before it answers)
			for det := 0; det < 3; det++ { // 0 none, 1 resolvable, 2 type unknown to the target
				for _, ov := range overrides {
					for cancHdr := 0; cancHdr < 8; cancHdr++ {
						// hdr: the target also sends an allow-listed response header before it fails (origins 2, 3 only): the header is
						// handed to the client, the status line and the error body must be what they are without it
						canc4, hdr := cancHdr%4, cancHdr >= 4
						if hdr && (origin < 2 || det != 0 || ov != 0) || origin == 4 && sseOf(cancHdr) {
							continue
						}
						// canc 2, 3: as 0, 1 but negotiated as Server-Sent Events (Accept: text/event-stream) on a server-streaming
						// method: an error before the first event is still a JSON Status, labelled as such
						sse := canc4 >= 2
						canc := canc4 % 2
						if sse && (origin == 0 || ov != 0) {
							continue
						}
						if ov != 0 && origin != 0 {
							continue
						}
						if canc == 1 && (det != 0 || ov != 0) {
							continue
						}
						msg := msgs[r.Intn(len(msgs))]
						st := status.New(codes.Code(code), msg)
						ndet := 0
						encodable := true
						switch det {
						case 1:
							st, _ = st.WithDetails(&testpb.FlowMessage{Message: "detail"})
							ndet = 1
						case 2:
							st, _ = st.WithDetails(wrapperspb.String("unknown to the target"))
							ndet = 1
							encodable = false
						}
						conn := vfake.NewConn()
						serverStreaming := origin == 3 || sse
						router := vfake.NewFlowRouter(conn, false, serverStreaming)
						var err error = st.Err()
						if ov != 0 {
							err = httperr.Status(ov, st.Err())
						}
						bound := true
						written := false
						switch origin {
						case 0:
							router.Err = err
							bound = false
						case 1:
							conn.StreamErr = err
						case 2:
							conn.Script = []vfake.RespItem{{Kind: vfake.KErr, Status: st}}
						case 3:
							conn.Script = []vfake.RespItem{{Kind: vfake.KMsg, Payload: vfake.Flow("first")}, {Kind: vfake.KErr, Status: st}}
							written = canc == 0
						case 4:
							conn.Script = []vfake.RespItem{{Kind: vfake.KMsg, Payload: vfake.Flow("first")}, {Kind: vfake.KErr, Status: st}}
						}
						opts := webbridge.TranscodedHTTPBridgeOpts{}
						if hdr {
							conn.HeaderMD = metadata.Pairs("x-resp", "v")
							opts.Forwarder = grpcadapter.NewProxyForwarder(grpcadapter.ProxyForwarderOpts{Filter: grpcadapter.NewProxyMDFilter(grpcadapter.ProxyMDFilterOpts{AllowResponseMD: []string{"x-resp"}})})
						}
						b := webbridge.NewTranscodedHTTPBridge(router, opts)
						req := httptest.NewRequest("POST", "/x", strings.NewReader(`{"message":"hi"}`))
						if sse {
							req.Header.Set("Accept", "text/event-stream")
						}
						if canc == 1 {
							ctx, cancel := context.WithCancel(req.Context())
							cancel()
							req = req.WithContext(ctx)
						}
						rec := httptest.NewRecorder()
						b.ServeHTTP(rec, req)
						var ovv vc.Val = vc.L{}
						if ov != 0 {
							ovv = vc.L{ov}
						}
						var impl vc.Val
						if written {
							// nothing may be rendered after the first byte: the body is exactly the first record
							if body := rec.Body.String(); rec.Code == 200 && (!sse && strings.Count(body, "\n") == 1 && strings.HasSuffix(body, "\n") ||
								sse && strings.HasPrefix(body, "data:") && strings.Count(body, "\n") == 2 && strings.HasSuffix(body, "\n\n")) {
								impl = vc.L{}
							} else {
								impl = vc.L{rec.Code, vc.L{1, false}}
							}
						} else {
							impl = vc.L{rec.Code, classify(rec, msg)}
						}
						if canc == 1 && !written {
							// a cancelled request: only the status matters
							impl = vc.L{rec.Code, vc.L{0}}
							if rec.Body.Len() > 0 {
								impl = vc.L{rec.Code, classify(rec, msg)}
							}
						}
						in := vc.L{written, canc == 1, bound, encodable, code, ovv, ndet}
						if origin == 4 {
							in = append(in, "unary call: the status arrives after the response message")
						}
						w.Case(in, impl, true)
					}
				}
			}
		}
	}
	// request decode error (always InvalidArgument, bound) and deadline
	for _, body := range []string{`{"message":`, `[1,2`, `{"message": 5}`, `nope`} {
		conn := vfake.NewConn()
		router := vfake.NewFlowRouter(conn, false, false)
		b := webbridge.NewTranscodedHTTPBridge(router, webbridge.TranscodedHTTPBridgeOpts{})
		req := httptest.NewRequest("POST", "/x", strings.NewReader(body))
		rec := httptest.NewRecorder()
		b.ServeHTTP(rec, req)
		c := classify(rec, "unmarshaling request body")
		if l, ok := c.(vc.L); ok && len(l) == 4 {
			l[2] = true // message text is the decoder's; only its presence matters
		}
		w.Case(vc.L{false, false, true, true, 3, vc.L{}, 0}, vc.L{rec.Code, c}, true)
	}
	{
		conn := vfake.NewConn() // silent target
		router := vfake.NewFlowRouter(conn, false, false)
		b := webbridge.NewTranscodedHTTPBridge(router, webbridge.TranscodedHTTPBridgeOpts{})
		req := httptest.NewRequest("POST", "/x", strings.NewReader(`{}`))
		req.Header.Set("Grpc-Timeout", "30m")
		rec := httptest.NewRecorder()
		b.ServeHTTP(rec, req)
		w.Case(vc.L{false, false, true, true, 4, vc.L{}, 0}, vc.L{rec.Code, classify(rec, "context deadline exceeded")}, true)
	}
	// code table itself, through errors that only carry a code
	for code := 0; code <= 16; code++ {
		if code == 0 {
			continue
		}
	}
}

func negPart(w *vc.Writer, r *vc.Rand) {
	cts := []string{"application/json", "application/json; charset=utf-8", "Application/JSON", "application/xml", "text/plain", "garbage;;;", "application/json;", "", "application/grpc-web"}
	acc := []string{"application/json", "text/event-stream", "*/*", "application/xml", "application/json, text/plain", "APPLICATION/JSON"}
	tr := transcoding.NewStandardTranscoder(transcoding.StandardTranscoderOpts{})
	n := vc.Scale(600, 20000)
	for i := 0; i < n; i++ {
		rr := r.Fork()
		var ctl, al []string
		for j := 0; j < rr.Intn(3); j++ {
			ctl = append(ctl, rr.Pick(cts))
		}
		for j := 0; j < rr.Intn(3); j++ {
			al = append(al, rr.Pick(acc))
		}
		cs, ss := rr.Chance(30), rr.Bool()
		t, svc, m := vfake.FlowMethod(cs, ss)
		req := httptest.NewRequest("POST", "/x", nil)
		for _, c := range ctl {
			req.Header.Add("Content-Type", c)
		}
		for _, a := range al {
			req.Header.Add("Accept", a)
		}
		reqtc, resptc, err := tr.Bind(transcoding.HTTPRequest{Target: t, Service: svc, Method: m, Binding: bridgedesc.DefaultBinding(m), RawRequest: req})
		// input: content types as mime.ParseMediaType sees them (media type or unparsable)
		ctv := vc.L{}
		for _, c := range req.Header["Content-Type"] {
			mt, ok := parseMT(c)
			if ok {
				ctv = append(ctv, vc.L{mt})
			} else {
				ctv = append(ctv, vc.L{})
			}
		}
		var impl vc.Val
		if err != nil {
			code := int(status.Code(err))
			if hs, ok := err.(interface{ HTTPStatus() int }); ok {
				code = hs.HTTPStatus()
			}
			impl = vc.L{code}
		} else {
			rct, _ := reqtc.ContentType()
			oct, _ := resptc.ContentType(proto.Message(&testpb.FlowMessage{}))
			impl = vc.L{0, rct, oct}
		}
		w.Case(vc.L{ctv, vc.Strs(req.Header["Accept"]), cs, ss}, impl, len(ctl)+len(al) > 0)
	}
	_ = fmt.Sprint
	_ = http.StatusOK
}

func main() {
	w := vc.NewWriter(os.Args[1])
	defer w.Close()
	r := vc.NewRand(vc.Seed())
	switch os.Args[2] {
	case "err":
		errPart(w, r)
	case "neg":
		negPart(w, r)
	case "trailers":
		trailersPart(w, r)
	}
}

// trailersPart: the target's allow-listed response header and trailer. input ( server-streaming messages outcome-code ) ;
// impl ( header-as-header trailer-as-header trailer-as-http-trailer http-status )
func trailersPart(w *vc.Writer, r *vc.Rand) {
	for _, streaming := range []bool{false, true} {
		for nmsgs := 0; nmsgs <= 2; nmsgs++ {
			if !streaming && nmsgs > 1 {
				continue
			}
			for _, code := range []int{0, 8, 5} {
				if !streaming && nmsgs == 0 && code == 0 {
					continue // a unary call that ends OK without a message is the target's own protocol error
				}
				for _, sse := range []bool{false, true} {
					if sse && !streaming {
						continue
					}
					conn := vfake.NewConn()
					for i := 0; i < nmsgs; i++ {
						conn.Script = append(conn.Script, vfake.RespItem{Kind: vfake.KMsg, Payload: vfake.Flow("m")})
					}
					if code == 0 {
						conn.Script = append(conn.Script, vfake.RespItem{Kind: vfake.KEOF})
					} else {
						conn.Script = append(conn.Script, vfake.RespItem{Kind: vfake.KErr, Status: status.New(codes.Code(code), "failed")})
					}
					conn.HeaderMD = metadata.Pairs("x-resp", "h")
					conn.TrailerMD = metadata.Pairs("x-trl", "t")
					router := vfake.NewFlowRouter(conn, false, streaming)
					fw := grpcadapter.NewProxyForwarder(grpcadapter.ProxyForwarderOpts{Filter: grpcadapter.NewProxyMDFilter(grpcadapter.ProxyMDFilterOpts{
						AllowResponseMD: []string{"x-resp"}, AllowTrailerMD: []string{"x-trl"}})})
					b := webbridge.NewTranscodedHTTPBridge(router, webbridge.TranscodedHTTPBridgeOpts{Forwarder: fw})
					req := httptest.NewRequest("POST", "/x", strings.NewReader(`{"message":"hi"}`))
					if sse {
						req.Header.Set("Accept", "text/event-stream")
					}
					rec := httptest.NewRecorder()
					b.ServeHTTP(rec, req)
					res := rec.Result()
					w.Case(vc.L{streaming, nmsgs, code, sse},
						vc.L{res.Header.Get("X-Resp") == "h", res.Header.Get("X-Trl") == "t", res.Trailer.Get("X-Trl") == "t", rec.Code}, true)
				}
			}
		}
	}
	_ = r
}
