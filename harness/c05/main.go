// c05: reflection resolution against a scripted reflection server: descriptor universes x answering policies.
package main

import (
	"fmt"
	"os"
	"sync"
	"time"

	"github.com/renbou/grpcbridge/bridgedesc"
	vc "github.com/renbou/grpcbridge/internal/zzverif/vcommon"
	"github.com/renbou/grpcbridge/internal/zzverif/vrefl"
	"github.com/renbou/grpcbridge/reflection"
)

type rec struct {
	mu   sync.Mutex
	done chan struct{}
	out  vc.Val
	once sync.Once
}

func (r *rec) UpdateDesc(d *bridgedesc.Target) {
	svcs := vc.L{}
	for _, s := range d.Services {
		ms := vc.L{}
		for _, m := range s.Methods {
			bs := vc.L{}
			for _, b := range m.Bindings {
				bs = append(bs, vc.L{b.HTTPMethod, b.Pattern, b.RequestBodyPath, b.ResponseBodyPath})
			}
			in := string(m.Input.New().ProtoReflect().Descriptor().FullName())
			out := string(m.Output.New().ProtoReflect().Descriptor().FullName())
			ms = append(ms, vc.L{m.RPCName, m.ClientStreaming, m.ServerStreaming, in, out, bs})
		}
		svcs = append(svcs, vc.L{string(s.Name), ms})
	}
	r.mu.Lock()
	r.out = vc.L{svcs}
	r.mu.Unlock()
	r.once.Do(func() { close(r.done) })
}
func (r *rec) ReportError(error) {
	r.mu.Lock()
	r.out = vc.L{}
	r.mu.Unlock()
	r.once.Do(func() { close(r.done) })
}

var kinds = []string{"get", "put", "post", "delete", "patch", "HEAD", "options"}
var paths = []string{"/v1/a", "/v1/{id}", "/v1/a/{b=c/*}:verb", "/x/**", "/"}

// fixed dependency shapes that run first, under every policy: chain, diamond, and a graph in which a later round
// re-sends a file the client already has (f0 -> {f1, f3}, f1 -> f2, f2 -> f3), fan-out, deep chain, dense DAG
var shapes = [][][]int{
	{{1}, {2}, {}},
	{{1, 2}, {3}, {3}, {}},
	{{1, 3}, {2}, {3}, {}},
	{{1, 2, 3}, {4}, {4}, {4}, {}},
	{{1}, {2}, {3}, {4}, {}},
	{{1, 4}, {2, 4}, {3, 4}, {4}, {}},
}

// rootOnly: services in f0 only, so that everything below its direct imports is reached by file name, never by symbol
func genUniverse(r *vc.Rand, shape [][]int, rootOnly bool) ([]vrefl.File, vc.Val, []string) {
	nf := 1 + r.Intn(6)
	if shape != nil {
		nf = len(shape)
	}
	files := make([]vrefl.File, nf)
	var allSvcs []string
	for i := 0; i < nf; i++ {
		f := vrefl.File{Name: fmt.Sprintf("f%d.proto", i), Package: fmt.Sprintf("p%d", i), Messages: []string{"M", "N"}}
		// dependencies only on later files (a DAG: chains and diamonds)
		for j := i + 1; j < nf && shape == nil; j++ {
			if r.Chance(45) {
				f.Deps = append(f.Deps, fmt.Sprintf("f%d.proto", j))
			}
		}
		if shape != nil {
			for _, j := range shape[i] {
				f.Deps = append(f.Deps, fmt.Sprintf("f%d.proto", j))
			}
		}
		ns := r.Intn(3)
		if i == 0 && ns == 0 {
			ns = 1
		}
		if i > 0 && rootOnly {
			ns = 0
		}
		for s := 0; s < ns; s++ {
			svc := vrefl.Service{Name: fmt.Sprintf("S%d", s)}
			for m := 0; m < r.Intn(3); m++ {
				// message types from this file or a dependency
				pk := f.Package
				if len(f.Deps) > 0 && r.Chance(40) {
					d := f.Deps[r.Intn(len(f.Deps))]
					pk = "p" + d[1:len(d)-6]
				}
				me := vrefl.Method{Name: fmt.Sprintf("Do%d", m), CS: r.Chance(30), SS: r.Chance(30), In: pk + ".M", Out: f.Package + ".N"}
				if r.Chance(5) {
					// an inconsistent descriptor set: a type that no file declares (must end in an error report, never in a description)
					if r.Bool() {
						me.In = pk + ".Missing"
					} else {
						me.Out = f.Package + ".Missing"
					}
				}
				for b := 0; b < r.Intn(3); b++ {
					me.Bindings = append(me.Bindings, vrefl.Binding{Kind: r.Pick(kinds), Path: r.Pick(paths), Body: r.Pick([]string{"", "*", "field"}), RespBody: r.Pick([]string{"", "out"})})
				}
				svc.Methods = append(svc.Methods, me)
			}
			f.Services = append(f.Services, svc)
			allSvcs = append(allSvcs, f.Package+"."+svc.Name)
		}
		files[i] = f
	}
	uv := vc.L{}
	for _, f := range files {
		sv := vc.L{}
		for _, s := range f.Services {
			ms := vc.L{}
			for _, m := range s.Methods {
				bs := vc.L{}
				for _, b := range m.Bindings {
					bs = append(bs, vc.L{b.Kind, b.Path, b.Body, b.RespBody})
				}
				ms = append(ms, vc.L{m.Name, m.CS, m.SS, m.In, m.Out, bs})
			}
			sv = append(sv, vc.L{f.Package + "." + s.Name, ms})
		}
		uv = append(uv, vc.L{f.Name, vc.Strs(f.Deps), sv})
	}
	return files, uv, allSvcs
}

func main() {
	w := vc.NewWriter(os.Args[1])
	defer w.Close()
	r := vc.NewRand(vc.Seed())
	n := vc.Scale(600, 30000)
	pols := map[int]int{}
	for i := 0; i < n; i++ {
		rr := r.Fork()
		var shape [][]int
		if i < 2*len(shapes)*9 {
			shape = shapes[(i/9)%len(shapes)]
		}
		rootOnly := i >= len(shapes)*9 && (shape != nil || rr.Chance(30))
		files, uv, svcs := genUniverse(rr, shape, rootOnly)
		// listed names: a random subset of the defined services, plus duplicates, invalid and administrative names
		var listed []string
		for _, s := range svcs {
			if rr.Chance(70) {
				listed = append(listed, s)
			}
		}
		if len(listed) == 0 {
			listed = append(listed, svcs[0])
		}
		for j := 0; j < rr.Intn(4); j++ {
			listed = append(listed, rr.Pick([]string{listed[0], "grpc.reflection.v1.ServerReflection", "grpc.health.v1.Health", "not a name", "", ".lead", "trail.", "a..b", "9x.S"}))
		}
		// shuffle
		for j := len(listed) - 1; j > 0; j-- {
			k := rr.Intn(j + 1)
			listed[j], listed[k] = listed[k], listed[j]
		}
		pol := []int{0, 1, 2, 3, 4, 5, 6, 7, 7, 1, 2, 8, 8}[rr.Intn(13)]
		if shape != nil {
			pol = i % 9
		}
		pols[pol]++
		limit := 100
		if rr.Chance(15) {
			limit = 1 + rr.Intn(3)
		}
		srv := &vrefl.Server{V1: true, Alpha: true, FailStep: -1, Policy: pol, Files: map[string]vrefl.File{}, Listed: listed}
		for _, f := range files {
			srv.Files[f.Name] = f
		}
		watcher := &rec{done: make(chan struct{})}
		rb := reflection.NewResolverBuilder(&vrefl.Pool{S: srv}, reflection.ResolverOpts{PollManually: true, ReqTimeout: 2 * time.Second, RecursionLimit: limit})
		res := rb.Build("t", watcher)
		select {
		case <-watcher.done:
		case <-time.After(5 * time.Second):
		}
		res.Close()
		watcher.mu.Lock()
		out := watcher.out
		watcher.mu.Unlock()
		if out == nil {
			out = vc.L{-1}
		}
		w.Case(vc.L{uv, vc.Strs(listed), pol, limit}, out, len(files) > 1)
	}
	fmt.Printf("STAT policies %q\n", fmt.Sprint(pols))
}
