# Per-property configuration of ./check: which harness packages run, which extracted chk function judges
# their cases, what the reason codes mean, what the evidence says about rule / assumptions / trusted base.
PROPS = {
    "C12": {
        "parts": [
            {"name": "decode", "pkg": "c12", "chk": "chk_c12_decode"},
        ],
        "reasons": {"decode": {"1": "decodeTimeout's result differs from the gRPC timeout grammar (1-8 digits + unit, value = digits*unit)"}},
        "rule": "decode: shape sweep (length 0..10 x final byte 0..255 x digit classes x one intruder at every position) + random strings; "
                "non-trivial = string of length>=2 ending in one of HMSmun; distinct by full case text",
        "level_text": "Coq theorems: the decoder accepts exactly the gRPC timeout grammar and yields digits*unit (saturating at int64); the regenerated unit table equals the spec table. Tied to the code by an exact differential on ~27k strings per run. Enforcement part (deadline wins, never forwarded) proved on the forwarder LTS; wall-clock margin is measured only (partial).",
        "level_note": "Trusted: Coq kernel, extraction (ExtrOcamlBasic), modelrun, the Go harness and export shim, strconv.ParseUint as modelled. The model is hand-written; the tie is the differential run.",
        "design_ref": "DESIGN.md §3 C12",
        "assumptions": ["wall-clock margin of deadline enforcement is measured, not proved (partial)"],
    },
}

PROPS["C07"] = {
    "parts": [{"name": "entries", "pkg": "c07", "chk": "chk_c07"}],
    "reasons": {"entries": {
        "1": "a metadata key reached the target that no allow-list entry produces (after renaming) from a client-supplied key",
        "2": "grpc-timeout was forwarded to the target as metadata",
        "3": "a target header/trailer value reached the client without being allow-listed",
        "4": "metadata crossed the bridge although the allow-list is empty (default deny)"}},
    "rule": "per entry point (HTTP, WebSocket, gRPC-Web, gRPC-WebSocket, gRPC proxy): random allow-list/prefix configurations (25% default-deny) x header sets over a key pool "
            "(mixed case, multi-valued, -bin with valid/invalid base64, Grpc-Metadata- prefixed, grpc-timeout) x target header/trailer sets; non-trivial = some allow-list non-empty and some header sent",
    "level_text": "Coq theorems over ALL metadata maps and configurations: every outgoing key is a renamed allow-list entry present in the request with exactly its (decoded iff -bin) values; empty allow-lists forward nothing; grpc-timeout is never among the outgoing keys; response/trailer likewise; provenance from client-supplied pairs for each entry point's metadata construction. Tied to the code by running all five real entry points against a recording fake target.",
    "level_note": "Trusted: Coq kernel, extraction, modelrun, Go harness (fakes, gorilla/websocket and grpc-go clients as drivers). strings.ToLower is modelled as ASCII lower-casing (keys are ASCII tokens). base64 decoding is modelled executable and exercised, not proved correct. grpc-go's own wire metadata is outside the property.",
    "design_ref": "DESIGN.md §3 C07",
    "assumptions": ["metadata keys are ASCII (HTTP tokens / gRPC keys); transports' own headers are subtracted by projecting the client side onto the generated key pool"],
}

PROPS["C19"] = {
    "parts": [{"name": "dispatch", "pkg": "c19", "chk": "chk_c19_dispatch", "args": ["dispatch"]},
              {"name": "mdquery", "pkg": "c19", "chk": "chk_c19_mdquery", "args": ["mdquery"]}],
    "reasons": {"dispatch": {"1": "request handled by a different protocol handler than header token semantics prescribe"},
                "mdquery": {"1": "query metadata contains an entry with an invalid key / non-printable value / not present in the query",
                            "2": "param[...] key left in (or ordinary parameter missing from) the parameters bound to the message"}},
    "rule": "dispatch: header lines for Connection/Upgrade/Sec-WebSocket-Protocol/Content-Type drawn from pools of exact, mixed-case, token-list, multi-line, near-miss values, parsed by http.ReadRequest, served by WebBridge.ServeHTTP with a recording router; "
            "non-trivial = Connection or Content-Type present. mdquery: random url.Values mixing param[key] entries (valid/invalid keys, printable/control/non-ASCII values) with ordinary parameters; non-trivial = at least one param[...] key",
    "level_text": "Coq theorems: dispatch equals the RFC 7230 token-list semantics stated relationally (comma-split, OWS-trim, case-insensitive; exact sub-protocol match; lower-cased media type prefix), for all header multimaps; metadata extraction yields only valid keys/printable values that occur in the query and removes all param[...] keys while other parameters are unchanged; validity predicates equal the gRPC character classes on all 256 bytes. Tied to the code through WebBridge.ServeHTTP and an export shim of parseMetadataQuery.",
    "level_note": "Trusted: Coq kernel, extraction, modelrun, Go harness; net/http header parsing and url.ParseQuery/Encode are exercised, not modelled; gws's own handshake checks are outside the property.",
    "design_ref": "DESIGN.md §3 C19",
    "assumptions": ["header names are matched by net/http canonicalisation; the model receives headers as net/http parsed them"],
}

NOT_APPLICABLE = {}
