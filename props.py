# Per-property configuration of ./check: which harness packages run, which extracted chk function judges
# their cases, what the reason codes mean, what the evidence says about rule / assumptions / trusted base.
PROPS = {
    "C12": {
        "parts": [
            {"name": "decode", "pkg": "c12", "chk": "chk_c12_decode"},
        ],
        "reasons": {"decode": {"1": "decodeTimeout's result differs from the gRPC timeout grammar (1-8 digits + unit, value = digits*unit)"}},
        "rule": "decode: shape sweep (length 0..10 x final byte 0..255 x digit classes x one intruder at every position) + random strings; "
                "non-trivial = string of length>=2 ending in one of HMSmun; distinct by full case text",
        "level_text": "Coq theorems: the decoder accepts exactly the gRPC timeout grammar and yields digits*unit (saturating at int64); the regenerated unit table equals the spec table. Tied to the code by an exact differential on ~27k strings per run. Enforcement part (deadline wins, never forwarded) proved on the forwarder LTS; wall-clock margin is measured only (partial).",
        "level_note": "Trusted: Coq kernel, extraction (ExtrOcamlBasic), modelrun, the Go harness and export shim, strconv.ParseUint as modelled. The model is hand-written; the tie is the differential run.",
        "design_ref": "DESIGN.md §3 C12",
        "assumptions": ["wall-clock margin of deadline enforcement is measured, not proved (partial)"],
    },
}

NOT_APPLICABLE = {}
