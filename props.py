# Per-property configuration of ./check: which harness packages run, which extracted chk function judges
# their cases, what the reason codes mean, what the evidence says about rule / assumptions / trusted base.
FWD_REASONS = {
    "1": "requests seen by the target are not a prefix of what the client sent (dropped / duplicated / reordered / altered)",
    "2": "responses seen by the client are not a prefix of what the target sent",
    "3": "a non-streaming direction carried more than one message",
    "4": "the call returned without closing the outgoing stream it created",
    "5": "the call did not return although every adapter honours the context (hang)",
    "6": "success reported but not all of the target's messages were delivered",
    "7": "the reported status has no source (not the target's, not an adapter error, not the context's)"}
PROPS = {
    "C12": {
        "parts": [
            {"name": "decode", "pkg": "c12", "chk": "chk_c12_decode"},
            {"name": "enforce", "pkg": "c12", "chk": "chk_c12_enforce", "args": ["enforce"]},
            {"name": "target", "pkg": "c12", "chk": "chk_c12_target", "args": ["target"]},
            {"name": "forward", "pkg": "c01", "chk": "chk_fwd"},
        ],
        "reasons": {"decode": {"1": "decodeTimeout's result differs from the gRPC timeout grammar (1-8 digits + unit, value = digits*unit)"},
                    "enforce": {"1": "the target observed no deadline, or one later than the client asked for", "2": "the call outlived its deadline by more than the margin (or ended before it)", "3": "a call stopped by its deadline did not end with DeadlineExceeded / 504"},
                    "target": {"6": "a REAL gRPC target (grpc-go server behind an AdaptedClientConn) observed no deadline, or a later one, although the client sent a grpc-timeout (or observed one without)"},
                    "forward": FWD_REASONS},
        "rule": "target: transcoded HTTP calls with grpc-timeout 200 ms..60 s (and without), with and without another (filtered) header, through a real AdaptedClientPool connection to a grpc-go server on bufconn whose handler records the deadline of its stream context; decode: shape sweep (length 0..10 x final byte 0..255 x digit classes x one intruder at every position) + random strings; "
                "non-trivial = string of length>=2 ending in one of HMSmun; distinct by full case text; enforce: 5 entry points x idle / unreachable / mid-stream, plus (HTTP entries) a stalled client whose response writer blocks and a stalled upload of undeclared length whose first byte never comes",
        "level_text": "Coq theorems: the decoder accepts exactly the gRPC timeout grammar and yields digits*unit (saturating at int64); the regenerated unit table equals the spec table. Tied to the code by an exact differential on ~27k strings per run. Enforcement part (deadline wins, never forwarded) proved on the forwarder LTS; wall-clock margin is measured only (partial).",
        "level_note": "Trusted: Coq kernel, extraction (ExtrOcamlBasic), modelrun, the Go harness and export shim, strconv.ParseUint as modelled. The model is hand-written; the tie is the differential run.",
        "design_ref": "DESIGN.md §3 C12",
        "assumptions": ["wall-clock margin of deadline enforcement is measured, not proved (partial)"],
    },
}

PROPS["C07"] = {
    "parts": [{"name": "entries", "pkg": "c07", "chk": "chk_c07"}],
    "reasons": {"entries": {
        "1": "a metadata key reached the target that no allow-list entry produces (after renaming) from a client-supplied key",
        "2": "grpc-timeout was forwarded to the target as metadata",
        "3": "a target header/trailer value reached the client without being allow-listed",
        "4": "metadata crossed the bridge although the allow-list is empty (default deny)",
        "5": "a value reached the target under a -bin key without being decoded (it is not the base64 decoding of anything the client sent)"}},
    "rule": "per entry point (HTTP, WebSocket, gRPC-Web, gRPC-WebSocket, gRPC proxy): random allow-list/prefix configurations (25% default-deny) x header sets over a key pool "
            "(mixed case, multi-valued, -bin with valid/invalid base64, Grpc-Metadata- prefixed, grpc-timeout) x target header/trailer sets; non-trivial = some allow-list non-empty and some header sent",
    "level_text": "Coq theorems over ALL metadata maps and configurations: every outgoing key is a renamed allow-list entry present in the request with exactly its (decoded iff -bin) values; empty allow-lists forward nothing; grpc-timeout is never among the outgoing keys; response/trailer likewise; provenance from client-supplied pairs for each entry point's metadata construction. Tied to the code by running all five real entry points against a recording fake target.",
    "level_note": "Trusted: Coq kernel, extraction, modelrun, Go harness (fakes, gorilla/websocket and grpc-go clients as drivers). strings.ToLower is modelled as ASCII lower-casing (keys are ASCII tokens). base64 decoding is modelled executable and exercised, not proved correct. grpc-go's own wire metadata is outside the property.",
    "design_ref": "DESIGN.md §3 C07",
    "assumptions": ["metadata keys are ASCII (HTTP tokens / gRPC keys); transports' own headers are subtracted by projecting the client side onto the generated key pool"],
}

PROPS["C19"] = {
    "parts": [{"name": "dispatch", "pkg": "c19", "chk": "chk_c19_dispatch", "args": ["dispatch"]},
              {"name": "mdquery", "pkg": "c19", "chk": "chk_c19_mdquery", "args": ["mdquery"]}],
    "reasons": {"dispatch": {"1": "request handled by a different protocol handler than header token semantics prescribe"},
                "mdquery": {"1": "query metadata contains an entry with an invalid key / non-printable value / not present in the query",
                            "2": "param[...] key left in (or ordinary parameter missing from) the parameters bound to the message",
                            "3": "a metadata entry of the query with a valid key and a printable value did not become request metadata (lost or duplicated; entries whose keys differ only in letter case must be merged)"}},
    "rule": "dispatch: header lines for Connection/Upgrade/Sec-WebSocket-Protocol/Content-Type drawn from pools of exact, mixed-case, token-list, multi-line, near-miss values, parsed by http.ReadRequest, served by WebBridge.ServeHTTP with a recording router; "
            "non-trivial = Connection or Content-Type present. mdquery: random url.Values mixing param[key] entries (valid/invalid keys, printable/control/non-ASCII values) with ordinary parameters; non-trivial = at least one param[...] key; the Content-Type lattice includes parameter sections a MIME parser rejects (bare, empty, duplicate parameter, unterminated quote)",
    "level_text": "Coq theorems: dispatch equals the RFC 7230 token-list semantics stated relationally (comma-split, OWS-trim, case-insensitive; exact sub-protocol match; lower-cased media type prefix), for all header multimaps; metadata extraction yields only valid keys/printable values that occur in the query and removes all param[...] keys while other parameters are unchanged; validity predicates equal the gRPC character classes on all 256 bytes. Tied to the code through WebBridge.ServeHTTP and an export shim of parseMetadataQuery.",
    "level_note": "Trusted: Coq kernel, extraction, modelrun, Go harness; net/http header parsing and url.ParseQuery/Encode are exercised, not modelled; gws's own handshake checks are outside the property.",
    "design_ref": "DESIGN.md §3 C19",
    "assumptions": ["header names are matched by net/http canonicalisation; the model receives headers as net/http parsed them"],
}

PROPS["C06"] = {
    "parts": [{"name": "histories", "pkg": "c06", "chk": "chk_c06"}],
    "reasons": {"histories": {
        "1": "HTTP probe: a route that the latest descriptions contain is not found (or an absent one is refused with another code)",
        "2": "HTTP probe: routed to data that is not the first matching binding of the latest description of a live target (stale description / closed target / wrong binding)",
        "3": "gRPC probe: routed to something that is not a live target's latest description listing the service",
        "4": "gRPC probe: service listed by exactly one live target is not routed",
        "5": "Watch/Update/Close accepted or refused wrongly (a name can be watched iff it is not currently watched)",
        "6": "wrong number of steps observed",
        "7": "gRPC probe: service whose earlier claimant released it stays unroutable although exactly one live target still lists it (F17)",
        "8": "gRPC probe: contested service not routed to the earlier, still standing claimant"}},
    "rule": "random histories of 1-25 Watch/UpdateDesc/Close ops over 3 targets; descriptions draw services/methods/bindings from shared pools (so services move between targets, bindings are added, kept and dropped; 12% invalid templates; 25% methods without bindings); after every op 42 HTTP probes and 4 gRPC probes on both routers; non-trivial = history with >=1 applied update and >=1 close",
    "level_text": "Coq theorems by induction over ALL histories with a representation invariant: the pattern table holds, per HTTP method, exactly one entry per live target with routes for it, carrying that target's latest description; a probe matched by at most one live target returns the first matching binding of that latest description; the service table (updateRoutes / removeTarget / handOver) has its own invariant for ALL histories: sound (a routed service points at a live target's latest description, at a position listing it), complete (a service listed by any live target is routed - also after its owner closed or dropped it), claim lists = ownership relation, recorded listings = latest descriptions; corollaries: sole lister is routed, unlisted service is not; Watch succeeds iff not watched. Tied to the code by running histories on the real routers and comparing every probe.",
    "level_note": "Trusted: Coq kernel, extraction, modelrun, Go harness. The template matcher is a parameter of the table theorems; the correspondence instantiates it with literal templates. sync.Map / atomic pointer atomicity is Go's.",
    "design_ref": "DESIGN.md §3 C06",
    "assumptions": ["contested routes: only 'the earlier standing claimant keeps it' is demanded (C14); otherwise any claimant is accepted"],
}

PROPS["C14"] = {
    "parts": [{"name": "names", "pkg": "c14", "chk": "chk_c14"},
              {"name": "claims", "pkg": "c06", "chk": "chk_c06"}],
    "reasons": {"names": {
        "1": "gRPC-style name parsed wrongly or method name not passed through verbatim",
        "2": "routed to a target whose current description does not list the service",
        "3": "service listed by a live target is not routed",
        "4": "contested service not routed to the earlier, still standing claimant",
        "5": "wrong error class for unknown service / malformed name / non-POST"},
      "claims": PROPS["C06"]["reasons"]["histories"]},
    "rule": "names: strings assembled from service names, method names, empty parts, extra slashes, dots, %-escapes, non-ASCII, with/without leading slash; fed as grpc.Method (RouteGRPC), as HTTP requests parsed by http.ReadRequest (RouteHTTP), through GRPCWebBridge and (2%) through GRPCProxy over bufconn with a real gRPC client; after a random claim history of 1-6 ops over 3 targets and 4 overlapping service names; non-trivial = name contains '/' and >=1 update. claims: the C06 histories (owner/claimant reasons)",
    "level_text": "Coq theorems: parse law for every service name without '/' and EVERY method string (verbatim, slashes and escapes included), with or without the leading slash; names without a separator are rejected; the RPC name handed on is '/'+service+'/'+method; routing result is the service table's owner; over ALL histories the earlier claimant keeps a service whatever other targets do (update with any listing, removal), and the owner keeps it across its own updates while it lists it (route refreshed to the new description). Tied to the code by the history correspondence (C06 model) and the executable 'earlier standing claimant' property.",
    "level_note": "Trusted: Coq kernel, extraction, modelrun, Go harness; net/http URL parsing (the model receives URL.Path as net/http produced it); grpc-go's own method-name validation on the proxy path.",
    "design_ref": "DESIGN.md §3 C14",
    "assumptions": ["for services claimed by several live targets where the earlier claimant has left, any remaining claimant is accepted"],
}

PROPS["C16"] = {
    "parts": [{"name": "pool", "pkg": "c16", "chk": "chk_c16", "args": ["pool"], "crash_reasons": {"*": 9}},
              {"name": "router", "pkg": "c16", "chk": "chk_c16", "args": ["router"], "crash_reasons": {"*": 9}},
              {"name": "waiting", "pkg": "c16", "chk": "chk_c16_waiting", "args": ["waiting"]}],
    "reasons": {p: {
        "1": "a name that is not present cannot be added (or a present one can be added twice / removal refused)",
        "2": "pool lookup is present-but-missing, or disagrees with presence",
        "3": "Stream on a removed connection does not fail with Unavailable",
        "4": "while a client is being constructed its half-initialised pool entry is visible, or the reservation is not exclusive",
        "5": "wrong number of steps observed",
        "6": "a call in flight at removal time did not end",
        "7": "goroutines of the bridge still running after every target was removed",
        "9": "the process died (a panic in the pool / router / connection code) while this history was running"} for p in ("pool", "router", "waiting")},
    "rule": "pool: histories of 1-15 New (35% failing constructor, which re-entrantly calls Get/New for the same name) / controller.Close / Get / Stream-on-old-connection over 3 names on AdaptedClientPool with bufconn; "
            "router: histories of 1-12 Add (30% failing constructor) / Remove on ReflectionRouter against a bufconn target with reflection, a held in-flight call at removal, Stream on the removed connection, goroutine dump at the end; non-trivial = history with a failed add and a removal; waiting: 1-4 stream attempts (with and without a deadline) waiting for an unreachable target when its controller is closed: all must end within 2 s with Unavailable",
    "level_text": "Coq theorems over ALL histories (incl. failing Adds): a name is addable iff not present; Get never yields a present-but-missing entry (the Reserved state is never observable, also re-entrantly); after Remove the name is absent everywhere and its connection is closed; a failed Add changes nothing. Tied to the code by pool-level and ReflectionRouter-level histories with in-flight calls and a goroutine-leak check.",
    "level_note": "Trusted: Coq kernel, extraction, modelrun, Go harness; grpc-go's ClientConn.Close tearing down transports and ending streams is observed, not proved.",
    "design_ref": "DESIGN.md §3 C16",
    "assumptions": ["in-flight checking is done when exactly one target is present (so the routed connection is the removed one)"],
}

PROPS["C08"] = {
    "parts": [{"name": "frames", "pkg": "c08", "chk": "chk_c08_frames", "args": ["frames"]},
              {"name": "big", "pkg": "c08", "chk": "chk_c08_big", "args": ["big"]},
              {"name": "ws", "pkg": "c08", "chk": "chk_c08_ws", "args": ["ws"]},
              {"name": "resp", "pkg": "c08", "chk": "chk_c08_resp", "args": ["resp"]},
              {"name": "slowwriter", "pkg": "c08", "chk": "chk_c08_slow", "args": ["slowwriter"]},
              {"name": "bigws", "pkg": "c08", "chk": "chk_c08_bigws", "args": ["bigws"]}],
    "reasons": {
        "bigws": {"3": "grpc-websockets: a real-size frame within the 4 MiB limit was not delivered whole, or an oversize frame was cut or dropped without an error"},
        "slowwriter": {"9": "F33: the request direction fails while the target's first response is still being written to a slow client, and the client takes that frame only after the call is over: the trailer frame comes first and the data frame lands behind it, written after ServeHTTP had returned",
                       "10": "with a client that reads slowly the response frames are not data frames followed by exactly one trailer frame, or the response writer was used after ServeHTTP had returned (other than the schedule of F33)"},
        "frames": {"1": "a request frame within the limit was not delivered intact, in order, exactly once", "2": "a malformed/oversize tail did not end the call with an error (or a clean stream did)"},
        "big": {"1": "a real-size frame within the 4 MiB limit was not delivered whole", "3": "an oversize or short frame was truncated/accepted instead of rejected"},
        "ws": {"1": "a grpc-websockets data message (possibly empty) was dropped, duplicated or reordered", "2": "finish marker / malformed message did not end the request stream as specified"},
        "resp": {"1": "gRPC-Web response is not HTTP 200", "2": "response body is not data frames followed by exactly one final trailer frame",
                 "3": "grpc-status / percent-encoded grpc-message do not equal the call's outcome", "4": "response messages altered, dropped or reordered"}},
    "rule": "frames: 0-5 frames of sizes {0,2..2000} + optional malformed tail (truncated header/body, oversize declared length) under random chunking of the HTTP body; big: declared lengths around 2^22 with full/short bodies of real size; "
            "ws: grpc-websockets message sequences (data incl. empty, finish marker, malformed, after-finish); resp: 17 codes x messages with non-ASCII/control/percent bytes x origins {target, router, stream creation} x 0-3 response messages; non-trivial = at least one frame/message or a non-OK status",
    "level_text": "Coq theorems: for every list of payloads within the limit and EVERY chunking of their frames, the reader returns exactly those payloads in order (it depends only on the concatenation); a frame declaring more than the limit yields an error and no message; pre-repair code refuted (truncation). grpc-websockets delivery of every data message incl. the empty one; response = data frames + exactly one trailer frame; percent-decoding of the escaped grpc-message is the identity for every byte string and the escaped text is printable ASCII. Tied to the code through GRPCWebBridge / GRPCWebSocketBridge with a fake target.",
    "level_note": "Trusted: Coq kernel, extraction, modelrun, Go harness (httptest, gorilla/websocket as drivers); proto.Unmarshal of payloads (generated valid); HTTP chunking and gws reassembly below the handler.",
    "design_ref": "DESIGN.md §3 C08",
    "assumptions": ["real-size (4 MiB) frames are checked by length arithmetic only (part big); byte-level correspondence uses payloads up to 2000 bytes"],
}

PROPS["C01"] = {
    "parts": [{"name": "forward", "pkg": "c01", "chk": "chk_fwd"},
              {"name": "bytes", "pkg": "c01", "chk": "chk_c01_bytes", "args": ["bytes"]}],
    "reasons": {"forward": FWD_REASONS,
                "bytes": {"8": "the target did not receive exactly the bytes the client sent (a valid but non-canonical encoding was decoded and re-encoded on the way, or a message was lost / duplicated / reordered)",
                          "9": "the client did not receive exactly the bytes the target sent",
                          "10": "the client did not receive the target's final status: code, message and details (compared as the bytes of the status proto)"}},
    "rule": "random call scripts (4 RPC kinds; 0-3 client messages then EOF/error/silence; 0-3 target messages with causal guards then EOF/status/silence; rare send/open failures; 45% a context event) each run 3x on the real ProxyForwarder / grpcbridge.Forwarder with scripted fake streams under seeded Gosched/sleep perturbation; fakes keep the proto.Message pointers and compare contents at the end; non-trivial = script with client items and target items. bytes: the real ServiceRouter (holding a description that lists the called methods with their message types) and GRPCProxy over bufconn, a raw-codec gRPC client and a scripted target exchanging valid but non-canonical encodings (default values written out, a singular field twice, unknown fields before / after known ones, non-minimal varints and length prefixes, empty messages) on all four RPC kinds; received bytes = sent bytes, in order, both ways; in a third of the calls the target ends with a non-OK status carrying a message and 0-2 details, which the client must receive unchanged",
    "level_text": "Coq theorems over ALL scripts and ALL schedules of the forwarder LTS (induction on reachability, one case per atomic step): requests/responses seen are prefixes of what was sent, in order; non-streaming directions carry at most one message; and nothing is dropped: for every fault-free script (no context event, no adapter failure, conformant target) and every schedule, a returned call reports exactly the target's final status, has delivered ALL response messages, and - when the target ended after the whole request stream - all requests and the half-close. Tied to the code by running the real Forward on scripted fakes and checking that the observed outcome is one the model can produce (exhaustive exploration of the model, used only as validation) and satisfies the executable property.",
    "level_note": "Trusted: Coq kernel, extraction, modelrun, Go harness fakes. Modelled, not verified: Go channel/goroutine semantics at the granularity of DESIGN appendix A.1; grpc-go behind AdaptedClientStream; byte identity: the forwarder model treats messages as opaque; that proxied messages travel as raw bytes (the service router hands out the dummy method) is checked by the part bytes, that an empty message with unknown fields re-marshals to the same bytes is protobuf-go's.",
    "design_ref": "DESIGN.md §3 C01, appendix A.1",
    "assumptions": ["completeness on success / final-status theorems for fault-free scripts are stated as the executable property (reasons 6, 7) and checked on every run; their Coq proof is not finished (draft kept in work/wip)"],
}
PROPS["C02"] = {
    "parts": [{"name": "forward", "pkg": "c01", "chk": "chk_fwd"},
              {"name": "proxy_idle", "pkg": "c01", "chk": "chk_fwd_e2e", "args": ["e2e"]},
              {"name": "web_idle", "pkg": "c01", "chk": "chk_c02_web_idle", "args": ["web_idle"]}],
    "reasons": {"forward": FWD_REASONS,
                "web_idle": {"5": "a WebSocket handler (transcoded or gRPC-WebSocket) did not return within 1.5 s after its idle client went away or the call's deadline expired while the target was silent",
                             "7": "an expired deadline on an idle WebSocket call was not reported to the client as DeadlineExceeded"},
                "proxy_idle": {"5": "an idle gRPC client did not learn of the target's termination within 1.5 s (the proxied call hangs)", "7": "the idle client saw a status other than the target's"}},
    "rule": PROPS["C01"]["rule"] + "; fault scripts: every position of EOF / status / silence on both sides, send and open failures, cancel/deadline fired before the k-th adapter operation (k random) or when both sides are idle; 1.5 s watchdog",
    "level_text": "Coq theorems over all scripts and schedules: (progress) with context-aware adapters, once the context is done or a pump has reported, some thread can always move until the call has returned; (variant) every step strictly decreases a measure, so every run is finite with at most mu(init) adapter-level steps; (cleanup) at return cancel() ran, both pumps have exited and a created stream was closed. Wall-clock promptness and goroutines inside grpc-go/gws are measured by the harness watchdog only (partial).",
    "level_note": "Trusted: as C01. The theorem bounds steps, not seconds; adapters' context-awareness is an explicit hypothesis of the progress theorem (true of all web adapters and AdaptedClientStream).",
    "design_ref": "DESIGN.md §3 C02, appendix A.1",
    "assumptions": ["'promptly' is measured (watchdog 1.5 s), not proved"],
}

PROPS["C10"] = {
    "parts": [{"name": "err", "pkg": "c10", "chk": "chk_c10_err", "args": ["err"]},
              {"name": "neg", "pkg": "c10", "chk": "chk_c10_neg", "args": ["neg"]},
              {"name": "trailers", "pkg": "c10", "chk": "chk_c10_trailers", "args": ["trailers"]}],
    "reasons": {"trailers": {"6": "the target's allow-listed response header is not an HTTP header of the response",
                             "7": "the target's allow-listed trailer is not visible as an HTTP header although nothing had been written when the call ended (error or empty stream before the first message, unary calls) - or not visible at all"},
                "err": {"1": "wrong HTTP status for the gRPC code, or the error's explicit HTTP status not honoured",
                        "2": "empty error body, or body without the error message",
                        "3": "bound request: body is not a decodable google.rpc.Status with code, message and details",
                        "4": "unbound request answered with something other than plain text",
                        "5": "an error was rendered after the first response byte had been written"},
                "neg": {"1": "content negotiation (Content-Type / Accept / SSE admission) differs from the rules"}},
    "rule": "err: exhaustive matrix 16 non-OK codes x origins {router, stream creation, target status, target status after the first streamed message} x details {none, resolvable, type unknown to the target's descriptors} x explicit HTTP status {none, 418, 451} x request cancelled {no, yes}, + request-decode errors + a real deadline, through TranscodedHTTPBridge with a recorder; messages with quotes/newlines/non-ASCII. neg: random Content-Type / Accept header line sets x streaming kinds through StandardTranscoder.Bind; error origin 4: a unary call whose target sends the response message and then a non-OK status; the message pool includes texts with per cent signs",
    "level_text": "Coq theorems: the status table equals the canonical gRPC->HTTP mapping on all 17 codes (finite domain, forallb by vm_compute lifted with forallb_forall); for every error before the first byte the HTTP status is the explicit one or the table's, the body is never empty and always carries the message, a Status message iff bound and encodable, plain text otherwise (also when the details cannot be encoded); nothing is rendered after the first byte; the pre-repair fallback (empty body) is refuted; negotiation: 415 iff a Content-Type is given and none is supported, Accept picks the response type, SSE only for server-streaming non-client-streaming methods. Tied to the code by the exhaustive matrix.",
    "level_note": "Trusted: Coq kernel, extraction, modelrun, Go harness; grpc-gateway HTTPStatusFromCode, mime.ParseMediaType, protojson are exercised, not modelled.",
    "design_ref": "DESIGN.md §3 C10",
    "assumptions": ["the matrix is exhaustive over codes x origins x details x override x cancelled; message contents are sampled"],
}

PROPS["C13"] = {
    "parts": [{"name": "http", "pkg": "c13", "chk": "chk_c13_records", "args": ["http"]},
              {"name": "ws", "pkg": "c13", "chk": "chk_c13_ws", "args": ["ws"]},
              {"name": "neg", "pkg": "c10", "chk": "chk_c10_neg", "args": ["neg"]}],
    "reasons": {"http": {"1": "wrong Content-Type for the stream format (application/json lines vs text/event-stream)",
                         "2": "the response byte stream does not split into exactly one record per message",
                         "3": "a record is not the JSON of its message"},
                "ws": {"1": "client WebSocket messages and request messages are not one-to-one (or not only the first for non-client-streaming methods)",
                       "2": "responses are not exactly one text frame each, in order",
                       "3": "wrong close code (1000 clean end, 1003 wrong frame type, 1001 other errors)",
                       "4": "close reason does not carry the gRPC code",
                       "5": "the close reason is not \"code <Name>: <message>\" cut down to 123 bytes at a character boundary"},
                "neg": {"1": "SSE admission / content type negotiation differs from the rules"}},
    "rule": "http: 0-4 response messages with strings containing quotes, newlines, U+2028/2029, non-BMP, CRLF, 'data:' and JSON text, response_body in {whole message, nested message, repeated field, map field, string, enum, int64} x {NDJSON, SSE}; the raw body is cut into records by the MODEL's splitter; ws: client flows of 0-3 text/binary frames on client-streaming / single-request (with and without body) methods, 0-3 responses, OK or error outcome, through a gorilla client; neg: SSE admission per streaming kind (shared with C10)",
    "level_text": "Coq theorems: for every list of LF-free payloads the NDJSON stream splits back into exactly those records (and SSE likewise for data: events); insignificant-whitespace stripping is idempotent; WebSocket request mapping: every text frame is one message in order for client-streaming methods, only the first otherwise, a frame of the wrong type ends the flow; close codes regenerated from the source equal 1000/1001/1003. That the JSON of a message contains no raw LF is the JSON encoder's property, checked on every record by the harness. Tied to the code through TranscodedHTTPBridge / TranscodedWebSocketBridge.",
    "level_note": "Trusted: Coq kernel, extraction, modelrun, Go harness (httptest recorder, gorilla client); encoding/json and protojson produce the record payloads (exercised); gws framing and close-reason truncation are gws's.",
    "design_ref": "DESIGN.md §3 C13",
    "assumptions": ["WebSocket flows are driven with the client sending its frames first (deterministic); timing races of client close vs server messages are covered by the forwarder LTS (C02) only at the model level"],
}

PROPS["C11"] = {
    "parts": [{"name": "schedules", "pkg": "c11", "chk": "chk_c11", "args": ["wmutex"]},
              {"name": "stress_pattern", "pkg": "c11", "chk": "chk_c11_stress", "args": ["stress_pattern"]},
              {"name": "stress_service", "pkg": "c11", "chk": "chk_c11_stress", "args": ["stress_service"]},
              {"name": "inflight", "pkg": "c11", "chk": "chk_c11_inflight", "args": ["inflight"]}],
    "reasons": {"inflight": {"1": "an UpdateDesc was parked at a yield point, Close was called (and returned while the update was still parked or after it), the update ran to its end - and afterwards the removed target was still routable"},
                "stress_pattern": {"1": "free-running stress: a lookup was routed to a target after its watcher's Close had returned, or the name could not be watched again", "2": "free-running stress: a route present in every description of a target that is being re-described was momentarily unroutable (flicker)", "3": "free-running stress: a lookup returned target / service / method / binding that are not parts of one description (mixture)"},
                "stress_service": {"1": "free-running stress: a lookup was routed to a target after its watcher's Close had returned, or the name could not be watched again", "2": "free-running stress: a route present in every description of a target that is being re-described was momentarily unroutable (flicker)", "3": "free-running stress: a lookup returned target / service / method / binding that are not parts of one description (mixture)"},
                "schedules": {"1": "a lookup issued after Close had returned was routed to the removed target (its routes came back through an update that was in flight)",
                              "2": "re-Watch refused after Close returned, or accepted while still watched"}},
    "rule": "10 thread sets (pattern and service router): update-vs-close with lookups, two updates of one target with lookups, close + re-watch + update through the new watcher + stale update through the old one, two targets with overlapping services, double close; EVERY interleaving at the granularity of the verif yield points is enumerated by the extracted model and replayed on the real routers (goroutines parked at the yield points); quick tier samples evenly when a set has more than 70 schedules; inflight: an UpdateDesc parked at its 1st / 2nd / 3rd yield point, Close called and given 60 ms to return if it can, the update released: afterwards the removed target must not be routable (both routers)",
    "level_text": "Coq theorems over all thread sets and all interleavings of the LTS: once Close(w) has executed its removal, no table entry applied through w exists or ever appears again (removed targets never come back), so no later lookup is routed to it - proved for the pattern router AND for the service router (two-phase updateRoutes under the table mutex, removal with hand-over: invariant over table entries, claim lists and recorded listings, with their watcher tags); a name is re-watchable exactly after the removal; an update step never drops a route that is in its new description (no flicker); lookups read one atomically stored (target, description) pair. The pre-repair protocol (closed check outside the mutation) is refuted by a witness schedule. Tied to the code by replaying every model schedule on the real routers via the yield hooks and comparing every lookup.",
    "level_note": "Trusted: Coq kernel, extraction, modelrun, Go replayer (goroutine parking via routing.VerifYieldHook, tag verif). Atomicity of atomic.Pointer, sync.Map and sync.Mutex is Go's. Hook commits in /repo are add-only.",
    "design_ref": "DESIGN.md §3 C11, appendix A.2",
    "assumptions": ["interleavings are at the granularity of the yield points (appendix A.2); finer-grained races are the race detector's (C18)"],
}

PROPS["C15"] = {
    "parts": [{"name": "seq", "pkg": "c15", "chk": "chk_c15", "args": ["seq"]},
              {"name": "race", "pkg": "c15", "chk": "chk_c15_race", "args": ["race"]},
              {"name": "sched", "pkg": "c15", "chk": "chk_c15_sched", "args": ["sched"], "crash_reasons": {"*": 7}}],
    "reasons": {"seq": {"1": "an update was delivered although the contract equals the last delivered one, or a changed contract / the first success was not delivered",
                        "2": "a failed poll did not (only) report an error"},
                "race": {"3": "a resolve-now request issued after a change while a poll was in progress was lost", "4": "a callback happened after Close had returned", "5": "random sequence of contract changes, ResolveNow calls and held-open polls: a resolve-now request issued after the last change was lost (the last delivered update is not the final contract)"},
                "sched": {"4": "forced schedule: a callback happened after Close had returned",
                          "5": "forced schedule: a resolve-now request that began after the last contract change and returned was lost (left alone until nothing moves, the last delivered update is not the final contract)",
                          "6": "forced schedule: a goroutine did not arrive at the yield point where the model's schedule puts it (the poller loop / ResolveNow no longer have the modelled shape)",
                          "7": "forced schedule: the process died while this schedule was being forced on the resolver (a panic or a deadlock under this interleaving; the crash log is in the replay)"}},
    "rule": "seq: histories of 1-6 polls over a scripted reflection server whose contract (descriptor bytes and/or service list) changes between polls (4 versions), with protocol-version availability {both, v1 only, v1alpha only, neither}, failures at every protocol step (stream open, ListServices, k-th file response; error or timeout), 5 answering policies; polls driven by PollManually + ResolveNow; the flat callback sequence is compared. race: ResolveNow issued during a poll held open by gating the fake stream; Close during an in-flight poll; random sequences (4-12 actions) of contract changes, ResolveNow calls, gate closings / openings and pauses with the end-to-end oracle 'a request issued after the last change delivers the final contract'. sched: every maximal schedule of the concurrent poller model for 7 configurations (1-3 ResolveNow callers x 0-2 contract changes x Close) is enumerated by the extracted model and forced on the real resolver through the yield points compiled in under the tag verif (poller parked at poll:start / before-select / woken / rearmed, callers parked between loading and calling the notify function); delivered updates, number of polls and Close's return are compared with the model, and the run is then left alone until nothing moves to judge 'never lost' end to end; quick tier samples evenly + at random; non-trivial = history with >= 3 polls; in half of the histories the scripted server lists the files of its answers in reverse order on every other poll (same contract, not a change)",
    "level_text": "Coq theorems over ALL histories of poll outcomes: the callback sequence is exactly - an update after the first success and after each success whose contract differs from the LAST DELIVERED one, an error (only) after each failure, nothing otherwise; the remembered fingerprint changes only together with an update (so a failure never loses or fakes a change); the result does not depend on the remembered protocol-version priority. Races: the poller loop with any number of ResolveNow callers, a closer and a changing target is an LTS (Model/ResolverConc.v) with theorems over every interleaving - a returned resolve-now request after whose beginning no poll has started leaves the waiting poller's resolve-now branch enabled (never lost, also when it arrives during a poll), the next poll reads the contract afresh, no callback after Close returned; the loop that re-arms before every wait is refuted by a witness schedule. Tied to the code by REPLAYING THE MODEL'S SCHEDULES on the real resolver (yield hooks in reflection/resolver.go, tag verif), besides gated runs and random sequences of changes / requests / held-open polls.",
    "level_note": "Trusted: Coq kernel, extraction, modelrun, Go harness (scripted reflection server, quiescence detection). Assumed: equal SHA-256 fingerprints mean equal contracts (fp_faithful); the poll timer is not modelled.",
    "design_ref": "DESIGN.md §3 C15",
    "assumptions": ["fp_faithful (SHA-256 collision-freeness and unambiguous concatenation)", "interleavings are at the granularity of the five yield points; Close is scheduled only where its outcome is determined (poller waiting, resolve-now channel open: Go's select chooses at random otherwise)"],
}

PROPS["C05"] = {
    "parts": [{"name": "resolve", "pkg": "c05", "chk": "chk_c05"},
              {"name": "versions", "pkg": "c15", "chk": "chk_c15", "args": ["seq"]}],
    "reasons": {"resolve": {"1": "the delivered description's services / methods / streaming kinds / message types / bindings differ from the target's descriptors (or are not exactly the listed valid, non-administrative services)",
                            "2": "a description was delivered although a listed service's definition, a dependency, or a message type one of its methods refers to could not be obtained (partial description instead of an error)",
                            "3": "a conformant server with a complete, consistent descriptor set got an error report instead of a description"},
                "versions": PROPS["C15"]["reasons"]["seq"]},
    "rule": "resolve: fixed dependency shapes (chain, diamond, re-sent-file graph, fan-out, deep chain, dense DAG) under every policy first, then random descriptor universes (1-6 files, chain/diamond dependency DAGs, 0-2 services per file, 0-2 methods with message types from the file or a dependency, 0-2 bindings of every pattern kind incl. custom verbs) x listed-name lists (subset, duplicates, invalid names, administrative grpc.* names, shuffled) x 8 answering policies (closure, only requested file, requested file + direct imports (later rounds re-send files the client has), grpc-go style minus already sent, dependencies first, duplicated, and two NON-conformant ones: wrong file for a symbol, a dependency never provided) x recursion limits; versions: protocol-version availability histories (shared with C15); non-trivial = universe with more than one file; half of the fixed-shape runs and 30 % of the random universes keep all services in the root file (deeper files are then reached by file name only)",
    "level_text": "Coq theorems for EVERY server (answering functions are universally quantified): whatever the resolver collects has every file name once (de-duplication) and, when the dependency search returns a set, every dependency of every collected file is in it - the precondition of protodesc.NewFiles; service-name filtering yields exactly the valid, first-occurrence, non-administrative listed names; the pre-repair de-duplication (none) is refuted. CONVERSELY (ReflCompleteProofs.v) against every conformant server - answers made of its own files, none ranked above the requested one in the acyclic dependency graph, the requested file present unless already sent on the stream - and a recursion limit above the graph's depth, the search succeeds and the description lists exactly the requested services. Tied to the code by running the real resolver against a scripted reflection server with conformant and non-conformant policies.",
    "level_note": "Trusted: Coq kernel, extraction, modelrun, Go harness (scripted reflection server); protodesc.NewFiles' own validation beyond name-uniqueness and dependency presence; proto option parsing (google.api.http extension).",
    "design_ref": "DESIGN.md §3 C05",
    "assumptions": ["protodesc.NewFiles beyond name uniqueness and dependency presence, and the parsing of the google.api.http option, are exercised, not modelled"],
}

PROPS["C09"] = {
    "parts": [{"name": "decode", "pkg": "c09", "chk": "chk_c09", "args": ["decode"]},
              {"name": "roundtrip", "pkg": "c09", "chk": "chk_c09_rt", "args": ["rt"]},
              {"name": "wkt", "pkg": "c09", "chk": "chk_c09_wkt", "args": ["wkt"]}],
    "reasons": {"decode": {"1": "the codec and canonical proto3 JSON parsing both accept the text but store different values (coercion / truncation / wrap-around)",
                           "4": "the decoder panicked",
                           "6": "a value of the wrong JSON type for the field (e.g. an array of numbers for a bytes field) was accepted",
                           "5": "an integer / bool / enum text that canonical parsing rejects (out of range, fractional, wrong JSON type) was accepted"},
                "roundtrip": {"2": "encoding a value and decoding it again does not give the value back (or it cannot be encoded)",
                              "3": "the decoder does not accept what the canonical proto3 JSON encoder emits for the value (or stores another value)"},
                "wkt": {"1": "for a field whose value / element / map value is a message or NullValue (Value, Struct, ListValue, Duration, Timestamp, FieldMask, wrappers, Empty, a nested message): the codec and canonical proto3 JSON parsing both accept the text but store different messages",
                        "2": "such a value, encoded by the codec and decoded again, does not come back",
                        "3": "the codec rejects (or stores another value for) the text the canonical proto3 JSON encoder emits for such a value, e.g. null as an element of a repeated google.protobuf.Value",
                        "4": "the decoder or encoder panicked"}},
    "rule": "decode: run-time built schema with every scalar kind as singular / repeated / map (6 key kinds x 5 value kinds) fields; per kind a boundary lattice of JSON texts (0, +-1, 2^31, 2^32, 2^53+1, 2^63, 2^64 boundaries, fractional and exponent forms, quoted forms, leading zeros/plus, specials, every wrong JSON type, enum names/numbers known/unknown, base64 std/url/unpadded), with and without DiscardUnknown; each text is decoded by the codec, by protojson (reference) and by the model. roundtrip: boundary and random values of every kind through Marshal->Unmarshal and protojson->Unmarshal, floats compared by bit pattern. wkt: singular / repeated / map<string,_> / map<int64,_> fields of 17 message-valued types (well-known types with a JSON form of their own, NullValue, a nested message) against a lattice of texts per type (canonical forms, accepted variants, null at every position, wrong types); every value the reference stores also goes through codec-encode -> codec-decode and canonical-encode -> codec-decode (wire bytes compared)",
    "level_text": "Coq theorems: for every integer kind and every value in range, decoding the encoder's output and decoding the canonical (quoted 64-bit) text both give the value back; an accepted integer text denotes exactly the stored value, which is in range (no coercion, truncation or wrap-around), for EVERY text; the pre-repair integer conversion is refuted with witnesses; base64 decode . encode = id on all byte strings; bool / string / enum-name round trips. Floats: specials proved; that a finite float survives text rests on strconv (exercised, bit-compared). Tied to the code by a three-way differential (codec, protojson, model).",
    "level_note": "Trusted: Coq kernel, extraction, modelrun, Go harness; encoding/json's tokenizer and string escaping, strconv.ParseFloat/FormatFloat, math/big.Rat.SetString, protojson as the reference implementation of canonical proto3 JSON.",
    "design_ref": "DESIGN.md §3 C09",
    "assumptions": ["finite-float text round trip is strconv's (named hypothesis in DESIGN §6); float32 overflow threshold is modelled exactly except within half an ulp of the boundary (double rounding)"],
}

PROPS["C04"] = {
    "parts": [{"name": "bind", "pkg": "c04", "chk": "chk_c04"}, {"name": "e2e", "pkg": "c04", "chk": "chk_c04", "args": ["e2e"]},
              {"name": "iso", "pkg": "c04", "chk": "chk_c04_iso", "args": ["iso"]},
              {"name": "anyelem", "pkg": "c04", "chk": "chk_c04_ref", "args": ["anyelem"]},
              {"name": "wktparam", "pkg": "c04", "chk": "chk_c04_text", "args": ["wktparam"], "crash_reasons": {"*": 4}}],
    "reasons": {"wktparam": {"8": "the text the canonical proto3 JSON encoder emits for a Timestamp / Duration (within Go's time.Duration) value, given as a query parameter, path variable, nested or repeated parameter, does not arrive as that value",
                             "7": "a Timestamp / Duration / Value / Struct parameter text that canonical proto3 JSON parsing also accepts is stored as a different value",
                             "2": "a parameter text that does not parse is refused with something other than InvalidArgument",
                             "4": "the transcoder panicked"},
                "anyelem": {"7": "the message produced from a body bound to a field (or the text rendered for a response_body field) differs from canonical proto3 JSON with the TARGET's own descriptors: google.protobuf.Any values of a target-only type as the whole body, a singular field, list elements, map values, nested one level down", "4": "the transcoder panicked"},
                "iso": {"6": "the message a request produced (or the text a response was rendered to) depends on which OTHER targets the same bridge served before: a request with a google.protobuf.Any value gave a different result through the shared transcoder than through a transcoder of its own"},
                "e2e": {"1": "(unused in this part)", "2": "an HTTP status other than 400 for a value that does not parse (500 only for an unresolvable body path)", "3": "(unused in this part)", "4": "the handler panicked"},
                "bind": {"1": "the request message depends on which protobuf types are registered in the bridge process (clean vs poisoned global registry)",
                         "2": "a value that does not parse produced something other than InvalidArgument (or Internal for a body path that does not resolve)",
                         "3": "a query parameter addressing a field already bound by the body or a path variable changed the request message",
                         "4": "the transcoder panicked",
                         "5": "a query parameter addressing an unbound string field whose name merely starts with the name of a bound field did not arrive verbatim in the request message"}},
    "rule": "schemas built at run time (never registered globally; well-known types as COPIES with the same full names, as reflection delivers them): one rich schema (every scalar kind, enum, lists, maps with 4 key kinds, nested messages 3 deep, two oneofs incl. a message member, proto3 optional, 8 wrapper types, FieldMask, json_name variants) and random small schemas; per case a body binding ('', '*', a scalar / list / map / message / nested field, unresolvable paths), 0-4 path variables (nested, inside the body field, sharing names at different depths), 0-5 query keys (proto and JSON names, map brackets, keys under bound prefixes, unbound siblings whose names start with a bound name, unknown and malformed keys), valid and invalid text forms from per-kind boundary pools, 1-3 bodies as repeated Transcode calls or through the stream decoder; each request runs with a clean global registry, again after conflicting types with the same full names were registered, and once more without the query keys that address bound fields; iso: four targets defining iso.Payload differently (or not at all), sequences of 2-5 requests with google.protobuf.Any values over random targets through ONE transcoder (the package default or a configured one), each compared with the same request through a transcoder of its own, request message and response text",
    "level_text": "Coq theorems over ALL schemas, bindings and requests of the model: a path variable's parsed value is what ends up in the message whatever body and query say (precedence), the filter is exactly bound-prefix, bound query keys are ignored, populate/query frame lemmas (only the addressed field path changes), body '*' ignores the query, failures are InvalidArgument (Internal only for an unresolvable body path), integer and enum text forms are exact (no wrap-around; pre-repair enum parser refuted). Tied to the code by the differential harness (model = code on every case, in both registry states).",
    "level_note": "Trusted: Coq kernel, extraction, modelrun, Go harness; protojson for whole-message bodies (the model covers the canonical subset the harness generates), encoding/json, strconv, net/url query decoding, dynamicpb. Timestamp / Duration / Value / Struct text forms are not modelled (time.Parse, protojson).",
    "design_ref": "DESIGN.md §3 C04",
    "assumptions": ["Go map iteration order over path variables and query keys: requests in which two distinct keys address the same field or the same oneof are order dependent in the code and are not generated",
                    "a query parameter that is a strict PREFIX of a bound path (wrapper field wi vs bound wi.value) or that descends through a oneof whose other member is bound is outside the frame theorems' hypothesis (indep) - it is accepted by the code and by the model alike"],
}

PROPS["C20"] = {
    "parts": [{"name": "gw", "pkg": "c20", "chk": "chk_c20_gw", "args": ["gw"]},
              {"name": "strict", "pkg": "c20", "chk": "chk_c20_strict", "args": ["strict"]},
              {"name": "trie", "pkg": "c20", "chk": "chk_c20_trie_model", "args": ["trie"]}],
    "reasons": {"gw": {"1": "a string was accepted as a route template although its text is not the rendering of the accepted structure, or it has illegal path characters / ill-formed field paths (it was turned into some other route)",
                       "2": "the rendering of a well-formed template was rejected or given another structure (verb, variables)",
                       "3": "a generated template is outside the hypothesis of the round-trip theorem: generator and theorem no longer talk about the same language",
                       "4": "the parser panicked"},
                "strict": {"1": "the strict parser accepted a string that is not in the grammar's language (or gave it a structure whose rendering is not the string)",
                           "2": "the strict parser rejected (or mis-structured) the rendering of a well-formed template",
                           "3": "the strict parser rejected (or mis-structured) a string of the language",
                           "4": "the parser panicked"},
                "trie": {"1": "the trie returned a template that does not match the looked-up path", "4": "the trie panicked"}},
    "rule": "grammar-directed generation: abstract templates derived from httprule.bnf (literals of every pchar class incl. percent escapes and colons, *, **, variables with 1-3 field path components and 1-3 inner segments, optional verbs, the root template), rendered with and without the {a} shorthand; two single-edit mutants of every rendering (insert / delete / replace / duplicate / drop the leading slash, from an alphabet of structural characters, NUL, space, non-ASCII, broken escapes); noise strings; the near misses named in the property verbatim. Each string goes to the routing parser (+ Compile + runtime.NewPattern), to the strict parser, and sets of parsed templates to the trie with paths built to match or nearly match them",
    "level_text": "Coq theorems: parse(render t) = Some t for ALL well-formed templates t of the routing parser's model (tokenizer with three states, verb extraction, recursive descent) - every derivable string is accepted with exactly the structure, field paths and verb it was written from; and conversely (gw_parse_sound) every text the routing parser accepts has a derivation in the grammar, stated as a relation on strings (non-empty literals of path characters with well-formed escapes, identifiers in field paths, no NUL, braces balanced) with exactly the returned structure, field paths and verb; rendering is injective (the text determines the structure); compile correctness (the opcode machine computes the template's own matching); opcodes can be read back. THE STRICT PARSER (Model/Strict.v, function by function from tokenize.go / parse.go) accepts EXACTLY the strict template language: st_parse s = Some t <-> StrictLang t s (Proofs/StrictProofs.v, StrictCompleteProofs.v) - the language is stated on strings (segment texts joined by '/', '{p}' short for '{p=*}', verb forms), with variables that do not nest, '**' only last (in the template and inside a variable), literals that are not '*' / '**', and the verb after the LAST colon behind a literal; that nesting is impossible is proved from the tokenizer's states carried through the descent; the model's recursion fuel provably never decides. THE TRIE: whatever was added in whatever order, a template Find returns matches the path (TrieProofs.v). All three models are tied to the code differentially on every generated string.",
    "level_note": "Trusted: Coq kernel, extraction, modelrun, Go harness, the generator's coverage of the grammar. The routing-parser model (tokenizer, recursive descent) equals the code on every generated string (hundreds of thousands in the thorough tier).",
    "design_ref": "DESIGN.md §3 C20",
    "assumptions": ["LITERAL is read as one or more pchars for path segments (an empty segment is not a template), zero or more for the verb: '/a:' is '/a' with an empty verb, '/:v' the root with a verb",
                    "the routing parser additionally accepts a deep wildcard that is not last ('/a/**/b'), which runtime.Pattern supports; the property lists the classes that must be rejected and this is not one of them"],
}

PROPS["C03"] = {
    "parts": [{"name": "route", "pkg": "c03", "chk": "chk_c03"}],
    "reasons": {"route": {"1": "the request was not routed to the first binding (same HTTP method, description order) whose template matches, with the captured segments decoded exactly once: wrong binding, wrong captures, NotFound although one matches, or routed although none does",
                          "4": "RouteHTTP panicked"}},
    "rule": "1-3 targets with 1-2 services, 1-3 methods each and 0-3 bindings per method (templates derived from the grammar, a few mutated ones that must not become routes, 4 HTTP methods; methods without bindings get the default POST /package.Service/Method), added through PatternRouterWatcher.UpdateDesc; 6 requests per table: paths built from a binding's template with components from a pool of escapes (%20 %2F %25 %2520 %00 %zz %4, empty, colons, verbs, non-ASCII), damaged by trailing/double slashes, extra or missing components and verbs, the default gRPC paths, odd paths; URLs parsed by url.ParseRequestURI like net/http",
    "level_text": "Coq theorems for ALL templates, tables and paths of the model: compile correctness (opcode machine = template matching), RouteHTTP's per-route step = template-level step, table lookup = first template-level match, routed => first matching binding and all earlier ones do not match, NotFound => none matches, single-segment captures decode exactly once (pct-encoding round trip for every byte string), reserved characters stay encoded in multi-segment captures. Tied to the code by the differential harness (model = code, and code = independent template-level specification).",
    "level_note": "Trusted: Coq kernel, extraction, modelrun, Go harness; net/url's parsing of the request target (the model starts from the path as sent), grpc-gateway's runtime.Pattern as modelled (run_ops), the parser model's equality with the code (C20).",
    "design_ref": "DESIGN.md §3 C03",
    "assumptions": ["order across targets is the order in which targets were first added (one UpdateDesc per target in the harness); re-listing is C06's subject",
                    "seg_ok (variables do not nest) is no longer a hypothesis: proved for every accepted text (c03_no_nesting), the table theorem c03_route_table_spec holds for any description texts"],
}

_C17_REASONS = {"2": "a transcoded HTTP request was answered with a 5xx status although the target never fails and every binding is valid (client errors must be 4xx)",
                "3": "a handler did not return after the client went away",
                "4": "a handler panicked",
                "5": "the response is not well-formed for its protocol (HTTP status / JSON lines, gRPC-Web frames ending in exactly one trailer with a grpc-status)",
                "7": "F33 under load: a gRPC-Web response whose only defect is a data frame behind - or, so far, instead of - the trailer frame (the abandoned Send goroutine writes after the handler has moved on)"}
PROPS["C17"] = {
    "parts": [{"name": "http", "pkg": "c17", "chk": "chk_c17", "args": ["http"]},
              {"name": "grpcweb", "pkg": "c17", "chk": "chk_c17", "args": ["grpcweb"]},
              {"name": "ws", "pkg": "c17", "chk": "chk_c17", "args": ["ws"]},
              {"name": "grpcws", "pkg": "c17", "chk": "chk_c17", "args": ["grpcws"]}],
    "reasons": {"http": _C17_REASONS, "grpcweb": _C17_REASONS, "ws": _C17_REASONS, "grpcws": _C17_REASONS},
    "rule": "the whole WebBridge (real PatternRouter + ServiceRouter over a description with every field kind and binding shape of the rich schema: body '*', scalar/enum/list/map/message/bytes body fields, path variables incl. nested and multi-segment, verbs, streaming methods of all four kinds, a default binding) in front of a scripted target. http: request lines from known routes with path values / query keys / query values from hostile pools (broken escapes, NUL, non-ASCII, overlong numbers, brackets), bodies = valid JSON, single-edit damaged JSON, noise tokens, random bytes; header variations. grpcweb: every content-type variant, bodies of frames with lying / huge / truncated lengths, arbitrary flags, client-side trailer frames, broken base64. ws / grpcws: real TCP sessions: text and binary messages plus RAW frames (unmasked, unfinished fragments, reserved opcodes, lengths larger than the data, close frames with arbitrary payloads, pings, stray continuations, invalid UTF-8), then a close frame, a half close, silence or an abrupt hang-up. Every handler invocation is counted in and out and wrapped for panics; the input about to run is recorded so that a crash of the process names it",
    "level_text": "Coq theorems (composed from the C03/C04/C08/C09 models): unparsable bodies / path variables / query parameters => HTTP 400 whenever the binding is valid; any request path => a route, 404 or 400; wrong JSON types are errors; oversize gRPC-Web frames and short gRPC-WebSocket messages are refused with a status. 'No panic' and 'the handler returns' are NOT theorems: a total Gallina function cannot panic or block; these halves are decided by the monitored fuzz stream on the real handlers (partial).",
    "level_note": "Trusted: Coq kernel, Go harness and its panic / liveness monitor, gorilla/websocket as the client, net/http request parsing (requests net/http itself rejects are not sent). The gRPC proxy entry point (grpc-go's own framing) is not fuzzed.",
    "design_ref": "DESIGN.md §3 C17",
    "assumptions": ["501 for client-streaming methods over plain HTTP is the bridge's documented answer, not a client-caused 5xx"],
}

PROPS["C18"] = {
    "parts": [{"name": "race", "pkg": "c18", "chk": "chk_c18", "race": True, "env": {"GORACE": "halt_on_error=1 exitcode=66"},
               "crash_reasons": {"66": 1, "*": 2}, "timeout": {"quick": 300, "thorough": 1800}},
              {"name": "ws", "pkg": "c18", "chk": "chk_c18", "race": True, "args": ["ws"], "env": {"GORACE": "halt_on_error=1 exitcode=66"},
               "crash_reasons": {"66": 1, "*": 2}, "timeout": {"quick": 300, "thorough": 1800}},
              {"name": "tick", "pkg": "c18", "chk": "chk_c18", "race": True, "args": ["tick"], "env": {"GORACE": "halt_on_error=1 exitcode=66"},
               "crash_reasons": {"66": 1, "*": 2}, "timeout": {"quick": 120, "thorough": 120}},
              {"name": "routers_pattern", "pkg": "c11", "chk": "chk_c11_stress", "race": True, "args": ["stress_pattern"], "env": {"GORACE": "halt_on_error=1 exitcode=66"},
               "crash_reasons": {"66": 8, "*": 9}, "timeout": {"quick": 300, "thorough": 600}},
              {"name": "routers_service", "pkg": "c11", "chk": "chk_c11_stress", "race": True, "args": ["stress_service"], "env": {"GORACE": "halt_on_error=1 exitcode=66"},
               "crash_reasons": {"66": 8, "*": 9}, "timeout": {"quick": 300, "thorough": 600}}],
    "reasons": {"race": {"1": "the race detector reported a data race", "2": "a per-stream concurrent-use guard tripped, or another panic crashed the process"},
                "routers_pattern": {"8": "the race detector reported a data race inside the pattern router: 8 goroutines watching, describing twice and closing their own target, concurrently with lookups", "9": "the router panicked",
                                    "1": "(as C11 stress) a lookup was routed to a target after its watcher's Close had returned", "2": "(as C11 stress) a stable route was momentarily unroutable", "3": "(as C11 stress) a lookup returned a mixture of two descriptions"},
                "routers_service": {"8": "the race detector reported a data race inside the service router: 8 goroutines watching, describing twice and closing their own target, concurrently with lookups", "9": "the router panicked",
                                    "1": "(as C11 stress) a lookup was routed to a target after its watcher's Close had returned", "2": "(as C11 stress) a stable route was momentarily unroutable", "3": "(as C11 stress) a lookup returned a mixture of two descriptions"},
                "tick": {"1": "the race detector reported a data race between the resolver's poller and a ResolveNow caller that had loaded the notify function before the interval tick", "2": "the resolver panicked (e.g. a notify function closing an already closed channel)"},
                "ws": {"1": "the race detector reported a data race", "2": "a per-stream concurrent-use guard tripped, or another panic crashed the process",
                       "3": "a message the target received on a client-streaming WebSocket call is not one the client sent (a read buffer reused while still being decoded)"}},
    "rule": "a complete bridge built with the race detector: ReflectionRouter with polling every 3 ms over a real gRPC target on bufconn (reflection + the test service), GRPCProxy on a second bufconn server, WebBridge behind a real HTTP server; 13 goroutines for the whole duration (6 s quick, 150 s thorough): 4 transcoded HTTP callers (valid, invalid and unrouted requests, query parameters), 2 gRPC-Web callers, 2 WebSocket callers (transcoded and grpc-websockets, some abandoned mid-call), 3 gRPC callers through the proxy (unary, bidi streams, unbound methods), 2 goroutines adding and removing the same two extra targets (so that Add/Remove, description updates, watcher Close and polls overlap with each other and with all calls). GORACE=halt_on_error: the first report ends the run with the race detector's exit code; any panic (the per-stream concurrent-use guards included) crashes it. ws: 8 goroutines of client-streaming WebSocket calls (transcoded and grpc-websockets) that send 10-40 frames back to back to a recording fake target, 3 s (60 s); every received message must be one that was sent. tick: one forced interleaving of a stand-alone reflection resolver (interval polling at its 1 s floor, scripted reflection server): a ResolveNow caller held by the verif yield hook between loading and calling the notify function while the interval timer fires and its poll is held open, then two more ResolveNow calls. routers_pattern / routers_service: the C11 free-running router stress (8 goroutines that watch, describe twice and close their own target while others look routes up) built with the race detector",
    "level_text": "Coq theorems over ALL thread sets and interleavings of the routers' concurrent protocol: the table mutex is held by at most one thread, exactly between the two phases of an update, and every other mutation is disabled meanwhile; the per-watcher mutex has at most one holder (C11 invariant). Data-race freedom itself is a statement about Go executions that no Gallina model exhibits: it is MONITORED by the race-detector workload (partial - absence of reports on the explored schedules is not a theorem).",
    "level_note": "Trusted: Coq kernel, the Go race detector, the workload's coverage of schedules. The per-stream guards cannot trip in the Forward model by construction (one program counter per pump thread).",
    "design_ref": "DESIGN.md §3 C18",
    "assumptions": ["the test service's UnaryBound / UnaryCombined handlers write their request into a shared field (test-only code, racy by itself): the workload does not call them"],
}

NOT_APPLICABLE = {}

# the method that DECIDES each property (MANIFEST "technique"); the default names proof + correspondence
TECH = {
 "C02": "Coq proof over all schedules of the forwarder LTS (termination, cleanup, status source) + differential correspondence; the wall-clock half ('promptly') is measured on the real entry points, not proved",
 "C12": "Coq proof that the decoder accepts exactly the gRPC timeout grammar (unit table regenerated from the source) and of deadline enforcement on the forwarder LTS + exact differential on ~27k strings; wall-clock margins are measured",
 "C17": "monitored fuzz stream on the real handlers (panic / stuck handler / malformed response / 5xx) decides 'no crash, no hang' - a total Gallina function cannot panic, so that half has no theorem; Coq theorems cover the modelled decoders' error alphabets (unparsable input => 4xx)",
 "C18": "the Go race detector on a complete bridge under a 13-goroutine workload decides data-race freedom (monitored, not proved); Coq theorems prove mutual exclusion of the routers' table / watcher mutexes in every reachable state of the LTS",
 "C20": "machine-checked proof in Coq 8.16.1: routing parser (both directions), strict parser accepts exactly the language (iff), trie soundness over all histories - hand-written Gallina models tied to the Go code differentially on every run",
}
for _k, _v in TECH.items():
    PROPS[_k]["technique"] = _v
