(* Universal value type crossing the Coq/OCaml/Go boundary.  Definitions only. *)
From Coq Require Export List ZArith NArith Bool.
Export ListNotations.
Open Scope Z_scope.

Definition byte := N.
Definition bytes := list N.

Inductive val : Type :=
| VN (z : Z)
| VS (s : list N)
| VL (l : list val).

Fixpoint list_eqb {A} (eqb : A -> A -> bool) (a b : list A) : bool :=
  match a, b with
  | [], [] => true
  | x :: a', y :: b' => eqb x y && list_eqb eqb a' b'
  | _, _ => false
  end.

Definition bytes_eqb : bytes -> bytes -> bool := list_eqb N.eqb.

Fixpoint val_eqb (a b : val) : bool :=
  match a, b with
  | VN x, VN y => Z.eqb x y
  | VS x, VS y => bytes_eqb x y
  | VL x, VL y =>
      (fix go (x y : list val) : bool :=
         match x, y with
         | [], [] => true
         | u :: x', v :: y' => val_eqb u v && go x' y'
         | _, _ => false
         end) x y
  | _, _ => false
  end.

Definition vbool (b : bool) : val := VN (if b then 1 else 0).
Definition vnat (n : nat) : val := VN (Z.of_nat n).
Definition vopt {A} (f : A -> val) (o : option A) : val :=
  match o with None => VL [] | Some a => VL [f a] end.

Definition as_Z (v : val) : Z := match v with VN z => z | _ => 0 end.
Definition as_S (v : val) : bytes := match v with VS s => s | _ => [] end.
Definition as_L (v : val) : list val := match v with VL l => l | _ => [] end.
Definition as_bool (v : val) : bool := negb (Z.eqb (as_Z v) 0).
Definition as_nat (v : val) : nat := Z.to_nat (as_Z v).
Definition nthv (n : nat) (v : val) : val := nth n (as_L v) (VL []).

(* Verdicts produced by every chk_* function *)
Definition verdict_ok : val := VL [VN 0].
Definition verdict_mismatch (model : val) : val := VL [VN 1; model].
Definition verdict_propfail (reason : Z) (info : val) : val := VL [VN 2; VN reason; info].

(* generic checker: property on the implementation's output first (that is the replay),
   then correspondence with the model's output *)
Definition mk_chk (run : val -> val) (prop : val -> val -> option Z) (c : val) : val :=
  let input := nthv 0 c in
  let impl := nthv 1 c in
  match prop input impl with
  | Some r => verdict_propfail r (run input)
  | None => if val_eqb (run input) impl then verdict_ok else verdict_mismatch (run input)
  end.

(* ASCII helpers shared by the models *)
Definition is_digit (c : N) : bool := (48 <=? c)%N && (c <=? 57)%N.
Definition is_upper (c : N) : bool := (65 <=? c)%N && (c <=? 90)%N.
Definition is_lower (c : N) : bool := (97 <=? c)%N && (c <=? 122)%N.
Definition to_lower (c : N) : N := if is_upper c then (c + 32)%N else c.
Definition lower (s : bytes) : bytes := map to_lower s.
Definition fold_eqb (a b : bytes) : bool := bytes_eqb (lower a) (lower b).

Fixpoint prefix_b (p s : bytes) : bool :=
  match p, s with
  | [], _ => true
  | x :: p', y :: s' => N.eqb x y && prefix_b p' s'
  | _, [] => false
  end.

(* lexicographic order on byte strings *)
Fixpoint bytes_leb (a b : bytes) : bool :=
  match a, b with
  | [], _ => true
  | _ :: _, [] => false
  | x :: a', y :: b' => if (x <? y)%N then true else if (y <? x)%N then false else bytes_leb a' b'
  end.

