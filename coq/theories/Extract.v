(* Extraction of the executable models: ExtrOcamlBasic only; N, Z, positive, nat stay inductive. *)
From Coq Require Import Extraction ExtrOcamlBasic.
From GB Require Import Base.Val Model.Timeout Model.MDFilter Model.Dispatch Model.Routers Model.SvcRoute Model.Lifecycle Model.GrpcWeb Model.ForwardRun Model.HttpErr Model.StreamFrame Model.RouteConcRun Model.Resolver Model.ReflProto Model.JsonRun Model.TranscodeRun Model.TemplateRun Model.FuzzRun Model.Trie Model.Strict.
Extraction Language OCaml.
Extraction "model.ml" val_eqb chk_c12_decode chk_c12_enforce chk_c07 chk_c19_dispatch chk_c19_mdquery chk_c06 chk_c14 chk_c16 chk_c08_frames chk_c08_big chk_c08_ws chk_c08_resp chk_fwd chk_fwd_e2e chk_c10_err chk_c10_neg chk_c13_records chk_c13_ws chk_c11 enum_c11 chk_c15 chk_c15_race chk_c05 chk_c09 chk_c09_rt chk_c04 chk_c04_iso chk_c20_gw chk_c20_strict chk_c20_trie chk_c20_trie_model chk_c03 chk_c17 chk_c18 chk_c16_waiting chk_c02_web_idle chk_c12_target chk_c11_stress.
