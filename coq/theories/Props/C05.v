(* C05 — reflection resolution reproduces the target's contract for any conformant server.  Statements only.
   [ans_sym] / [ans_file] — what the server answers, depending on what it already sent on the stream — are universally
   quantified: full closures, only the requested file, files already sent omitted, any order, duplicates, ... *)
From GB Require Import Model.ReflProto Proofs.ReflProtoProofs.

(* whatever set of files the resolver ends up with: every name once, every dependency present (else: an error, never a set) *)
Theorem c05_closure : forall ans_sym ans_file limit names res,
  collect ans_sym ans_file limit names = Some res ->
  NoDup (fnames res) /\ (forall f d, In f res -> In d (rf_deps f) -> In d (fnames res)).
Proof. exact collect_sound. Qed.
Print Assumptions c05_closure.

(* de-duplication within a batch keeps exactly one file per name and loses no name *)
Theorem c05_dedupe : forall l, NoDup (fnames (dedupe [] l)) /\ (forall f, In f l -> In (rf_name f) (fnames (dedupe [] l))) /\
                               (forall f, In f (dedupe [] l) -> In f l).
Proof. intros l. split; [apply dedupe_nodup|]. split; [apply dedupe_keeps_names | apply dedupe_sub]. Qed.
Print Assumptions c05_dedupe.

(* F5, fixed: without recording what was seen, duplicates stay (and protodesc.NewFiles rejects the set) *)
Theorem c05_dedupe_old_refuted : exists l, ~ NoDup (fnames (dedupe_old l)).
Proof. exact dedupe_old_refuted. Qed.
Print Assumptions c05_dedupe_old_refuted.

(* the description's services are exactly the listed names that are valid and not administrative, each once *)
Theorem c05_services_exact : forall ignore listed n,
  In n (filter_names ignore [] listed) <->
  In n listed /\ valid_name n = true /\ existsb (fun p => prefix_b p n) ignore = false.
Proof. exact services_exact. Qed.
Print Assumptions c05_services_exact.

Theorem c05_services_once : forall ignore l, NoDup (filter_names ignore [] l).
Proof. intros ignore l. apply filter_names_nodup. Qed.
Print Assumptions c05_services_once.

Theorem c05_http_methods : map http_method_of std_kinds = [[71;69;84]; [80;85;84]; [80;79;83;84]; [68;69;76;69;84;69]; [80;65;84;67;72]]%N.
Proof. exact http_methods_exact. Qed.
Print Assumptions c05_http_methods.

(* ---- the other half: against ANY conformant server the resolution SUCCEEDS ----
   U: the server's files, names unique, dependencies inside U and acyclic (rank: any topological rank); the server may answer
   with full closures, only the requested file, nothing it already sent on the stream, extra files, in any order - as long as an
   answer consists of its own files, none ranked above the requested one, and contains the requested file (the file that
   defines the requested symbol) unless that was already sent; the recursion limit exceeds the depth of the graph.
   Then the dependency search returns a set, and a description is built that lists exactly the requested services
   (with c05_closure: that set has every name once and is closed under dependencies). *)
From GB Require Import Proofs.ReflCompleteProofs.
Theorem c05_conformant_server_succeeds :
  forall (U : list rfile) (rank : bytes -> nat),
  (forall f d, In f U -> In d (rf_deps f) -> In d (fnames U) /\ (rank d < rank (rf_name f))%nat) ->
  forall ans_sym ans_file,
  file_conformant U rank ans_file -> sym_conformant U ans_sym -> NoDup (fnames U) ->
  forall limit names,
  (forall n, In n (fnames U) -> (rank n < limit)%nat) ->
  (forall s, In s names -> exists f, In f U /\ defines f s) ->
  exists res svcs, collect ans_sym ans_file limit names = Some res /\ describe names res = Some svcs /\ map rs_name svcs = names.
Proof. exact describe_complete. Qed.
Print Assumptions c05_conformant_server_succeeds.
