(* C06 — routing state is exactly the latest description of every live target.  Statements only.
   [valid] / [matches] (the template compiler and matcher) are universally quantified parameters. *)
From GB Require Import Model.Routers Proofs.RoutersProofs.
Open Scope Z_scope.

(* after ANY history of Watch/Update/Close: a request matched by bindings of exactly one live target is routed to the
   FIRST matching binding (description order) of that target's LATEST description; frame: other targets irrelevant *)
Theorem c06_pattern_refines : forall valid matches ops http path n d r,
  lget n (snd (run_spec ops)) = Some d ->
  first_match matches path (routes_for valid d http) = Some r ->
  (forall n' d', n' <> n -> lget n' (snd (run_spec ops)) = Some d' -> first_match matches path (routes_for valid d' http) = None) ->
  probe_http matches (st_pt (run_ops valid ops)) http path = HFound n (d_id d) r.
Proof. exact pattern_refines. Qed.
Print Assumptions c06_pattern_refines.

(* routes dropped by an update or owned by a closed target are gone: nothing live matches => NotFound *)
Theorem c06_pattern_refines_none : forall valid matches ops http path,
  (forall n d, lget n (snd (run_spec ops)) = Some d -> first_match matches path (routes_for valid d http) = None) ->
  probe_http matches (st_pt (run_ops valid ops)) http path = HNotFound.
Proof. exact pattern_refines_none. Qed.
Print Assumptions c06_pattern_refines_none.

(* the table is, per HTTP method, exactly one entry per live target that has routes for it, carrying its latest description *)
Theorem c06_pattern_invariant : forall valid ops,
  st_watch (run_ops valid ops) = fst (run_spec ops) /\ PInv valid (snd (run_spec ops)) (st_pt (run_ops valid ops)).
Proof. intros valid ops. exact (history_inv valid (fun _ _ => true) ops). Qed.
Print Assumptions c06_pattern_invariant.

(* a name can be watched iff it is not currently watched (so: again after Close, never twice at once) *)
Theorem c06_watch_exclusive : forall valid ops n,
  snd (step valid (run_ops valid ops) (OWatch n)) = (if existsb (bytes_eqb n) (fst (run_spec ops)) then 0 else 1).
Proof. intros valid ops n. exact (watch_exclusive valid (fun _ _ => true) ops n). Qed.
Print Assumptions c06_watch_exclusive.

(* invalid templates contribute no route and do not disturb the others: by construction of routes_for (filter on valid) *)
Theorem c06_invalid_templates_skipped : forall valid d http r,
  In r (routes_for valid d http) -> valid (r_pattern r) = true.
Proof. exact routes_valid. Qed.
Print Assumptions c06_invalid_templates_skipped.

(* ---- the SERVICE table (routing.ServiceRouter: updateRoutes / removeTarget / handOver), for every history ---- *)
From GB Require Import Proofs.SvcTableProofs.

(* a routed service points at a LIVE target, at that target's LATEST description, at a position where that description
   lists exactly this service *)
Theorem c06_service_sound : forall valid ops svc r, probe_grpc (run_ops valid ops) svc = Some r ->
  exists d s, lget (sr_target r) (snd (run_spec ops)) = Some d /\ sr_desc r = d_id d /\
              nth_error (d_services d) (sr_idx r) = Some s /\ s_name s = svc.
Proof. exact service_sound. Qed.
Print Assumptions c06_service_sound.

(* every service listed by the latest description of some live target is routed (to a live lister, by soundness) -
   also after its previous owner closed or dropped it *)
Theorem c06_service_complete : forall valid ops m dm svc,
  lget m (snd (run_spec ops)) = Some dm -> lists_svc dm svc = true -> probe_grpc (run_ops valid ops) svc <> None.
Proof. exact service_complete. Qed.
Print Assumptions c06_service_complete.

(* a service listed by exactly one live target is routed to it, with its latest description *)
Theorem c06_service_sole : forall valid ops n d svc,
  lget n (snd (run_spec ops)) = Some d -> lists_svc d svc = true ->
  (forall n' d', n' <> n -> lget n' (snd (run_spec ops)) = Some d' -> lists_svc d' svc = false) ->
  exists r s, probe_grpc (run_ops valid ops) svc = Some r /\ sr_target r = n /\ sr_desc r = d_id d /\
              nth_error (d_services d) (sr_idx r) = Some s /\ s_name s = svc.
Proof. exact service_sole. Qed.
Print Assumptions c06_service_sole.

(* a service that no live target's latest description lists is not routed: removed targets and dropped services leave nothing behind *)
Theorem c06_service_none : forall valid ops svc,
  (forall n d, lget n (snd (run_spec ops)) = Some d -> lists_svc d svc = false) -> probe_grpc (run_ops valid ops) svc = None.
Proof. exact service_none. Qed.
Print Assumptions c06_service_none.

(* the full representation invariant: table sound and complete, claim lists = ownership relation, recorded listings = latest descriptions *)
Theorem c06_service_invariant : forall valid ops, SInv (snd (run_spec ops)) (st_st (run_ops valid ops)).
Proof. exact service_inv. Qed.
Print Assumptions c06_service_invariant.
