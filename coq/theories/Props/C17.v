(* C17 — no client input can crash or hang a handler.
   A Go panic or a stuck goroutine has no counterpart in a Gallina model: every model here is a total function, so "the
   model does not panic" is true by construction and says nothing.  What the models DO carry is the second half of the
   property: whatever bytes arrive, the outcome is a value of a small alphabet, and client mistakes are 4xx.  The first
   half (no panic, handlers return, well-formed responses) is decided by the monitored fuzz stream of harness/c17 on the
   real handlers (level: partial, see DESIGN). *)
From GB Require Import Model.Transcode Model.HttpErr Model.Template Model.TemplateRun Model.GrpcWeb
                       Proofs.FuzzProofs Proofs.GrpcWebProofs Proofs.JsonProofs Model.Json.
Open Scope Z_scope.

(* bodies, path variables and query parameters that do not parse: 400 (never 5xx) whenever the binding itself is valid *)
Theorem c17_bad_request_is_400 : forall sc bp params q body c,
  transcode sc bp params q body = Fail c ->
  (bp = [] \/ bp = s_star \/ traverse (length (split_dot bp)) sc O (split_dot bp) <> None) ->
  http_of_code c = 400.
Proof. exact bad_request_is_400. Qed.
Print Assumptions c17_bad_request_is_400.

(* any request path: a route, 404, or 400 for a malformed percent escape *)
Theorem c17_routing_errors_are_4xx : forall abort routes comps c,
  first_route abort routes comps = VL [VN c] -> http_of_code c = 404 \/ http_of_code c = 400.
Proof. exact routing_errors_are_4xx. Qed.
Print Assumptions c17_routing_errors_are_4xx.

(* JSON values of the wrong type for a field are errors, for every kind (C09) *)
Theorem c17_wrong_json_type_is_error : forall d k j v, unmarshal_scalar d k j = Ok v -> type_ok k j = true.
Proof. exact accept_type_ok. Qed.
Print Assumptions c17_wrong_json_type_is_error.

(* gRPC-Web: a frame announcing more than the limit is refused with ResourceExhausted, never allocated or mis-parsed (C08) *)
Theorem c17_oversize_frame_refused : forall flag n rest, max_len < n < 4294967296 ->
  recv1 (flag :: enc_be32 n ++ rest) = (RErr 8, rest).
Proof. exact oversize_rejected. Qed.
Print Assumptions c17_oversize_frame_refused.

(* gRPC-WebSocket: an empty or too short message is an InvalidArgument close, whatever came before (C08) *)
Theorem c17_short_ws_message_is_error : forall ps m, (m = [] \/ (2 <= length m <= 5)%nat) ->
  snd (ws_recv_all false (map (fun p => 0%N :: enc_frame 0 p) ps ++ [m])) = 3.
Proof. exact ws_malformed_is_error. Qed.
Print Assumptions c17_short_ws_message_is_error.
