(* C02 — every bridged call terminates promptly and releases its resources.  Statements only. *)
From GB Require Import Model.Forward Proofs.ForwardProofs.

(* cleanup: when Forward has returned, cancel() ran, both pumps have exited (wg.Wait passed) and a created stream was closed *)
Theorem c02_final_clean : forall sc s r, Reach sc s -> mp s = MRet r ->
  cancel_called s = true /\ i_alive (ip s) = false /\ o_alive (op s) = false /\ (created s = true -> (1 <= closed s)%nat).
Proof. exact final_clean. Qed.
Print Assumptions c02_final_clean.

(* progress: with context-aware adapters, once the context is done or either pump has reported (the target ended the call,
   a send/receive failed, the client half-closed...), some thread can move in every reachable state until the call returned *)
Theorem c02_progress : forall sc, in_aware sc = true /\ out_aware sc = true ->
  forall s, Reach sc s -> final s = false ->
  (ctx_done s = true \/ islot s <> None \/ oslot s <> None) -> exists l s', In (l, s') (next sc s).
Proof. exact no_deadlock_after_event. Qed.
Print Assumptions c02_progress.

(* bounded: every step strictly decreases a measure, so a run from a reachable state has at most mu steps *)
Theorem c02_variant : forall sc s l s', Struct sc s -> In (l, s') (next sc s) -> (mu sc s' < mu sc s)%nat.
Proof. exact step_decreases. Qed.
Print Assumptions c02_variant.

Theorem c02_runs_bounded : forall sc s n s', Reach sc s -> Run sc s n s' -> (n + mu sc s' <= mu sc s)%nat.
Proof. exact runs_bounded. Qed.
Print Assumptions c02_runs_bounded.

(* F1 (fixed in proxy.go): an incoming adapter that ignores the context lets an idle client block the return for ever *)
Theorem c02_idle_client_unaware_refuted : exists s,
  run_sched sc_idle_unaware (repeat 0%nat 8) init = Some s /\ mp s = MDWait (RErr 7) /\ next sc_idle_unaware s = [].
Proof. exact idle_client_unaware_stuck. Qed.
Print Assumptions c02_idle_client_unaware_refuted.
