(* C16 — targets can be added, removed and re-added cleanly.  Statements only. *)
From GB Require Import Model.Lifecycle Proofs.LifecycleProofs.
Open Scope Z_scope.

(* over ANY history of Adds (whose constructor may fail) and Removes: Add n with a working constructor succeeds
   iff n is not currently present *)
Theorem c16_addable_iff_absent : forall ops n, Forall router_op ops ->
  (snd (router_add n false (run_ops ops)) = 1 <-> ~ In n (l_targets (run_ops ops))).
Proof. exact addable_iff_absent. Qed.
Print Assumptions c16_addable_iff_absent.

(* in every reachable state (any mix of pool-level and router-level operations) a pool lookup is usable or absent *)
Theorem c16_get_usable_or_absent : forall ops n,
  (p_get n (l_pool (run_ops ops)) = 1 /\ exists c, p_load n (l_pool (run_ops ops)) = Some (Ready c)) \/
  (p_get n (l_pool (run_ops ops)) = 0 /\ p_load n (l_pool (run_ops ops)) = None).
Proof. exact get_usable_or_absent. Qed.
Print Assumptions c16_get_usable_or_absent.

(* also while the client of that name is under construction: Get says absent, New says already dialed *)
Theorem c16_reserved_invisible : forall n f s, p_load n (l_pool s) = None ->
  let '(_, (_, g, w)) := pool_new n f s in g = 0 /\ w = 1.
Proof. exact reserved_invisible. Qed.
Print Assumptions c16_reserved_invisible.

Theorem c16_no_leak_on_failed_add : forall n s k, p_load n (l_pool s) = None ->
  p_load k (l_pool (fst (pool_new n true s))) = p_load k (l_pool s) /\
  l_targets (fst (pool_new n true s)) = l_targets s /\ l_closed (fst (pool_new n true s)) = l_closed s.
Proof. exact failed_new_no_change. Qed.
Print Assumptions c16_no_leak_on_failed_add.

Theorem c16_remove_effects : forall s n c, In n (l_targets s) -> p_load n (l_pool s) = Some (Ready c) ->
  let s' := fst (router_remove n s) in
  ~ In n (l_targets s') /\ p_load n (l_pool s') = None /\ conn_stream c s' = 14 /\ snd (router_remove n s) = 1.
Proof. exact remove_effects. Qed.
Print Assumptions c16_remove_effects.

Theorem c16_targets_are_pool : forall ops, Forall router_op ops ->
  forall n, In n (l_targets (run_ops ops)) <-> exists c, p_load n (l_pool (run_ops ops)) = Some (Ready c).
Proof. exact router_targets_are_pool. Qed.
Print Assumptions c16_targets_are_pool.
