(* C09 — the field-level JSON codec agrees with canonical proto3 JSON and never alters values.
   Only statements here; proofs live in Proofs/JsonProofs.v.  The model (Model/Json.v) is tied to transcoding/json.go by
   the three-way differential harness/c09 (code, protojson as the canonical reference, model). *)
From GB Require Import Model.Json Proofs.JsonProofs.
Open Scope Z_scope.

(* encoding a value and decoding it again yields the same value; so does decoding what the canonical encoder emits
   (64-bit integers as strings).  All kinds; floats: the special values (finite floats rest on strconv, see DESIGN). *)
Theorem c09_scalar_roundtrip : forall d k v, wf_value k v ->
  (exists j, marshal_scalar k v = Some j /\ unmarshal_scalar d k j = Ok v) /\
  (exists j, pj_encode k v = Some j /\ unmarshal_scalar d k j = Ok v).
Proof. exact scalar_roundtrip. Qed.
Print Assumptions c09_scalar_roundtrip.

Theorem c09_list_roundtrip : forall d k l, Forall (wf_value k) l ->
  exists j, marshal_list k l = Some j /\ unmarshal_list d k j = Ok l.
Proof. exact list_roundtrip. Qed.
Print Assumptions c09_list_roundtrip.

(* maps with every key kind *)
Theorem c09_map_roundtrip : forall d kk vk l, Forall (fun e => wf_key kk (fst e) /\ wf_value vk (snd e)) l ->
  exists j, marshal_map kk vk l = Some j /\ unmarshal_map d kk vk j = Ok l.
Proof. exact map_roundtrip. Qed.
Print Assumptions c09_map_roundtrip.

(* bytes: base64 decode . encode = id on every byte string *)
Theorem c09_base64_roundtrip : forall s, all_bytes s -> b64_std (b64_encode s) = Some s.
Proof. exact b64_roundtrip. Qed.
Print Assumptions c09_base64_roundtrip.

(* nothing is coerced, truncated or wrapped: an accepted integer text denotes EXACTLY the stored integer (as a rational:
   mant * 10^exp = z) and that integer is in the field's range; hence any sound parser that also accepts stores the same *)
Theorem c09_int_accept_exact : forall d k j v, is_int_kind k = true -> unmarshal_scalar d k j = Ok v ->
  (j = JNull /\ v = FInt 0) \/
  exists s n z, num_text j = Some s /\ parse_number s = Some n /\ denotes n z /\ in_range k z = true /\ v = FInt z.
Proof. exact int_accept_exact. Qed.
Print Assumptions c09_int_accept_exact.

Theorem c09_denotes_unique : forall n z1 z2, denotes n z1 -> denotes n z2 -> z1 = z2.
Proof. exact denotes_unique. Qed.
Print Assumptions c09_denotes_unique.

(* numbers out of range or fractional for the field are rejected *)
Theorem c09_int_reject_out_of_range : forall d k s n z, is_int_kind k = true -> parse_number s = Some n -> denotes n z ->
  in_range k z = false -> unmarshal_scalar d k (JNum s) = Err /\ unmarshal_scalar d k (JStr s) = Err.
Proof. exact int_reject_out_of_range. Qed.
Print Assumptions c09_int_reject_out_of_range.

Theorem c09_int_reject_fractional : forall d k s n, is_int_kind k = true -> parse_number s = Some n -> (forall z, ~ denotes n z) ->
  unmarshal_scalar d k (JNum s) = Err /\ unmarshal_scalar d k (JStr s) = Err.
Proof. exact int_reject_fractional. Qed.
Print Assumptions c09_int_reject_fractional.

(* integer-valued exponent / fraction forms are accepted (what the canonical parser accepts) *)
Theorem c09_int_accept_complete : forall d k s n z, is_int_kind k = true -> parse_number s = Some n -> (nl_explen n <= 4)%nat ->
  denotes n z -> in_range k z = true ->
  unmarshal_scalar d k (JNum s) = Ok (FInt z) /\ unmarshal_scalar d k (JStr s) = Ok (FInt z).
Proof. exact int_accept_complete. Qed.
Print Assumptions c09_int_accept_complete.

(* values of the wrong JSON type are rejected, for every kind *)
Theorem c09_wrong_type_rejected : forall d k j v, unmarshal_scalar d k j = Ok v -> type_ok k j = true.
Proof. exact accept_type_ok. Qed.
Print Assumptions c09_wrong_type_rejected.

(* unknown enum names are rejected, or skipped when unknowns are discarded; only they are ever skipped, and a skipped
   element is never stored in a list *)
Theorem c09_unknown_enum_name : forall names s, lookup_name s names = None ->
  unmarshal_scalar false (KEnum names) (JStr s) = Err /\ unmarshal_scalar true (KEnum names) (JStr s) = Ok FSkip.
Proof. exact unknown_enum_name. Qed.
Print Assumptions c09_unknown_enum_name.

Theorem c09_skip_only_unknown_enum : forall d k j, unmarshal_scalar d k j = Ok FSkip ->
  d = true /\ exists names s, k = KEnum names /\ j = JStr s /\ lookup_name s names = None.
Proof. exact skip_only_unknown_enum. Qed.
Print Assumptions c09_skip_only_unknown_enum.

Theorem c09_list_never_stores_skip : forall d k j l, unmarshal_list d k j = Ok l -> ~ In FSkip l.
Proof. exact list_never_stores_skip. Qed.
Print Assumptions c09_list_never_stores_skip.

(* a finite number never becomes an infinity: accepted number texts are below the overflow threshold of the field *)
Theorem c09_float_number_finite : forall d k s v, (k = KFloat \/ k = KDouble) -> unmarshal_scalar d k (JNum s) = Ok v ->
  v = FFinite /\ exists n, parse_number s = Some n /\ mag_ge n (float_bound k) = false.
Proof. exact float_number_finite. Qed.
Print Assumptions c09_float_number_finite.

(* the integer conversion before the repairs (finding F9, fixed): 1.5 -> 0, 1e3 -> 0, 2^40 -> 0, -1 -> 2^32-1, 2^31 -> -2^31 *)
Theorem c09_old_int_refuted :
  unmarshal_int_old KInt32 (b [49;46;53]) = 0 /\
  unmarshal_int_old KInt32 (b [49;101;51]) = 0 /\
  unmarshal_int_old KInt32 (b [49;48;57;57;53;49;49;54;50;55;55;55;54]) = 0 /\
  unmarshal_int_old KUint32 (b [45;49]) = 4294967295 /\
  unmarshal_int_old KInt32 (b [50;49;52;55;52;56;51;54;52;56]) = -2147483648.
Proof. exact old_int_refuted. Qed.
Print Assumptions c09_old_int_refuted.

(* message-valued elements (part wkt): what a verdict "no failure" of the executable statement means *)
From GB Require Import Model.JsonRun Proofs.CheckerProofs.
Theorem c09_wkt_text_statement : forall input impl,
  as_Z (nthv 0 input) = 0 -> prop_c09_wkt input impl = None ->
  is_panic (nthv 0 impl) = false /\ (is_acc (nthv 0 impl) = true -> is_acc (nthv 1 impl) = true -> nthv 0 impl = nthv 1 impl).
Proof. exact c09_wkt_text_sound. Qed.
Print Assumptions c09_wkt_text_statement.

Theorem c09_wkt_value_statement : forall input impl,
  as_Z (nthv 0 input) <> 0 -> prop_c09_wkt input impl = None ->
  nthv 0 impl = nthv 2 impl /\ nthv 1 impl = nthv 2 impl.
Proof. exact c09_wkt_value_sound. Qed.
Print Assumptions c09_wkt_value_statement.
