(* C01 — forwarded calls deliver exactly the messages and final status exchanged.  Statements only.
   All theorems: for every script (RPC kind, client items, target items with causal guards, failures, context event)
   and every state reachable under ANY schedule of Main / the two pumps / the context. *)
From GB Require Import Model.Forward Proofs.ForwardProofs.

Theorem c01_requests_prefix : forall sc s, Reach sc s -> exists k, sent_out s = firstn k (in_msgs (in_recv sc)).
Proof. exact requests_prefix. Qed.
Print Assumptions c01_requests_prefix.

Theorem c01_responses_prefix : forall sc s, Reach sc s -> exists k, sent_in s = firstn k (out_msgs (out_recv sc)).
Proof. exact responses_prefix. Qed.
Print Assumptions c01_responses_prefix.

Theorem c01_unary_request_bound : forall sc s, Reach sc s -> client_streaming sc = false -> (length (sent_out s) <= 1)%nat.
Proof. exact unary_request_bound. Qed.
Print Assumptions c01_unary_request_bound.

Theorem c01_unary_response_bound : forall sc s, Reach sc s -> server_streaming sc = false -> (length (sent_in s) <= 1)%nat.
Proof. exact unary_response_bound. Qed.
Print Assumptions c01_unary_response_bound.

(* the full data invariant (what is in flight is exactly the next message; unary paths consume what they should) *)
Theorem c01_data_invariant : forall sc s, Reach sc s -> Data sc s.
Proof. exact data_inv. Qed.
Print Assumptions c01_data_invariant.

(* ---- nothing is dropped: fault-free calls (no context event, no adapter failure, a conformant target whose first
   non-message item is (tn, thc, tt): it waits for tn requests and, if thc, for the half-close) ---- *)
From GB Require Import Proofs.ForwardCompleteProofs.

(* under ANY schedule, a returned fault-free call reports exactly the target's final status, has delivered exactly ALL of
   the target's response messages (in order, by c01_responses_prefix), and has satisfied what the final item waited for *)
Theorem c01_fault_free_complete : forall sc tn thc tt, FF sc tn thc tt -> forall s r, Reach sc s -> mp s = MRet r ->
  r = exp_res tt /\ sent_in s = out_msgs (out_recv sc) /\ (tn <= length (sent_out s))%nat /\ (thc = true -> (0 < close_send s)%nat).
Proof. exact fault_free_complete. Qed.
Print Assumptions c01_fault_free_complete.

(* ... so a target that ends the call only after the whole request stream has received exactly the client's messages *)
Theorem c01_fault_free_requests_complete : forall sc tn thc tt, FF sc tn thc tt -> forall s r, Reach sc s -> mp s = MRet r ->
  tn = length (in_msgs (in_recv sc)) -> sent_out s = in_msgs (in_recv sc).
Proof. exact fault_free_requests_complete. Qed.
Print Assumptions c01_fault_free_requests_complete.

(* byte identity (part bytes): the executable statement evaluated on every observed call says exactly this *)
From GB Require Import Model.ForwardRun Proofs.CheckerProofs.
Theorem c01_bytes_statement_exact : forall input impl,
  prop_c01_bytes input impl = None <->
  nthv 0 impl = nthv 1 input /\ nthv 1 impl = nthv 2 input /\ nthv 2 impl = nthv 3 input.
Proof. exact c01_bytes_exact. Qed.
Print Assumptions c01_bytes_statement_exact.
