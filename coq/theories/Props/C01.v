(* C01 — forwarded calls deliver exactly the messages and final status exchanged.  Statements only.
   All theorems: for every script (RPC kind, client items, target items with causal guards, failures, context event)
   and every state reachable under ANY schedule of Main / the two pumps / the context. *)
From GB Require Import Model.Forward Proofs.ForwardProofs.

Theorem c01_requests_prefix : forall sc s, Reach sc s -> exists k, sent_out s = firstn k (in_msgs (in_recv sc)).
Proof. exact requests_prefix. Qed.
Print Assumptions c01_requests_prefix.

Theorem c01_responses_prefix : forall sc s, Reach sc s -> exists k, sent_in s = firstn k (out_msgs (out_recv sc)).
Proof. exact responses_prefix. Qed.
Print Assumptions c01_responses_prefix.

Theorem c01_unary_request_bound : forall sc s, Reach sc s -> client_streaming sc = false -> (length (sent_out s) <= 1)%nat.
Proof. exact unary_request_bound. Qed.
Print Assumptions c01_unary_request_bound.

Theorem c01_unary_response_bound : forall sc s, Reach sc s -> server_streaming sc = false -> (length (sent_in s) <= 1)%nat.
Proof. exact unary_response_bound. Qed.
Print Assumptions c01_unary_response_bound.

(* the full data invariant (what is in flight is exactly the next message; unary paths consume what they should) *)
Theorem c01_data_invariant : forall sc s, Reach sc s -> Data sc s.
Proof. exact data_inv. Qed.
Print Assumptions c01_data_invariant.
