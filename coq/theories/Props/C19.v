(* C19 — requests reach the right protocol handler by header semantics; WebSocket query metadata. Statements only. *)
From GB Require Import Model.MDFilter Model.Dispatch Proofs.DispatchProofs.
Open Scope N_scope.

(* the dispatcher is exactly the RFC 7230 token-list reading of the headers, for every header multimap *)
Theorem c19_dispatch : forall hs h, dispatch hs = h <-> dispatch_spec hs h.
Proof. exact dispatch_is_spec. Qed.
Print Assumptions c19_dispatch.

(* the code before the repair (whole-value comparison) violated it: finding F19, fixed *)
Theorem c19_dispatch_old_refuted : exists hs h, dispatch_spec hs h /\ dispatch_old hs <> h.
Proof. exact dispatch_old_refuted. Qed.
Print Assumptions c19_dispatch_old_refuted.

(* every metadata value produced comes from a param[key]=value entry with a valid, non-empty key and a printable value *)
Theorem c19_metadata_entries : forall param q k v,
  In v (md_lookup k (query_md param q)) -> from_query param q k v.
Proof. exact query_md_entries. Qed.
Print Assumptions c19_metadata_entries.

(* the parameters left for message binding are the original ones minus ALL param[...] keys, valid or not *)
Theorem c19_metadata_removed : forall param q kv,
  In kv (query_rest param q) <-> In kv q /\ is_md_entry param (fst kv) = false.
Proof. exact query_rest_exact. Qed.
Print Assumptions c19_metadata_removed.

Theorem c19_key_class : forall c, valid_md_key_char c = true <->
  (48 <= c <= 57 \/ 97 <= c <= 122 \/ 65 <= c <= 90 \/ c = 95 \/ c = 45 \/ c = 46).
Proof. exact key_char_class. Qed.
Print Assumptions c19_key_class.

Theorem c19_value_class : forall v, valid_md_value v = true <-> Forall (fun c => 32 <= c <= 126) v.
Proof. exact value_char_class. Qed.
Print Assumptions c19_value_class.
