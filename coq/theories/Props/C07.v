(* C07 — metadata crosses the bridge only when allow-listed.  Statements only. *)
From GB Require Import Model.MDFilter Proofs.MDFilterProofs.

(* every key the target sees is a renamed allow-list entry that the incoming metadata actually carries,
   with exactly that entry's values (base64-decoded iff the outgoing key ends in -bin) *)
Theorem c07_request_allowlisted : forall prefix m allow k',
  md_lookup k' (filter_request allow prefix m) <> [] ->
  exists k, In k allow /\ md_get k m <> [] /\ k' = lower (rename_req prefix k) /\
            md_lookup k' (filter_request allow prefix m) = xform_req (rename_req prefix k) (md_get k m).
Proof. intros prefix m allow. exact (proj2 (filter_request_allowlisted prefix m allow)). Qed.
Print Assumptions c07_request_allowlisted.

(* after the forwarder consumed the timeout: same statement on the metadata handed to the outgoing stream *)
Theorem c07_outgoing_allowlisted : forall allow prefix m k',
  In k' (map fst (outgoing_md allow prefix m)) ->
  exists k, In k allow /\ md_get k m <> [] /\ k' = lower (rename_req prefix k).
Proof. exact outgoing_allowlisted. Qed.
Print Assumptions c07_outgoing_allowlisted.

Theorem c07_default_deny_request : forall prefix m, outgoing_md [] prefix m = [].
Proof. exact default_deny_request. Qed.
Print Assumptions c07_default_deny_request.

Theorem c07_default_deny_response : forall prefix m, filter_response [] prefix m = [].
Proof. exact default_deny_response. Qed.
Print Assumptions c07_default_deny_response.

Theorem c07_timeout_consumed : forall allow prefix m,
  ~ In (lower timeout_key) (map fst (outgoing_md allow prefix m)).
Proof. exact timeout_never_forwarded. Qed.
Print Assumptions c07_timeout_consumed.

(* response headers and trailers (same function, different allow-list) *)
Theorem c07_response_allowlisted : forall prefix m allow k',
  md_lookup k' (filter_response allow prefix m) <> [] ->
  exists k, In k allow /\ k' = lower (prefix ++ k) /\ md_lookup k' (filter_response allow prefix m) = md_get k m.
Proof. intros prefix m allow. exact (proj2 (filter_response_allowlisted prefix m allow)). Qed.
Print Assumptions c07_response_allowlisted.

(* every entry point: the incoming metadata only contains keys the client supplied (headers; for the
   WebSocket bridge also _metadata[...] query entries) *)
Theorem c07_every_entry_point : forall e hs qs k,
  In k (map fst (entry_md e hs qs)) -> supplied_key hs k \/ (e = EWS /\ supplied_key qs k).
Proof. exact entry_md_provenance. Qed.
Print Assumptions c07_every_entry_point.
