(* C18 — concurrent use is free of data races.
   A data race is a property of Go executions (memory model, grpc-go and gws internals); no executable Gallina model can
   exhibit one.  What is logic - and is proved here over ALL thread sets and interleavings of the routers' concurrent
   protocol (Model/RouteConc.v) - is the mutual exclusion that the race freedom of the routing tables rests on.  The
   property itself is monitored on the real code by the race-detector workload of harness/c18 (level: partial). *)
From GB Require Import Model.RouteConc Proofs.RouteConcProofs Proofs.SyncProofs.

(* the router's table mutex: in every reachable state at most one thread is between the two phases of an update, and the
   mutex is held exactly then *)
Theorem c18_table_mutex_exclusive : forall s0 s, mutex_inv s0 -> CReach s0 s -> mutex_inv s.
Proof. exact table_mutex_exclusive. Qed.
Print Assumptions c18_table_mutex_exclusive.

Theorem c18_at_most_one_in_critical_section : forall s0 s, mutex_inv s0 -> CReach s0 s -> (cs_count (threads s) <= 1)%nat.
Proof. exact at_most_one_in_critical_section. Qed.
Print Assumptions c18_at_most_one_in_critical_section.

(* while a thread is inside, every other table mutation (update or removal) is disabled *)
Theorem c18_mutation_excluded : forall s0 s w n d, mutex_inv s0 -> CReach s0 s -> (1 <= cs_count (threads s))%nat ->
  thr_step (TUpd w n d 1) s = None.
Proof. exact mutation_excluded. Qed.
Print Assumptions c18_mutation_excluded.

Theorem c18_removal_excluded : forall s0 s w n, mutex_inv s0 -> CReach s0 s -> (1 <= cs_count (threads s))%nat ->
  thr_step (TClose w n 1) s = None.
Proof. exact removal_excluded. Qed.
Print Assumptions c18_removal_excluded.

(* the per-watcher mutex (pattern router): at most one holder in every reachable state (part of the C11 invariant) *)
Theorem c18_watcher_mutex_exclusive : forall name s0 s, Inv name s0 -> CReach s0 s -> forall w, (nh (threads s) w <= 1)%nat.
Proof. intros name s0 s I R. exact (i_le name s (inv_reach name s0 s I R)). Qed.
Print Assumptions c18_watcher_mutex_exclusive.

(* initial configurations satisfy the invariant *)
Theorem c18_initial_states : forall k mx live0 watched0 ts, cs_count ts = 0%nat -> mutex_inv (cinit k mx live0 watched0 ts).
Proof. exact init_mutex_inv. Qed.
Print Assumptions c18_initial_states.
