(* C20 — path-template parsing accepts exactly the http.proto template language.
   Statements; proofs in Proofs/TemplateProofs.v.  The grammar is given as well-formed abstract templates (wf_segs, wf_template
   in Model/Template.v / TemplateRun.v) and their rendering; the checks decide, for every generated string, "accepted =>
   its text is the rendering of the accepted structure" and "rendering of a well-formed template => accepted with that
   structure" against both parsers, and soundness of the trie. *)
From GB Require Import Model.Template Model.TemplateRun Proofs.TemplateProofs.
Open Scope N_scope.

(* the structure a route template was compiled from can be read back from its opcodes (what the check does with the real
   compiler's output): flat segments *)
Theorem c20_decompile_flat : forall inner rest stack, forallb flat inner = true ->
  decompile (flat_map compile_seg inner ++ rest) stack = decompile rest (rev inner ++ stack).
Proof. exact decompile_flat. Qed.
Print Assumptions c20_decompile_flat.

(* an accepted template matches exactly like its structure says (shared with C03) *)
Theorem c20_compile_correct : forall t tl comps, forallb seg_ok (t_segs t) = true ->
  run_ops (compile t) tl comps [] [] = match_segs (t_segs t) tl comps [].
Proof. exact compile_correct. Qed.
Print Assumptions c20_compile_correct.
