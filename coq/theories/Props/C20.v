(* C20 — path-template parsing accepts exactly the http.proto template language.
   Statements; proofs in Proofs/TemplateProofs.v.  The grammar is given as well-formed abstract templates (wf_segs, wf_template
   in Model/Template.v / TemplateRun.v) and their rendering; the checks decide, for every generated string, "accepted =>
   its text is the rendering of the accepted structure" and "rendering of a well-formed template => accepted with that
   structure" against both parsers, and soundness of the trie. *)
From GB Require Import Model.Template Model.TemplateRun Proofs.TemplateProofs Proofs.TemplateParseProofs.
Open Scope N_scope.

(* every template of the language, written out, is accepted by the routing parser, which gives it exactly the structure, the
   variable field paths and the verb it was written from: tokenizer (three states), verb extraction and recursive descent,
   for ALL well-formed templates (literals of path characters other than the wildcards, identifiers, one or more flat inner
   segments per variable, any verb after a variable, a colon-free verb otherwise) *)
Theorem c20_parse_render : forall t, good_template t = true -> gw_parse false (render t) = Some t.
Proof. exact parse_render. Qed.
Print Assumptions c20_parse_render.

(* hence the text determines the structure: two different templates never have the same text *)
Theorem c20_render_injective : forall t1 t2, good_template t1 = true -> good_template t2 = true -> render t1 = render t2 -> t1 = t2.
Proof.
  intros t1 t2 G1 G2 E. pose proof (parse_render t1 G1) as P1. pose proof (parse_render t2 G2) as P2. rewrite E in P1. congruence.
Qed.
Print Assumptions c20_render_injective.

(* at the token level: the parser returns the segments whose tokens it is given, whatever follows them *)
Theorem c20_segments_parse : forall segs f rest, forallb good_seg segs = true -> segs <> [] -> not_tok c_slash rest ->
  (length segs + fold_right Nat.max O (map inner_len segs) <= f)%nat ->
  gw_segments false f (toks_segs segs ++ rest) = Some (segs, rest).
Proof. exact segments_parse. Qed.
Print Assumptions c20_segments_parse.

(* the tokenizer with the verb cut off the last token *)
Theorem c20_tokenize_text : forall segs verb, segs <> [] -> forallb good_seg segs = true -> is_literal verb = true -> verb_ok segs verb = true ->
  gw_tokenize (text_segs segs ++ vsuffix verb) = (toks_segs segs ++ [eof], verb).
Proof. exact tokenize_text. Qed.
Print Assumptions c20_tokenize_text.

(* the structure a route template was compiled from can be read back from its opcodes (what the check does with the real
   compiler's output): flat segments *)
Theorem c20_decompile_flat : forall inner rest stack, forallb flat inner = true ->
  decompile (flat_map compile_seg inner ++ rest) stack = decompile rest (rev inner ++ stack).
Proof. exact decompile_flat. Qed.
Print Assumptions c20_decompile_flat.

(* an accepted template matches exactly like its structure says (shared with C03) *)
Theorem c20_compile_correct : forall t tl comps, forallb seg_ok (t_segs t) = true ->
  run_ops (compile t) tl comps [] [] = match_segs (t_segs t) tl comps [].
Proof. exact compile_correct. Qed.
Print Assumptions c20_compile_correct.

(* ---- the converse: the routing parser accepts ONLY strings of the template language ---- *)
From GB Require Import Proofs.TemplateSoundProofs.

(* whatever text the routing parser accepts has a derivation in the grammar (Rtemplate: "/" Segments [":" LITERAL], segments
   "*" | "**" | non-empty LITERAL of path characters with well-formed escapes | "{" ident{"." ident} ["=" Segments] "}"),
   and the structure, field paths and verb the parser returns are exactly those of that derivation: no empty segment, no
   stray brace, no malformed escape, no NUL, no ill-formed field path is ever accepted *)
Theorem c20_routing_parser_sound : forall s t, gw_parse false s = Some t -> Rtemplate t s.
Proof. exact gw_parse_sound. Qed.
Print Assumptions c20_routing_parser_sound.

(* the tokenizer only cuts: its tokens concatenate to the input and none is empty *)
Theorem c20_tokens_concat : forall s st cur, concat (scan st s cur) = rev cur ++ s.
Proof. exact scan_concat. Qed.
Print Assumptions c20_tokens_concat.

(* ---- the lookup structure of the strict parser (internal/httprule/trie.go) ---- *)
From GB Require Import Model.Trie Proofs.TrieProofs.

(* whatever templates were added, in whatever order (duplicates and overlaps included), and whatever path is looked up:
   a template the trie returns matches the path - its flattened segments match the path's components one by one (a literal
   equals its component, `*` takes one, a final `**` takes the rest) and its verb, if any, is what follows the last
   component.  By induction over the Adds with the node invariant "everything stored below a node has exactly the edges
   that lead to it", and over the components for the lookup. *)
Theorem c20_trie_sound : forall ts p i t,
  forallb trie_template_ok ts = true ->
  In i (find false (build ts) (c_slash :: p)) -> nth_error ts i = Some t ->
  template_matches t (c_slash :: p) = true.
Proof. exact trie_find_sound. Qed.
Print Assumptions c20_trie_sound.

(* the lookup before the repair (finding F30, met while proving the theorem above): after a LITERAL had matched the whole
   last component it still tried the verbs stored at that node against the end of the path: with only "/x:v:v" added
   (literal "x:v", verb "v") the path "/x:v" was answered with that template *)
Theorem c20_trie_old_unsound : exists ts p i t,
  forallb trie_template_ok ts = true /\ In i (find true (build ts) p) /\ nth_error ts i = Some t /\ template_matches t p = false.
Proof. exact trie_old_unsound. Qed.
Print Assumptions c20_trie_old_unsound.

(* ---- the strict parser (internal/httprule/parse.go, Model/Strict.v) ---- *)
From GB Require Import Model.Strict Proofs.TemplateSoundProofs Proofs.StrictProofs.

(* everything the strict parser accepts is a string of the strict template language, with exactly the structure it returns:
   the text is "/" + the segments' texts joined by "/" (+ ":" verb), every segment text derives its segment (Rseg: "*",
   "**", a non-empty literal of path characters, "{" field path [ "=" segments ] "}" with "{p}" short for "{p=*}"),
   variables do NOT nest and hold only "*", literals and a final "**" (st_seg_ok), a multi segment is the last one
   (multi_only_last), literals are neither "*" nor "**", the verb is a literal, and behind anything but a variable it is
   what follows the LAST colon (no colon inside it; without a verb the last literal has no colon at all).  The proof
   carries the tokenizer's state through the recursive descent ([shaped]): that '{' inside a variable cannot open another
   one is a property of tokenize, exactly as the comment in parse.go claims. *)
Theorem c20_strict_sound : forall s t, st_parse s = Some t -> StrictLang t s.
Proof. exact st_parse_sound. Qed.
Print Assumptions c20_strict_sound.

From GB Require Import Proofs.StrictCompleteProofs.
(* conversely every string of the strict language is accepted with exactly the structure it derives from - both spellings
   of a variable, every verb form, the root with and without a verb: the strict parser accepts EXACTLY the language *)
Theorem c20_strict_exact : forall s t, st_parse s = Some t <-> StrictLang t s.
Proof. exact st_parse_exact. Qed.
Print Assumptions c20_strict_exact.

(* the model's recursion fuel never decides: with any larger fuel the descent gives the same result, so a None of the
   model is a refusal of the (unboundedly recursive) parser *)
Theorem c20_strict_fuel : forall f1 f2 toks, (length toks < f1)%nat -> (length toks < f2)%nat -> st_segments f1 toks = st_segments f2 toks.
Proof. exact fuel_irrelevant. Qed.
Print Assumptions c20_strict_fuel.

(* ---- regenerated from the source on every run (tools/extract_tables -> Gen/Extracted.v) ---- *)
From GB Require Import Gen.Extracted Proofs.ExtractedTemplateProofs.
(* the tokenizers' delimiter sets per state (tnext in tokenize.go; the IndexAny arguments in gwbased/parse.go), the path
   character marks of both literal checkers and the end marker, as the code has them NOW, are what the model uses *)
Theorem c20_source_tables : 
  (forall st c, (st < 3)%nat -> is_delim st c = existsb (N.eqb c) (nth st strict_delims [])) /\
  (forall st c, (st < 3)%nat -> is_delim st c = existsb (N.eqb c) (nth st gw_delims [])) /\
  (forall c, is_pchar_plain c = is_alpha c || is_digit c || existsb (N.eqb c) strict_pchar_marks) /\
  (forall c, is_pchar_plain c = is_alpha c || is_digit c || existsb (N.eqb c) gw_pchar_marks) /\
  eof = strict_eof /\ eof = gw_eof.
Proof. exact (conj strict_delims_model (conj gw_delims_model (conj strict_pchar_model (conj gw_pchar_model eof_model)))). Qed.
Print Assumptions c20_source_tables.

(* the trie only ever holds templates the strict parser returned: for EVERY list of template texts that parse, whatever the
   order of the Adds and whatever path is looked up, a template the trie returns matches the path - no hypothesis left *)
From GB Require Import Proofs.TrieParsedProofs.
Theorem c20_trie_sound_parsed : forall texts ts p i t,
  Forall2 (fun s t => st_parse s = Some t) texts ts ->
  In i (Model.Trie.find false (Model.Trie.build ts) (c_slash :: p)) -> nth_error ts i = Some t -> template_matches t (c_slash :: p) = true.
Proof. exact trie_sound_parsed. Qed.
Print Assumptions c20_trie_sound_parsed.
