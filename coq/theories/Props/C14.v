(* C14 — gRPC-style paths route by service name to the owning target.  Statements only. *)
From GB Require Import Model.Routers Model.SvcRoute Proofs.SvcRouteProofs.
Open Scope Z_scope.

(* "/svc/method" and "svc/method" both parse to (svc, method) for EVERY method string — verbatim, further slashes
   and escapes included *)
Theorem c14_parse : forall svc m, ~ In 47%N svc ->
  parse_rpc_name (47%N :: svc ++ 47%N :: m) = Some (svc, m) /\
  (svc <> [] -> parse_rpc_name (svc ++ 47%N :: m) = Some (svc, m)).
Proof. exact parse_law. Qed.
Print Assumptions c14_parse.

(* nothing else is accepted: an accepted name IS service + '/' + method with a slash-free service *)
Theorem c14_parse_sound : forall name svc m, parse_rpc_name name = Some (svc, m) ->
  (name = 47%N :: svc ++ 47%N :: m \/ name = svc ++ 47%N :: m) /\ ~ In 47%N svc.
Proof. exact parse_sound. Qed.
Print Assumptions c14_parse_sound.

(* malformed names (no '/' after the optional leading one) are rejected *)
Theorem c14_parse_rejects : forall name, ~ In 47%N (strip_slash name) -> parse_rpc_name name = None.
Proof. exact parse_rejects. Qed.
Print Assumptions c14_parse_rejects.

(* a known service routes to the table's owner, with the RPC name "/svc/method" handed on verbatim,
   for gRPC, gRPC-Web and HTTP POST alike *)
Theorem c14_route_found : forall k http s svc m r,
  ~ In 47%N svc -> (k = KHttp -> http = s_post) -> probe_grpc s svc = Some r ->
  route_name k http s (full_name svc m) = VL [VN 0; VS (sr_target r); VS (obs_svc k svc); VS (full_name svc m)].
Proof. exact route_found. Qed.
Print Assumptions c14_route_found.

(* unknown services: Unimplemented (gRPC forms) / NotFound (HTTP form); non-POST: 405 *)
Theorem c14_route_unknown : forall k http s svc m,
  ~ In 47%N svc -> (k = KHttp -> http = s_post) -> probe_grpc s svc = None ->
  route_name k http s (full_name svc m) = VL [VN (match k with KHttp => 5 | _ => 12 end)].
Proof. exact route_unknown. Qed.
Print Assumptions c14_route_unknown.

Theorem c14_route_non_post : forall s name http, bytes_eqb http s_post = false ->
  route_name KHttp http s name = VL [VN 12; VN 405].
Proof. exact route_non_post. Qed.
Print Assumptions c14_route_non_post.

(* ---- ownership over histories (routing.ServiceRouter) ---- *)
From GB Require Import Proofs.RoutersProofs Proofs.SvcTableProofs.

(* the earlier claimant keeps the service: after ANY history, no operation of ANOTHER target (its updates - whatever
   they list - or its removal) changes the route of a service *)
Theorem c14_earlier_claimant_keeps : forall valid ops o svc r, probe_grpc (run_ops valid ops) svc = Some r ->
  ~ touches o (sr_target r) -> probe_grpc (fst (step valid (run_ops valid ops) o)) svc = Some r.
Proof. exact earlier_claimant_keeps. Qed.
Print Assumptions c14_earlier_claimant_keeps.

(* the owner keeps it across its own updates as long as it lists the service; the route then carries the new description *)
Theorem c14_owner_relists : forall valid ops n d svc r, probe_grpc (run_ops valid ops) svc = Some r -> sr_target r = n ->
  lists_svc d svc = true -> snd (step valid (run_ops valid ops) (OUpdate n d)) = 1 ->
  exists r' s, probe_grpc (fst (step valid (run_ops valid ops) (OUpdate n d))) svc = Some r' /\
               sr_target r' = n /\ sr_desc r' = d_id d /\ nth_error (d_services d) (sr_idx r') = Some s /\ s_name s = svc.
Proof. exact owner_relists. Qed.
Print Assumptions c14_owner_relists.
