(* C14 — gRPC-style paths route by service name to the owning target.  Statements only. *)
From GB Require Import Model.Routers Model.SvcRoute Proofs.SvcRouteProofs.
Open Scope Z_scope.

(* "/svc/method" and "svc/method" both parse to (svc, method) for EVERY method string — verbatim, further slashes
   and escapes included *)
Theorem c14_parse : forall svc m, ~ In 47%N svc ->
  parse_rpc_name (47%N :: svc ++ 47%N :: m) = Some (svc, m) /\
  (svc <> [] -> parse_rpc_name (svc ++ 47%N :: m) = Some (svc, m)).
Proof. exact parse_law. Qed.
Print Assumptions c14_parse.

(* nothing else is accepted: an accepted name IS service + '/' + method with a slash-free service *)
Theorem c14_parse_sound : forall name svc m, parse_rpc_name name = Some (svc, m) ->
  (name = 47%N :: svc ++ 47%N :: m \/ name = svc ++ 47%N :: m) /\ ~ In 47%N svc.
Proof. exact parse_sound. Qed.
Print Assumptions c14_parse_sound.

(* malformed names (no '/' after the optional leading one) are rejected *)
Theorem c14_parse_rejects : forall name, ~ In 47%N (strip_slash name) -> parse_rpc_name name = None.
Proof. exact parse_rejects. Qed.
Print Assumptions c14_parse_rejects.

(* a known service routes to the table's owner, with the RPC name "/svc/method" handed on verbatim,
   for gRPC, gRPC-Web and HTTP POST alike *)
Theorem c14_route_found : forall k http s svc m r,
  ~ In 47%N svc -> (k = KHttp -> http = s_post) -> probe_grpc s svc = Some r ->
  route_name k http s (full_name svc m) = VL [VN 0; VS (sr_target r); VS (obs_svc k svc); VS (full_name svc m)].
Proof. exact route_found. Qed.
Print Assumptions c14_route_found.

(* unknown services: Unimplemented (gRPC forms) / NotFound (HTTP form); non-POST: 405 *)
Theorem c14_route_unknown : forall k http s svc m,
  ~ In 47%N svc -> (k = KHttp -> http = s_post) -> probe_grpc s svc = None ->
  route_name k http s (full_name svc m) = VL [VN (match k with KHttp => 5 | _ => 12 end)].
Proof. exact route_unknown. Qed.
Print Assumptions c14_route_unknown.

Theorem c14_route_non_post : forall s name http, bytes_eqb http s_post = false ->
  route_name KHttp http s name = VL [VN 12; VN 405].
Proof. exact route_non_post. Qed.
Print Assumptions c14_route_non_post.
