(* C13 — streamed responses are framed one message per record in the transport's format.  Statements only. *)
From GB Require Import Model.StreamFrame Proofs.StreamFrameProofs.

(* NDJSON: any number of LF-free payloads, any contents otherwise: the byte stream splits into exactly those records *)
Theorem c13_ndjson_records : forall js, forallb no_lf js = true -> split_lines (concat (map enc_line js)) = (js, []).
Proof. exact ndjson_records. Qed.
Print Assumptions c13_ndjson_records.

(* SSE: one data: event per message *)
Theorem c13_sse_records : forall js, forallb no_lf js = true -> split_events (concat (map enc_event js)) = Some js.
Proof. exact sse_records. Qed.
Print Assumptions c13_sse_records.

(* why the JSON of a message must be a single line (F15, fixed: list/map fields were emitted over several lines) *)
Theorem c13_lf_breaks_framing : exists j, split_lines (enc_line j) <> ([j], []).
Proof. exact ndjson_lf_breaks. Qed.
Print Assumptions c13_lf_breaks_framing.

(* WebSocket requests: each text frame is one request message, in order (client-streaming) ... *)
Theorem c13_ws_one_to_one : forall ps, ws_requests true true (map (fun p => (true, p)) ps) = WsOk ps.
Proof. exact ws_one_to_one. Qed.
Print Assumptions c13_ws_one_to_one.

(* ... only the first for other methods ... *)
Theorem c13_ws_only_first : forall p rest, ws_requests false true ((true, p) :: rest) = WsOk [p].
Proof. exact ws_only_first. Qed.
Print Assumptions c13_ws_only_first.

(* ... and a frame of the wrong type is refused, after the frames before it were delivered *)
Theorem c13_ws_wrong_type_refused : forall ps p rest,
  ws_requests true true (map (fun p => (true, p)) ps ++ (false, p) :: rest) = WsWrongType ps.
Proof. exact ws_wrong_type_refused. Qed.
Print Assumptions c13_ws_wrong_type_refused.

(* close codes, regenerated from websocketError's source: 1000 clean end, 1003 wrong type, 1001 other errors *)
Theorem c13_ws_close_codes : Extracted.ws_close_codes = [1000; 1001; 1003]%Z.
Proof. exact ws_close_codes_canonical. Qed.
Print Assumptions c13_ws_close_codes.

Theorem c13_ws_close_spec : forall outcome,
  ws_close 0 false = 1000%Z /\ ws_close outcome true = 1003%Z /\ (outcome <> 0%Z -> ws_close outcome false = 1001%Z).
Proof. exact ws_close_spec. Qed.
Print Assumptions c13_ws_close_spec.

(* the reason of the close frame (after the repair F32): whatever the status message, at most 123 bytes, a prefix of
   "code <Name>: <message>", and the cut never falls inside a multi-byte character (what follows the cut does not begin
   with a continuation byte) - so a valid UTF-8 reason stays valid and the client can read the code *)
Theorem c13_close_reason_cut : forall s,
  (length (truncate_reason s) <= max_reason)%nat /\
  (exists rest, s = truncate_reason s ++ rest /\
     (rest = [] \/ truncate_reason s = [] \/ is_cont (hd 0%N rest) = false)).
Proof. exact truncate_reason_spec. Qed.
Print Assumptions c13_close_reason_cut.

Theorem c13_close_reason_limit : max_reason = Extracted.ws_max_reason.
Proof. exact max_reason_source. Qed.
Print Assumptions c13_close_reason_limit.
