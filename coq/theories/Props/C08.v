(* C08 — gRPC-Web framing is lossless and always ends with exactly one status trailer.  Statements only. *)
From GB Require Import Model.GrpcWeb Proofs.GrpcWebProofs.
Open Scope Z_scope.

(* every list of request payloads within the limit (empty ones included), under EVERY chunking of the body,
   is delivered intact and in order, and the stream then ends cleanly *)
Theorem c08_frames_roundtrip : forall ps chunks, Forall frame_ok ps ->
  concat chunks = concat (map (enc_frame 0) ps) -> recv_chunks chunks = (ps, 0).
Proof. exact frames_roundtrip. Qed.
Print Assumptions c08_frames_roundtrip.

Theorem c08_chunking_irrelevant : forall c1 c2, concat c1 = concat c2 -> recv_chunks c1 = recv_chunks c2.
Proof. exact chunking_irrelevant. Qed.
Print Assumptions c08_chunking_irrelevant.

(* oversize frames are rejected with an error ... *)
Theorem c08_oversize_rejected : forall flag n rest, max_len < n < 4294967296 ->
  recv1 (flag :: enc_be32 n ++ rest) = (RErr 8, rest).
Proof. exact oversize_rejected. Qed.
Print Assumptions c08_oversize_rejected.

(* ... and never truncated: a delivered message is always a whole declared frame within the limit *)
Theorem c08_never_truncated : forall s p rest, recv1 s = (RMsg p, rest) ->
  s = firstn 5 s ++ p ++ rest /\ be32 (firstn 4 (skipn 1 s)) = zlen p /\ zlen p <= max_len.
Proof. exact delivered_is_whole_frame. Qed.
Print Assumptions c08_never_truncated.

(* the pre-repair reader (min(length, limit)) truncated: finding F7, fixed *)
Theorem c08_old_truncates : exists s p rest,
  recv1_old_with 2 s = (RMsg p, rest) /\ zlen p < be32 (firstn 4 (skipn 1 s)).
Proof. exact recv_old_truncates. Qed.
Print Assumptions c08_old_truncates.

(* grpc-websockets: every data message after the header message, the empty one included, once and in order; then EOF *)
Theorem c08_ws_delivery : forall ps,
  ws_recv_all false (map (fun p => 0%N :: enc_frame 0 p) ps ++ [[1%N]]) = (ps, 0).
Proof. exact ws_delivery. Qed.
Print Assumptions c08_ws_delivery.

Theorem c08_ws_malformed_is_error : forall ps m, (m = [] \/ (2 <= length m <= 5)%nat) ->
  snd (ws_recv_all false (map (fun p => 0%N :: enc_frame 0 p) ps ++ [m])) = 3.
Proof. exact ws_malformed_is_error. Qed.
Print Assumptions c08_ws_malformed_is_error.

(* the response: data frames, then exactly one trailer frame, in final position; decodable frame by frame *)
Theorem c08_response_shape : forall msgs tb fuel,
  Forall (fun m => zlen m < 4294967296) msgs -> zlen tb < 4294967296 -> (S (length msgs) < fuel)%nat ->
  parse_frames fuel (resp_body msgs tb) = (map (fun m => (0%N, m)) msgs ++ [(128%N, tb)], []).
Proof. exact response_shape. Qed.
Print Assumptions c08_response_shape.

(* grpc-message: decoding the percent-encoded text gives back EVERY byte string; the text is printable ASCII *)
Theorem c08_status_roundtrip : forall m, Forall (fun c => (c < 256)%N) m -> pct_dec (path_escape m) = m.
Proof. exact pct_roundtrip. Qed.
Print Assumptions c08_status_roundtrip.

Theorem c08_status_ascii : forall m, Forall (fun c => (c < 256)%N) m ->
  Forall (fun c => (33 <= c <= 126)%N) (path_escape m).
Proof. exact escaped_is_printable_ascii. Qed.
Print Assumptions c08_status_ascii.

(* ---- finding F33 (recorded, not repaired): who writes to the response, and when (Model/WebWrite.v) ---- *)
From GB Require Import Model.WebWrite Proofs.WebWriteProofs.
(* the code as it is - Send's writer goroutine is abandoned when the context ends - has a run in which the data frame lands
   behind the trailer, after the handler has returned; the witness is the schedule the part slowwriter forces on the bridge *)
Theorem c08_abandoned_send_refuted : exists s, wrun false f33_schedule w_init = Some s /\
  log s = [1; 0] /\ frames_ok (log s) = false /\ late s = 1%nat /\ returned s = true.
Proof. exact abandoned_send_refuted. Qed.
Print Assumptions c08_abandoned_send_refuted.

(* with a write lock and a finished flag (what a repair would introduce) EVERY run gives data frames followed by exactly one
   trailer frame, nothing is written after the handler returned, and the handler returns only after the trailer *)
Theorem c08_locked_discipline_ok : forall l s, wrun true l w_init = Some s ->
  late s = O /\ (trailer s = true -> frames_ok (log s) = true) /\ (trailer s = false -> returned s = false).
Proof. exact locked_runs_ok. Qed.
Print Assumptions c08_locked_discipline_ok.
