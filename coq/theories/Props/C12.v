(* C12 — client deadlines are decoded per the gRPC spec and enforced on the whole call.
   Only statements here; proofs live in Proofs/. *)
From GB Require Import Model.Timeout Proofs.TimeoutProofs.
Open Scope Z_scope.

(* the regenerated unit table of the code is the gRPC table *)
Theorem c12_unit_table : Extracted.timeout_units = spec_units.
Proof. exact unit_table_canonical. Qed.
Print Assumptions c12_unit_table.

(* decoder accepts exactly 1-8 digits + unit in {H,M,S,m,u,n}; value = digits * unit (saturating at int64) *)
Theorem c12_decode_spec : forall s d, decode_timeout s = Some d <-> grammar s d.
Proof. exact decode_spec. Qed.
Print Assumptions c12_decode_spec.

Theorem c12_decode_range : forall s d, decode_timeout s = Some d -> 0 <= d <= max_int64.
Proof. exact decode_range. Qed.
Print Assumptions c12_decode_range.

Theorem c12_decode_exact : forall s ds u k,
  s = ds ++ [u] -> (1 <= length ds <= 8)%nat -> all_digits ds = true -> assoc_N u spec_units = Some k ->
  digits_val 0 ds * k <= max_int64 -> decode_timeout s = Some (digits_val 0 ds * k).
Proof. exact decode_exact. Qed.
Print Assumptions c12_decode_exact.

(* the pre-repair decoder (strconv.ParseInt) violated the grammar: finding F12, fixed *)
Theorem c12_decode_old_refuted : exists s d, decode_timeout_old s = Some d /\ ~ grammar s d.
Proof. exact decode_old_refuted. Qed.
Print Assumptions c12_decode_old_refuted.

(* ---- enforcement on the whole call: the forwarder LTS (all scripts, all schedules) ---- *)
From GB Require Import Model.Forward Proofs.ForwardProofs Model.MDFilter Proofs.MDFilterProofs.

(* a call that returns DeadlineExceeded was stopped by its deadline (unless the target or an adapter itself said so) *)
Theorem c12_deadline_exceeded_means_deadline : forall sc s, Reach sc s -> mp s = MRet (RErr 4%Z) ->
  ~ In 4%Z (script_codes sc) -> fired s = CtxDeadline.
Proof. exact deadline_exceeded_means_deadline. Qed.
Print Assumptions c12_deadline_exceeded_means_deadline.

(* every returned status has a source: scripted (target / adapter), unexpected EOF, Canceled, or the fired deadline *)
Theorem c12_result_source : forall sc s e, Reach sc s -> mp s = MRet (RErr e) ->
  (In e (script_codes sc) \/ e = 14 \/ e = 1 \/ (e = 4 /\ fired s = CtxDeadline))%Z.
Proof. exact result_source. Qed.
Print Assumptions c12_result_source.

(* once the deadline has fired the call cannot get stuck, whatever both sides do (idle client, silent or unreachable target) *)
Theorem c12_deadline_unblocks : forall sc, in_aware sc = true /\ out_aware sc = true ->
  forall s, Reach sc s -> final s = false -> fired s = CtxDeadline -> exists l s', In (l, s') (next sc s).
Proof.
  intros sc A s R NF F. apply (no_deadlock_after_event sc A s R NF). left. unfold ctx_done. rewrite F. apply Bool.orb_true_r.
Qed.
Print Assumptions c12_deadline_unblocks.

(* the timeout is consumed, never forwarded as metadata (shared with C07) *)
Theorem c12_never_forwarded : forall allow prefix m, ~ In (lower timeout_key) (map fst (outgoing_md allow prefix m)).
Proof. exact timeout_never_forwarded. Qed.
Print Assumptions c12_never_forwarded.

(* waiting for the connection takes at most half of what is left: never later than the call's deadline *)
Theorem c12_halved_never_later : forall now d : Z, (now <= d -> now <= halved_deadline now d <= d)%Z.
Proof. exact halved_never_later. Qed.
Print Assumptions c12_halved_never_later.
