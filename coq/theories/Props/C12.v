(* C12 — client deadlines are decoded per the gRPC spec and enforced on the whole call.
   Only statements here; proofs live in Proofs/. *)
From GB Require Import Model.Timeout Proofs.TimeoutProofs.
Open Scope Z_scope.

(* the regenerated unit table of the code is the gRPC table *)
Theorem c12_unit_table : Extracted.timeout_units = spec_units.
Proof. exact unit_table_canonical. Qed.
Print Assumptions c12_unit_table.

(* decoder accepts exactly 1-8 digits + unit in {H,M,S,m,u,n}; value = digits * unit (saturating at int64) *)
Theorem c12_decode_spec : forall s d, decode_timeout s = Some d <-> grammar s d.
Proof. exact decode_spec. Qed.
Print Assumptions c12_decode_spec.

Theorem c12_decode_range : forall s d, decode_timeout s = Some d -> 0 <= d <= max_int64.
Proof. exact decode_range. Qed.
Print Assumptions c12_decode_range.

Theorem c12_decode_exact : forall s ds u k,
  s = ds ++ [u] -> (1 <= length ds <= 8)%nat -> all_digits ds = true -> assoc_N u spec_units = Some k ->
  digits_val 0 ds * k <= max_int64 -> decode_timeout s = Some (digits_val 0 ds * k).
Proof. exact decode_exact. Qed.
Print Assumptions c12_decode_exact.

(* the pre-repair decoder (strconv.ParseInt) violated the grammar: finding F12, fixed *)
Theorem c12_decode_old_refuted : exists s d, decode_timeout_old s = Some d /\ ~ grammar s d.
Proof. exact decode_old_refuted. Qed.
Print Assumptions c12_decode_old_refuted.
