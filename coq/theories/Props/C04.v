(* C04 — transcoded requests populate the gRPC message per the http.proto binding rules.
   Only statements here; proofs live in Proofs/TranscodeProofs.v.  The model (Model/Transcode.v) is a function of the
   target's schema, the binding and the request alone — there is no registry in it; that the code agrees with it whatever
   is registered in the process is what harness/c04 checks (clean and poisoned global registry). *)
From GB Require Import Model.Transcode Proofs.TranscodeProofs Proofs.JsonProofs.
Open Scope Z_scope.

(* path variables are written over the body and win over the query: the target receives exactly the parsed text *)
Theorem c04_path_param_wins : forall sc bp l1 k v l2 q body m np fd kd,
  transcode sc bp (l1 ++ (k, v) :: l2) q body = Done m ->
  resolve (length (split_dot k)) sc O (split_dot k) = Some (np, fd) -> fd_card fd = CSingle -> fd_kind fd = FScalar kd ->
  (forall p, In p l2 -> indep (length (split_dot (fst p))) sc O (split_dot (fst p)) np = true) ->
  (forall kv, In kv q -> has_common_prefix (filter_seqs bp (l1 ++ (k, v) :: l2)) (query_path sc kv) = true
                        \/ indep (length (query_path sc kv)) sc O (query_path sc kv) np = true) ->
  exists x, parse_scalar kd v = Ok x /\ lookup_path m np = Some (MS x).
Proof. exact path_param_wins. Qed.
Print Assumptions c04_path_param_wins.

(* the filter is exactly "a bound field path (body path or path variable) is a prefix of the parameter's path" *)
Theorem c04_filter_spec : forall seqs p, has_common_prefix seqs p = true <-> exists s t, In s seqs /\ p = s ++ t.
Proof. exact filter_spec. Qed.
Print Assumptions c04_filter_spec.

(* query parameters for fields already bound by body or path are ignored *)
Theorem c04_bound_key_ignored : forall sc seqs m kv, has_common_prefix seqs (query_path sc kv) = true -> query_step sc seqs m kv = Ok m.
Proof. exact bound_key_ignored. Qed.
Print Assumptions c04_bound_key_ignored.

(* a population only changes what it addresses: every field path it cannot reach keeps its value (frame) *)
Theorem c04_populate_frame : forall sc m path values m' p,
  populate sc m path values = Ok m' -> indep (length path) sc O path p = true -> lookup_path m' p = lookup_path m p.
Proof. exact populate_frame_top. Qed.
Print Assumptions c04_populate_frame.

(* the query phase as a whole leaves alone whatever no accepted parameter can reach: in particular body and path values *)
Theorem c04_query_phase_frame : forall sc seqs q m m' p,
  fold_res (query_step sc seqs) q m = Ok m' ->
  (forall kv, In kv q -> has_common_prefix seqs (query_path sc kv) = true \/ indep (length (query_path sc kv)) sc O (query_path sc kv) p = true) ->
  lookup_path m' p = lookup_path m p.
Proof. exact query_phase_frame. Qed.
Print Assumptions c04_query_phase_frame.

(* with body "*" there are no query parameters *)
Theorem c04_star_ignores_query : forall sc params q body, transcode sc s_star params q body = transcode sc s_star params [] body.
Proof. exact star_ignores_query. Qed.
Print Assumptions c04_star_ignores_query.

(* values that do not parse yield InvalidArgument (3); Internal (13) only for a body path that does not resolve in the schema *)
Theorem c04_error_codes : forall sc bp params q body c, transcode sc bp params q body = Fail c ->
  c = 3 \/ (c = 13 /\ bp <> [] /\ bp <> s_star /\ traverse (length (split_dot bp)) sc O (split_dot bp) = None).
Proof. exact transcode_codes. Qed.
Print Assumptions c04_error_codes.

(* integers from their text form: exactly the decimal number written, within the field's range *)
Theorem c04_parse_int_exact : forall k s v, is_int_kind k = true -> parse_int_kind k s = Ok v ->
  exists z, v = FInt z /\ in_range k z = true /\ dec_text s z.
Proof. exact parse_int_exact. Qed.
Print Assumptions c04_parse_int_exact.

(* enums from their text form: a DEFINED value, by name or by its exact number *)
Theorem c04_parse_enum_exact : forall names s v, parse_enum names s = Ok v ->
  exists z, v = FEnum z /\ In z (map snd names) /\ (lookup_name s names = Some z \/ dec_text s z).
Proof. exact parse_enum_exact. Qed.
Print Assumptions c04_parse_enum_exact.

(* the enum parser before the repair (finding F23, fixed): 4294967297 was accepted as the value 1 *)
Theorem c04_parse_enum_old_refuted :
  let names := [(bz [79;78;69], 1)] in
  let s := bz [52;50;57;52;57;54;55;50;57;55] in
  parse_enum_old names s = Ok (FEnum 1) /\ parse_enum names s = Err.
Proof. exact parse_enum_old_refuted. Qed.
Print Assumptions c04_parse_enum_old_refuted.

(* text forms of Timestamp / Duration parameters (part wktparam): no failure on a canonical text means the value arrived *)
From GB Require Import Model.TranscodeRun Proofs.CheckerProofs.
Theorem c04_text_canonical_statement : forall input impl,
  as_Z (nthv 0 input) = 1 -> prop_c04_text input impl = None -> nthv 0 impl = nthv 1 impl.
Proof. exact c04_text_canonical_sound. Qed.
Print Assumptions c04_text_canonical_statement.
