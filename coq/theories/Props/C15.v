(* C15 — description updates are delivered exactly when the target's contract changes.  Statements only. *)
From GB Require Import Model.Resolver Proofs.ResolverProofs.

(* over ANY history of poll outcomes (success with some contract, failure at any step, either/both/no protocol version
   implemented) the callback sequence is: an update after the first success and after each success whose contract differs from
   the LAST DELIVERED one, an error (only) after each failure, nothing otherwise *)
Theorem c15_updates_exact : forall ps, run_polls r_init ps = spec_cbs [] ps.
Proof. exact updates_exact. Qed.
Print Assumptions c15_updates_exact.

(* the remembered fingerprint changes only together with a delivered update *)
Theorem c15_hash_saved_late : forall s p, last (fst (poll s p)) <> last s ->
  exists c, snd (poll s p) = [CUpdate c] /\ last (fst (poll s p)) = Some c.
Proof. exact hash_saved_late. Qed.
Print Assumptions c15_hash_saved_late.

(* a failed poll only reports an error and leaves what was delivered in place *)
Theorem c15_failure_keeps_state : forall s p, fst (resolve s p) = PFail ->
  last (fst (poll s p)) = last s /\ snd (poll s p) = [CError].
Proof. exact failure_keeps_state. Qed.
Print Assumptions c15_failure_keeps_state.

(* v1 / v1alpha fallback: the remembered priority never changes what is delivered *)
Theorem c15_version_fallback : forall l b1 b2 ps,
  run_polls {| last := l; prio_alpha := b1 |} ps = run_polls {| last := l; prio_alpha := b2 |} ps.
Proof. exact version_priority_irrelevant. Qed.
Print Assumptions c15_version_fallback.
