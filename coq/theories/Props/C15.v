(* C15 — description updates are delivered exactly when the target's contract changes.  Statements only. *)
From GB Require Import Model.Resolver Proofs.ResolverProofs.

(* over ANY history of poll outcomes (success with some contract, failure at any step, either/both/no protocol version
   implemented) the callback sequence is: an update after the first success and after each success whose contract differs from
   the LAST DELIVERED one, an error (only) after each failure, nothing otherwise *)
Theorem c15_updates_exact : forall ps, run_polls r_init ps = spec_cbs [] ps.
Proof. exact updates_exact. Qed.
Print Assumptions c15_updates_exact.

(* the remembered fingerprint changes only together with a delivered update *)
Theorem c15_hash_saved_late : forall s p, last (fst (poll s p)) <> last s ->
  exists c, snd (poll s p) = [CUpdate c] /\ last (fst (poll s p)) = Some c.
Proof. exact hash_saved_late. Qed.
Print Assumptions c15_hash_saved_late.

(* a failed poll only reports an error and leaves what was delivered in place *)
Theorem c15_failure_keeps_state : forall s p, fst (resolve s p) = PFail ->
  last (fst (poll s p)) = last s /\ snd (poll s p) = [CError].
Proof. exact failure_keeps_state. Qed.
Print Assumptions c15_failure_keeps_state.

(* v1 / v1alpha fallback: the remembered priority never changes what is delivered *)
Theorem c15_version_fallback : forall l b1 b2 ps,
  run_polls {| last := l; prio_alpha := b1 |} ps = run_polls {| last := l; prio_alpha := b2 |} ps.
Proof. exact version_priority_irrelevant. Qed.
Print Assumptions c15_version_fallback.

(* ---- the poller loop under concurrency (watch / newResolveNow / ResolveNow / Close): any number of ResolveNow callers, a
   closer, a target whose contract changes at any time, every interleaving (Model/ResolverConc.v) ---- *)
From GB Require Import Model.ResolverConc Proofs.ResolverConcProofs.

(* a resolve-now request is never lost: whenever a ResolveNow call has returned and no poll has started since the call
   began, a waiting poller has its resolve-now branch enabled - it cannot stay asleep - also when the call arrived while
   a poll was in progress *)
Theorem c15_resolve_now_not_lost : forall timer n c0 s i k, Reach false timer (init n c0) s ->
  nth_error (callers s) i = Some (CReturned k) -> polls s = k -> pc s = PSelect ->
  closed s = true /\ exists s', In s' (poller_steps false timer s) /\ pc s' = PRearm.
Proof. exact resolve_now_not_lost. Qed.
Print Assumptions c15_resolve_now_not_lost.

(* ... and the poll that follows reads the target's contract as it is then *)
Theorem c15_next_poll_reads_afresh : forall timer s s' c, pc s = PStart -> In s' (poller_steps false timer s) -> contract s = c -> pc s' = PRead c.
Proof. exact next_poll_reads_afresh. Qed.
Print Assumptions c15_next_poll_reads_afresh.

(* no callback after Close has returned *)
Theorem c15_no_callback_after_close : forall timer n c0 s s', Reach false timer (init n c0) s -> closer_returned s = true ->
  Reach false timer s s' -> cbs s' = cbs s.
Proof. exact no_callback_after_close. Qed.
Print Assumptions c15_no_callback_after_close.

(* the loop with the re-arming moved in front of every wait loses a request that arrives during a poll (witness schedule) *)
Theorem c15_rearm_always_loses_a_request : exists s,
  run true false [0; 1; 1; 0]%nat (init 1 7) = Some s /\
  nth_error (callers s) 0 = Some (CReturned 1) /\ polls s = 1%nat /\ pc s = PSelect /\ closed s = false /\
  poller_steps true false s = [].
Proof. exact rearm_always_loses_a_request. Qed.
Print Assumptions c15_rearm_always_loses_a_request.

(* ---- the schedules forced on the real resolver (yield hooks, Model/ResolverConcRun.v) are runs of that LTS ---- *)
From GB Require Import Model.ResolverConcRun Proofs.ResolverSchedProofs.
Theorem c15_forced_schedules_are_runs : forall l s s', run_acts l s = Some s' -> Reach false false s s'.
Proof. exact forced_schedules_are_runs. Qed.
Print Assumptions c15_forced_schedules_are_runs.

(* so in every forced schedule too: a returned request after whose beginning no poll has started keeps the poller's
   resolve-now move enabled *)
Theorem c15_forced_not_lost : forall n c0 l s i k, run_acts l (init n c0) = Some s ->
  nth_error (callers s) i = Some (CReturned k) -> polls s = k -> pc s = PSelect -> closed s = true /\ p_step s <> None.
Proof. exact forced_not_lost. Qed.
Print Assumptions c15_forced_not_lost.
