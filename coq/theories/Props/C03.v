(* C03 — HTTP requests route to exactly the binding whose path template matches.
   Only statements here; proofs live in Proofs/TemplateProofs.v.  Model/Template.v holds the routing parser, the compiler
   to gateway opcodes, the opcode machine of runtime.Pattern.MatchAndEscape and RouteHTTP's per-route step; harness/c03
   ties them to routing/pattern_router.go on binding sets derived from the grammar and URLs parsed like net/http does. *)
From GB Require Import Model.Template Model.TemplateRun Proofs.TemplateProofs Proofs.TemplateParseProofs.
Open Scope N_scope.

(* the opcode machine run on a compiled template computes the matching of the template itself: literals compared raw,
   * one component decoded fully, ** the remaining components (minus the fixed tail) decoded except reserved characters,
   a variable the '/'-join of what its segments produced *)
Theorem c03_compile_correct : forall t tl comps, forallb seg_ok (t_segs t) = true ->
  run_ops (compile t) tl comps [] [] = match_segs (t_segs t) tl comps [].
Proof. exact compile_correct. Qed.
Print Assumptions c03_compile_correct.

(* RouteHTTP's step for one route (verb cut off the last component, MatchAndEscape, error mapping) is the template-level
   step: skip unless the verb is the request's and the segments match; InvalidArgument for malformed escapes *)
Theorem c03_route_step_spec : forall t comps, forallb seg_ok (t_segs t) = true ->
  route_step false (compile t) (t_verb t) comps = spec_step t comps.
Proof. exact route_step_spec. Qed.
Print Assumptions c03_route_step_spec.

(* from the TEXT of a binding's template to what it matches, for every template of the grammar: the text parses to the
   template (C20) and the route compiled from it steps exactly like the template-level specification; the no-nesting
   hypothesis of the theorems above holds for every such template *)
Theorem c03_text_to_route : forall t comps, good_template t = true ->
  exists t', gw_parse false (render t) = Some t' /\ route_step false (compile t') (t_verb t') comps = spec_step t comps.
Proof. exact text_to_route. Qed.
Print Assumptions c03_text_to_route.

(* the table lookup over compiled routes is the template-level lookup *)
Theorem c03_first_route_spec : forall routes comps, (forall ti bi t, In (ti, bi, t) routes -> forallb seg_ok (t_segs t) = true) ->
  first_route false (map to_ops routes) comps = spec_route routes comps.
Proof. exact first_route_spec. Qed.
Print Assumptions c03_first_route_spec.

(* routed to binding (ti, bi) => that binding matches and every binding before it (same method, description order) does not *)
Theorem c03_first_match_wins : forall routes comps ti bi vars,
  spec_route routes comps = VL [VN 0; VN ti; VN bi; v_vars vars] ->
  exists before t after vars', routes = before ++ (ti, bi, t) :: after /\ spec_step t comps = Found vars' /\ v_vars vars' = v_vars vars /\
    forall r, In r before -> spec_step (snd r) comps = Skip.
Proof. exact spec_route_first. Qed.
Print Assumptions c03_first_match_wins.

(* NotFound => no binding of that method matches *)
Theorem c03_notfound_means_none : forall routes comps, spec_route routes comps = VL [VN 5] -> forall r, In r routes -> spec_step (snd r) comps = Skip.
Proof. exact spec_route_notfound. Qed.
Print Assumptions c03_notfound_means_none.

(* captured single segments are percent-decoded exactly once: a fully encoded byte string comes back as itself *)
Theorem c03_unescape_pct_all : forall s, Forall (fun c => c < 256) s -> unescape false (flat_map pct s) = Some s.
Proof. exact unescape_pct_all. Qed.
Print Assumptions c03_unescape_pct_all.

(* reserved characters stay encoded only in multi-segment captures *)
Theorem c03_unescape_multi_step : forall c rest fuel t, c < 256 -> unescape_f fuel true rest = Some t ->
  unescape_f (S fuel) true (pct c ++ rest) = Some (if is_reserved c then pct c ++ t else c :: t).
Proof. exact unescape_multi_step. Qed.
Print Assumptions c03_unescape_multi_step.

Theorem c03_decode_once : unescape false [37; 50; 53; 50; 48] = Some [37; 50; 48].
Proof. exact decode_once. Qed.
Print Assumptions c03_decode_once.

(* ---- without the hypothesis: the routing parser never returns nested variables, whatever the text (a property of the
   tokenizer, carried through the descent and through the verb cut) ---- *)
From GB Require Import Proofs.GwNoNestProofs.
Theorem c03_no_nesting : forall s t, gw_parse false s = Some t -> forallb seg_ok (t_segs t) = true.
Proof. exact gw_parse_no_nesting. Qed.
Print Assumptions c03_no_nesting.

(* hence every route the router can hold - compiled from ANY accepted template text - matches exactly like its template *)
Theorem c03_route_step_any_text : forall text t comps, gw_parse false text = Some t ->
  route_step false (compile t) (t_verb t) comps = spec_step t comps.
Proof. exact route_step_any_text. Qed.
Print Assumptions c03_route_step_any_text.

(* and the whole table, built from any descriptions (any texts, valid or not, any methods), answers every request like
   the specification: first matching binding in (target, binding) order, the template-level captures *)
Theorem c03_route_table_spec : forall targets method comps,
  first_route false (table_routes targets method) comps = spec_route (spec_routes targets method) comps.
Proof. exact route_table_spec. Qed.
Print Assumptions c03_route_table_spec.

(* the model of RouteHTTP equals the executable statement of the property on EVERY input *)
Theorem c03_model_is_spec : forall v,
  run_c03 v = match as_S (nthv 3 v) with
              | c :: p => if (c =? c_slash)%N then spec_route (spec_routes (as_L (nthv 0 v)) (as_S (nthv 1 v))) (split_slash p [])
                          else VL [VN 3]
              | [] => VL [VN 3] end.
Proof. exact run_c03_is_spec. Qed.
Print Assumptions c03_model_is_spec.
