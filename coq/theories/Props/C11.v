(* C11 — lookups stay consistent during updates; removed targets never come back.  Statements only. *)
From GB Require Import Model.RouteConc Proofs.RouteConcProofs.
Open Scope Z_scope.

(* For ANY set of updater / closer / lookup / re-watch threads whose watchers are used for the name they were created for,
   and ANY interleaving at the granularity of the yield points: the invariant below holds in every reachable state
   (pattern router, per-watcher mutex of the F11 repair present) *)
Theorem c11_invariant : forall name s0 s, Inv name s0 -> CReach s0 s -> Inv name s.
Proof. exact inv_reach. Qed.
Print Assumptions c11_invariant.

(* ... hence: no lookup is ever routed to an entry applied through a watcher whose Close has executed its removal -
   once removal of a target has returned, no later lookup is routed to it, whatever update was in flight *)
Theorem c11_removed_stays_removed : forall name s0 s q n d w, Inv name s0 -> CReach s0 s ->
  lookup q s = Some (n, d, w) -> mem_nat w (removed s) = false.
Proof. exact removed_stays_removed. Qed.
Print Assumptions c11_removed_stays_removed.

(* every initial configuration (threads not yet started) satisfies the invariant: the theorem is not vacuous *)
Theorem c11_initial_states : forall name live0 watched0 ts, (forall t, In t ts -> wf_thr name t) ->
  (forall w, nh ts w = 0%nat) -> (forall w n pc, In (TClose w n pc) ts -> pc = 0%nat) ->
  (forall w n d pc, In (TUpd w n d pc) ts -> pc = 0%nat) ->
  Inv name (cinit KPattern true live0 watched0 ts).
Proof. exact init_inv. Qed.
Print Assumptions c11_initial_states.

(* F11 (fixed): with the closed check outside the mutation a removed target comes back - witness schedule
   U: closed check passes; C: flip; C: remove, return; U: addTarget; lookup routed to the removed target *)
Theorem c11_removed_comes_back_without_mutex : exists s,
  crun [0; 1; 1; 0; 2]%nat (cinit KPattern false [1%nat] [[116;49]%N] f11_threads) = Some s /\
  mem_nat 1 (removed s) = true /\
  nth_error (threads s) 2 = Some (TLook [116;49]%N (Some (Some ([116;49]%N, 10, 1%nat)))).
Proof. exact removed_comes_back_without_mutex. Qed.
Print Assumptions c11_removed_comes_back_without_mutex.

(* ---- the SERVICE router (two-phase updateRoutes under the table mutex, handOver on release), same interleaving model ---- *)
From GB Require Import Proofs.RouteConcSvcProofs.

Theorem c11_service_invariant : forall name s0 s, MxInv name s0 -> TbInv name s0 -> CReach s0 s -> MxInv name s /\ TbInv name s.
Proof. exact svc_inv_reach. Qed.
Print Assumptions c11_service_invariant.

(* no service is ever routed through an entry applied by a watcher whose Close has executed its removal - whatever
   update (either phase), hand-over or re-watch was in flight *)
Theorem c11_service_removed_stays_removed : forall name s0 s q n d w, MxInv name s0 -> TbInv name s0 -> CReach s0 s ->
  lookup q s = Some (n, d, w) -> mem_nat w (removed s) = false.
Proof. exact svc_removed_stays_removed. Qed.
Print Assumptions c11_service_removed_stays_removed.

Theorem c11_service_initial_states : forall name live0 watched0 ts, (forall t, In t ts -> wf_thr name t) ->
  (forall w, nh ts w = 0%nat) -> (forall w n pc, In (TClose w n pc) ts -> pc = 0%nat) ->
  (forall w n d pc, In (TUpd w n d pc) ts -> pc = 0%nat) ->
  MxInv name (cinit KService true live0 watched0 ts) /\ TbInv name (cinit KService true live0 watched0 ts).
Proof. exact svc_init_inv. Qed.
Print Assumptions c11_service_initial_states.

Theorem c11_service_removed_comes_back_without_mutex : exists s,
  crun [0; 1; 1; 0; 0; 2]%nat (cinit KService false [1%nat] [[116;49]%N] f11s_threads) = Some s /\
  mem_nat 1 (removed s) = true /\
  nth_error (threads s) 2 = Some (TLook [115]%N (Some (Some ([116;49]%N, 10, 1%nat)))).
Proof. exact svc_removed_comes_back_without_mutex. Qed.
Print Assumptions c11_service_removed_comes_back_without_mutex.
