(* C10 — gRPC outcomes map to the right HTTP status and a decodable error body.  Statements only. *)
From GB Require Import Model.HttpErr Proofs.HttpErrProofs.
Open Scope Z_scope.

(* all 17 codes map to the canonical HTTP status (finite domain, decided by computation and lifted) *)
Theorem c10_code_table : forall c, 0 <= c <= 16 -> http_of_code c = nth (Z.to_nat c) canonical_http 500.
Proof. exact code_table. Qed.
Print Assumptions c10_code_table.

Theorem c10_ok_only_for_ok : forall c, 0 <= c <= 16 -> (http_of_code c = 200 <-> c = 0).
Proof. exact ok_only_for_ok. Qed.
Print Assumptions c10_ok_only_for_ok.

(* any failure before the first response byte: status = explicit or canonical; body non-empty and carrying the message;
   a google.rpc.Status (code, message, details) once bound and encodable; plain text before binding, and STILL the readable
   message when the details cannot be encoded *)
Theorem c10_error_shape : forall bound encodable code override details,
  exists st b, write_error false false bound encodable code override details = Some (st, b) /\
    st = (match override with Some h => h | None => http_of_code code end) /\
    carries b = true /\
    (bound = true -> encodable = true -> b = BStatus code true details) /\
    (bound = false -> b = BText true) /\
    (bound = true -> encodable = false -> b = BText true).
Proof. exact error_shape. Qed.
Print Assumptions c10_error_shape.

Theorem c10_no_render_after_write : forall canceled bound encodable code override details,
  write_error true canceled bound encodable code override details = None.
Proof. exact no_render_after_write. Qed.
Print Assumptions c10_no_render_after_write.

(* F10, fixed: the pre-repair fallback body was empty *)
Theorem c10_fallback_body_old_refuted : exists code, write_error_old false false true false code None 1 = Some (http_of_code code, BNone).
Proof. exact fallback_body_old_refuted. Qed.
Print Assumptions c10_fallback_body_old_refuted.

(* negotiation: 415 iff a Content-Type was given and none of its lines names a supported media type *)
Theorem c10_negotiation_415 : forall known default cts,
  pick_request known default cts = None <->
  cts <> [] /\ (forall m, In (Some m) cts -> existsb (bytes_eqb m) known = false).
Proof. exact negotiation_415. Qed.
Print Assumptions c10_negotiation_415.

Theorem c10_response_follows_accept : forall known req accepts a,
  In a accepts -> existsb (bytes_eqb a) known = true ->
  exists a', pick_response known req accepts = a' /\ In a' accepts /\ existsb (bytes_eqb a') known = true.
Proof. exact response_follows_accept. Qed.
Print Assumptions c10_response_follows_accept.

Theorem c10_response_defaults_to_request : forall known req accepts,
  (forall a, In a accepts -> existsb (bytes_eqb a) known = false) -> pick_response known req accepts = req.
Proof. exact response_defaults_to_request. Qed.
Print Assumptions c10_response_defaults_to_request.
