(* Executable side of the C11 model: val coding of thread sets, enumeration of ALL maximal schedules of a thread set
   (used to drive the forced-schedule replay on the real routers), replay of one schedule, executable property. *)
From GB Require Export Model.RouteConc.
Open Scope Z_scope.

Definition as_cdesc (v : val) : cdesc := {| cd_id := as_Z (nthv 0 v); cd_svcs := map as_S (as_L (nthv 1 v)) |}.
(* thread: ( 0 w n desc ) upd | ( 1 w n ) close | ( 2 q ) lookup | ( 3 w n ) watch *)
Definition as_thr (v : val) : thr :=
  match as_Z (nthv 0 v) with
  | 0 => TUpd (as_nat (nthv 1 v)) (as_S (nthv 2 v)) (as_cdesc (nthv 3 v)) 0
  | 1 => TClose (as_nat (nthv 1 v)) (as_S (nthv 2 v)) 0
  | 2 => TLook (as_S (nthv 1 v)) None
  | _ => TWatch (as_nat (nthv 1 v)) (as_S (nthv 2 v)) None
  end.
(* thread set: ( kind wmutex live0 watched0 threads ) *)
Definition as_cinit (v : val) : cstate :=
  cinit (match as_Z (nthv 0 v) with 0 => KPattern | _ => KService end) (as_bool (nthv 1 v))
        (map as_nat (as_L (nthv 2 v))) (map as_S (as_L (nthv 3 v))) (map as_thr (as_L (nthv 4 v))).

(* all maximal schedules (depth-first; fuel bounds the total number of steps explored) *)
Fixpoint enum_scheds (fuel : nat) (s : cstate) (prefix : list nat) : list (list nat) :=
  match fuel with
  | O => [rev prefix]
  | S f =>
      match cnext s with
      | [] => [rev prefix]
      | nx => flat_map (fun is => enum_scheds f (snd is) (fst is :: prefix)) nx
      end
  end.
Definition enum_c11 (v : val) : val :=
  VL (map (fun sch => VL (map vnat sch)) (enum_scheds 40 (as_cinit v) [])).

(* observable result of every thread after a schedule, and final probes *)
Definition v_look (r : option (bytes * Z * nat)) : val :=
  match r with None => VL [] | Some (n, id, _) => VL [VS n; VN id] end.
Definition v_thr (t : thr) : val :=
  match t with
  | TUpd _ _ _ pc => VN (Z.of_nat pc)
  | TClose _ _ pc => VN (Z.of_nat pc)
  | TLook _ (Some r) => v_look r
  | TLook _ None => VN (-1)
  | TWatch _ _ (Some b) => vbool b
  | TWatch _ _ None => VN (-1)
  end.
(* input ( threadset schedule probes ) ; output ( thread-results final-probe-results ) *)
Definition run_c11 (v : val) : val :=
  let s0 := as_cinit (nthv 0 v) in
  match crun (map as_nat (as_L (nthv 1 v))) s0 with
  | None => VL [VN (-2)]
  | Some s => VL [VL (map v_thr (threads s)); VL (map (fun q => v_look (lookup (as_S q) s)) (as_L (nthv 2 v)))]
  end.

(* ---- executable property, from the thread set and the schedule alone ----
   1: a lookup that ran after Close(w) had returned was routed to a description applied through w (the removed target came back)
   2: Watch of a name refused although the name's watcher had been closed before it / accepted while still watched *)
Definition thr_list (v : val) : list thr := map as_thr (as_L (nthv 4 (nthv 0 v))).
(* which watcher applies which description id *)
Definition desc_owner (ts : list thr) (id : Z) : option nat :=
  match filter (fun t => match t with TUpd _ _ d _ => Z.eqb (cd_id d) id | _ => false end) ts with
  | TUpd w _ _ _ :: _ => Some w
  | _ => None
  end.
(* position in the schedule of the LAST step of thread i (its return), if it has steps *)
Fixpoint last_pos (i : nat) (sched : list nat) (pos : nat) (acc : option nat) : option nat :=
  match sched with
  | [] => acc
  | j :: r => last_pos i r (S pos) (if Nat.eqb i j then Some pos else acc)
  end.
Definition closer_of (ts : list thr) (w : nat) : list nat :=
  map fst (filter (fun it => match snd it with TClose w' _ _ => Nat.eqb w w' | _ => false end) (combine (seq 0 (length ts)) ts)).
(* Close(w) has returned before position p: a closer thread of w made two steps (flip, remove) and its last one is before p *)
Definition closed_before (ts : list thr) (sched : list nat) (w : nat) (p : nat) : bool :=
  existsb (fun i => (2 <=? length (filter (Nat.eqb i) sched))%nat &&
                    match last_pos i sched 0 None with Some lp => (lp <? p)%nat | None => false end) (closer_of ts w).

(* the name of a target is taken from a successful Watch until the Close of that watcher has RETURNED (its second step):
   replay the schedule keeping the set of (name, watcher) holders and say what every Watch must answer *)
Fixpoint expected_watches (ts : list thr) (sched : list nat) (holders : list (bytes * nat)) (steps_done : list nat)
  : list (nat * bool) :=
  match sched with
  | [] => []
  | i :: r =>
      let done_before := length (filter (Nat.eqb i) steps_done) in
      match nth_error ts i with
      | Some (TWatch w n _) =>
          let free := negb (existsb (fun h => bytes_eqb (fst h) n) holders) in
          (i, free) :: expected_watches ts r (if free then (n, w) :: holders else holders) (i :: steps_done)
      | Some (TClose w n _) =>
          (* second step of this closer thread = removal done and Close returned *)
          let holders' := if Nat.eqb done_before 1 then filter (fun h => negb (Nat.eqb (snd h) w)) holders else holders in
          expected_watches ts r holders' (i :: steps_done)
      | _ => expected_watches ts r holders (i :: steps_done)
      end
  end.

Definition prop_c11 (input impl : val) : option Z :=
  let ts := thr_list input in
  let sched := map as_nat (as_L (nthv 1 input)) in
  let results := as_L (nthv 0 impl) in
  let live0 := map as_nat (as_L (nthv 2 (nthv 0 input))) in
  let watched0 := map as_S (as_L (nthv 3 (nthv 0 input))) in
  let check_routed (r : val) (p : nat) : bool :=
    match as_L r with
    | [_; id] => match desc_owner ts (as_Z id) with
                 | Some w => negb (closed_before ts sched w p)
                 | None => true
                 end
    | _ => true
    end in
  if negb (forallb (fun itr =>
        match fst (snd itr) with
        | TLook _ _ => match last_pos (fst itr) sched 0 None with
                       | Some p => check_routed (snd (snd itr)) p
                       | None => true
                       end
        | _ => true
        end) (combine (seq 0 (length ts)) (combine ts results))) then Some 1
  else if negb (forallb (fun r => check_routed r (length sched)) (as_L (nthv 1 impl))) then Some 1
  else if negb (forallb (fun ib => val_eqb (nth (fst ib) results (VN (-9))) (vbool (snd ib)))
                        (expected_watches ts sched (combine watched0 live0) [])) then Some 2
  else None.

Definition chk_c11 : val -> val := mk_chk run_c11 prop_c11.

(* ---------- C11, removal against an update in flight, asked of the implementation directly ----------
   input ( router-kind park-at ) ; impl ( close-returned-while-the-update-was-parked routed-after-removal )
   1: a lookup issued after Close had returned (and after the update that was in flight had run to its end) was routed to
      the removed target.  That Close returned early is not a failure by itself. *)
Definition chk_c11_inflight (c : val) : val :=
  if Z.eqb (as_Z (nthv 1 (nthv 1 c))) 0 then verdict_ok else verdict_propfail 1 (VL []).
