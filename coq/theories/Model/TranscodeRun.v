(* val coding, message dump and executable property for the C04 model *)
From GB Require Export Model.Transcode Model.JsonRun.
Open Scope Z_scope.

Definition as_fkind (v : val) : fkind :=
  match as_Z (nthv 0 v) with 0 => FScalar (as_kind (nthv 1 v)) | _ => FMsg (as_nat (nthv 1 v)) end.
Definition as_card (v : val) : card :=
  match as_Z (nthv 0 v) with 0 => CSingle | 1 => CList | _ => CMap (as_kind (nthv 1 v)) end.
Definition as_fdesc (v : val) : fdesc :=
  {| fd_name := as_S (nthv 0 v); fd_json := as_S (nthv 1 v); fd_kind := as_fkind (nthv 2 v); fd_card := as_card (nthv 3 v);
     fd_oneof := as_Z (nthv 4 v); fd_pres := as_bool (nthv 5 v) |}.
Definition as_mdesc (v : val) : mdesc := {| md_wkt := as_Z (nthv 0 v); md_fields := map as_fdesc (as_L (nthv 1 v)) |}.
Definition as_schema (v : val) : schema := map as_mdesc (as_L v).

Definition default_fv (k : kind) : fv :=
  match k with
  | KBool => FBool false | KInt32 | KInt64 | KUint32 | KUint64 => FInt 0 | KFloat | KDouble => FFinite
  | KString => FStr [] | KBytes => FBytes [] | KEnum names => FEnum (match names with (_, z) :: _ => z | [] => 0 end)
  end.

(* the observable message: fields in schema order; fields without presence always (value or default), fields with presence
   and messages when set; lists and maps always; map entries sorted by key *)
Fixpoint dump_mv (fuel : nat) (sc : schema) (k : fkind) (v : mv) : val :=
  match fuel with
  | O => VL []
  | S f =>
      match v, k with
      | MS x, _ => v_fv x
      | MM fs, FMsg idx =>
          VL [VN 11; VL (flat_map (fun fd =>
                let entry x := [VL [VS (fd_name fd); x]] in
                match fd_card fd with
                | CSingle =>
                    match mget (fd_name fd) fs, fd_kind fd with
                    | Some x, _ => entry (dump_mv f sc (fd_kind fd) x)
                    | None, FScalar sk => if fd_pres fd then [] else entry (v_fv (default_fv sk))
                    | None, FMsg _ => []
                    end
                | CList => entry (VL [VN 8; VL (match mget (fd_name fd) fs with
                                               | Some (ML l) => map (dump_mv f sc (fd_kind fd)) l | _ => [] end)])
                | CMap _ => entry (VL [VN 9; VL (match mget (fd_name fd) fs with
                                                 | Some (MP l) => map (fun p => VL [fst p; snd p])
                                                     (fold_right insert_entry []
                                                        (map (fun p => (dump_mv f sc (FScalar KBool) (fst p), dump_mv f sc (fd_kind fd) (snd p))) l))
                                                 | _ => [] end)])
                end) (fields_of sc idx))]
      | _, _ => VL []
      end
  end.
Definition dump (sc : schema) (m : msg) : val := nthv 1 (dump_mv 10 sc (FMsg 0) (MM m)).

Definition v_outcome (sc : schema) (o : outcome) : val :=
  match o with Done m => VL [VN 0; dump sc m] | Fail c => VL [VN c] end.

(* input ( schema bodypath params query bodies ) ; bodies: one per message of the (possibly streamed) request; each () or (json) *)
Fixpoint run_bodies (sc : schema) (bp : bytes) (params : list (bytes * bytes)) (q : list (bytes * list bytes)) (bodies : list val) : list val :=
  match bodies with
  | [] => []
  | b :: r =>
      let body := match as_L b with [j] => Some (as_jv 8 j) | _ => None end in
      match transcode sc bp params q body with
      | Done m => VL [VN 0; dump sc m] :: run_bodies sc bp params q r
      | Fail c => [VL [VN c]]               (* the stream ends at the first error *)
      end
  end.
Definition run_c04 (v : val) : val :=
  let sc := as_schema (nthv 0 v) in
  let params := map (fun p => (as_S (nthv 0 p), as_S (nthv 1 p))) (as_L (nthv 2 v)) in
  let q := map (fun p => (as_S (nthv 0 p), map as_S (as_L (nthv 1 p)))) (as_L (nthv 3 v)) in
  VL (run_bodies sc (as_S (nthv 1 v)) params q (as_L (nthv 4 v))).

(* impl = ( results-with-a-clean-registry  results-with-a-poisoned-registry  results-without-bound-query-keys )
   1: the result depends on which protobuf types are registered in the process
   2: an error other than InvalidArgument (or Internal for a body path that does not resolve in the schema)
   3: a query parameter addressing a field already bound by the body or a path variable had an effect
      (third component: the results of the same request without those query parameters)
   4: a panic
   5: a query parameter addressing an UNBOUND single string field (outside any oneof, body not "*") did not arrive verbatim
      in the first message (input field 5 lists those the generator planted: siblings whose name starts with a bound name) *)
Fixpoint dump_get (fuel : nat) (fields : val) (path : list bytes) : option val :=
  match fuel, path with
  | S f, name :: rest =>
      match filter (fun e => val_eqb (nthv 0 e) (VS name)) (as_L fields) with
      | e :: _ => match rest with
                  | [] => Some (nthv 1 e)
                  | _ => if val_eqb (nthv 0 (nthv 1 e)) (VN 11) then dump_get f (nthv 1 (nthv 1 e)) rest else None
                  end
      | [] => None
      end
  | _, _ => None
  end.
Definition bad_code (sc : schema) (bp : bytes) (r : val) : bool :=
  match as_L r with
  | [VN 0; _] => false
  | [VN 3] => false
  | [VN 13] => negb (match (let els := split_dot bp in traverse (length els) sc O els) with None => true | Some _ => false end)
               || bytes_eqb bp s_star || match bp with [] => true | _ => false end
  | _ => true
  end.
Definition prop_c04 (input impl : val) : option Z :=
  let clean := nthv 0 impl in
  let poisoned := nthv 1 impl in
  let sc := as_schema (nthv 0 input) in
  if existsb (fun r => val_eqb r (VL [VN 99])) (as_L clean ++ as_L poisoned) then Some 4
  else if negb (val_eqb clean poisoned) then Some 1
  else if existsb (bad_code sc (as_S (nthv 1 input))) (as_L clean) then Some 2
  else if negb (val_eqb clean (nthv 2 impl)) then Some 3
  else match as_L clean with
       | first :: _ =>
           if Z.eqb (as_Z (nthv 0 first)) 0 &&
              existsb (fun m => negb (match dump_get 8 (nthv 1 first) (map as_S (as_L (nthv 0 m))) with
                                      | Some x => val_eqb x (VL [VN 5; nthv 1 m])
                                      | None => false end)) (as_L (nthv 5 input))
           then Some 5 else None
       | [] => None
       end.
Definition chk_c04 (c : val) : val :=
  let input := nthv 0 c in
  let impl := nthv 1 c in
  match prop_c04 input impl with
  | Some r => verdict_propfail r (run_c04 input)
  | None => if val_eqb (run_c04 input) (nthv 0 impl) then verdict_ok else verdict_mismatch (run_c04 input)
  end.

(* ---------- C04, isolation between targets (no model: a metamorphic statement on the implementation's own outputs) ----------
   impl ( request-result-through-the-shared-transcoder  request-result-through-a-transcoder-of-its-own
          response-text-shared  response-text-own ) :
   6: the message a request produced, or the text a response was rendered to, depends on which other targets the bridge served before *)
Definition chk_c04_iso (c : val) : val :=
  let impl := nthv 1 c in
  if val_eqb (nthv 0 impl) (nthv 1 impl) && val_eqb (nthv 2 impl) (nthv 3 impl) then verdict_ok else verdict_propfail 6 (VL []).

(* ---------- C04, Any values wherever a body value can sit (no model: protojson with the TARGET's resolver is the reference) ----------
   impl ( request-result  reference-result  response-text  reference-text ) :
   7: the message produced from a body bound to a field (or the text rendered for a response_body field) differs from what
      canonical proto3 JSON with the target's own descriptors gives - e.g. an Any inside a list element or a map value was
      resolved somewhere else
   4: panic *)
Definition chk_c04_ref (c : val) : val :=
  let impl := nthv 1 c in
  match nthv 0 impl with
  | VL [VN 99] => verdict_propfail 4 (VL [])
  | _ => if val_eqb (nthv 0 impl) (nthv 1 impl) && val_eqb (nthv 2 impl) (nthv 3 impl) then verdict_ok else verdict_propfail 7 (VL [])
  end.

(* ---------- C04, text forms of Timestamp / Duration / Value / Struct parameters (no model: canonical proto3 JSON
   parsing of the text is the reference) ----------
   input ( kind field text place ) impl ( bridge-result reference-result ) - results ( 0 wire ) accepted, ( code ) refused, ( 99 ) panic
     kind 1, the canonical encoder's text of a value:  8: the value does not arrive (refused, or another value stored)
     kind 0, any text:  7: bridge and reference both accept and store different messages
                        2: refused with something other than InvalidArgument ; 4: panic *)
Definition res_acc (v : val) : bool := match as_L v with VN 0 :: _ => true | _ => false end.
Definition prop_c04_text (input impl : val) : option Z :=
  let got := nthv 0 impl in
  let want := nthv 1 impl in
  match as_L got with
  | [VN 99] => Some 4
  | _ =>
    if negb (res_acc got) && negb (val_eqb got (VL [VN 3])) then Some 2
    else if Z.eqb (as_Z (nthv 0 input)) 1 then (if val_eqb got want then None else Some 8)
    else if res_acc got && res_acc want && negb (val_eqb got want) then Some 7 else None
  end.
Definition chk_c04_text (c : val) : val :=
  match prop_c04_text (nthv 0 c) (nthv 1 c) with Some r => verdict_propfail r (VL []) | None => verdict_ok end.
