(* Model of the bookkeeping of routing.PatternRouter and routing.ServiceRouter (watch / update / close / probe)
   and of parseRPCName.  Definitions only.  The template matcher is a parameter ([valid], [matches]): the
   table theorems do not depend on template theorems (those are C03/C20). *)
From GB Require Export Base.Val.
Open Scope Z_scope.

Record binding := { b_http : bytes; b_pattern : bytes }.
Record mdesc := { m_name : bytes; m_bindings : list binding }.
Record sdesc := { s_name : bytes; s_methods : list mdesc }.
Record desc := { d_id : Z; d_services : list sdesc }.

(* a compiled route: position in the description + pattern; binding index -1 = default binding *)
Record route := { r_svc : nat; r_meth : nat; r_bind : Z; r_http : bytes; r_pattern : bytes }.

Section Tables.
  Variable valid : bytes -> bool.              (* does the template compile *)
  Variable matches : bytes -> bytes -> bool.   (* pattern -> request path -> match *)

  Definition s_post : bytes := [80; 79; 83; 84]%N.
  Definition rpc_name (svc meth : bytes) : bytes := 47%N :: svc ++ 47%N :: meth.

  (* buildPatternRoutes: description order (service, method, binding); invalid templates skipped;
     a method without bindings gets POST /svc/method *)
  Fixpoint bindings_routes (si mi : nat) (bi : nat) (bs : list binding) : list route :=
    match bs with
    | [] => []
    | b :: r =>
        (if valid (b_pattern b) then [{| r_svc := si; r_meth := mi; r_bind := Z.of_nat bi; r_http := b_http b; r_pattern := b_pattern b |}] else [])
        ++ bindings_routes si mi (S bi) r
    end.

  Definition method_routes (svc : bytes) (si mi : nat) (m : mdesc) : list route :=
    match m_bindings m with
    | [] => let p := rpc_name svc (m_name m) in
            if valid p then [{| r_svc := si; r_meth := mi; r_bind := -1; r_http := s_post; r_pattern := p |}] else []
    | bs => bindings_routes si mi 0 bs
    end.

  Fixpoint methods_routes (svc : bytes) (si mi : nat) (ms : list mdesc) : list route :=
    match ms with
    | [] => []
    | m :: r => method_routes svc si mi m ++ methods_routes svc si (S mi) r
    end.

  Fixpoint services_routes (si : nat) (ss : list sdesc) : list route :=
    match ss with
    | [] => []
    | s :: r => methods_routes (s_name s) si 0 (s_methods s) ++ services_routes (S si) r
    end.

  Definition all_routes (d : desc) : list route := services_routes 0 (d_services d).
  Definition routes_for (d : desc) (http : bytes) : list route :=
    filter (fun r => bytes_eqb (r_http r) http) (all_routes d).

  (* ---- pattern table: per HTTP method an ordered list of (target, description id, routes) ---- *)
  Record entry := { e_target : bytes; e_desc : Z; e_routes : list route }.
  Definition ptable := list (bytes * list entry).

  Fixpoint tbl_get (http : bytes) (t : ptable) : list entry :=
    match t with
    | [] => []
    | (h, es) :: r => if bytes_eqb http h then es else tbl_get http r
    end.

  Definition has_entry (n : bytes) (es : list entry) : bool := existsb (fun e => bytes_eqb (e_target e) n) es.

  (* what addTarget does to the list of one HTTP method *)
  Definition upd_method (n : bytes) (id : Z) (rs : list route) (es : list entry) : list entry :=
    match rs with
    | [] => filter (fun e => negb (bytes_eqb (e_target e) n)) es
    | _ => if has_entry n es
           then map (fun e => if bytes_eqb (e_target e) n then {| e_target := n; e_desc := id; e_routes := rs |} else e) es
           else es ++ [{| e_target := n; e_desc := id; e_routes := rs |}]
    end.

  Fixpoint dedup (l : list bytes) : list bytes :=
    match l with
    | [] => []
    | x :: r => if existsb (bytes_eqb x) r then dedup r else x :: dedup r
    end.

  Definition add_target (n : bytes) (d : desc) (t : ptable) : ptable :=
    let existing := map (fun he => (fst he, upd_method n (d_id d) (routes_for d (fst he)) (snd he))) t in
    let fresh := filter (fun h => negb (existsb (fun he => bytes_eqb h (fst he)) t)) (dedup (map r_http (all_routes d))) in
    filter (fun he => negb (match snd he with [] => true | _ => false end))
      (existing ++ map (fun h => (h, upd_method n (d_id d) (routes_for d h) [])) fresh).

  Definition remove_target (n : bytes) (t : ptable) : ptable :=
    filter (fun he => negb (match snd he with [] => true | _ => false end))
      (map (fun he => (fst he, upd_method n 0 [] (snd he))) t).

  (* RouteHTTP's iteration: first matching route of the first entry that has one *)
  Inductive hres := HFound (n : bytes) (id : Z) (r : route) | HNotFound.

  Fixpoint first_match (path : bytes) (rs : list route) : option route :=
    match rs with
    | [] => None
    | r :: rest => if matches (r_pattern r) path then Some r else first_match path rest
    end.

  Fixpoint probe_entries (path : bytes) (es : list entry) : hres :=
    match es with
    | [] => HNotFound
    | e :: rest => match first_match path (e_routes e) with
                   | Some r => HFound (e_target e) (e_desc e) r
                   | None => probe_entries path rest
                   end
    end.

  Definition probe_http (t : ptable) (http path : bytes) : hres := probe_entries path (tbl_get http t).

  (* ---- service table ---- *)
  Record sroute := { sr_target : bytes; sr_desc : Z; sr_idx : nat }.
  Definition stable := list (bytes * sroute).          (* sync.Map: service -> route *)
  Definition claims := list (bytes * list bytes).      (* svcRoutes: target -> claimed services *)

  Fixpoint s_load (svc : bytes) (t : stable) : option sroute :=
    match t with
    | [] => None
    | (k, v) :: r => if bytes_eqb svc k then Some v else s_load svc r
    end.
  Definition s_delete (svc : bytes) (t : stable) : stable := filter (fun kv => negb (bytes_eqb svc (fst kv))) t.
  Definition s_store (svc : bytes) (v : sroute) (t : stable) : stable := (svc, v) :: s_delete svc t.

  Fixpoint c_get (n : bytes) (c : claims) : list bytes :=
    match c with
    | [] => []
    | (k, v) :: r => if bytes_eqb n k then v else c_get n r
    end.
  Definition c_delete (n : bytes) (c : claims) : claims := filter (fun kv => negb (bytes_eqb n (fst kv))) c.

  (* updateRoutes, first loop: LoadOrStore each service; a service held by another target is skipped *)
  Fixpoint claim_services (n : bytes) (id : Z) (i : nat) (ss : list sdesc) (t : stable) (claimed : list bytes) : stable * list bytes :=
    match ss with
    | [] => (t, claimed)
    | s :: r =>
        match s_load (s_name s) t with
        | None => claim_services n id (S i) r (s_store (s_name s) {| sr_target := n; sr_desc := id; sr_idx := i |} t) (claimed ++ [s_name s])
        | Some old =>
            if bytes_eqb (sr_target old) n
            then (* same target re-lists the service: the route is refreshed to the new description (F6 repair) *)
                 claim_services n id (S i) r (s_store (s_name s) {| sr_target := n; sr_desc := id; sr_idx := i |} t) (claimed ++ [s_name s])
            else claim_services n id (S i) r t claimed
        end
    end.

  (* latest description per target (sr.descs), and handOver: a released service goes to the first other target,
     in name order, whose latest description lists it *)
  Definition sdescs := list (bytes * desc).
  Definition sd_delete (n : bytes) (l : sdescs) : sdescs := filter (fun kv => negb (bytes_eqb n (fst kv))) l.
  Fixpoint sd_insert (kv : bytes * desc) (l : sdescs) : sdescs :=
    match l with
    | [] => [kv]
    | kv' :: r => if bytes_leb (fst kv) (fst kv') then kv :: l else kv' :: sd_insert kv r
    end.
  Definition sd_set (n : bytes) (d : desc) (l : sdescs) : sdescs := sd_insert (n, d) (sd_delete n l).  (* kept sorted by name *)

  Fixpoint svc_index (svc : bytes) (i : nat) (ss : list sdesc) : option nat :=
    match ss with
    | [] => None
    | s :: r => if bytes_eqb (s_name s) svc then Some i else svc_index svc (S i) r
    end.

  Fixpoint c_append (n svc : bytes) (c : claims) : claims :=
    match c with
    | [] => [(n, [svc])]
    | (k, v) :: r => if bytes_eqb n k then (k, v ++ [svc]) :: r else (k, v) :: c_append n svc r
    end.

  Fixpoint first_lister (svc : bytes) (cands : sdescs) : option (bytes * desc * nat) :=
    match cands with
    | [] => None
    | (n, d) :: r => match svc_index svc 0 (d_services d) with
                     | Some i => Some (n, d, i)
                     | None => first_lister svc r
                     end
    end.

  Definition hand_over (released : list bytes) (by_ : bytes) (t : stable) (c : claims) (ds : sdescs) : stable * claims :=
    fold_left (fun tc svc =>
      match first_lister svc (sd_delete by_ ds) with
      | Some (n, d, i) =>
          match s_load svc (fst tc) with
          | None => (s_store svc {| sr_target := n; sr_desc := d_id d; sr_idx := i |} (fst tc), c_append n svc (snd tc))
          | Some _ => tc
          end
      | None => tc
      end) released (t, c).

  Definition sstate3 := (stable * claims * sdescs)%type.

  Definition update_routes (n : bytes) (d : desc) (st : sstate3) : sstate3 :=
    let '(t, c, ds) := st in
    let '(t1, claimed) := claim_services n (d_id d) 0 (d_services d) t [] in
    let outdated := filter (fun s => negb (existsb (bytes_eqb s) claimed)) (c_get n c) in
    let t2 := fold_left (fun t s => s_delete s t) outdated t1 in
    let ds' := sd_set n d ds in
    let '(t3, c3) := hand_over outdated n t2 ((n, claimed) :: c_delete n c) ds' in
    (t3, c3, ds').

  Definition remove_starget (n : bytes) (st : sstate3) : sstate3 :=
    let '(t, c, ds) := st in
    let released := c_get n c in
    let ds' := sd_delete n ds in
    let '(t3, c3) := hand_over released n (fold_left (fun t s => s_delete s t) released t) (c_delete n c) ds' in
    (t3, c3, ds').

  (* ---- parseRPCName ---- *)
  Fixpoint cut_slash (s : bytes) : option (bytes * bytes) :=
    match s with
    | [] => None
    | c :: r => if (c =? 47)%N then Some ([], r)
                else match cut_slash r with Some (a, b) => Some (c :: a, b) | None => None end
    end.
  Definition strip_slash (s : bytes) : bytes :=
    match s with c :: r => if (c =? 47)%N then r else s | [] => [] end.
  Definition parse_rpc_name (s : bytes) : option (bytes * bytes) := cut_slash (strip_slash s).

  (* ---- whole-router state machine ---- *)
  Record rstate := { st_watch : list bytes; st_closed : list bytes (* unused *); st_pt : ptable; st_st : sstate3 }.
  Definition init_state : rstate := {| st_watch := []; st_closed := []; st_pt := []; st_st := ([], [], []) |}.

  Inductive op := OWatch (n : bytes) | OUpdate (n : bytes) (d : desc) | OClose (n : bytes).

  Definition watched (n : bytes) (s : rstate) : bool := existsb (bytes_eqb n) (st_watch s).

  (* The harness keeps one watcher per successful Watch and only updates/closes through a live watcher, so
     Update/Close on an unwatched name are no-ops here (there is no watcher object to call). Returns the op's result: 1 ok, 0 refused. *)
  Definition step (s : rstate) (o : op) : rstate * Z :=
    match o with
    | OWatch n => if watched n s then (s, 0)
                  else ({| st_watch := n :: st_watch s; st_closed := st_closed s; st_pt := st_pt s; st_st := st_st s |}, 1)
    | OUpdate n d => if watched n s
                     then ({| st_watch := st_watch s; st_closed := st_closed s; st_pt := add_target n d (st_pt s); st_st := update_routes n d (st_st s) |}, 1)
                     else (s, 0)
    | OClose n => if watched n s
                  then ({| st_watch := filter (fun x => negb (bytes_eqb n x)) (st_watch s); st_closed := st_closed s;
                           st_pt := remove_target n (st_pt s); st_st := remove_starget n (st_st s) |}, 1)
                  else (s, 0)
    end.

  Definition probe_grpc (s : rstate) (svc : bytes) : option sroute := s_load svc (fst (fst (st_st s))).
End Tables.

(* ---- instantiation used by the correspondence: literal templates ---- *)
Definition lit_char (c : N) : bool :=
  is_lower c || is_upper c || is_digit c || (c =? 47)%N || (c =? 46)%N || (c =? 45)%N || (c =? 95)%N.
Definition lit_valid (p : bytes) : bool :=
  match p with 47%N :: _ => forallb lit_char p | _ => false end.
Definition lit_matches (p path : bytes) : bool := bytes_eqb p path.

(* ---- val coding ---- *)
Definition as_binding (v : val) : binding := {| b_http := as_S (nthv 0 v); b_pattern := as_S (nthv 1 v) |}.
Definition as_mdesc (v : val) : mdesc := {| m_name := as_S (nthv 0 v); m_bindings := map as_binding (as_L (nthv 1 v)) |}.
Definition as_sdesc (v : val) : sdesc := {| s_name := as_S (nthv 0 v); s_methods := map as_mdesc (as_L (nthv 1 v)) |}.
Definition as_desc (v : val) : desc := {| d_id := as_Z (nthv 0 v); d_services := map as_sdesc (as_L (nthv 1 v)) |}.
Definition as_op (v : val) : op :=
  match as_Z (nthv 0 v) with
  | 0 => OWatch (as_S (nthv 1 v))
  | 1 => OUpdate (as_S (nthv 1 v)) (as_desc (nthv 2 v))
  | _ => OClose (as_S (nthv 1 v))
  end.

Definition v_hres (r : hres) : val :=
  match r with
  | HNotFound => VL [VN 5]    (* codes.NotFound *)
  | HFound n id r => VL [VN 0; VS n; VN id; vnat (r_svc r); vnat (r_meth r); VN (r_bind r)]
  end.
Definition v_sres (r : option sroute) : val :=
  match r with
  | None => VL [VN 12]        (* codes.Unimplemented *)
  | Some r => VL [VN 0; VS (sr_target r); VN (sr_desc r); vnat (sr_idx r)]
  end.

(* input: ( ops http-probes grpc-probes ) ; output: per op ( result http-results grpc-results ) *)
Definition run_history (v : val) : val :=
  let ops := map as_op (as_L (nthv 0 v)) in
  let hp := map (fun p => (as_S (nthv 0 p), as_S (nthv 1 p))) (as_L (nthv 1 v)) in
  let gp := map as_S (as_L (nthv 2 v)) in
  VL (snd (fold_left (fun acc o =>
        let '(s, out) := acc in
        let '(s', res) := step lit_valid s o in
        (s', out ++ [VL [VN res;
                         VL (map (fun p => v_hres (probe_http lit_matches (st_pt s') (fst p) (snd p))) hp);
                         VL (map (fun g => v_sres (probe_grpc s' g)) gp)]]))
      ops (init_state, []))).

(* ================= the property, executable, written against the history only =================
   spec state: live targets with their latest description (None before the first update); for every
   service the earliest standing claimant as far as the text of C14 determines it ("the earlier claimant
   keeps it"); and the services whose owner released them while another live target still lists them
   (after which C06 requires the remaining sole claimant to be routed). *)
Record sstate := { sp_live : list (bytes * option desc); sp_owner : list (bytes * bytes); sp_orphan : list bytes }.

Fixpoint live_get (n : bytes) (l : list (bytes * option desc)) : option (option desc) :=
  match l with
  | [] => None
  | (k, d) :: r => if bytes_eqb n k then Some d else live_get n r
  end.
Definition live_set (n : bytes) (d : option desc) (l : list (bytes * option desc)) :=
  (n, d) :: filter (fun kv => negb (bytes_eqb n (fst kv))) l.
Definition live_del (n : bytes) (l : list (bytes * option desc)) := filter (fun kv => negb (bytes_eqb n (fst kv))) l.

Definition lists_svc (d : desc) (svc : bytes) : bool := existsb (fun s => bytes_eqb (s_name s) svc) (d_services d).
Definition claimants (sp : sstate) (svc : bytes) : list (bytes * desc) :=
  flat_map (fun kv => match snd kv with Some d => if lists_svc d svc then [(fst kv, d)] else [] | None => [] end) (sp_live sp).

Fixpoint owner_get (svc : bytes) (l : list (bytes * bytes)) : option bytes :=
  match l with [] => None | (k, v) :: r => if bytes_eqb svc k then Some v else owner_get svc r end.
Definition owner_del (svc : bytes) (l : list (bytes * bytes)) := filter (fun kv => negb (bytes_eqb svc (fst kv))) l.

Definition svc_names (d : desc) : list bytes := map s_name (d_services d).

(* after every op the owner of every service is re-derived: a standing owner keeps the service; if the owner
   left and exactly one claimant remains it is the owner; with several remaining claimants the text does not
   say who gets it (undetermined: any claimant is accepted) *)
Definition renorm_owner (all_svcs : list bytes) (sp : sstate) : sstate :=
  {| sp_live := sp_live sp;
     sp_owner := flat_map (fun svc =>
        let cl := claimants sp svc in
        match owner_get svc (sp_owner sp) with
        | Some o => if existsb (fun c => bytes_eqb (fst c) o) cl then [(svc, o)]
                    else match cl with [c] => [(svc, fst c)] | _ => [] end
        | None => match cl with [c] => [(svc, fst c)] | _ => [] end
        end) all_svcs;
     sp_orphan := [] |}.

Definition spec_step (all_svcs : list bytes) (sp : sstate) (o : op) : sstate :=
  renorm_owner all_svcs
  match o with
  | OWatch n => match live_get n (sp_live sp) with
                | Some _ => sp
                | None => {| sp_live := live_set n None (sp_live sp); sp_owner := sp_owner sp; sp_orphan := [] |}
                end
  | OUpdate n d =>
      match live_get n (sp_live sp) with
      | None => sp
      | Some _ => {| sp_live := live_set n (Some d) (sp_live sp); sp_owner := sp_owner sp; sp_orphan := [] |}
      end
  | OClose n => {| sp_live := live_del n (sp_live sp); sp_owner := sp_owner sp; sp_orphan := [] |}
  end.

(* first matching route of a description, as a val to compare with the observation *)
Definition desc_first (n : bytes) (d : desc) (http path : bytes) : option val :=
  match first_match lit_matches path (routes_for lit_valid d http) with
  | Some r => Some (v_hres (HFound n (d_id d) r))
  | None => None
  end.

Definition check_http (sp : sstate) (http path : bytes) (obs : val) : option Z :=
  let cands := flat_map (fun kv => match snd kv with
                                   | Some d => match desc_first (fst kv) d http path with Some v => [v] | None => [] end
                                   | None => [] end) (sp_live sp) in
  match cands with
  | [] => if val_eqb obs (VL [VN 5]) then None
          else if Z.eqb (as_Z (nthv 0 obs)) 0 then Some 2 else Some 1
  | [v] => if val_eqb obs v then None
           else if Z.eqb (as_Z (nthv 0 obs)) 0 then Some 2 else Some 1
  | _ => if existsb (val_eqb obs) cands then None else Some 2   (* contested: any claimant's first match *)
  end.

Definition svc_indices (d : desc) (svc : bytes) : list nat :=
  map fst (filter (fun p => bytes_eqb (s_name (snd p)) svc) (combine (seq 0 (length (d_services d))) (d_services d))).

Definition obs_is_claimant (obs : val) (c : bytes * desc) (svc : bytes) : bool :=
  Z.eqb (as_Z (nthv 0 obs)) 0 && bytes_eqb (as_S (nthv 1 obs)) (fst c) && Z.eqb (as_Z (nthv 2 obs)) (d_id (snd c)) &&
  existsb (Nat.eqb (as_nat (nthv 3 obs))) (svc_indices (snd c) svc).

Definition check_grpc (sp : sstate) (svc : bytes) (obs : val) : option Z :=
  let cl := claimants sp svc in
  let unimpl := val_eqb obs (VL [VN 12]) in
  match cl with
  | [] => if unimpl then None else Some 3
  | [c] => if obs_is_claimant obs c svc then None
           else if unimpl then Some 4
           else Some 3
  | _ => match owner_get svc (sp_owner sp) with
         | Some o => match filter (fun c => bytes_eqb (fst c) o) cl with
                     | c :: _ => if obs_is_claimant obs c svc then None else Some 8
                     | [] => if unimpl || existsb (fun c => obs_is_claimant obs c svc) cl then None else Some 3
                     end
         | None => if unimpl || existsb (fun c => obs_is_claimant obs c svc) cl then None else Some 3
         end
  end.

Fixpoint first_some {A} (f : A -> option Z) (l : list A) : option Z :=
  match l with [] => None | x :: r => match f x with Some z => Some z | None => first_some f r end end.

Definition prop_history (input impl : val) : option Z :=
  let ops := map as_op (as_L (nthv 0 input)) in
  let hp := map (fun p => (as_S (nthv 0 p), as_S (nthv 1 p))) (as_L (nthv 1 input)) in
  let gp := map as_S (as_L (nthv 2 input)) in
  (fix go (sp : sstate) (ops : list op) (outs : list val) : option Z :=
     match ops, outs with
     | o :: ops', out :: outs' =>
         let expect_res := match o with
                           | OWatch n => match live_get n (sp_live sp) with Some _ => 0 | None => 1 end
                           | OUpdate n _ | OClose n => match live_get n (sp_live sp) with Some _ => 1 | None => 0 end
                           end in
         if negb (Z.eqb (as_Z (nthv 0 out)) expect_res) then Some 5 else
         let sp' := spec_step gp sp o in
         match first_some (fun pq => check_http sp' (fst (fst pq)) (snd (fst pq)) (snd pq)) (combine hp (as_L (nthv 1 out))) with
         | Some z => Some z
         | None =>
             match first_some (fun pq => check_grpc sp' (fst pq) (snd pq)) (combine gp (as_L (nthv 2 out))) with
             | Some z => Some z
             | None => go sp' ops' outs'
             end
         end
     | [], [] => None
     | _, _ => Some 6   (* wrong number of steps observed *)
     end) {| sp_live := []; sp_owner := []; sp_orphan := [] |} ops (as_L impl).

Definition chk_c06 : val -> val := mk_chk run_history prop_history.
