(* C20: the strict template parser, internal/httprule/{tokenize,parse}.go, function by function.
   tokenize = scan (shared with the routing parser) + the end marker; parser = accept / segment / segments / variable /
   fieldPath / template with the post-processing of the last segment (verb split).  Definitions only.
   The Go parser is a recursive descent without backtracking: every failure is final, so option suffices.  Recursion
   (segments -> segment -> variable -> segments) is on explicit fuel; Proofs/StrictProofs.v shows that the fuel the entry
   point passes is never what makes the result None (fuel_irrelevant). *)
From GB Require Export Model.TemplateRun.
Open Scope N_scope.

(* tokenize(tmpl[1:]) *)
Definition st_tokenize (path : bytes) : list bytes := scan O path [] ++ [eof].

(* checkIdent: every character a letter, a digit (not first) or '_'; the empty string passes (it cannot occur) *)
Definition st_ident (s : bytes) : bool :=
  match s with
  | [] => true
  | c :: r => (is_alpha c || (c =? 95)) && forallb (fun x => is_alpha x || is_digit x || (x =? 95)) r
  end.

(* fieldPath: IDENT *( "." IDENT ) *)
Fixpoint st_field_path_rest (fuel : nat) (toks : list bytes) (acc : list bytes) : option (list bytes * list bytes) :=
  match fuel with
  | O => None
  | S f =>
      match toks with
      | d :: r => if tok_is c_dot d
                  then match r with
                       | c :: r' => if st_ident c then st_field_path_rest f r' (acc ++ [c]) else None
                       | [] => None end
                  else Some (acc, toks)
      | [] => Some (acc, toks)
      end
  end.
Definition st_field_path (toks : list bytes) : option (list bytes * list bytes) :=
  match toks with
  | c :: r => if st_ident c then st_field_path_rest (length toks) r [c] else None
  | [] => None
  end.

(* segment(): result, "is a multi segment", remaining tokens.  [inner] is segments() for the inside of a variable *)
Definition st_segment (inner : list bytes -> option (list seg * bool * list bytes)) (toks : list bytes)
  : option (seg * bool * list bytes) :=
  match toks with
  | [] => None
  | t :: r =>
      if tok_is c_star t then Some (SWild, false, r)
      else if bytes_eqb t s_deep then Some (SDeep, true, r)
      else if is_literal t then Some (SLit t, false, r)
      else if tok_is c_lbrace t then
        match st_field_path r with
        | None => None
        | Some (path, r1) =>
            match r1 with
            | e :: r2 =>
                if tok_is c_eq e then
                  match inner r2 with
                  | Some (segs, multi, r3) =>
                      match r3 with
                      | c :: r4 => if tok_is c_rbrace c then Some (SVar path segs, multi, r4) else None
                      | [] => None end
                  | None => None
                  end
                else if tok_is c_rbrace e then Some (SVar path [SWild], false, r2) else None
            | [] => None
            end
        end
      else None
  end.

(* segments(): stops after a multi segment without looking at what follows *)
Fixpoint st_segments (fuel : nat) (toks : list bytes) : option (list seg * bool * list bytes) :=
  match fuel with
  | O => None
  | S f =>
      match st_segment (st_segments f) toks with
      | None => None
      | Some (s, ms, r) =>
          if ms then Some ([s], true, r)
          else match r with
               | t :: r' => if tok_is c_slash t
                            then match st_segments f r' with Some (more, m, r'') => Some (s :: more, m, r'') | None => None end
                            else Some ([s], false, r)
               | [] => Some ([s], false, r)
               end
      end
  end.

(* the end of template(): accept(lexemeEof) *)
Definition st_finish (segs : list seg) (verb : bytes) (lft : list bytes) : option template :=
  match lft with
  | e :: _ => if bytes_eqb e eof then Some {| t_segs := segs; t_verb := verb |} else None
  | [] => None
  end.

(* template() after segments(): a literal last segment is split at its last colon; after a variable a verb token may follow *)
Definition st_template (segs : list seg) (lft : list bytes) : option template :=
  match last segs SWild with
  | SLit l =>
      match last_index_of c_colon l O None with
      | Some i =>
          let verb := skipn (S i) l in
          let lit := firstn i l in
          if bytes_eqb lit [c_star] then st_finish (removelast segs ++ [SWild]) verb lft
          else if bytes_eqb lit s_deep then st_finish (removelast segs ++ [SDeep]) verb lft
          else if match lit with [] => (1 <? length segs)%nat | _ => false end then None
          else st_finish (removelast segs ++ [SLit lit]) verb lft
      | None => st_finish segs [] lft
      end
  | SVar _ _ =>
      match lft with
      | t :: r => if bytes_eqb t eof then st_finish segs [] lft
                  else if is_literal t then match t with
                                            | c :: v => if c =? c_colon then st_finish segs v r else None
                                            | [] => None end
                  else None
      | [] => None
      end
  | _ => st_finish segs [] lft
  end.

Definition st_parse (tmpl : bytes) : option template :=
  match tmpl with
  | c :: path =>
      if (c =? c_slash) && negb (existsb (N.eqb 0) tmpl) then
        let toks := st_tokenize path in
        match toks with
        | t :: _ =>
            if bytes_eqb t eof then Some {| t_segs := [SLit []]; t_verb := [] |}      (* the "/" template *)
            else match st_segments (S (length toks)) toks with
                 | Some (segs, _, lft) => st_template segs lft
                 | None => None
                 end
        | [] => None
        end
      else None
  | [] => None
  end.

(* ---------- runner: input ( kind text ast ) ; impl ( ) rejected | ( template ) ---------- *)
Definition run_c20_strict (v : val) : val :=
  match st_parse (as_S (nthv 1 v)) with Some t => VL [v_template t] | None => VL [] end.
Definition chk_c20_strict : val -> val := mk_chk run_c20_strict prop_c20_strict.
