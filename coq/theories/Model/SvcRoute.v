(* C14: routing of gRPC-style names ("/pkg.Svc/Method") by ServiceRouter.RouteGRPC / RouteHTTP after a claim history.
   Definitions only.  Builds on Model/Routers.v. *)
From GB Require Export Model.Routers.
Open Scope Z_scope.

Inductive nkind := KGrpc | KHttp | KWeb (* through the gRPC-Web bridge / the gRPC proxy: the service field is not observed *).

Definition full_name (svc m : bytes) : bytes := 47%N :: svc ++ 47%N :: m.

Definition obs_svc (k : nkind) (svc : bytes) : bytes := match k with KWeb => [] | _ => svc end.

(* observable: ( 0 target service rpcname ) | ( code ) | ( code 405 ) *)
Definition route_name (k : nkind) (http : bytes) (s : rstate) (name : bytes) : val :=
  let unknown := match k with KHttp => 5 | _ => 12 end in
  match k, bytes_eqb http s_post with
  | KHttp, false => VL [VN 12; VN 405]
  | _, _ =>
    match parse_rpc_name name with
    | None => VL [VN unknown]
    | Some (svc, m) =>
        match probe_grpc s svc with
        | None => VL [VN unknown]
        | Some r => VL [VN 0; VS (sr_target r); VS (obs_svc k svc); VS (full_name svc m)]
        end
    end
  end.

Definition as_kind (v : val) : nkind := match as_Z v with 0 => KGrpc | 1 => KHttp | _ => KWeb end.

Definition run_c14 (v : val) : val :=
  let ops := map as_op (as_L (nthv 3 v)) in
  let s := fold_left (fun s o => fst (step lit_valid s o)) ops init_state in
  route_name (as_kind (nthv 0 v)) (as_S (nthv 1 v)) s (as_S (nthv 2 v)).

(* ---- property, executable, from the history only ---- *)
Definition spec_after (all_svcs : list bytes) (ops : list op) : sstate :=
  fold_left (spec_step all_svcs) ops {| sp_live := []; sp_owner := []; sp_orphan := [] |}.

Definition ops_svcs (ops : list op) : list bytes :=
  flat_map (fun o => match o with OUpdate _ d => svc_names d | _ => [] end) ops.

(* 1: name parsed wrongly / method not passed verbatim  2: routed to a target that does not list the service
   3: known, uncontested service not routed  4: earlier standing claimant lost a contested service
   5: wrong error class for unknown / malformed / non-POST *)
Definition prop_c14 (input impl : val) : option Z :=
  let k := as_kind (nthv 0 input) in
  let http := as_S (nthv 1 input) in
  let name := as_S (nthv 2 input) in
  let ops := map as_op (as_L (nthv 3 input)) in
  let sp := spec_after (ops_svcs ops) ops in
  let unknown := match k with KHttp => 5 | _ => 12 end in
  let found := Z.eqb (as_Z (nthv 0 impl)) 0 in
  match k, bytes_eqb http s_post with
  | KHttp, false => if val_eqb impl (VL [VN 12; VN 405]) then None else Some 5
  | _, _ =>
    match parse_rpc_name name with
    | None => if val_eqb impl (VL [VN unknown]) then None else if found then Some 1 else Some 5
    | Some (svc, m) =>
        let cl := claimants sp svc in
        let ok_for (c : bytes * desc) := val_eqb impl (VL [VN 0; VS (fst c); VS (obs_svc k svc); VS (full_name svc m)]) in
        match cl with
        | [] => if val_eqb impl (VL [VN unknown]) then None else if found then Some 2 else Some 5
        | [c] => if ok_for c then None
                 else if found then (if bytes_eqb (as_S (nthv 1 impl)) (fst c) then Some 1 else Some 2) else Some 3
        | _ => match owner_get svc (sp_owner sp) with
               | Some o => if existsb (fun c => bytes_eqb (fst c) o && ok_for c) cl then None
                           else if found then Some 4 else Some 3
               | None => if existsb ok_for cl || val_eqb impl (VL [VN unknown]) then None
                         else if found then Some 2 else Some 5
               end
        end
    end
  end.

Definition chk_c14 : val -> val := mk_chk run_c14 prop_c14.
