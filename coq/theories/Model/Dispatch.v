(* Model of WebBridge.ServeHTTP's dispatch (bridge.go) and of webbridge.parseMetadataQuery.  Definitions only. *)
From GB Require Export Base.Val.
From GB Require Import Model.MDFilter.
Open Scope N_scope.

Definition header_lines := list (bytes * bytes).   (* (name, value) in wire order *)

Definition hvalues (name : bytes) (hs : header_lines) : list bytes :=
  map snd (filter (fun kv => fold_eqb (fst kv) name) hs).
Definition hget (name : bytes) (hs : header_lines) : bytes :=
  match hvalues name hs with [] => [] | v :: _ => v end.

(* strings.Split(v, ",") *)
Fixpoint split_on (sep : N) (s : bytes) : list bytes :=
  match s with
  | [] => [[]]
  | c :: r =>
      if c =? sep then [] :: split_on sep r
      else match split_on sep r with
           | [] => [[c]]   (* unreachable: split_on never returns [] *)
           | t :: ts => (c :: t) :: ts
           end
  end.

Definition is_ows (c : N) : bool := (c =? 32) || (c =? 9).
Fixpoint trim_left (s : bytes) : bytes :=
  match s with c :: r => if is_ows c then trim_left r else s | [] => [] end.
Definition trim_ows (s : bytes) : bytes := rev (trim_left (rev (trim_left s))).

(* RFC 7230 #token list membership, case-insensitive, over every header line of that name *)
Definition has_token (tok : bytes) (values : list bytes) : bool :=
  existsb (fun v => existsb (fun t => fold_eqb (trim_ows t) tok) (split_on 44 v)) values.
(* sub-protocol names are compared exactly *)
Definition has_exact_token (tok : bytes) (values : list bytes) : bool :=
  existsb (fun v => existsb (fun t => bytes_eqb (trim_ows t) tok) (split_on 44 v)) values.

Definition s_connection : bytes := [67;111;110;110;101;99;116;105;111;110].
Definition s_upgrade_h : bytes := [85;112;103;114;97;100;101].
Definition s_swp : bytes := [83;101;99;45;87;101;98;83;111;99;107;101;116;45;80;114;111;116;111;99;111;108].
Definition s_content_type : bytes := [67;111;110;116;101;110;116;45;84;121;112;101].
Definition s_upgrade : bytes := [117;112;103;114;97;100;101].
Definition s_websocket : bytes := [119;101;98;115;111;99;107;101;116].
Definition s_grpc_ws : bytes := [103;114;112;99;45;119;101;98;115;111;99;107;101;116;115].
Definition s_grpc_web : bytes := [97;112;112;108;105;99;97;116;105;111;110;47;103;114;112;99;45;119;101;98].

Inductive handler := HWS | HGrpcWS | HGrpcWeb | HHTTP.

(* media type of a Content-Type value: up to the first ';', OWS-trimmed, lower-cased *)
Definition media_type (v : bytes) : bytes :=
  lower (trim_ows (match split_on 59 v with t :: _ => t | [] => [] end)).

(* the code after the F19 repair: token semantics *)
Definition dispatch (hs : header_lines) : handler :=
  if has_token s_upgrade (hvalues s_connection hs) && has_token s_websocket (hvalues s_upgrade_h hs) then
    if has_exact_token s_grpc_ws (hvalues s_swp hs) then HGrpcWS else HWS
  else if prefix_b s_grpc_web (media_type (hget s_content_type hs)) then HGrpcWeb
  else HHTTP.

(* the code before the repair: whole first value compared *)
Definition dispatch_old (hs : header_lines) : handler :=
  if fold_eqb (hget s_connection hs) s_upgrade && fold_eqb (hget s_upgrade_h hs) s_websocket then
    if existsb (bytes_eqb s_grpc_ws) (hvalues s_swp hs) then HGrpcWS else HWS
  else if prefix_b s_grpc_web (hget s_content_type hs) then HGrpcWeb
  else HHTTP.

(* ---- the property as a relation: token lists per RFC 7230 ---- *)
Definition no_comma (t : bytes) : Prop := ~ In 44 t.
(* v is the comma-join of the elements of ts *)
Fixpoint join_comma (ts : list bytes) : bytes :=
  match ts with
  | [] => []
  | [t] => t
  | t :: r => t ++ 44 :: join_comma r
  end.
Definition lists_token (eq : bytes -> bytes -> bool) (tok : bytes) (values : list bytes) : Prop :=
  exists v ts t, In v values /\ v = join_comma ts /\ ts <> [] /\ Forall no_comma ts /\ In t ts /\ eq (trim_ows t) tok = true.

Definition dispatch_spec (hs : header_lines) (h : handler) : Prop :=
  let ws := lists_token fold_eqb s_upgrade (hvalues s_connection hs) /\ lists_token fold_eqb s_websocket (hvalues s_upgrade_h hs) in
  match h with
  | HGrpcWS => ws /\ lists_token bytes_eqb s_grpc_ws (hvalues s_swp hs)
  | HWS => ws /\ ~ lists_token bytes_eqb s_grpc_ws (hvalues s_swp hs)
  | HGrpcWeb => ~ ws /\ prefix_b s_grpc_web (media_type (hget s_content_type hs)) = true
  | HHTTP => ~ ws /\ prefix_b s_grpc_web (media_type (hget s_content_type hs)) = false
  end.

(* ---- parseMetadataQuery on url.Values (key -> values, as url.ParseQuery produced them) ---- *)
Definition qvalues := list (bytes * list bytes).

Fixpoint suffix_b (p s : bytes) : bool := prefix_b (rev p) (rev s).

Definition is_md_entry (param k : bytes) : bool := prefix_b (param ++ [91]) k && suffix_b [93] k.
Definition md_entry_key (param k : bytes) : bytes :=
  firstn (length k - S (length param) - 1) (skipn (S (length param)) k).

(* after the repair: the empty key is not a valid metadata key (gRPC: 1*key-char) *)
Definition valid_query_key (k : bytes) : bool := negb (match k with [] => true | _ => false end) && valid_md_key k.

Definition query_md (param : bytes) (q : qvalues) : md :=
  fold_left (fun m kv =>
    if is_md_entry param (fst kv) && valid_query_key (md_entry_key param (fst kv))
    then fold_left (fun m v => if valid_md_value v then md_append (md_entry_key param (fst kv)) v m else m) (snd kv) m
    else m) q [].

Definition query_rest (param : bytes) (q : qvalues) : qvalues :=
  filter (fun kv => negb (is_md_entry param (fst kv))) q.

(* ---- val coding ---- *)
Definition as_lines (v : val) : header_lines := as_pairs v.
Definition v_handler (h : handler) : val := VN (match h with HWS => 1 | HGrpcWS => 2 | HGrpcWeb => 3 | HHTTP => 0 end)%Z.
Definition run_dispatch (v : val) : val := v_handler (dispatch (as_lines v)).
Definition prop_dispatch (input impl : val) : option Z :=
  if val_eqb impl (run_dispatch input) then None else Some 1%Z.
Definition chk_c19_dispatch : val -> val := mk_chk run_dispatch prop_dispatch.

Definition default_param : bytes := [95;109;101;116;97;100;97;116;97].
Definition v_qvalues (q : qvalues) : val := v_md q.
Definition run_mdquery (v : val) : val :=
  let param := match as_S (nthv 0 v) with [] => default_param | p => p end in
  let q := as_md (nthv 1 v) in
  VL [v_md (query_md param q); v_qvalues (query_rest param q)].

(* property on the implementation's output ( md rest ):
   1: metadata entry with an invalid key or a non-printable value, or not present in the query
   2: a param[...] key survives in the remaining parameters, or an ordinary parameter was lost/changed *)
Definition prop_mdquery (input impl : val) : option Z :=
  let param := match as_S (nthv 0 input) with [] => default_param | p => p end in
  let q := as_md (nthv 1 input) in
  let m := as_md (nthv 0 impl) in
  let rest := as_md (nthv 1 impl) in
  if negb (forallb (fun kv => valid_query_key (fst kv) && forallb valid_md_value (snd kv) &&
                     forallb (fun v => existsb (fun qkv => is_md_entry param (fst qkv) &&
                                                  bytes_eqb (lower (md_entry_key param (fst qkv))) (fst kv) &&
                                                  existsb (bytes_eqb v) (snd qkv)) q) (snd kv)) m)
  then Some 1%Z
  else if negb (val_eqb (v_qvalues rest) (v_qvalues (query_rest param q))) then Some 2%Z
  (* completeness: every entry of the query with a valid key and a printable value is in the metadata, under the lower-cased
     key, as many times as the query has it (entries whose keys differ only in letter case are merged, none is lost) *)
  else if negb (forallb (fun qkv =>
                   negb (is_md_entry param (fst qkv) && valid_query_key (lower (md_entry_key param (fst qkv)))) ||
                   forallb (fun v => negb (valid_md_value v) ||
                      let k := lower (md_entry_key param (fst qkv)) in
                      let want := length (filter (bytes_eqb v) (flat_map (fun e => if is_md_entry param (fst e) && bytes_eqb (lower (md_entry_key param (fst e))) k then snd e else []) q)) in
                      let got := length (filter (bytes_eqb v) (flat_map (fun e => if bytes_eqb (fst e) k then snd e else []) m)) in
                      Nat.eqb want got) (snd qkv)) q)
  then Some 3%Z
  else None.
Definition chk_c19_mdquery : val -> val := mk_chk run_mdquery prop_mdquery.
