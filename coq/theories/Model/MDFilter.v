(* Model of grpcadapter/metadata.go (ProxyMDFilter), ProxyForwarder.baseContext, and of how each of the five
   entry points builds the incoming metadata.  Definitions only.
   metadata.MD is a Go map: modelled as an association list with unique stored keys; order is irrelevant
   and removed by [sort_md] before anything is compared.  [lower] is ASCII lower-casing, which is what
   strings.ToLower does on the ASCII keys HTTP and gRPC allow. *)
From GB Require Export Base.Val.
From GB Require Gen.Extracted.
From GB Require Model.Timeout.
Open Scope N_scope.

Definition md := list (bytes * list bytes).

Fixpoint md_lookup (k : bytes) (m : md) : list bytes :=
  match m with
  | [] => []
  | (k', vs) :: r => if bytes_eqb k k' then vs else md_lookup k r
  end.

Definition md_del_raw (k : bytes) (m : md) : md :=
  filter (fun kv => negb (bytes_eqb k (fst kv))) m.

(* MD.Get / MD.Set / MD.Append / MD.Delete lower-case the key they are given *)
Definition md_get (k : bytes) (m : md) : list bytes := md_lookup (lower k) m.
Definition md_set (k : bytes) (vs : list bytes) (m : md) : md :=
  match vs with
  | [] => m
  | _ => (lower k, vs) :: md_del_raw (lower k) m
  end.
Definition md_append (k : bytes) (v : bytes) (m : md) : md :=
  (lower k, md_lookup (lower k) m ++ [v]) :: md_del_raw (lower k) m.
Definition md_delete (k : bytes) (m : md) : md := md_del_raw (lower k) m.

(* ---- base64 (encoding/base64 StdEncoding / RawStdEncoding, non-strict) ---- *)
Definition b64_val (c : N) : option N :=
  if (65 <=? c) && (c <=? 90) then Some (c - 65)
  else if (97 <=? c) && (c <=? 122) then Some (c - 71)
  else if (48 <=? c) && (c <=? 57) then Some (c + 4)
  else if c =? 43 then Some 62
  else if c =? 47 then Some 63
  else None.

Definition is_crlf (c : N) : bool := (c =? 10) || (c =? 13).
Definition strip_crlf (s : bytes) : bytes := filter (fun c => negb (is_crlf c)) s.

Definition quantum (a b c d : N) : list N :=
  let v := a * 262144 + b * 4096 + c * 64 + d in
  [v / 65536; (v / 256) mod 256; v mod 256].

(* decode the CR/LF-free input; padded = StdEncoding, otherwise RawStdEncoding.  fuel = length *)
Fixpoint b64_go (padded : bool) (fuel : nat) (s : bytes) : option bytes :=
  match fuel with
  | O => match s with [] => Some [] | _ => None end
  | S fuel' =>
    match s with
    | [] => Some []
    | [_] => None
    | [a; b] =>
        if padded then None else
        match b64_val a, b64_val b with
        | Some x, Some y => Some (firstn 1 (quantum x y 0 0))
        | _, _ => None
        end
    | [a; b; c] =>
        if padded then None else
        match b64_val a, b64_val b, b64_val c with
        | Some x, Some y, Some z => Some (firstn 2 (quantum x y z 0))
        | _, _, _ => None
        end
    | a :: b :: c :: d :: r =>
        match b64_val a, b64_val b with
        | Some x, Some y =>
            match b64_val c, b64_val d with
            | Some z, Some w =>
                match b64_go padded fuel' r with
                | Some t => Some (quantum x y z w ++ t)
                | None => None
                end
            | Some z, None =>
                (* "xyz=" : one padding char, must be the end *)
                if padded && (d =? 61) then match r with [] => Some (firstn 2 (quantum x y z 0)) | _ => None end
                else None
            | None, _ =>
                (* "xy==" *)
                if padded && (c =? 61) && (d =? 61) then match r with [] => Some (firstn 1 (quantum x y 0 0)) | _ => None end
                else None
            end
        | _, _ => None
        end
    end
  end.

(* decodeBinHeader: padded decoder iff len(v) % 4 == 0 (length taken BEFORE newline stripping) *)
Definition decode_bin_header (v : bytes) : option bytes :=
  let s := strip_crlf v in
  b64_go (Nat.eqb (Nat.modulo (length v) 4) 0) (length s) s.

(* ---- the filter ---- *)
Definition gw_prefix : bytes := Extracted.md_gateway_prefix.
Definition timeout_key : bytes := Extracted.md_timeout_key.
Definition bin_suffix : bytes := Extracted.md_bin_suffix.

Definition has_gw_prefix (k : bytes) : bool :=
  (length gw_prefix <? length k)%nat && fold_eqb (firstn (length gw_prefix) k) gw_prefix.
Definition has_bin_suffix (k : bytes) : bool :=
  (length bin_suffix <? length k)%nat && fold_eqb (skipn (length k - length bin_suffix) k) bin_suffix.

Definition rename_req (prefix k : bytes) : bytes :=
  if has_gw_prefix k then skipn (length gw_prefix) k else prefix ++ k.

Fixpoint keep_some {A} (l : list (option A)) : list A :=
  match l with
  | [] => []
  | Some a :: r => a :: keep_some r
  | None :: r => keep_some r
  end.

Definition xform_req (k' : bytes) (vs : list bytes) : list bytes :=
  if has_bin_suffix k' then keep_some (map decode_bin_header vs) else vs.

(* filterRequest: for k in allow (in order): out.Set(rename k, xform (md.Get k)) *)
Definition filter_request_step (prefix : bytes) (m : md) (out : md) (k : bytes) : md :=
  match md_get k m with
  | [] => out
  | vs => let k' := rename_req prefix k in md_set k' (xform_req k' vs) out
  end.

Definition filter_request (allow : list bytes) (prefix : bytes) (m : md) : md :=
  fold_left (filter_request_step prefix m) allow [].

Definition filter_response_step (prefix : bytes) (m : md) (out : md) (k : bytes) : md :=
  match md_get k m with
  | [] => out
  | vs => md_set (prefix ++ k) vs out
  end.

Definition filter_response (allow : list bytes) (prefix : bytes) (m : md) : md :=
  fold_left (filter_response_step prefix m) allow [].

(* FilterRequestMD: filterRequest + grpc-timeout passed through for the forwarder *)
Definition filter_request_md (allow : list bytes) (prefix : bytes) (m : md) : md :=
  let out := filter_request allow prefix m in
  match md_get timeout_key m with
  | [] => out
  | vs => md_set timeout_key vs out
  end.

(* baseContext: the timeout value (first one) is consumed and the key deleted; returns (outgoing md, timeout text) *)
Definition base_context (m : md) : md * option bytes :=
  match md_get timeout_key m with
  | [] => (m, None)
  | v :: _ => (md_delete timeout_key m, Some v)
  end.

Definition outgoing_md (allow : list bytes) (prefix : bytes) (incoming : md) : md :=
  fst (base_context (filter_request_md allow prefix incoming)).

(* ---- entry points: how the incoming MD is built from what the client sent ---- *)
Definition pairs := list (bytes * bytes).

(* http.Header built by Add / ReadMIMEHeader: values grouped under the canonical key, in order;
   headersToMD then md.Set's each under the lower-cased key.  Net effect: append under lower key. *)
Definition headers_to_md (hs : pairs) : md :=
  fold_left (fun m kv => md_append (fst kv) (snd kv) m) hs [].

(* metadata.Join(a, b): for each key of a then b, append values (no case change: both are lower-case already) *)
Definition md_join (a b : md) : md :=
  fold_left (fun m kv => (fst kv, md_lookup (fst kv) m ++ snd kv) :: md_del_raw (fst kv) m) (a ++ b) [].

(* isValidMetadataKey / isValidMetadataValue *)
Definition valid_md_key_char (c : N) : bool :=
  is_lower c || is_upper c || is_digit c || (c =? 95) || (c =? 45) || (c =? 46).
Definition valid_md_key (k : bytes) : bool := forallb valid_md_key_char k.
Definition valid_md_value (v : bytes) : bool := forallb (fun c => (32 <=? c) && (c <=? 126)) v.

(* query metadata: entries already extracted as (key inside the brackets, value), in query order per key *)
Definition query_to_md (qs : pairs) : md :=
  fold_left (fun m kv => if valid_md_key (fst kv) && valid_md_value (snd kv) then md_append (fst kv) (snd kv) m else m) qs [].

Inductive entry := EHTTP | EWS | EGrpcWeb | EGrpcWS | EGrpc.

Definition entry_md (e : entry) (hs qs : pairs) : md :=
  match e with
  | EWS => md_join (query_to_md qs) (headers_to_md hs)
  | _ => headers_to_md hs
  end.

(* ---- canonical form for comparison: sort by key ---- *)
Fixpoint insert_md (kv : bytes * list bytes) (m : md) : md :=
  match m with
  | [] => [kv]
  | kv' :: r => if bytes_leb (fst kv) (fst kv') then kv :: m else kv' :: insert_md kv r
  end.
Definition sort_md (m : md) : md := fold_right insert_md [] m.

Fixpoint insert_pair (kv : bytes * bytes) (m : pairs) : pairs :=
  match m with
  | [] => [kv]
  | kv' :: r =>
      if bytes_leb (fst kv) (fst kv') && negb (bytes_eqb (fst kv) (fst kv') && negb (bytes_leb (snd kv) (snd kv')))
      then kv :: m else kv' :: insert_pair kv r
  end.
Definition sort_pairs (m : pairs) : pairs := fold_right insert_pair [] m.

Definition md_pairs (m : md) : pairs := flat_map (fun kv => map (fun v => (fst kv, v)) (snd kv)) m.

(* ---- val coding ---- *)
Definition v_bytes_list (l : list bytes) : val := VL (map VS l).
Definition v_md (m : md) : val := VL (map (fun kv => VL [VS (fst kv); v_bytes_list (snd kv)]) (sort_md m)).
Definition v_pairs (p : pairs) : val := VL (map (fun kv => VL [VS (fst kv); VS (snd kv)]) (sort_pairs p)).
Definition as_bytes_list (v : val) : list bytes := map as_S (as_L v).
Definition as_pairs (v : val) : pairs := map (fun x => (as_S (nthv 0 x), as_S (nthv 1 x))) (as_L v).
Definition as_md (v : val) : md := map (fun x => (as_S (nthv 0 x), as_bytes_list (nthv 1 x))) (as_L v).
Definition as_entry (v : val) : entry :=
  match as_Z v with 0%Z => EHTTP | 1%Z => EWS | 2%Z => EGrpcWeb | 3%Z => EGrpcWS | _ => EGrpc end.

Record c07_input := {
  i_entry : entry; i_allow_req : list bytes; i_prefix_req : bytes;
  i_allow_resp : list bytes; i_prefix_resp : bytes; i_allow_trl : list bytes; i_prefix_trl : bytes;
  i_headers : pairs; i_query : pairs; i_target_hdr : md; i_target_trl : md }.

Definition parse_c07 (v : val) : c07_input :=
  {| i_entry := as_entry (nthv 0 v); i_allow_req := as_bytes_list (nthv 1 v); i_prefix_req := as_S (nthv 2 v);
     i_allow_resp := as_bytes_list (nthv 3 v); i_prefix_resp := as_S (nthv 4 v);
     i_allow_trl := as_bytes_list (nthv 5 v); i_prefix_trl := as_S (nthv 6 v);
     i_headers := as_pairs (nthv 7 v); i_query := as_pairs (nthv 8 v);
     i_target_hdr := as_md (nthv 9 v); i_target_trl := as_md (nthv 10 v) |}.

(* what the client can see of the target's header/trailer metadata, per entry point (WebSocket: nothing) *)
Definition client_md (i : c07_input) : pairs :=
  match i_entry i with
  | EWS => []
  | _ => md_pairs (filter_response (i_allow_resp i) (i_prefix_resp i) (i_target_hdr i)) ++
         md_pairs (filter_response (i_allow_trl i) (i_prefix_trl i) (i_target_trl i))
  end.

Definition run_c07 (v : val) : val :=
  let i := parse_c07 v in
  let inc := entry_md (i_entry i) (i_headers i) (i_query i) in
  let bc := base_context (filter_request_md (i_allow_req i) (i_prefix_req i) inc) in
  (* third observable: does the outgoing call carry a deadline?  The harness' gRPC client always sets one
     (a gRPC client expresses grpc-timeout through its context); elsewhere iff the timeout text decodes. *)
  let dl := match i_entry i with
            | EGrpc => true
            | _ => match snd bc with
                   | Some t => match Timeout.decode_timeout t with Some _ => true | None => false end
                   | None => false
                   end
            end in
  VL [ v_md (fst bc); v_pairs (client_md i); vbool dl ].

(* ---- the property, executable, evaluated on the implementation's observables ----
   impl = ( outgoing-md  client-pairs  timeout-text-option )
   1: a key reached the target that no allow-list entry, renamed, produces from a client-supplied key
   2: grpc-timeout among the outgoing keys
   3: a (key,value) reached the client that is not an allow-listed target header/trailer (with prefix)
   4: allow-list empty but something crossed
   5: a value reached the target under a -bin key that is not the base64 decoding of a client-supplied value *)
Definition supplied (i : c07_input) (k : bytes) : bool :=
  existsb (fun kv => fold_eqb (fst kv) k) (i_headers i) ||
  match i_entry i with
  | EWS => existsb (fun kv => fold_eqb (fst kv) k) (i_query i)
  | _ => false
  end.

Definition req_key_ok (i : c07_input) (k' : bytes) : bool :=
  existsb (fun k => supplied i k && bytes_eqb k' (lower (rename_req (i_prefix_req i) k))) (i_allow_req i).

Definition resp_pair_ok (allow : list bytes) (prefix : bytes) (m : md) (kv : bytes * bytes) : bool :=
  existsb (fun k => bytes_eqb (fst kv) (lower (prefix ++ k)) &&
                    existsb (bytes_eqb (snd kv)) (md_get k m)) allow.

(* a value that reaches the target under a -bin key is the base64 decoding of something the client sent, never the raw text *)
Definition bin_values_decoded (i : c07_input) (kv : bytes * list bytes) : bool :=
  if has_bin_suffix (fst kv)
  then forallb (fun v => existsb (fun x => match decode_bin_header (snd x) with Some d => bytes_eqb d v | None => false end)
                                 (i_headers i ++ i_query i)) (snd kv)
  else true.

Definition prop_c07 (input impl : val) : option Z :=
  let i := parse_c07 input in
  let out := as_md (nthv 0 impl) in
  let cli := as_pairs (nthv 1 impl) in
  if existsb (fun kv => bytes_eqb (fst kv) (lower timeout_key)) out then Some 2%Z
  else if negb (forallb (bin_values_decoded i) out) then Some 5%Z
  else if negb (forallb (fun kv => req_key_ok i (fst kv)) out) then
    (match i_allow_req i with [] => Some 4%Z | _ => Some 1%Z end)
  else if negb (forallb (fun kv => resp_pair_ok (i_allow_resp i) (i_prefix_resp i) (i_target_hdr i) kv ||
                                   resp_pair_ok (i_allow_trl i) (i_prefix_trl i) (i_target_trl i) kv) cli) then
    (match i_allow_resp i, i_allow_trl i with [], [] => Some 4%Z | _, _ => Some 3%Z end)
  else None.

Definition chk_c07 : val -> val := mk_chk run_c07 prop_c07.
