(* C05: reflection resolution (reflection/resolver.go + client.go + bridgedesc/parse.go).  Definitions only.
   The resolver's algorithm is parametric in the server's answering functions (Section variables): the theorems hold for
   every server; the concrete policies at the end are only used to run the correspondence. *)
From GB Require Export Base.Val.
Open Scope Z_scope.

Record rbinding := { rb_kind : bytes; rb_path : bytes; rb_body : bytes; rb_resp : bytes }.
Record rmethod := { rm_name : bytes; rm_cs : bool; rm_ss : bool; rm_in : bytes; rm_out : bytes; rm_bindings : list rbinding }.
Record rservice := { rs_name : bytes (* full name *); rs_methods : list rmethod }.
Record rfile := { rf_name : bytes; rf_deps : list bytes; rf_svcs : list rservice }.

Definition mem_b (x : bytes) (l : list bytes) : bool := existsb (bytes_eqb x) l.
Definition fnames (l : list rfile) : list bytes := map rf_name l.

(* fileDescriptors(): keep the first file of every name within one batch (F5 repaired) *)
Fixpoint dedupe (seen : list bytes) (l : list rfile) : list rfile :=
  match l with
  | [] => []
  | f :: r => if mem_b (rf_name f) seen then dedupe seen r else f :: dedupe (rf_name f :: seen) r
  end.
(* the code before the repair never recorded what it had seen *)
Definition dedupe_old (l : list rfile) : list rfile := l.

Fixpoint dedup_names (l : list bytes) : list bytes :=
  match l with [] => [] | x :: r => if mem_b x r then dedup_names r else x :: dedup_names r end.

(* ---- listServiceNames: valid, first occurrence, not under an ignored prefix ---- *)
Definition ident_start (c : N) : bool := is_lower c || is_upper c || (c =? 95)%N.
Definition ident_char (c : N) : bool := ident_start c || is_digit c.
(* protoreflect.FullName.IsValid: non-empty dot-separated identifiers *)
Fixpoint valid_name_go (at_start : bool) (s : bytes) : bool :=
  match s with
  | [] => negb at_start
  | c :: r => if at_start then ident_start c && valid_name_go false r
              else if (c =? 46)%N then valid_name_go true r
              else ident_char c && valid_name_go false r
  end.
Definition valid_name (s : bytes) : bool := valid_name_go true s.

Fixpoint filter_names (ignore : list bytes) (seen : list bytes) (l : list bytes) : list bytes :=
  match l with
  | [] => []
  | n :: r =>
      if negb (valid_name n) then filter_names ignore seen r
      else if mem_b n seen then filter_names ignore seen r
      else if existsb (fun p => prefix_b p n) ignore then filter_names ignore (n :: seen) r
      else n :: filter_names ignore (n :: seen) r
  end.

Section Resolver.
  (* the server: what it answers to FileContainingSymbol / FileByFilename, given the names already sent on this stream;
     None = an error response *)
  Variable ans_sym : list bytes -> bytes -> option (list rfile).
  Variable ans_file : list bytes -> bytes -> option (list rfile).

  (* a batch of requests on one stream, answered in request order *)
  Fixpoint batch (ans : list bytes -> bytes -> option (list rfile)) (sent : list bytes) (reqs : list bytes)
    : option (list rfile * list bytes) :=
    match reqs with
    | [] => Some ([], sent)
    | q :: r =>
        match ans sent q with
        | None => None
        | Some fs => match batch ans (sent ++ fnames fs) r with
                     | Some (rest, sent') => Some (fs ++ rest, sent')
                     | None => None
                     end
        end
    end.

  Definition deps_missing (fs : list rfile) (present : list bytes) : list bytes :=
    dedup_names (filter (fun d => negb (mem_b d present)) (flat_map rf_deps fs)).

  (* retrieveDependencies: BFS rounds; [set] what was collected, [missing] what must be requested next *)
  Fixpoint bfs (fuel : nat) (sent : list bytes) (set : list rfile) (missing : list bytes) : option (list rfile) :=
    match missing with
    | [] => Some set
    | _ =>
        match fuel with
        | O => None                                     (* recursion limit reached with dependencies still missing *)
        | S f =>
            match batch ans_file sent missing with
            | None => None
            | Some (raw, sent') =>
                let resp := dedupe [] raw in
                let present := fnames set in
                let fresh := filter (fun x => negb (mem_b (rf_name x) present)) resp in
                let still := filter (fun m => negb (mem_b m (fnames resp))) missing in
                match still with
                | _ :: _ => None                        (* the server did not provide a requested file *)
                | [] => bfs f sent' (set ++ fresh) (deps_missing resp (present ++ fnames resp))
                end
            end
        end
    end.

  Definition collect (limit : nat) (names : list bytes) : option (list rfile) :=
    match batch ans_sym [] names with
    | None => None
    | Some (raw, sent) =>
        let set0 := dedupe [] raw in
        bfs limit sent set0 (deps_missing set0 (fnames set0))
    end.
End Resolver.

(* protodesc.NewFiles, as far as the property needs it: every name once, every dependency present *)
Definition registry_ok (set : list rfile) : bool :=
  (Nat.eqb (length (dedup_names (fnames set))) (length set)) &&
  forallb (fun f => forallb (fun d => mem_b d (fnames set)) (rf_deps f)) set.

(* the description: for every listed (filtered) service its definition in the collected files; a service whose
   definition is not in the collected set makes the result an error (repaired: it used to give an empty service) *)
Fixpoint find_svc (n : bytes) (set : list rfile) : option rservice :=
  match set with
  | [] => None
  | f :: r => match filter (fun s => bytes_eqb (rs_name s) n) (rf_svcs f) with s :: _ => Some s | [] => find_svc n r end
  end.
Fixpoint describe (names : list bytes) (set : list rfile) : option (list rservice) :=
  match names with
  | [] => Some []
  | n :: r => match find_svc n set, describe r set with Some s, Some l => Some (s :: l) | _, _ => None end
  end.

(* ---- concrete policies (as harness/vrefl) ---- *)
Fixpoint u_find (n : bytes) (u : list rfile) : option rfile :=
  match u with [] => None | f :: r => if bytes_eqb (rf_name f) n then Some f else u_find n r end.
Fixpoint u_symbol (s : bytes) (u : list rfile) : option rfile :=
  match u with [] => None | f :: r => if existsb (fun sv => bytes_eqb (rs_name sv) s) (rf_svcs f) then Some f else u_symbol s r end.
(* depth-first closure in dependency order, as the Go fake *)
Fixpoint closure (fuel : nat) (u : list rfile) (seen : list bytes) (f : rfile) : list rfile * list bytes :=
  match fuel with
  | O => ([], seen)
  | S k =>
      if mem_b (rf_name f) seen then ([], seen)
      else fold_left (fun acc d =>
             match u_find d u with
             | Some df => let '(fs, sn) := closure k u (snd acc) df in (fst acc ++ fs, sn)
             | None => acc
             end) (rf_deps f) ([f], rf_name f :: seen)
  end.
Definition closure_of (u : list rfile) (f : rfile) : list rfile := fst (closure (S (length u)) u [] f).

Definition policy_answer (pol : Z) (u : list rfile) (sent : list bytes) (f : rfile) (by_symbol : bool) : list rfile :=
  match pol with
  | 1 | 6 => [f]
  | 2 => match closure_of u f with
         | [] => []
         | x :: r => x :: filter (fun y => negb (mem_b (rf_name y) sent)) r
         end
  | 3 => rev (closure_of u f)
  | 8 => filter (fun y => negb (mem_b (rf_name y) sent)) (closure_of u f)   (* grpc C++: nothing is sent twice on a stream *)
  | 4 => flat_map (fun x => [x; x]) (closure_of u f)
  | 7 => f :: flat_map (fun d => match u_find d u with Some df => [df] | None => [] end) (rf_deps f)
  | 5 => if by_symbol then match filter (fun x => negb (bytes_eqb (rf_name x) (rf_name f))) u with x :: _ => [x] | [] => [f] end else [f]
  | _ => closure_of u f
  end.
Definition pol_sym (pol : Z) (u : list rfile) (sent : list bytes) (s : bytes) : option (list rfile) :=
  match u_symbol s u with Some f => Some (policy_answer pol u sent f true) | None => None end.
Definition pol_file (pol : Z) (u : list rfile) (sent : list bytes) (n : bytes) : option (list rfile) :=
  match u_find n u with
  | Some f => if Z.eqb pol 6 && match rf_deps f, rf_svcs f with [], [] => true | _, _ => false end then None
              else Some (policy_answer pol u sent f false)
  | None => None
  end.

(* ---- val coding ---- *)
Definition as_rbinding (v : val) : rbinding := {| rb_kind := as_S (nthv 0 v); rb_path := as_S (nthv 1 v); rb_body := as_S (nthv 2 v); rb_resp := as_S (nthv 3 v) |}.
Definition as_rmethod (v : val) : rmethod :=
  {| rm_name := as_S (nthv 0 v); rm_cs := as_bool (nthv 1 v); rm_ss := as_bool (nthv 2 v); rm_in := as_S (nthv 3 v); rm_out := as_S (nthv 4 v);
     rm_bindings := map as_rbinding (as_L (nthv 5 v)) |}.
Definition as_rservice (v : val) : rservice := {| rs_name := as_S (nthv 0 v); rs_methods := map as_rmethod (as_L (nthv 1 v)) |}.
Definition as_rfile (v : val) : rfile := {| rf_name := as_S (nthv 0 v); rf_deps := map as_S (as_L (nthv 1 v)); rf_svcs := map as_rservice (as_L (nthv 2 v)) |}.

(* HTTP method of a binding: the five standard kinds in upper case, a custom kind verbatim *)
Definition upper (s : bytes) : bytes := map (fun c => if is_lower c then (c - 32)%N else c) s.
Definition std_kinds : list bytes := [[103;101;116]; [112;117;116]; [112;111;115;116]; [100;101;108;101;116;101]; [112;97;116;99;104]]%N.
Definition http_method_of (kind : bytes) : bytes := if mem_b kind std_kinds then upper kind else kind.

Definition v_rbinding (b : rbinding) : val := VL [VS (http_method_of (rb_kind b)); VS (rb_path b); VS (rb_body b); VS (rb_resp b)].
Definition v_rmethod (svc : bytes) (m : rmethod) : val :=
  VL [VS (47%N :: svc ++ 47%N :: rm_name m); vbool (rm_cs m); vbool (rm_ss m); VS (rm_in m); VS (rm_out m); VL (map v_rbinding (rm_bindings m))].
Definition v_rservice (s : rservice) : val := VL [VS (rs_name s); VL (map (v_rmethod (rs_name s)) (rs_methods s))].

(* hashServiceNames sorts the name slice in place before the description is parsed: services come out sorted *)
Fixpoint insert_name (n : bytes) (l : list bytes) : list bytes :=
  match l with [] => [n] | x :: r => if bytes_leb n x then n :: l else x :: insert_name n r end.
Definition sort_names (l : list bytes) : list bytes := fold_right insert_name [] l.

Definition ignore_prefixes : list bytes := [[103;114;112;99;46]%N].   (* "grpc." *)

(* a message type that no file declares (the harness's convention for a dangling reference: the name ends in ".Missing"):
   protodesc.NewFiles refuses a file set in which a method's input or output type cannot be resolved *)
Definition s_missing : bytes := [46; 77; 105; 115; 115; 105; 110; 103]%N.
Definition dangling (t : bytes) : bool :=
  (length s_missing <=? length t)%nat && bytes_eqb (skipn (length t - length s_missing) t) s_missing.
Definition svc_types_ok (s : rservice) : bool := forallb (fun m => negb (dangling (rm_in m)) && negb (dangling (rm_out m))) (rs_methods s).
Definition types_ok (set : list rfile) : bool := forallb (fun f => forallb svc_types_ok (rf_svcs f)) set.

(* input ( universe listed policy limit ) ; output ( ) error | ( services ) *)
Definition run_c05 (v : val) : val :=
  let u := map as_rfile (as_L (nthv 0 v)) in
  let listed := map as_S (as_L (nthv 1 v)) in
  let pol := as_Z (nthv 2 v) in
  let names := sort_names (filter_names ignore_prefixes [] listed) in
  match collect (pol_sym pol u) (pol_file pol u) (as_nat (nthv 3 v)) names with
  | None => VL []
  | Some set => if registry_ok set && types_ok set
                then match describe names set with Some svcs => VL [VL (map v_rservice svcs)] | None => VL [] end
                else VL []
  end.

(* the property, from the universe alone:
   1: a description was delivered whose services are not exactly the listed valid, non-administrative ones with the universe's definitions
   3: a conformant server with a complete descriptor set got an error report instead of a description
   2: a description was delivered although a listed service's definition or a dependency could not be obtained (partial description) *)
Definition prop_c05 (input impl : val) : option Z :=
  let u := map as_rfile (as_L (nthv 0 input)) in
  let listed := map as_S (as_L (nthv 1 input)) in
  let names := sort_names (filter_names ignore_prefixes [] listed) in
  match as_L impl with
  | [] =>
      (* an error report is wrong when the server is conformant (policies other than 5, 6), every dependency exists in its
         universe and the recursion limit cannot be the cause; otherwise correspondence judges when it is due *)
      let pol := as_Z (nthv 2 input) in
      if negb (Z.eqb pol 5) && negb (Z.eqb pol 6) && Nat.leb (length u) (as_nat (nthv 3 input))
         && forallb (fun f => forallb (fun d => mem_b d (map rf_name u)) (rf_deps f)) u
         && match describe names u with Some _ => true | None => false end
         && types_ok u
      then Some 3 else None
  | [svcs] =>
      match describe names u with
      | Some want => if negb (forallb svc_types_ok want) then Some 2      (* a listed service refers to a type declared nowhere *)
                     else if val_eqb svcs (VL (map v_rservice want)) then None else Some 1
      | None => Some 2
      end
  | _ => Some 1
  end.
Definition chk_c05 : val -> val := mk_chk run_c05 prop_c05.
