(* C08: gRPC-Web framing (webbridge/grpcweb.go).  Definitions only.
   Request side: length-prefixed frames read from the HTTP body with io.ReadFull semantics; grpc-websockets messages.
   Response side: data frames + exactly one trailer frame; grpc-message percent-encoding (url.PathEscape). *)
From GB Require Export Base.Val.
From GB Require Gen.Extracted.
Open Scope Z_scope.

Definition max_len : Z := Extracted.grpcweb_max_len.

Definition be32 (b : bytes) : Z :=
  fold_left (fun acc c => acc * 256 + Z.of_N c) b 0.
Definition enc_be32 (n : Z) : bytes :=
  map Z.to_N [n / 16777216 mod 256; n / 65536 mod 256; n / 256 mod 256; n mod 256].
Definition zlen (b : bytes) : Z := Z.of_nat (length b).
Definition enc_frame (flag : N) (payload : bytes) : bytes := flag :: enc_be32 (zlen payload) ++ payload.

Inductive rres := RMsg (p : bytes) | REof | RErr (code : Z).

(* one gRPCWebStream.recv on the remaining body bytes [s] (everything the client will ever send) *)
Definition recv1 (s : bytes) : rres * bytes :=
  match s with
  | [] => (REof, [])
  | _ =>
      if (length s <? 5)%nat then (RErr 14, [])      (* Unavailable: short header *)
      else
        let len := be32 (firstn 4 (skipn 1 s)) in
        let rest := skipn 5 s in
        if len =? 0 then (RMsg [], rest)
        else if max_len <? len then (RErr 8, rest)   (* ResourceExhausted: oversize frames are rejected, not truncated *)
        else if zlen rest <? len then (RErr 14, [])  (* Unavailable: short body *)
        else (RMsg (firstn (Z.to_nat len) rest), skipn (Z.to_nat len) rest)
  end.

(* the code before the F7 repair: min(length, limit) bytes were read as the message *)
Definition recv1_old_with (limit : Z) (s : bytes) : rres * bytes :=
  match s with
  | [] => (REof, [])
  | _ =>
      if (length s <? 5)%nat then (RErr 14, [])
      else
        let len := be32 (firstn 4 (skipn 1 s)) in
        let rest := skipn 5 s in
        if len =? 0 then (RMsg [], rest)
        else let n := Z.min len limit in
             if zlen rest <? n then (RErr 14, [])
             else (RMsg (firstn (Z.to_nat n) rest), skipn (Z.to_nat n) rest)
  end.

Definition recv1_old := recv1_old_with max_len.

(* a client-streaming call: messages are received until EOF or an error; fuel = number of bytes + 1 *)
Fixpoint recv_all_with (recv : bytes -> rres * bytes) (fuel : nat) (s : bytes) : list bytes * Z :=
  match fuel with
  | O => ([], 13)
  | S f =>
      match recv s with
      | (REof, _) => ([], 0)
      | (RErr c, _) => ([], c)
      | (RMsg p, rest) => let '(ps, c) := recv_all_with recv f rest in (p :: ps, c)
      end
  end.
Definition recv_all (s : bytes) : list bytes * Z := recv_all_with recv1 (S (length s)) s.
Definition recv_chunks (chunks : list bytes) : list bytes * Z := recv_all (concat chunks).

(* lengths only, for real-size frames: a single frame declaring [declared] bytes followed by [actual] bytes *)
Definition big_outcome (declared actual : Z) : Z * Z :=   (* (delivered length or -1, status) *)
  if declared =? 0 then (0, 0)
  else if max_len <? declared then (-1, 8)
  else if actual <? declared then (-1, 14)
  else (declared, 0).

(* ---- grpc-websockets: messages after the header message ---- *)
Record wsst := { ws_closed : bool }.
(* one OnMessage: (delivered event option, new closed flag); events: payload | error InvalidArgument(3) *)
Inductive wsev := WData (p : bytes) | WErr (code : Z).
Definition ws_on_message (closed : bool) (data : bytes) : option wsev * bool :=
  if closed then (None, true)
  else match data with
       | [] => (Some (WErr 3), false)
       | fc :: _ =>
           let c := (fc =? 1)%N in
           if (6 <=? length data)%nat then (Some (WData (skipn 6 data)), c)
           else if Nat.eqb (length data) 1 then (None, c)
           else (Some (WErr 3), c)
       end.

(* what Recv yields over the whole message sequence: payloads, then how it ends: 0 EOF (finish marker) , 3 error,
   -1 the client never finished (stream stays open) *)
Fixpoint ws_recv_all (closed : bool) (msgs : list bytes) : list bytes * Z :=
  match msgs with
  | [] => ([], if closed then 0 else -1)
  | m :: r =>
      match ws_on_message closed m with
      | (Some (WErr c), _) => ([], c)
      | (Some (WData p), c') => let '(ps, e) := ws_recv_all c' r in (p :: ps, e)
      | (None, c') => ws_recv_all c' r
      end
  end.

(* ---- percent-encoding of grpc-message: url.PathEscape ---- *)
Definition is_alnum (c : N) : bool := is_lower c || is_upper c || is_digit c.
Definition path_keep (c : N) : bool :=
  is_alnum c || existsb (N.eqb c) [45; 95; 46; 126; 36; 38; 43; 58; 61; 64]%N.   (* - _ . ~ $ & + : = @ *)
Definition hex_digit (n : N) : N := if (n <? 10)%N then (48 + n)%N else (55 + n)%N.   (* upper-case *)
Definition path_escape (m : bytes) : bytes :=
  flat_map (fun c => if path_keep c then [c] else [37%N; hex_digit (c / 16)%N; hex_digit (c mod 16)%N]) m.

Definition unhex (c : N) : option N :=
  if is_digit c then Some (c - 48)%N
  else if ((65 <=? c) && (c <=? 70))%N then Some (c - 55)%N
  else if ((97 <=? c) && (c <=? 102))%N then Some (c - 87)%N
  else None.
Fixpoint pct_decode (fuel : nat) (s : bytes) : bytes :=
  match fuel with
  | O => s
  | S f =>
      match s with
      | [] => []
      | c :: r =>
          if (c =? 37)%N then
            match r with
            | a :: b :: r' =>
                match unhex a, unhex b with
                | Some x, Some y => (x * 16 + y)%N :: pct_decode f r'
                | _, _ => c :: pct_decode f r
                end
            | _ => c :: pct_decode f r
            end
          else c :: pct_decode f r
      end
  end.
Definition pct_dec (s : bytes) : bytes := pct_decode (length s) s.

(* ---- response body ---- *)
(* decoder used on the implementation's raw response: list of (flag, payload), leftover bytes *)
Fixpoint parse_frames (fuel : nat) (s : bytes) : list (N * bytes) * bytes :=
  match fuel with
  | O => ([], s)
  | S f =>
      match s with
      | [] => ([], [])
      | flag :: _ =>
          if (length s <? 5)%nat then ([], s)
          else let len := be32 (firstn 4 (skipn 1 s)) in
               let rest := skipn 5 s in
               if zlen rest <? len then ([], s)
               else let '(fs, leftover) := parse_frames f (skipn (Z.to_nat len) rest) in
                    ((flag, firstn (Z.to_nat len) rest) :: fs, leftover)
      end
  end.

(* split a trailer block "k: v\r\n..." into (k, v) pairs *)
Fixpoint split_crlf (cur : bytes) (s : bytes) : list bytes :=
  match s with
  | [] => match cur with [] => [] | _ => [rev cur] end
  | 13%N :: 10%N :: r => rev cur :: split_crlf [] r
  | c :: r => split_crlf (c :: cur) r
  end.
Fixpoint cut_colon_sp (pre : bytes) (s : bytes) : bytes * bytes :=
  match s with
  | 58%N :: 32%N :: r => (rev pre, r)
  | c :: r => cut_colon_sp (c :: pre) r
  | [] => (rev pre, [])
  end.
Definition trailer_pairs (block : bytes) : list (bytes * bytes) := map (cut_colon_sp []) (split_crlf [] block).

Fixpoint dec_digits (n : nat) (z : Z) : bytes :=   (* strconv.Itoa for 0..99 *)
  if z <? 10 then [Z.to_N (48 + z)] else [Z.to_N (48 + z / 10); Z.to_N (48 + z mod 10)].

Definition s_grpc_status : bytes := [103;114;112;99;45;115;116;97;116;117;115]%N.
Definition s_grpc_message : bytes := [103;114;112;99;45;109;101;115;115;97;103;101]%N.

(* the model of the response: data frames, then one trailer frame with status and escaped message (+ allowed trailer md) *)
Definition resp_frames (msgs : list bytes) (code : Z) (msg : bytes) : list (N * bytes) * list (bytes * bytes) :=
  (map (fun m => (0%N, m)) msgs, [(s_grpc_status, dec_digits 0 code); (s_grpc_message, path_escape msg)]).

(* ================= val coding, runners, executable properties ================= *)
Definition v_bl (l : list bytes) : val := VL (map VS l).
Definition as_bl (v : val) : list bytes := map as_S (as_L v).

(* ---- part frames: input ( chunks intended-payloads tail-kind ) ; impl ( payloads status ) ---- *)
Definition run_frames (v : val) : val :=
  let '(ps, c) := recv_chunks (as_bl (nthv 0 v)) in VL [v_bl ps; VN c].
(* 1: a frame within the limit was not delivered intact / in order / exactly once
   2: a malformed or oversize tail did not end the call with an error (or a clean stream did) *)
Definition prop_frames (input impl : val) : option Z :=
  let intended := nthv 1 input in
  let tail := as_Z (nthv 2 input) in
  let st := as_Z (nthv 1 impl) in
  if negb (val_eqb (nthv 0 impl) intended) then Some 1
  else if Z.eqb tail 0 then (if Z.eqb st 0 then None else Some 2)
  else (if Z.eqb st 0 then Some 2 else None).
Definition chk_c08_frames : val -> val := mk_chk run_frames prop_frames.

(* ---- part big: input ( declared actual ) ; impl ( delivered-length status ) ---- *)
Definition run_big (v : val) : val :=
  let '(d, c) := big_outcome (as_Z (nthv 0 v)) (as_Z (nthv 1 v)) in VL [VN d; VN c].
Definition prop_big (input impl : val) : option Z :=
  let declared := as_Z (nthv 0 input) in
  let actual := as_Z (nthv 1 input) in
  let d := as_Z (nthv 0 impl) in
  let st := as_Z (nthv 1 impl) in
  if (declared <=? 4194304) && (declared <=? actual)
  then (if Z.eqb d declared && Z.eqb st 0 then None else Some 1)   (* within the limit: delivered whole *)
  else (if Z.eqb d (-1) && negb (Z.eqb st 0) then None else Some 3). (* 3: oversize/short frame truncated or accepted *)
Definition chk_c08_big : val -> val := mk_chk run_big prop_big.

(* ---- part ws: input ( messages intended-payloads end-kind ) ; impl ( payloads end ) ---- *)
Definition run_ws (v : val) : val :=
  let '(ps, e) := ws_recv_all false (as_bl (nthv 0 v)) in VL [v_bl ps; VN e].
Definition prop_ws (input impl : val) : option Z :=
  if negb (val_eqb (nthv 0 impl) (nthv 1 input)) then Some 1
  else if Z.eqb (as_Z (nthv 1 impl)) (as_Z (nthv 2 input)) then None else Some 2.
Definition chk_c08_ws : val -> val := mk_chk run_ws prop_ws.

(* ---- part resp: input ( msgs code message ) ; impl ( http-status raw-body ) ---- *)
Fixpoint insert_bp (kv : bytes * bytes) (m : list (bytes * bytes)) : list (bytes * bytes) :=
  match m with
  | [] => [kv]
  | kv' :: r => if bytes_leb (fst kv) (fst kv') then kv :: m else kv' :: insert_bp kv r
  end.
Definition sort_bp (m : list (bytes * bytes)) := fold_right insert_bp [] m.
Definition v_bp (m : list (bytes * bytes)) : val := VL (map (fun kv => VL [VS (fst kv); VS (snd kv)]) (sort_bp m)).
Definition v_frames (fs : list (N * bytes)) : val := VL (map (fun f => VL [VN (Z.of_N (fst f)); VS (snd f)]) fs).

Definition norm_body (http : Z) (body : bytes) : val :=
  let '(fs, leftover) := parse_frames (S (length body)) body in
  let datas := removelast fs in
  let lastf := last fs (0%N, []) in
  VL [VN http; v_frames datas; VN (Z.of_N (fst lastf)); v_bp (trailer_pairs (snd lastf)); VS leftover].

Definition run_resp (v : val) : val :=
  let '(fs, tr) := resp_frames (as_bl (nthv 0 v)) (as_Z (nthv 1 v)) (as_S (nthv 2 v)) in
  VL [VN 200; v_frames fs; VN 128; v_bp tr; VS []].

Fixpoint lookup_bp (k : bytes) (m : list (bytes * bytes)) : option bytes :=
  match m with [] => None | (k', v) :: r => if bytes_eqb k k' then Some v else lookup_bp k r end.

(* 1: not HTTP 200   2: body is not data frames followed by exactly one final trailer frame
   3: grpc-status / grpc-message do not equal the outcome (message must percent-decode to the original and be plain ASCII)
   4: response messages altered, dropped or reordered *)
Definition prop_resp (input impl : val) : option Z :=
  let msgs := as_bl (nthv 0 input) in
  let code := as_Z (nthv 1 input) in
  let msg := as_S (nthv 2 input) in
  let body := as_S (nthv 1 impl) in
  let '(fs, leftover) := parse_frames (S (length body)) body in
  if negb (Z.eqb (as_Z (nthv 0 impl)) 200) then Some 1
  else match leftover, rev fs with
       | [], (lf, lp) :: rdatas =>
           if negb (N.eqb lf 128) || existsb (fun f => negb (N.eqb (fst f) 0)) rdatas then Some 2
           else if negb (list_eqb bytes_eqb (map snd (rev rdatas)) msgs) then Some 4
           else
             let tp := trailer_pairs lp in
             match lookup_bp s_grpc_status tp, lookup_bp s_grpc_message tp with
             | Some st, Some gm =>
                 if bytes_eqb st (dec_digits 0 code) && bytes_eqb (pct_dec gm) msg &&
                    forallb (fun c => (33 <=? c)%N && (c <=? 126)%N) gm then None else Some 3
             | _, _ => Some 3
             end
       | _, _ => Some 2
       end.

Definition chk_c08_resp (c : val) : val :=
  let input := nthv 0 c in
  let impl := nthv 1 c in
  match prop_resp input impl with
  | Some r => verdict_propfail r (run_resp input)
  | None => let n := norm_body (as_Z (nthv 0 impl)) (as_S (nthv 1 impl)) in
            if val_eqb (run_resp input) n then verdict_ok else verdict_mismatch (run_resp input)
  end.

(* ---------- the order of the response frames under a slow client (part slowwriter) ----------
   impl ( kinds-in-completion-order  writes-after-the-handler-returned ) ; kinds: 0 data frame, 1 trailer frame.
   9: the frames are not "data frames followed by exactly one trailer frame" (a data frame landed behind the trailer, or
      there is no / more than one trailer), or the response writer was used after ServeHTTP had returned *)
Fixpoint data_then_trailer (l : list Z) : bool :=
  match l with
  | [] => false
  | [k] => Z.eqb k 1
  | k :: r => Z.eqb k 0 && data_then_trailer r
  end.
(* 9 is exactly finding F33: variant 2 (the request fails while the first response is in flight and the client takes it only
   after the call is over) ends with the trailer first and the data frame behind it, written after the handler returned;
   10: any other defect of the order *)
Definition chk_c08_slow (c : val) : val :=
  let input := nthv 0 c in
  let impl := nthv 1 c in
  let kinds := map as_Z (as_L (nthv 0 impl)) in
  if data_then_trailer kinds && Z.eqb (as_Z (nthv 1 impl)) 0 then verdict_ok
  else if Z.eqb (as_Z (nthv 0 input)) 2 && list_eqb Z.eqb kinds [1; 0] then verdict_propfail 9 (VL [])
  else verdict_propfail 10 (VL []).

(* ---------- real-size frames over grpc-websockets (part bigws): input ( payload-size ) ; impl ( bytes-delivered status ) ----------
   3: a frame within the message limit was not delivered whole, or an oversize frame was truncated / dropped without an
      error (over the limit either outcome is acceptable on this transport - delivered whole, or refused with an error -
      but never a cut frame and never silence) *)
Definition chk_c08_bigws (c : val) : val :=
  let d := as_Z (nthv 0 (nthv 0 c)) in
  let delivered := as_Z (nthv 0 (nthv 1 c)) in
  let st := as_Z (nthv 1 (nthv 1 c)) in
  if (d <=? Extracted.grpcweb_max_len) then (if Z.eqb delivered d && Z.eqb st 0 then verdict_ok else verdict_propfail 3 (VL []))
  else if (Z.eqb delivered d && Z.eqb st 0) || (Z.eqb delivered (-1) && negb (Z.eqb st 0)) then verdict_ok
  else verdict_propfail 3 (VL []).
