(* C15: the reflection resolver's change detection (reflection/resolver.go).  Definitions only.
   Sequential part: a history of poll outcomes -> the callback sequence.  A contract version is an opaque number
   (its fingerprint: SHA-256 of the sorted descriptor bundles and of the sorted service names; that equal fingerprints
   mean equal contracts is assumed - DESIGN §6). *)
From GB Require Export Base.Val.
Open Scope Z_scope.

(* what the target looks like during one poll: which protocol versions it implements, and what a poll that reaches an
   implemented version ends in *)
Inductive presult := PSuccess (c : Z) | PFail.
Record poll_in := { p_v1 : bool; p_alpha : bool; p_res : presult }.
Inductive callback := CUpdate (c : Z) | CError.

Record rstate := { last : option Z; prio_alpha : bool (* is v1alpha first in methodPriority *) }.
Definition r_init : rstate := {| last := None; prio_alpha := false |}.

(* resolve(): try the methods in priority order; Unimplemented moves on to the next one; a method that works is moved to
   the front; anything else ends the poll with that result *)
Definition resolve (s : rstate) (p : poll_in) : presult * bool :=
  let first_impl := if prio_alpha s then p_alpha p else p_v1 p in
  let second_impl := if prio_alpha s then p_v1 p else p_alpha p in
  if first_impl then (p_res p, match p_res p with PSuccess _ => prio_alpha s | PFail => prio_alpha s end)
  else if second_impl then (p_res p, match p_res p with PSuccess _ => negb (prio_alpha s) | PFail => prio_alpha s end)
  else (PFail, prio_alpha s).

Definition poll (s : rstate) (p : poll_in) : rstate * list callback :=
  let '(r, pa) := resolve s p in
  match r with
  | PFail => ({| last := last s; prio_alpha := pa |}, [CError])
  | PSuccess c =>
      match last s with
      | Some l => if l =? c then ({| last := last s; prio_alpha := pa |}, [])
                  else ({| last := Some c; prio_alpha := pa |}, [CUpdate c])
      | None => ({| last := Some c; prio_alpha := pa |}, [CUpdate c])
      end
  end.

Fixpoint run_polls (s : rstate) (ps : list poll_in) : list callback :=
  match ps with
  | [] => []
  | p :: r => let '(s', cbs) := poll s p in cbs ++ run_polls s' r
  end.

(* ---- the property, stated on the history alone: what should be delivered depends only on what WAS delivered ---- *)
Fixpoint last_delivered (cbs : list callback) : option Z :=
  match cbs with
  | [] => None
  | CUpdate c :: r => match last_delivered r with Some x => Some x | None => Some c end
  | CError :: r => last_delivered r
  end.
Definition reachable_result (p : poll_in) : presult := if p_v1 p || p_alpha p then p_res p else PFail.
Fixpoint spec_cbs (sofar : list callback) (ps : list poll_in) : list callback :=
  match ps with
  | [] => []
  | p :: r =>
      let now := match reachable_result p with
                 | PFail => [CError]
                 | PSuccess c => match last_delivered sofar with
                                 | Some l => if l =? c then [] else [CUpdate c]
                                 | None => [CUpdate c]
                                 end
                 end in
      now ++ spec_cbs (sofar ++ now) r
  end.

(* ---- val coding ---- *)
Definition as_poll (v : val) : poll_in :=
  {| p_v1 := as_bool (nthv 0 v); p_alpha := as_bool (nthv 1 v);
     p_res := match as_L (nthv 2 v) with [c] => PSuccess (as_Z c) | _ => PFail end |}.
Definition v_cb (c : callback) : val := match c with CUpdate x => VL [VN x] | CError => VL [] end.
Definition run_c15 (v : val) : val := VL (map v_cb (run_polls r_init (map as_poll (as_L v)))).
(* 1: an update was delivered although the contract equals the last delivered one, or a change / the first success was not delivered
   2: a failed poll did not (only) report an error *)
Definition prop_c15 (input impl : val) : option Z :=
  let want := VL (map v_cb (spec_cbs [] (map as_poll (as_L input)))) in
  if val_eqb impl want then None
  else if Nat.eqb (length (filter (fun c => match as_L c with [] => true | _ => false end) (as_L impl)))
                  (length (filter (fun c => match as_L c with [] => true | _ => false end) (as_L want))) then Some 1 else Some 2.
Definition chk_c15 : val -> val := mk_chk run_c15 prop_c15.

(* races: input ( kind ) ; impl ( ok ) : 0 ResolveNow during a poll leads to another poll ; 1 no callback after Close returned *)
Definition run_c15_race (v : val) : val := VL [VN 1].
Definition prop_c15_race (input impl : val) : option Z :=
  if as_bool (nthv 0 impl) then None else Some (3 + as_Z (nthv 0 input)).
Definition chk_c15_race : val -> val := mk_chk run_c15_race prop_c15_race.
