(* C17: executable property for the fuzz stream (no separate model: the decoding models are those of C03 C04 C08 C09 C13)
   input ( entry request-line body-or-script ) ; entry 1 transcoded HTTP, 2 transcoded WebSocket, 3 gRPC-Web, 4 gRPC-WebSocket
   impl  ( class status well-formed ) ; class 0 returned, 98 a handler did not return, 99 a handler panicked *)
From GB Require Export Base.Val.
Open Scope Z_scope.

(* 2: a transcoded HTTP request was answered with a 5xx status (the scripted target never fails and every binding is valid:
      whatever is wrong with such a request is the client's fault); 501 is the bridge's answer for
      client-streaming methods over plain HTTP; exempt: requests whose body arrives shorter than the announced
      Content-Length (input field 4) - a failed transmission, not invalid syntax, for which the property names no status
   3: a handler did not return after the client went away
   4: a handler panicked
   5: the response is not well-formed for its protocol
   7: (class 97) a gRPC-Web response whose only defect is a data frame that landed behind - or, so far, instead of - the
      trailer: the abandoned Send of finding F33 (seen under load only) *)
Definition prop_c17 (input impl : val) : option Z :=
  let class := as_Z (nthv 0 impl) in
  let status := as_Z (nthv 1 impl) in
  if Z.eqb class 99 then Some 4
  else if Z.eqb class 98 then Some 3
  else if Z.eqb class 97 then Some 7
  else if negb (as_bool (nthv 2 impl)) then Some 5
  else if Z.eqb (as_Z (nthv 0 input)) 1 && (500 <=? status) && negb (Z.eqb status 501) && negb (as_bool (nthv 4 input)) then Some 2
  else None.
Definition chk_c17 (c : val) : val :=
  match prop_c17 (nthv 0 c) (nthv 1 c) with Some r => verdict_propfail r (VL []) | None => verdict_ok end.

(* C18: the race-detector workload reports through its exit status (a data race: the race detector's exit code; a tripped
   concurrent-use guard: a crash); a run that ends normally has nothing to report *)
Definition chk_c18 (c : val) : val :=
  match as_Z (nthv 0 (nthv 1 c)) with 0 => verdict_ok | r => verdict_propfail r (VL []) end.

(* C16, stream attempts waiting for an unreachable target when it is removed: impl ( stuck codes )
   6: an attempt in flight at removal time did not end ; 3: it did not fail with Unavailable (14) *)
Definition chk_c16_waiting (c : val) : val :=
  let impl := nthv 1 c in
  if negb (Z.eqb (as_Z (nthv 0 impl)) 0) then verdict_propfail 6 (VL [])
  else if forallb (fun x => Z.eqb (as_Z x) 14) (as_L (nthv 1 impl)) then verdict_ok else verdict_propfail 3 (VL []).

(* C02, idle clients on the web adapters: input ( entry how sent cs ss ) ; impl ( stuck code )
   entry 0 transcoded WebSocket, 1 gRPC-WebSocket, 2 gRPC-Web over HTTP with an unfinished request body
   how 0 the client hangs up, 1 the call's grpc-timeout expires, 2 the target ends the call with PermissionDenied (7)
   code: 4000 + the grpc-status of the trailer frame where the protocol has one, otherwise the WebSocket close code
   5: the handler did not return within 1.5 s
   7: the end of the call was not reported to the (still connected) client: gRPC-Web / gRPC-WebSocket must send a trailer
      with the status (4 for the deadline, 7 for the target's), the transcoded WebSocket closes with 1001 (its close
      code for every failed call, C13) *)
Definition chk_c02_web_idle (c : val) : val :=
  let input := nthv 0 c in
  let impl := nthv 1 c in
  let entry := as_Z (nthv 0 input) in
  let how := as_Z (nthv 1 input) in
  let want := if Z.eqb entry 0 then 1001 else if Z.eqb how 1 then 4004 else 4007 in
  if negb (Z.eqb (as_Z (nthv 0 impl)) 0) then verdict_propfail 5 (VL [])
  else if negb (Z.eqb how 0) && negb (Z.eqb (as_Z (nthv 1 impl)) want) then verdict_propfail 7 (VL [nthv 1 impl])
  else verdict_ok.

(* C12, what a real gRPC target observes: input ( with-timeout ms other-header ) ; impl ( observed http-status )
   observed: 0 not reached, 1 no deadline, 2 a deadline within the client's, 3 a later deadline
   6: the client sent a grpc-timeout but the target observed no deadline, or a later one *)
Definition chk_c12_target (c : val) : val :=
  let input := nthv 0 c in
  let o := as_Z (nthv 0 (nthv 1 c)) in
  if as_bool (nthv 0 input) then (if Z.eqb o 2 then verdict_ok else verdict_propfail 6 (VL [VN o]))
  else (if Z.eqb o 1 then verdict_ok else verdict_propfail 6 (VL [VN o])).

(* C11, free-running stress: impl ( violations flicker mixture )
   1: lookups routed to a target after its Close had returned (or a name not re-watchable after Close returned)
   2: a route present in every description of a target that is being re-described was momentarily unroutable
   3: a lookup returned target / service / method / binding that are not parts of one description *)
Definition chk_c11_stress (c : val) : val :=
  let impl := nthv 1 c in
  if negb (Z.eqb (as_Z (nthv 0 impl)) 0) then verdict_propfail 1 (VL [nthv 0 impl])
  else if negb (Z.eqb (as_Z (nthv 1 impl)) 0) then verdict_propfail 2 (VL [nthv 1 impl])
  else if negb (Z.eqb (as_Z (nthv 2 impl)) 0) then verdict_propfail 3 (VL [nthv 2 impl])
  else verdict_ok.
