(* val coding and executable property for the C09 model *)
From GB Require Export Model.Json.
Open Scope Z_scope.

Fixpoint as_jv (fuel : nat) (v : val) : jv :=
  match fuel with
  | O => JNull
  | S f =>
      match as_Z (nthv 0 v) with
      | 0 => JNull
      | 1 => JBool (as_bool (nthv 1 v))
      | 2 => JNum (as_S (nthv 1 v))
      | 3 => JStr (as_S (nthv 1 v))
      | 4 => JArr (map (as_jv f) (as_L (nthv 1 v)))
      | _ => JObj (map (fun e => (as_S (nthv 0 e), as_jv f (nthv 1 e))) (as_L (nthv 1 v)))
      end
  end.

Definition as_kind (v : val) : kind :=
  match as_Z (nthv 0 v) with
  | 0 => KBool | 1 => KInt32 | 2 => KInt64 | 3 => KUint32 | 4 => KUint64 | 5 => KFloat | 6 => KDouble | 7 => KString | 8 => KBytes
  | _ => KEnum (map (fun e => (as_S (nthv 0 e), as_Z (nthv 1 e))) (as_L (nthv 1 v)))
  end.

Definition v_fv (v : fv) : val :=
  match v with
  | FBool b => VL [VN 1; vbool b] | FInt z => VL [VN 2; VN z] | FSpecial k => VL [VN 3; VN k] | FFinite => VL [VN 4]
  | FStr s => VL [VN 5; VS s] | FBytes s => VL [VN 6; VS s] | FEnum n => VL [VN 7; VN n] | FSkip => VL [VN 10]
  end.

(* canonical order of map entries: by the val text of the key (numbers before strings do not mix within one map) *)
Fixpoint val_leb (a b : val) : bool :=
  match a, b with
  | VL [VN _; VN x], VL [VN _; VN y] => x <=? y
  | VL [VN _; VS x], VL [VN _; VS y] => bytes_leb x y
  | _, _ => true
  end.
Fixpoint insert_entry (e : val * val) (l : list (val * val)) : list (val * val) :=
  match l with [] => [e] | x :: r => if val_leb (fst e) (fst x) then e :: l else x :: insert_entry e r end.
(* later entries for the same key replace earlier ones (protomap.Set) *)
Definition dedup_keys (l : list (val * val)) : list (val * val) :=
  fold_left (fun acc e => filter (fun x => negb (val_eqb (fst x) (fst e))) acc ++ [e]) l [].

(* input ( kind cardinality discard json ) ; cardinality ( 0 ) | ( 1 ) | ( 2 keykind ) *)
Definition run_c09 (v : val) : val :=
  let k := as_kind (nthv 0 v) in
  let discard := as_bool (nthv 2 v) in
  let j := as_jv 6 (nthv 3 v) in
  match as_Z (nthv 0 (nthv 1 v)) with
  | 0 => match unmarshal_scalar discard k j with Ok x => VL [v_fv x] | Err => VL [] end
  | 1 => match unmarshal_list discard k j with Ok l => VL [VL [VN 8; VL (map v_fv l)]] | Err => VL [] end
  | _ => match unmarshal_map discard (as_kind (nthv 1 (nthv 1 v))) k j with
         | Ok l => VL [VL [VN 9; VL (map (fun p => VL [fst p; snd p])
                                          (fold_right insert_entry [] (dedup_keys (map (fun p => (v_fv (fst p), v_fv (snd p))) l))))]]
         | Err => VL []
         end
  end.

(* impl = ( code-result reference-result float-bits-agree )
   1: code and canonical proto3 JSON parsing both accept the text but store different values
   4: the decoder panicked
   6: a value of the wrong JSON type was accepted
   5: an integer/bool/enum text that canonical parsing rejects (out of range, fractional, wrong JSON type) was accepted *)
Definition is_numeric_kind (k : kind) : bool :=
  match k with KBool | KInt32 | KInt64 | KUint32 | KUint64 | KEnum _ => true | _ => false end.
Definition types_ok (card : Z) (k : kind) (j : jv) : bool :=
  match card, j with
  | _, JNull => true
  | 0, _ => type_ok k j
  | 1, JArr l => forallb (type_ok k) l
  | 1, _ => false
  | _, JObj l => forallb (fun e => type_ok k (snd e)) l
  | _, _ => false
  end.
Definition prop_c09 (input impl : val) : option Z :=
  let code := nthv 0 impl in
  let ref := nthv 1 impl in
  let k := as_kind (nthv 0 input) in
  match as_L code with
  | [VN 99] => Some 4
  | [cv] =>
      if negb (types_ok (as_Z (nthv 0 (nthv 1 input))) k (as_jv 6 (nthv 3 input))) then Some 6 else
      match as_L ref with
      | [rv] => if val_eqb cv rv && as_bool (nthv 2 impl) then None else Some 1
      | _ => if is_numeric_kind k && Z.eqb (as_Z (nthv 0 (nthv 1 input))) 0 && negb (val_eqb cv (VL [VN 10])) then Some 5 else None
      end
  | _ => None
  end.

Definition chk_c09 (c : val) : val :=
  let input := nthv 0 c in
  let impl := nthv 1 c in
  match prop_c09 input impl with
  | Some r => verdict_propfail r (run_c09 input)
  | None => if val_eqb (run_c09 input) (nthv 0 impl) then verdict_ok else verdict_mismatch (run_c09 input)
  end.

(* round trip part: input ( kind card value-as-val ) ; impl ( decoded-after-encode  decoded-from-canonical  json-text )
   the model side: the text the encoder must produce (compared when it does not depend on encoding/json's string escaping
   or strconv's float formatting) *)
Definition as_fv (v : val) : fv :=
  match as_Z (nthv 0 v) with
  | 1 => FBool (as_bool (nthv 1 v)) | 2 => FInt (as_Z (nthv 1 v)) | 3 => FSpecial (as_Z (nthv 1 v)) | 4 => FFinite
  | 5 => FStr (as_S (nthv 1 v)) | 6 => FBytes (as_S (nthv 1 v)) | 7 => FEnum (as_Z (nthv 1 v)) | _ => FSkip
  end.
Definition quote (s : bytes) : bytes := 34%N :: s ++ [34%N].
Definition s_null : bytes := [110;117;108;108]%N.
Fixpoint join_comma (l : list bytes) : bytes :=
  match l with [] => [] | [a] => a | a :: r => a ++ 44%N :: join_comma r end.
(* texts without string escapes only: numbers, bools, base64, enum names, special floats *)
Fixpoint jv_text (fuel : nat) (j : jv) : bytes :=
  match fuel with
  | O => []
  | S f =>
      match j with
      | JNull => s_null
      | JBool b => if b then s_true else s_false
      | JNum l => l
      | JStr s => quote s
      | JArr l => 91%N :: join_comma (map (jv_text f) l) ++ [93%N]
      | JObj l => 123%N :: join_comma (map (fun e => quote (fst e) ++ 58%N :: jv_text f (snd e)) l) ++ [125%N]
      end
  end.
Definition text_determined (k : kind) (v : fv) : bool :=
  match k, v with KString, _ => false | _, FFinite => false | _, _ => true end.

Definition run_c09_rt (input : val) : val :=
  let k := as_kind (nthv 0 input) in
  match as_Z (nthv 0 (nthv 1 input)) with
  | 0 => let v := as_fv (nthv 2 input) in
         if text_determined k v then match marshal_scalar k v with Some j => VL [VS (jv_text 4 j)] | None => VL [] end else VL [VN 0]
  | 1 => let l := map as_fv (as_L (nthv 1 (nthv 2 input))) in
         if forallb (text_determined k) l then match marshal_list k l with Some j => VL [VS (jv_text 4 j)] | None => VL [] end else VL [VN 0]
  | _ => VL [VN 0]       (* Go map iteration order is unspecified and encoding/json sorts keys as strings: values only *)
  end.

Definition prop_c09_rt (input impl : val) : option Z :=
  let v := nthv 2 input in
  if negb (val_eqb (nthv 0 impl) (VL [v])) then Some 2       (* encode then decode does not give the value back *)
  else if negb (val_eqb (nthv 1 impl) (VL [v])) then Some 3  (* the decoder does not accept what the canonical encoder emits (or stores another value) *)
  else None.
Definition chk_c09_rt (c : val) : val :=
  let input := nthv 0 c in
  let impl := nthv 1 c in
  match prop_c09_rt input impl with
  | Some r => verdict_propfail r (run_c09_rt input)
  | None => match run_c09_rt input with
            | VL [VN 0] => verdict_ok
            | VL [VS t] => if val_eqb (VS t) (nthv 2 impl) then verdict_ok else verdict_mismatch (VS t)
            | m => verdict_mismatch m
            end
  end.

(* ---------- C09, message-valued elements (no model of their own: for message kinds the codec hands each element to
   protojson, so canonical proto3 JSON parsing of {"<field>": text} is the reference) ----------
   input ( 0 field text discard ) impl ( codec-result reference-result ) - results: () rejected, ( wire-bytes ) accepted, ( 99 ) panic
     1: both accept the text and store different messages ; 4: panic
   input ( 1 field canonical-text discard ) impl ( codec-decoding-of-its-own-encoding  codec-decoding-of-the-canonical-text  value  own-text )
     2: encoding the value and decoding it again does not give the value back
     3: the decoder does not accept what the canonical encoder emits for the value (or stores another value) *)
Definition is_panic (v : val) : bool := match as_L v with [VN 99] => true | _ => false end.
Definition is_acc (v : val) : bool := match as_L v with [VS _] => true | _ => false end.
Definition prop_c09_wkt (input impl : val) : option Z :=
  match as_Z (nthv 0 input) with
  | 0 => if is_panic (nthv 0 impl) then Some 4
         else if is_acc (nthv 0 impl) && is_acc (nthv 1 impl) && negb (val_eqb (nthv 0 impl) (nthv 1 impl)) then Some 1 else None
  | _ => if is_panic (nthv 0 impl) || is_panic (nthv 1 impl) then Some 4
         else if negb (val_eqb (nthv 0 impl) (nthv 2 impl)) then Some 2
         else if negb (val_eqb (nthv 1 impl) (nthv 2 impl)) then Some 3 else None
  end.
Definition chk_c09_wkt (c : val) : val :=
  match prop_c09_wkt (nthv 0 c) (nthv 1 c) with Some r => verdict_propfail r (VL []) | None => verdict_ok end.
