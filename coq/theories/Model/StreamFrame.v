(* C13: one response message = one record: NDJSON lines, SSE data: events, WebSocket messages.  Definitions only. *)
From GB Require Export Base.Val.
From GB Require Gen.Extracted.
Open Scope N_scope.

(* ---- NDJSON ---- *)
Definition enc_line (j : bytes) : bytes := j ++ [10].
(* split at LF: complete records, and the unterminated rest *)
Fixpoint split_lines_acc (cur : bytes) (s : bytes) : list bytes * bytes :=
  match s with
  | [] => ([], rev cur)
  | c :: r => if c =? 10 then let '(ls, rest) := split_lines_acc [] r in (rev cur :: ls, rest)
              else split_lines_acc (c :: cur) r
  end.
Definition split_lines (s : bytes) : list bytes * bytes := split_lines_acc [] s.
Definition no_lf (j : bytes) : bool := forallb (fun c => negb (c =? 10)) j.

(* ---- SSE ---- *)
Definition s_data : bytes := [100; 97; 116; 97; 58].      (* "data:" *)
Definition enc_event (j : bytes) : bytes := s_data ++ j ++ [10; 10].
(* events are separated by a blank line: with LF-free payloads, every second "line" is empty *)
Fixpoint events_of_lines (ls : list bytes) : option (list bytes) :=
  match ls with
  | [] => Some []
  | l :: [] :: r =>
      if prefix_b s_data l then match events_of_lines r with Some es => Some (skipn 5 l :: es) | None => None end
      else None
  | _ => None
  end.
Definition split_events (s : bytes) : option (list bytes) :=
  let '(ls, rest) := split_lines s in
  match rest with [] => events_of_lines ls | _ => None end.

(* ---- JSON text modulo insignificant whitespace (protojson inserts random spaces) ---- *)
Fixpoint strip_ws_go (in_str esc : bool) (s : bytes) : bytes :=
  match s with
  | [] => []
  | c :: r =>
      if in_str then
        if esc then c :: strip_ws_go true false r
        else if c =? 92 then c :: strip_ws_go true true r
        else if c =? 34 then c :: strip_ws_go false false r
        else c :: strip_ws_go true false r
      else if (c =? 32) || (c =? 9) || (c =? 10) || (c =? 13) then strip_ws_go false false r
      else if c =? 34 then c :: strip_ws_go true false r
      else c :: strip_ws_go false false r
  end.
Definition strip_ws : bytes -> bytes := strip_ws_go false false.

(* ---- WebSocket bridge (transcoded): functional model of a flow in which the client sends its frames first ----
   frames: (is_text, payload).  The JSON codec expects text.  client_streaming: every frame is one request message;
   otherwise only the first frame is used (when the binding has a body), the rest are ignored. *)
Inductive wsres := WsOk (to_target : list bytes) | WsWrongType (to_target : list bytes).
Fixpoint ws_take_all (frames : list (bool * bytes)) : wsres :=
  match frames with
  | [] => WsOk []
  | (true, p) :: r => match ws_take_all r with WsOk l => WsOk (p :: l) | WsWrongType l => WsWrongType (p :: l) end
  | (false, _) :: _ => WsWrongType []
  end.
(* a binary request codec expects binary frames: same rules with the frame types flipped *)
Definition flip_frames (req_binary : bool) (frames : list (bool * bytes)) : list (bool * bytes) :=
  if req_binary then map (fun f => (negb (fst f), snd f)) frames else frames.
Definition ws_requests (client_streaming has_body : bool) (frames : list (bool * bytes)) : wsres :=
  if client_streaming then
    (* without a body in the binding the frame only triggers a request built from path/query: its content is not used *)
    (if has_body then ws_take_all frames
     else match ws_take_all frames with WsOk l => WsOk (map (fun _ => []) l) | WsWrongType l => WsWrongType (map (fun _ => []) l) end)
  else if has_body then match frames with
                        | [] => WsOk []
                        | (true, p) :: _ => WsOk [p]
                        | (false, _) :: _ => WsWrongType []
                        end
       else WsOk [[]].     (* no body needed: one request built from path/query only *)

(* close code and reason prefix for the outcome of the call (codes regenerated from websocketError's source) *)
Definition ws_close (outcome : Z) (wrong_type : bool) : Z :=
  if wrong_type then nth 2 Extracted.ws_close_codes 0%Z
  else if Z.eqb outcome 0 then nth 0 Extracted.ws_close_codes 0%Z
  else nth 1 Extracted.ws_close_codes 0%Z.

(* ================= runners ================= *)
(* part http: input ( mode k expected-records ) ; impl ( content-type raw-body ) ; mode 0 NDJSON, 1 SSE *)
Definition s_json : bytes := [97;112;112;108;105;99;97;116;105;111;110;47;106;115;111;110].
Definition s_event_stream : bytes := [116;101;120;116;47;101;118;101;110;116;45;115;116;114;101;97;109].
Definition records_of (mode : Z) (body : bytes) : option (list bytes) :=
  if Z.eqb mode 0 then let '(ls, rest) := split_lines body in match rest with [] => Some ls | _ => None end
  else split_events body.
Definition run_records (v : val) : val :=
  VL [VS (if Z.eqb (as_Z (nthv 0 v)) 0 then s_json else s_event_stream); VL (map (fun r => VS (strip_ws (as_S r))) (as_L (nthv 2 v)))].
(* 1: wrong Content-Type for the stream format  2: the byte stream does not split into exactly one record per message
   3: a record is not the JSON of its message *)
Definition prop_records (input impl : val) : option Z :=
  let mode := as_Z (nthv 0 input) in
  let expected := map (fun r => strip_ws (as_S r)) (as_L (nthv 2 input)) in
  if negb (bytes_eqb (as_S (nthv 0 impl)) (if Z.eqb mode 0 then s_json else s_event_stream)) then Some 1%Z
  else match records_of mode (as_S (nthv 1 impl)) with
       | None => Some 2%Z
       | Some rs => if negb (Nat.eqb (length rs) (length expected)) then Some 2%Z
                    else if list_eqb bytes_eqb (map strip_ws rs) expected then None else Some 3%Z
       end.
Definition chk_c13_records (c : val) : val :=
  let input := nthv 0 c in
  let impl := nthv 1 c in
  match prop_records input impl with
  | Some r => verdict_propfail r (run_records input)
  | None => verdict_ok
  end.

(* ---- the reason of the close frame (websocketError + truncateReason, webbridge/websocket.go, after the repair F32):
   "code <Name>: <message>", cut down to 123 bytes at a character boundary (never inside a multi-byte UTF-8 character) ---- *)
Definition code_names : list bytes :=
  ([[79; 75];
   [67; 97; 110; 99; 101; 108; 101; 100];
   [85; 110; 107; 110; 111; 119; 110];
   [73; 110; 118; 97; 108; 105; 100; 65; 114; 103; 117; 109; 101; 110; 116];
   [68; 101; 97; 100; 108; 105; 110; 101; 69; 120; 99; 101; 101; 100; 101; 100];
   [78; 111; 116; 70; 111; 117; 110; 100];
   [65; 108; 114; 101; 97; 100; 121; 69; 120; 105; 115; 116; 115];
   [80; 101; 114; 109; 105; 115; 115; 105; 111; 110; 68; 101; 110; 105; 101; 100];
   [82; 101; 115; 111; 117; 114; 99; 101; 69; 120; 104; 97; 117; 115; 116; 101; 100];
   [70; 97; 105; 108; 101; 100; 80; 114; 101; 99; 111; 110; 100; 105; 116; 105; 111; 110];
   [65; 98; 111; 114; 116; 101; 100];
   [79; 117; 116; 79; 102; 82; 97; 110; 103; 101];
   [85; 110; 105; 109; 112; 108; 101; 109; 101; 110; 116; 101; 100];
   [73; 110; 116; 101; 114; 110; 97; 108];
   [85; 110; 97; 118; 97; 105; 108; 97; 98; 108; 101];
   [68; 97; 116; 97; 76; 111; 115; 115];
   [85; 110; 97; 117; 116; 104; 101; 110; 116; 105; 99; 97; 116; 101; 100]])%N.
Definition is_cont (c : N) : bool := ((128 <=? c) && (c <=? 191))%N.     (* a UTF-8 continuation byte: not the start of a character *)
(* back up from position n to the start of a character *)
Fixpoint rune_cut (n : nat) (s : bytes) : nat :=
  match n with
  | O => O
  | S m => if is_cont (nth n s 0%N) then rune_cut m s else n
  end.
Definition max_reason : nat := 123.
Definition truncate_reason (s : bytes) : bytes :=
  if (length s <=? max_reason)%nat then s else firstn (rune_cut max_reason s) s.
Definition close_reason (outcome : Z) (msg : bytes) : bytes :=
  truncate_reason ([99; 111; 100; 101; 32]%N ++ nth (Z.to_nat outcome) code_names [] ++ [58; 32]%N ++ msg).

(* part ws: input ( cs has_body frames responses outcome req-binary resp-binary message ) ;
   impl ( to-target frames-to-client close-code reason-has-code reason ) - the reason text is compared for calls that the
   TARGET ends with an error (message = its status message); the harness reports an empty reason otherwise *)
Definition as_frames (v : val) : list (bool * bytes) := map (fun f => (as_bool (nthv 0 f), as_S (nthv 1 f))) (as_L v).
Definition run_ws13 (v : val) : val :=
  let cs := as_bool (nthv 0 v) in
  let hb := as_bool (nthv 1 v) in
  let outcome := as_Z (nthv 4 v) in
  let req_bin := as_bool (nthv 5 v) in
  let resp_bin := as_bool (nthv 6 v) in
  match ws_requests cs hb (flip_frames req_bin (as_frames (nthv 2 v))) with
  | WsOk l => VL [VL (map (fun p => VS (strip_ws p)) l); VL (map (fun r => VL [vbool (negb resp_bin); VS (strip_ws (as_S r))]) (as_L (nthv 3 v)));
                  VN (ws_close outcome false); vbool (negb (Z.eqb outcome 0));
                  VS (if Z.eqb outcome 0 then [] else close_reason outcome (as_S (nthv 7 v)))]
  | WsWrongType l => VL [VL (map (fun p => VS (strip_ws p)) l); VL []; VN (ws_close outcome true); vbool true; VS []]
  end.
Definition prop_ws13 (input impl : val) : option Z :=
  let m := run_ws13 input in
  if negb (val_eqb (nthv 0 impl) (nthv 0 m)) then Some 1%Z        (* client frames <-> request messages not one-to-one *)
  else if negb (val_eqb (nthv 1 impl) (nthv 1 m)) then Some 2%Z   (* responses are not one frame each, of the codec's type, in order *)
  else if negb (val_eqb (nthv 2 impl) (nthv 2 m)) then Some 3%Z   (* wrong close code *)
  else if negb (val_eqb (nthv 3 impl) (nthv 3 m)) then Some 4%Z   (* close reason does not carry the gRPC code *)
  else if negb (val_eqb (nthv 4 impl) (nthv 4 m)) then Some 5%Z   (* the reason is not "code <Name>: <message>" cut to 123 bytes at a character boundary *)
  else None.
Definition chk_c13_ws : val -> val := mk_chk run_ws13 prop_ws13.
