(* val coding and executable properties for the template / routing models (C20, C03) *)
From GB Require Export Model.Template.
Open Scope Z_scope.

Fixpoint as_seg (fuel : nat) (v : val) : seg :=
  match fuel with
  | O => SWild
  | S f =>
      match as_Z (nthv 0 v) with
      | 0 => SWild | 1 => SDeep | 2 => SLit (as_S (nthv 1 v))
      | _ => SVar (map as_S (as_L (nthv 1 v))) (map (as_seg f) (as_L (nthv 2 v)))
      end
  end.
Definition as_template (v : val) : template := {| t_segs := map (as_seg 3) (as_L (nthv 0 v)); t_verb := as_S (nthv 1 v) |}.
Fixpoint v_seg (fuel : nat) (s : seg) : val :=
  match fuel with
  | O => VL []
  | S f => match s with
           | SWild => VL [VN 0] | SDeep => VL [VN 1] | SLit l => VL [VN 2; VS l]
           | SVar p segs => VL [VN 3; VL (map VS p); VL (map (v_seg f) segs)]
           end
  end.
Definition v_template (t : template) : val := VL [VL (map (v_seg 3) (t_segs t)); VS (t_verb t)].

Definition v_op (o : op) : val :=
  match o with
  | OPush => VL [VN 1] | OPushM => VL [VN 2] | OLit l => VL [VN 3; VS l]
  | OConcat n => VL [VN 4; VN (Z.of_nat n)] | OCapture v => VL [VN 5; VS v]
  end.
Definition as_op (v : val) : op :=
  match as_Z (nthv 0 v) with
  | 1 => OPush | 2 => OPushM | 3 => OLit (as_S (nthv 1 v)) | 4 => OConcat (as_nat (nthv 1 v)) | _ => OCapture (as_S (nthv 1 v))
  end.

Fixpoint split_c (sep : N) (s : bytes) (cur : bytes) : list bytes :=
  match s with
  | [] => [rev cur]
  | c :: r => if (c =? sep)%N then rev cur :: split_c sep r [] else split_c sep r (c :: cur)
  end.

(* ops back to an abstract template (the inverse of compile on what the compiler produces) *)
Fixpoint decompile (ops : list op) (stack : list seg) : option (list seg) :=
  match ops with
  | [] => Some (rev stack)
  | OPush :: r => decompile r (SWild :: stack)
  | OPushM :: r => decompile r (SDeep :: stack)
  | OLit l :: r => decompile r (SLit l :: stack)
  | OConcat n :: r =>
      match r with
      | OCapture v :: r' =>
          if (n <=? length stack)%nat && (0 <? n)%nat
          then decompile r' (SVar (split_c c_dot v []) (rev (firstn n stack)) :: skipn n stack) else None
      | _ => None
      end
  | OCapture _ :: _ => None
  end.

(* ---------- the hypothesis of the round-trip theorem (Proofs/TemplateParseProofs.v: parse_render) ----------
   evaluated by the check on every generated template, so that the theorem provably covers what is generated *)
Open Scope N_scope.
Definition tok_flat (s : seg) : bytes := match s with SWild => [c_star] | SDeep => s_deep | SLit l => l | SVar _ _ => [] end.
Definition good_lit (l : bytes) : bool :=
  negb (match l with [] => true | _ => false end) && is_literal l && negb (bytes_eqb l [c_star]) && negb (bytes_eqb l s_deep).
Definition good_flat (s : seg) : bool := match s with SWild | SDeep => true | SLit l => good_lit l | SVar _ _ => false end.
Definition good_seg (s : seg) : bool :=
  match s with
  | SVar p inner => negb (match p with [] => true | _ => false end) && forallb is_ident p
                    && negb (match inner with [] => true | _ => false end) && forallb good_flat inner
  | _ => good_flat s
  end.
Definition no_colon (t : bytes) : bool := forallb (fun c => negb (c =? c_colon)) t.
Definition verb_ok (segs : list seg) (verb : bytes) : bool :=
  match last segs SWild, verb with
  | SVar _ _, _ => true                                       (* after a variable everything behind the colon is the verb *)
  | s, [] => no_colon (tok_flat s)                            (* otherwise the text would read as literal + verb *)
  | _, _ => no_colon verb
  end.
Definition good_template (t : template) : bool :=
  negb (match t_segs t with [] => true | _ => false end) && forallb good_seg (t_segs t) && is_literal (t_verb t) && verb_ok (t_segs t) (t_verb t).
Open Scope Z_scope.

(* ---------- C20, routing parser ----------
   input ( kind text ast ) : kind 0 = text is the rendering of the well-formed template ast ; 1 = a mutant / noise
   impl  ( ) rejected (Parse or NewPattern failed: no route) | ( verb fields ops ) *)
Definition v_parsed (t : template) : val :=
  let ops := compile t in
  if pattern_ok ops then VL [VS (t_verb t); VL (map VS (fields_of_ops ops)); VL (map v_op ops)] else VL [].
Definition run_c20_gw (v : val) : val :=
  match gw_parse false (as_S (nthv 1 v)) with Some t => v_parsed t | None => VL [] end.

(* what every accepted route template must satisfy, whatever else the routing parser tolerates (a deep wildcard in the
   middle): its text is the rendering of its structure, literals and the verb are path characters, field paths identifiers *)
Fixpoint loose_seg (fuel : nat) (s : seg) : bool :=
  match fuel with
  | O => false
  | S f => match s with
           | SWild | SDeep => true
           | SLit l => is_literal l && negb (match l with [] => true | _ => false end)
           | SVar p segs => negb (match p with [] => true | _ => false end) && forallb is_ident p
                            && negb (match segs with [] => true | _ => false end)
                            && forallb (fun i => match i with SVar _ _ => false | _ => loose_seg f i end) segs
           end
  end.
Definition s_root : template := {| t_segs := [SLit []]; t_verb := [] |}.
Definition template_eqb (a b : template) : bool := val_eqb (v_template a) (v_template b).
(* the text of "{a}" is rendered as "{a=*}" by render; both spellings denote the same template *)
Definition render_ok (t : template) (text : bytes) : bool :=
  match gw_parse false text with Some t' => template_eqb t t' | None => false end.

(* "{path}" is short for "{path=*}" *)
Fixpoint expand_short (s : bytes) (in_var seen_eq : bool) : bytes :=
  match s with
  | [] => []
  | c :: r => if (c =? c_lbrace)%N then c :: expand_short r true false
              else if (c =? c_eq)%N && in_var then c :: expand_short r in_var true
              else if (c =? c_rbrace)%N && in_var then (if seen_eq then [c] else [c_eq; c_star; c]) ++ expand_short r false false
              else c :: expand_short r in_var seen_eq
  end.

(* a trailing colon is an empty verb (Verb = ":" LITERAL with an empty literal): the same template as without it *)
Definition norm_text (text verb : bytes) : bytes :=
  let t := expand_short text false false in
  match verb, rev t with [], 58%N :: r => rev r | _, _ => t end.
Definition is_root (segs : list seg) : bool := match segs with [SLit []] => true | _ => false end.

(* 1: accepted, but its text is not the rendering of the accepted structure, or it contains illegal characters / field paths
   2: the rendering of a well-formed template was rejected or parsed into another structure
   3: a generated template is outside the hypothesis of the round-trip theorem (good_template): the generator and the theorem
      no longer talk about the same language
   4: panic *)
Definition prop_c20_gw (input impl : val) : option Z :=
  let text := as_S (nthv 1 input) in
  match as_L impl with
  | [VN 99] => Some 4
  | [verb; fields; ops] =>
      let o := map as_op (as_L ops) in
      match decompile o [] with
      | None => Some 1
      | Some segs =>
          let t := {| t_segs := segs; t_verb := as_S verb |} in
          let ok_struct := (is_root segs || forallb (loose_seg 3) segs) && is_literal (as_S verb)
                           && bytes_eqb (render t) (norm_text text (as_S verb)) in
          if negb ok_struct then Some 1
          else if Z.eqb (as_Z (nthv 0 input)) 0 && negb (template_eqb t (as_template (nthv 2 input))) then Some 2
          else if Z.eqb (as_Z (nthv 0 input)) 0 && negb (good_template (as_template (nthv 2 input)) || is_root (t_segs (as_template (nthv 2 input)))) then Some 3
          else None
      end
  | _ => if Z.eqb (as_Z (nthv 0 input)) 0 then Some 2 else None
  end.
Definition chk_c20_gw : val -> val := mk_chk run_c20_gw prop_c20_gw.

(* ---------- C20, strict parser ----------
   impl ( ) rejected | ( template ) ; the model is Model/Strict.v; the property below is the grammar itself
   1: accepted something that is not (the rendering of) a well-formed template
   2: the rendering of a well-formed template was rejected or parsed into another structure
   3: a string of the language (recognised by the routing-parser model as a well-formed template) was rejected / parsed differently *)
Definition wf_template (t : template) : bool :=
  (is_root (t_segs t) && is_literal (t_verb t) && negb (existsb (N.eqb c_colon) (t_verb t))) ||
  (wf_segs (t_segs t) && is_literal (t_verb t)
   && negb (existsb (N.eqb c_colon) (t_verb t) && negb (match last (t_segs t) SWild with SVar _ _ => true | _ => false end))
   && match last (t_segs t) SWild, t_verb t with
      | SLit l, [] => negb (existsb (N.eqb c_colon) l)       (* otherwise the text reads as literal + verb *)
      | _, _ => true
      end
   && forallb (fun s => match s with
                        | SLit l => negb (bytes_eqb l [c_star]) && negb (bytes_eqb l s_deep)
                        | SVar _ inner => forallb (fun i => match i with SLit l => negb (bytes_eqb l [c_star]) && negb (bytes_eqb l s_deep) | _ => true end) inner
                        | _ => true end) (t_segs t)).
Definition prop_c20_strict (input impl : val) : option Z :=
  let text := as_S (nthv 1 input) in
  let recognised := match gw_parse false text with Some t => if wf_template t then Some t else None | None => None end in
  match as_L impl with
  | [VN 99] => Some 4
  | [tv] =>
      let t := as_template tv in
      (* with an explicit empty verb ("...:") colons in the last literal are unambiguous *)
      let trailing := match t_verb t, rev text with [], 58%N :: _ => true | _, _ => false end in
      let wf := wf_template t || (trailing && wf_template {| t_segs := t_segs t; t_verb := [118%N] |}) in
      if negb (wf && bytes_eqb (render t) (norm_text text (t_verb t))) then Some 1
      else if Z.eqb (as_Z (nthv 0 input)) 0 && negb (template_eqb t (as_template (nthv 2 input))) then Some 2
      else match recognised with Some t' => if template_eqb t t' then None else Some 3 | None => None end
  | _ => if Z.eqb (as_Z (nthv 0 input)) 0 then Some 2
         else match recognised with Some _ => Some 3 | None => None end
  end.
(* chk_c20_strict: Model/Strict.v (the parser model and the checker built from it) *)

(* ---------- C20, trie ----------
   input ( templates path ) ; impl ( ) | ( index ) : the template the trie returned for the path.
   the trie does not decode: raw matching, the template's verb must be what follows the last colon of the last component *)
Fixpoint raw_inner (segs : list seg) (comps : list bytes) : option (list bytes) :=
  match segs with
  | [] => Some comps
  | SWild :: r => match comps with _ :: cs => raw_inner r cs | [] => None end
  | SLit l :: r => match comps with c :: cs => if bytes_eqb c l then raw_inner r cs else None | [] => None end
  | SDeep :: r => match r with [] => Some [] | _ => None end
  | SVar _ _ :: _ => None
  end.
Fixpoint raw_match (segs : list seg) (comps : list bytes) : bool :=
  match segs with
  | [] => match comps with [] => true | _ => false end
  | SVar _ inner :: r => match raw_inner inner comps with Some rest => raw_match r rest | None => false end
  | s :: r => match raw_inner [s] comps with Some rest => raw_match r rest | None => false end
  end.
Definition template_matches (t : template) (path : bytes) : bool :=
  match path with
  | c :: p =>
      if (c =? c_slash)%N then
        let comps := split_slash p [] in
        match t_verb t with
        | [] => raw_match (t_segs t) comps
        | v => let lastc := last comps [] in
               ends_with lastc (c_colon :: v)
               && raw_match (t_segs t) (removelast comps ++ [firstn (length lastc - length v - 1) lastc])
        end
      else false
  | [] => false
  end.
(* 1: the trie returned a template that does not match the path *)
Definition prop_c20_trie (input impl : val) : option Z :=
  match as_L impl with
  | [VN 99] => Some 4
  | [VN i] => let t := as_template (nth (Z.to_nat i) (as_L (nthv 0 input)) (VL [])) in
              if template_matches t (as_S (nthv 1 input)) then None else Some 1
  | _ => None
  end.
Definition chk_c20_trie (c : val) : val :=
  match prop_c20_trie (nthv 0 c) (nthv 1 c) with Some r => verdict_propfail r (VL []) | None => verdict_ok end.

(* ---------- C03: RouteHTTP ----------
   input ( targets method escaped-path path ) ; target = ( bindings ) ; binding = ( http-method template-text )
   path = the request path exactly as the client sent it (what net/http keeps in URL.RawPath, or, when that is empty,
   what URL.EscapedPath() reproduces)
   impl ( code ) | ( 0 target-index binding-index vars ) ; vars sorted by name *)
Definition sort_vars (l : list (bytes * bytes)) : list (bytes * bytes) :=
  fold_right (fun e acc => (fix ins (l : list (bytes * bytes)) := match l with
                                                                   | [] => [e]
                                                                   | x :: r => if bytes_leb (fst e) (fst x) then e :: l else x :: ins r end) acc) [] l.
Definition v_vars (l : list (bytes * bytes)) : val := VL (map (fun p => VL [VS (fst p); VS (snd p)]) (sort_vars l)).

(* the routes of the table in iteration order: (target index, binding index, ops, verb) for the method *)
Definition table_routes (targets : list val) (method : bytes) : list (Z * Z * list op * bytes) :=
  concat (map (fun tv : Z * val =>
    concat (map (fun bv : Z * val =>
      if bytes_eqb (as_S (nthv 0 (snd bv))) method then
        match gw_parse false (as_S (nthv 1 (snd bv))) with
        | Some t => if pattern_ok (compile t) then [(fst tv, fst bv, compile t, t_verb t)] else []
        | None => []
        end
      else []) (combine (map Z.of_nat (seq 0 (length (as_L (nthv 0 (snd tv)))))) (as_L (nthv 0 (snd tv))))))
    (combine (map Z.of_nat (seq 0 (length targets))) targets)).

Fixpoint first_route (abort_verb_only : bool) (routes : list (Z * Z * list op * bytes)) (comps : list bytes) : val :=
  match routes with
  | [] => VL [VN 5]
  | (ti, bi, ops, verb) :: r =>
      match route_step abort_verb_only ops verb comps with
      | Found vars => VL [VN 0; VN ti; VN bi; v_vars vars]
      | Abort c => VL [VN c]
      | Skip => first_route abort_verb_only r comps
      end
  end.
Definition run_c03 (v : val) : val :=
  let path := as_S (nthv 3 v) in
  match path with
  | c :: p => if (c =? c_slash)%N then first_route false (table_routes (as_L (nthv 0 v)) (as_S (nthv 1 v))) (split_slash p [])
              else VL [VN 3]
  | [] => VL [VN 3]
  end.

(* the property, on abstract templates (no opcodes): the request is routed to binding b iff b is the first binding with
   the request's method whose template matches, with exactly the captured values of the specification matcher *)
Definition spec_step (t : template) (comps : list bytes) : step :=
  let lastc := last comps [] in
  let v := t_verb t in
  let has := match v with [] => false | _ => ends_with lastc (c_colon :: v) && negb (Nat.eqb (length lastc) (S (length v))) end in
  match v, has with
  | _ :: _, false => Skip
  | _, _ =>
      let mc := if has then removelast comps ++ [firstn (length lastc - length v - 1) lastc] else comps in
      match match_segs (t_segs t) (tail_len (compile t) false) mc [] with
      | Matched vars => Found vars
      | Malformed => Abort 3
      | NotMatch => Skip
      end
  end.
Fixpoint spec_route (routes : list (Z * Z * template)) (comps : list bytes) : val :=
  match routes with
  | [] => VL [VN 5]
  | (ti, bi, t) :: r =>
      match spec_step t comps with
      | Found vars => VL [VN 0; VN ti; VN bi; v_vars vars]
      | Abort c => VL [VN c]
      | Skip => spec_route r comps
      end
  end.
Definition spec_routes (targets : list val) (method : bytes) : list (Z * Z * template) :=
  concat (map (fun tv : Z * val =>
    concat (map (fun bv : Z * val =>
      if bytes_eqb (as_S (nthv 0 (snd bv))) method then
        match gw_parse false (as_S (nthv 1 (snd bv))) with
        | Some t => if pattern_ok (compile t) then [(fst tv, fst bv, t)] else []
        | None => []
        end
      else []) (combine (map Z.of_nat (seq 0 (length (as_L (nthv 0 (snd tv)))))) (as_L (nthv 0 (snd tv))))))
    (combine (map Z.of_nat (seq 0 (length targets))) targets)).
(* 1: the request was not routed to the first binding whose template matches (wrong binding, wrong captures, NotFound
      although one matches, or routed although none does)
   4: panic *)
Definition prop_c03 (input impl : val) : option Z :=
  match as_L impl with
  | [VN 99] => Some 4
  | _ =>
      let path := as_S (nthv 3 input) in
      let want := match path with
                  | c :: p => if (c =? c_slash)%N then spec_route (spec_routes (as_L (nthv 0 input)) (as_S (nthv 1 input))) (split_slash p [])
                              else VL [VN 3]
                  | [] => VL [VN 3] end in
      if val_eqb want impl then None else Some 1
  end.
Definition chk_c03 : val -> val := mk_chk run_c03 prop_c03.
