(* C15, the concurrent half: the poller loop of reflection.Resolver (watch / newResolveNow / ResolveNow / Close) as an
   LTS.  Threads: the poller, any number of ResolveNow callers, one closer, and the environment changing the target's
   contract.  [rearm_always] models the loop with the re-arming moved in front of every wait (the seeded change C15-3):
   the theorems are about [rearm_always = false], the witness about [true]. *)
From GB Require Export Base.Val.
Open Scope Z_scope.

Inductive ppc :=
| PStart            (* resolve() entered: this poll has not read the contract yet *)
| PRead (c : Z)     (* the poll has read contract c; callbacks follow *)
| PSelect           (* blocked in the select: resolve-now channel, done channel (PollManually: no timer) *)
| PRearm            (* took the resolve-now branch: channel re-armed, about to call resolve() *)
| PExit.            (* received on done: returned, no further callback *)

Inductive cpc := CIdle | CLoaded (seen : nat) (g : nat) | CReturned (seen : nat).   (* seen: polls started when the call began; g: the generation of the notify function it loaded *)

Record st := {
  pc : ppc;
  closed : bool;              (* the CURRENT resolve-now channel is closed (its once-function has run) *)
  gen : nat;                  (* generation of the resolve-now channel / notify function *)
  polls : nat;                (* polls started so far *)
  callers : list cpc;
  closer_returned : bool;
  contract : Z;               (* what the target currently serves *)
  last : option Z;            (* last delivered *)
  cbs : list Z                (* delivered updates, oldest first *)
}.

Definition init (n : nat) (c0 : Z) : st :=
  {| pc := PStart; closed := false; gen := 0; polls := 1; callers := repeat CIdle n; closer_returned := false;
     contract := c0; last := None; cbs := [] |}.

Fixpoint set_nth (i : nat) (x : cpc) (l : list cpc) : list cpc :=
  match l, i with
  | [], _ => []
  | _ :: r, O => x :: r
  | a :: r, S j => a :: set_nth j x r
  end.

Section LTS.
  Variable rearm_always : bool.
  Variable timer : bool.       (* is the poll interval armed (PollManually = false) *)

  Definition upd (s : st) (p : ppc) (cl : bool) (g : nat) (n : nat) (l : option Z) (cb : list Z) : st :=
    {| pc := p; closed := cl; gen := g; polls := n; callers := callers s; closer_returned := closer_returned s;
       contract := contract s; last := l; cbs := cb |}.

  (* the poller *)
  Definition poller_steps (s : st) : list st :=
    match pc s with
    | PStart => [upd s (PRead (contract s)) (closed s) (gen s) (polls s) (last s) (cbs s)]
    | PRead c =>
        (* deliver iff changed, then (seeded variant) re-arm unconditionally, then wait *)
        let deliver := match last s with Some l => negb (l =? c) | None => true end in
        [upd s PSelect (if rearm_always then false else closed s) (if rearm_always then S (gen s) else gen s) (polls s)
             (if deliver then Some c else last s) (if deliver then cbs s ++ [c] else cbs s)]
    | PSelect =>
        (if closed s then [upd s PRearm (if rearm_always then closed s else false) (if rearm_always then gen s else S (gen s))
                                    (polls s) (last s) (cbs s)] else []) ++
        (if timer then [upd s PStart (closed s) (gen s) (S (polls s)) (last s) (cbs s)] else [])
    | PRearm => [upd s PStart (closed s) (gen s) (S (polls s)) (last s) (cbs s)]
    | PExit => []
    end.

  (* caller i: load the current notify function, then call it (sync.OnceFunc: closes the channel unless already closed) *)
  Definition caller_steps (s : st) : list st :=
    flat_map (fun i =>
      match nth_error (callers s) i with
      | Some CIdle => [{| pc := pc s; closed := closed s; gen := gen s; polls := polls s; callers := set_nth i (CLoaded (polls s) (gen s)) (callers s);
                          closer_returned := closer_returned s; contract := contract s; last := last s; cbs := cbs s |}]
      | Some (CLoaded k g) =>
          (* the once-function of generation g: a no-op if it has run - which it has whenever the channel was re-armed since *)
          [{| pc := pc s; closed := if Nat.eqb g (gen s) then true else closed s; gen := gen s; polls := polls s;
              callers := set_nth i (CReturned k) (callers s);
              closer_returned := closer_returned s; contract := contract s; last := last s; cbs := cbs s |}]
      | _ => []
      end) (seq 0 (length (callers s))).

  (* Close: an unbuffered send on done, received by the poller's select *)
  Definition closer_steps (s : st) : list st :=
    match pc s, closer_returned s with
    | PSelect, false => [{| pc := PExit; closed := closed s; gen := gen s; polls := polls s; callers := callers s; closer_returned := true;
                            contract := contract s; last := last s; cbs := cbs s |}]
    | _, _ => []
    end.

  Definition env_steps (s : st) (c : Z) : st :=
    {| pc := pc s; closed := closed s; gen := gen s; polls := polls s; callers := callers s; closer_returned := closer_returned s;
       contract := c; last := last s; cbs := cbs s |}.

  Inductive step : st -> st -> Prop :=
  | SPoll : forall s s', In s' (poller_steps s) -> step s s'
  | SCall : forall s s', In s' (caller_steps s) -> step s s'
  | SClose : forall s s', In s' (closer_steps s) -> step s s'
  | SEnv : forall s c, step s (env_steps s c).

  Inductive Reach (s0 : st) : st -> Prop :=
  | R0 : Reach s0 s0
  | RS : forall s s', Reach s0 s -> step s s' -> Reach s0 s'.
End LTS.

(* a schedule for witnesses: 0 poller (first enabled), S i caller i *)
Fixpoint run (rearm_always timer : bool) (sched : list nat) (s : st) : option st :=
  match sched with
  | [] => Some s
  | O :: r => match poller_steps rearm_always timer s with s' :: _ => run rearm_always timer r s' | [] => None end
  | S i :: r =>
      match nth_error (callers s) i with
      | Some CIdle => run rearm_always timer r
                        {| pc := pc s; closed := closed s; gen := gen s; polls := polls s; callers := set_nth i (CLoaded (polls s) (gen s)) (callers s);
                           closer_returned := closer_returned s; contract := contract s; last := last s; cbs := cbs s |}
      | Some (CLoaded k g) => run rearm_always timer r
                        {| pc := pc s; closed := if Nat.eqb g (gen s) then true else closed s; gen := gen s; polls := polls s;
                           callers := set_nth i (CReturned k) (callers s);
                           closer_returned := closer_returned s; contract := contract s; last := last s; cbs := cbs s |}
      | _ => None
      end
  end.
