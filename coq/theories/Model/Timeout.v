(* Model of grpcadapter.decodeTimeout (forwarder.go).  Definitions only.
   Durations are nanoseconds in Z.  The unit table and the size guard come from Gen/Extracted.v,
   regenerated from /repo on every run. *)
From GB Require Export Base.Val.
From GB Require Gen.Extracted.
Open Scope Z_scope.

Definition max_int64 : Z := 9223372036854775807.
Definition hour_ns : Z := 3600000000000.
Definition max_hours : Z := max_int64 / hour_ns.

Fixpoint assoc_N {A} (k : N) (l : list (N * A)) : option A :=
  match l with
  | [] => None
  | (k', v) :: r => if N.eqb k k' then Some v else assoc_N k r
  end.

Definition unit_of (u : N) : option Z := assoc_N u Extracted.timeout_units.

(* value of a digit string, most significant first *)
Fixpoint digits_val (acc : Z) (ds : bytes) : Z :=
  match ds with
  | [] => acc
  | c :: r => digits_val (acc * 10 + (Z.of_N c - 48)) r
  end.

Definition all_digits (ds : bytes) : bool := forallb is_digit ds.

(* strconv.ParseUint(s, 10, 63) on at most 8 characters: non-empty, digits only (no sign, no underscore).
   (Range errors cannot occur below 19 digits.) *)
Definition parse_uint (ds : bytes) : option Z :=
  match ds with
  | [] => None
  | _ => if all_digits ds then Some (digits_val 0 ds) else None
  end.

(* strconv.ParseInt(s, 10, 64): optional sign, then the same.  This was the code before the F12 repair;
   kept for the refutation theorem. *)
Definition parse_int (ds : bytes) : option Z :=
  match ds with
  | 43%N :: r => parse_uint r
  | 45%N :: r => option_map Z.opp (parse_uint r)
  | _ => parse_uint ds
  end.

Definition decode_timeout_with (parse : bytes -> option Z) (s : bytes) : option Z :=
  let size := length s in
  if (size <? Extracted.timeout_min_size)%nat || (Extracted.timeout_max_size <? size)%nat then None
  else
    match unit_of (last s 0%N) with
    | None => None
    | Some k =>
        match parse (removelast s) with
        | None => None
        | Some t =>
            if (k =? hour_ns) && (t >? max_hours) then Some max_int64 else Some (k * t)
        end
    end.

Definition decode_timeout : bytes -> option Z := decode_timeout_with parse_uint.
Definition decode_timeout_old : bytes -> option Z := decode_timeout_with parse_int.

(* ---- the property, executable: the gRPC grammar, written independently of the code's structure.
   A value beyond the int64 nanosecond range (only possible with H) saturates at the maximum
   representable duration (292 years), which is observationally 'that duration' for any call. ---- *)
Definition spec_units : list (N * Z) :=
  [(72%N, 3600000000000); (77%N, 60000000000); (83%N, 1000000000);
   (109%N, 1000000); (117%N, 1000); (110%N, 1)].

Definition spec_decode (s : bytes) : option Z :=
  match rev s with
  | [] => None
  | u :: rds =>
      let ds := rev rds in
      match assoc_N u spec_units with
      | None => None
      | Some k =>
          if ((1 <=? length ds) && (length ds <=? 8))%nat && all_digits ds
          then Some (Z.min (digits_val 0 ds * k) max_int64) else None
      end
  end.

(* ---- runner interface ---- *)
Definition vopt_Z (o : option Z) : val := vopt VN o.

Definition run_timeout (input : val) : val := vopt_Z (decode_timeout (as_S input)).

(* property on an implementation output: it must be what the grammar says *)
Definition prop_timeout (input impl : val) : option Z :=
  if val_eqb impl (vopt_Z (spec_decode (as_S input))) then None else Some 1.

Definition chk_c12_decode : val -> val := mk_chk run_timeout prop_timeout.

(* ---- enforcement part: input ( entry shape timeout-ms ) ; impl ( deadline-seen-by-target-ok ended-in-time code ).
   What the LTS theorems (c12_*, c02_progress) say about it: the target sees the client's deadline, the call ends when the
   deadline fires although both sides are idle / the target is unreachable / mid-stream, with DeadlineExceeded. ---- *)
Definition run_enforce (v : val) : val := VL [VN 1; VN 1; VN 4].
(* 1: the target observed no deadline / a later one  2: the call outlived its deadline (or ended early)  3: it did not end with DeadlineExceeded *)
Definition prop_enforce (input impl : val) : option Z :=
  if negb (as_bool (nthv 0 impl)) then Some 1
  else if negb (as_bool (nthv 1 impl)) then Some 2
  else if Z.eqb (as_Z (nthv 2 impl)) 4 then None else Some 3.
Definition chk_c12_enforce : val -> val := mk_chk run_enforce prop_enforce.

(* ctxWithHalvedDeadline: the connection wait gets half of what is left, never more than the call has *)
Definition halved_deadline (now d : Z) : Z := now + (d - now) / 2.
