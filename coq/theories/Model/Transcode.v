(* C04: request transcoding per the http.proto binding rules — transcoding/http.go transcodeFunc (body -> path variables ->
   filtered query), internal/gwquery (typed text parsers, field-path population, query parsing) and the prefix filter of
   grpc-gateway's utilities.DoubleArray.  Definitions only.

   Messages are association lists from proto field names to values; presence is "has an entry".  The JSON body decoder
   for a single non-message field is the C09 model (Model/Json.v); for whole messages it is the simple canonical subset
   of protojson that the harness generates (see decode_msg). *)
From GB Require Export Model.Json.
From GB Require Import Model.MDFilter.
Open Scope Z_scope.

(* ---------- schemas ---------- *)
Inductive fkind := FScalar (k : kind) | FMsg (idx : nat).
Inductive card := CSingle | CList | CMap (kk : kind).
Record fdesc := { fd_name : bytes; fd_json : bytes; fd_kind : fkind; fd_card : card;
                  fd_oneof : Z;       (* 0: none; otherwise the id of the (possibly synthetic) oneof within the message *)
                  fd_pres : bool }.   (* explicit presence (oneof member, proto3 optional, message) *)
(* md_wkt: 0 ordinary message; 1..9 the wrappers Int32 Int64 UInt32 UInt64 Bool String Bytes Float Double; 10 FieldMask *)
Record mdesc := { md_wkt : Z; md_fields : list fdesc }.
Definition schema := list mdesc.
Definition empty_md : mdesc := {| md_wkt := 0; md_fields := [] |}.
Definition fields_of (sc : schema) (mi : nat) : list fdesc := md_fields (nth mi sc empty_md).

(* ---------- message values ---------- *)
Inductive mv := MS (v : fv) | MM (fs : list (bytes * mv)) | ML (l : list mv) | MP (l : list (mv * mv)).
Definition msg := list (bytes * mv).

Fixpoint mget (n : bytes) (m : msg) : option mv :=
  match m with [] => None | (k, v) :: r => if bytes_eqb k n then Some v else mget n r end.
Fixpoint mset (n : bytes) (v : mv) (m : msg) : msg :=
  match m with [] => [(n, v)] | (k, x) :: r => if bytes_eqb k n then (k, v) :: r else (k, x) :: mset n v r end.
Definition mdel (n : bytes) (m : msg) : msg := filter (fun e => negb (bytes_eqb (fst e) n)) m.

(* fields.ByName, then fields.ByJSONName *)
Definition find_field (n : bytes) (fs : list fdesc) : option fdesc :=
  match find (fun fd => bytes_eqb (fd_name fd) n) fs with
  | Some fd => Some fd
  | None => find (fun fd => bytes_eqb (fd_json fd) n) fs
  end.

(* the members of fd's oneof that are set in m *)
Definition oneof_set (fs : list fdesc) (oid : Z) (m : msg) : list bytes :=
  map fd_name (filter (fun g => Z.eqb (fd_oneof g) oid && match mget (fd_name g) m with Some _ => true | None => false end) fs).
(* Set / Mutable of a oneof member clears the others *)
Definition clear_oneof (fs : list fdesc) (fd : fdesc) (m : msg) : msg :=
  if Z.eqb (fd_oneof fd) 0 then m
  else filter (fun e => negb (existsb (fun g => Z.eqb (fd_oneof g) (fd_oneof fd) && bytes_eqb (fd_name g) (fst e)
                                              && negb (bytes_eqb (fd_name g) (fd_name fd))) fs)) m.

(* ---------- text forms (gwquery.parseField) ---------- *)
Definition bool_true : list bytes := [[49]; [116]; [84]; [84;82;85;69]; [116;114;117;101]; [84;114;117;101]]%N.
Definition bool_false : list bytes := [[48]; [102]; [70]; [70;65;76;83;69]; [102;97;108;115;101]; [70;97;108;115;101]]%N.
Definition parse_bool (s : bytes) : res fv :=
  if existsb (bytes_eqb s) bool_true then Ok (FBool true) else if existsb (bytes_eqb s) bool_false then Ok (FBool false) else Err.

Definition all_digits_b (s : bytes) : bool := forallb is_digit s.
(* strconv.ParseInt(s, 10, bits): optional sign, at least one digit, nothing else, in range *)
Definition parse_dec_signed (s : bytes) : option Z :=
  let '(neg, ds) := match s with
                    | c :: r => if (c =? 45)%N then (true, r) else if (c =? 43)%N then (false, r) else (false, s)
                    | [] => (false, s) end in
  match ds with
  | [] => None
  | _ => if all_digits_b ds then Some (if neg then - digits_Z 0 ds else digits_Z 0 ds) else None
  end.
(* strconv.ParseUint(s, 10, bits): no sign *)
Definition parse_dec_unsigned (s : bytes) : option Z :=
  match s with [] => None | _ => if all_digits_b s then Some (digits_Z 0 s) else None end.

Definition parse_int_kind (k : kind) (s : bytes) : res fv :=
  match (match k with KUint32 | KUint64 => parse_dec_unsigned s | _ => parse_dec_signed s end) with
  | Some z => if in_range k z then Ok (FInt z) else Err
  | None => Err
  end.

Definition parse_float_kind (k : kind) (s : bytes) : res fv :=
  match float_special s with
  | Some sp => Ok (FSpecial sp)
  | None => match go_float s with Some (_, g) => if gf_ge g (float_bound k) then Err else Ok FFinite | None => Err end
  end.

(* gwquery.Bytes: StdEncoding, else URLEncoding (both padded) *)
Definition url_to_std (s : bytes) : option bytes :=
  if existsb (fun c => (c =? 43) || (c =? 47))%N s then None
  else Some (map (fun c => if (c =? 45)%N then 43%N else if (c =? 95)%N then 47%N else c) s).
Definition parse_bytes (s : bytes) : res fv :=
  match b64_std s with
  | Some b => Ok (FBytes b)
  | None => match url_to_std s with
            | Some t => match b64_std t with Some b => Ok (FBytes b) | None => Err end
            | None => Err
            end
  end.

(* enums: a value name, or the decimal number of a DEFINED value (int32, exactly) *)
Definition parse_enum (names : list (bytes * Z)) (s : bytes) : res fv :=
  match lookup_name s names with
  | Some z => Ok (FEnum z)
  | None => match parse_dec_signed s with
            | Some z => if (-2147483648 <=? z) && (z <=? 2147483647) && existsb (fun e => Z.eqb (snd e) z) names then Ok (FEnum z) else Err
            | None => Err
            end
  end.
(* before the repair: strconv.Atoi, then a plain conversion to int32 (wraps) *)
Definition parse_enum_old (names : list (bytes * Z)) (s : bytes) : res fv :=
  match lookup_name s names with
  | Some z => Ok (FEnum z)
  | None => match parse_dec_signed s with
            | Some z => if (-9223372036854775808 <=? z) && (z <=? 9223372036854775807)
                        then let w := wrap 32 true z in if existsb (fun e => Z.eqb (snd e) w) names then Ok (FEnum w) else Err
                        else Err
            | None => Err
            end
  end.

Definition parse_scalar (k : kind) (s : bytes) : res fv :=
  match k with
  | KBool => parse_bool s
  | KInt32 | KInt64 | KUint32 | KUint64 => parse_int_kind k s
  | KFloat | KDouble => parse_float_kind k s
  | KString => Ok (FStr s)
  | KBytes => parse_bytes s
  | KEnum names => parse_enum names s
  end.

Definition s_value : bytes := [118;97;108;117;101]%N.
Definition s_paths : bytes := [112;97;116;104;115]%N.
Fixpoint split_on (sep : N) (s : bytes) (cur : bytes) : list bytes :=
  match s with
  | [] => [rev cur]
  | c :: r => if (c =? sep)%N then rev cur :: split_on sep r [] else split_on sep r (c :: cur)
  end.
Definition split_dot (s : bytes) : list bytes := split_on 46 s [].

(* gwquery.parseMessage: the wrappers and FieldMask from their text forms; any other message type is unsupported *)
Definition wrapper_kind (w : Z) : option kind :=
  match w with 1 => Some KInt32 | 2 => Some KInt64 | 3 => Some KUint32 | 4 => Some KUint64 | 5 => Some KBool
             | 6 => Some KString | 7 => Some KBytes | 8 => Some KFloat | 9 => Some KDouble | _ => None end.
Definition parse_message (sc : schema) (idx : nat) (s : bytes) : res mv :=
  let w := md_wkt (nth idx sc empty_md) in
  match wrapper_kind w with
  | Some k => match parse_scalar k s with Ok v => Ok (MM [(s_value, MS v)]) | Err => Err end
  | None => if Z.eqb w 10 then Ok (MM [(s_paths, ML (map (fun p => MS (FStr p)) (split_on 44 s [])))]) else Err
  end.
Definition parse_field (sc : schema) (k : fkind) (s : bytes) : res mv :=
  match k with
  | FScalar sk => match parse_scalar sk s with Ok v => Ok (MS v) | Err => Err end
  | FMsg idx => parse_message sc idx s
  end.

(* ---------- populateFieldValueFromPath ---------- *)
Definition mv_eqb_key (a b : mv) : bool :=
  match a, b with
  | MS (FBool x), MS (FBool y) => Bool.eqb x y
  | MS (FInt x), MS (FInt y) => Z.eqb x y
  | MS (FStr x), MS (FStr y) => bytes_eqb x y
  | _, _ => false
  end.
Fixpoint map_set (k v : mv) (l : list (mv * mv)) : list (mv * mv) :=
  match l with [] => [(k, v)] | (a, b) :: r => if mv_eqb_key a k then (a, v) :: r else (a, b) :: map_set k v r end.

Definition set_final (sc : schema) (fs : list fdesc) (fd : fdesc) (m : msg) (values : list bytes) : res msg :=
  if negb (Z.eqb (fd_oneof fd) 0) && negb (match oneof_set fs (fd_oneof fd) m with [] => true | _ => false end) then Err
  else
  match fd_card fd with
  | CList =>
      match collect (map (parse_field sc (fd_kind fd)) values) with
      | Ok vs => Ok (mset (fd_name fd) (ML (match mget (fd_name fd) m with Some (ML old) => old | _ => [] end ++ vs)) m)
      | Err => Err
      end
  | CMap kk =>
      match values with
      | [kt; vt] =>
          match parse_scalar kk kt, parse_field sc (fd_kind fd) vt with
          | Ok kv, Ok vv => Ok (mset (fd_name fd) (MP (map_set (MS kv) vv (match mget (fd_name fd) m with Some (MP old) => old | _ => [] end))) m)
          | _, _ => Err
          end
      | _ => Err
      end
  | CSingle =>
      match values with
      | [vt] => match parse_field sc (fd_kind fd) vt with Ok vv => Ok (mset (fd_name fd) vv m) | Err => Err end
      | _ => Err
      end
  end.

(* fuel: the length of the path *)
Fixpoint populate_go (fuel : nat) (sc : schema) (mi : nat) (m : msg) (path : list bytes) (values : list bytes) : res msg :=
  match fuel, path with
  | S f, name :: rest =>
      let fs := fields_of sc mi in
      match find_field name fs with
      | None => Ok m                             (* an extra parameter that is not part of the request: ignored *)
      | Some fd =>
          match rest with
          | [] => set_final sc fs fd m values
          | _ =>
              match fd_kind fd, fd_card fd with
              | FMsg idx, CSingle =>
                  (* Mutable: get or create (clearing the other members of its oneof) *)
                  let sub := match mget (fd_name fd) m with Some (MM s) => s | _ => [] end in
                  match populate_go f sc idx sub rest values with
                  | Ok sub' => Ok (mset (fd_name fd) (MM sub') (clear_oneof fs fd m))
                  | Err => Err
                  end
              | _, _ => Err
              end
          end
      end
  | _, _ => Err
  end.
Definition populate (sc : schema) (m : msg) (path : list bytes) (values : list bytes) : res msg :=
  match values with [] => Err | _ => populate_go (length path) sc O m path values end.

(* ---------- query parsing (gwquery.DefaultQueryParser.Parse) ---------- *)
(* valuesKeyRegexp, anything [ anything ] anchored at both ends: the key ends with ']' and has a '[' ; the greedy first
   group ends at the LAST '[' ; the dot of the regexp excludes LF *)
Fixpoint last_index (c : N) (s : bytes) (i : nat) (acc : option nat) : option nat :=
  match s with [] => acc | x :: r => last_index c r (S i) (if (x =? c)%N then Some i else acc) end.
Definition bracket_split (key : bytes) : option (bytes * bytes) :=
  if existsb (N.eqb 10) key then None else
  match rev key with
  | 93%N :: _ =>
      match last_index 91 key O None with
      | Some p => Some (firstn p key, removelast (skipn (S p) key))
      | None => None
      end
  | _ => None
  end.

Fixpoint normalize_go (fuel : nat) (sc : schema) (mi : nat) (path : list bytes) : option (list bytes) :=
  match fuel, path with
  | _, [] => Some []
  | S f, name :: rest =>
      match find_field name (fields_of sc mi) with
      | None => None
      | Some fd =>
          match rest with
          | [] => Some [fd_name fd]
          | _ => match fd_kind fd, fd_card fd with
                 | FMsg idx, CSingle => match normalize_go f sc idx rest with Some p => Some (fd_name fd :: p) | None => None end
                 | _, _ => None
                 end
          end
      end
  | O, _ => None
  end.
Definition normalize (sc : schema) (path : list bytes) : list bytes :=
  match normalize_go (length path) sc O path with Some p => p | None => path end.

(* gwquery.FieldPathFilter.HasCommonPrefix: one of the bound field paths is a prefix of (or equal to) the path.
   (Before the repair this was grpc-gateway's utilities.DoubleArray, whose trie construction breaks when two registered
   paths share an element: finding F24.) *)
Definition path_eqb : list bytes -> list bytes -> bool := list_eqb bytes_eqb.
Fixpoint is_prefix (p s : list bytes) : bool :=
  match p, s with
  | [], _ => true
  | a :: p', b :: s' => bytes_eqb a b && is_prefix p' s'
  | _ :: _, [] => false
  end.
Definition has_common_prefix (seqs : list (list bytes)) (path : list bytes) : bool := existsb (fun s => is_prefix s path) seqs.

Definition query_step (sc : schema) (seqs : list (list bytes)) (m : msg) (kv : bytes * list bytes) : res msg :=
  let '(key, values) := match bracket_split (fst kv) with
                        | Some (k, sub) => (k, sub :: snd kv)
                        | None => (fst kv, snd kv) end in
  let path := normalize sc (split_dot key) in
  if has_common_prefix seqs path then Ok m else populate sc m path values.

Fixpoint fold_res {A B} (f : A -> B -> res A) (l : list B) (a : A) : res A :=
  match l with [] => Ok a | b :: r => match f a b with Ok a' => fold_res f r a' | Err => Err end end.

(* ---------- the JSON body ---------- *)
(* traverseFieldPath for body paths: every element but the last is a singular message field (created on the way) *)
Inductive target := TWhole | TField (fd : fdesc).
(* returns the chain of (field, message index) to the message holding the body field, and the field *)
Fixpoint traverse (fuel : nat) (sc : schema) (mi : nat) (path : list bytes) : option (list fdesc * nat * fdesc) :=
  match fuel, path with
  | S f, name :: rest =>
      if match name with [] => true | _ => false end then None else
      match find (fun fd => bytes_eqb (fd_name fd) name) (fields_of sc mi) with
      | None => None
      | Some fd =>
          match rest with
          | [] => Some ([], mi, fd)
          | _ => match fd_kind fd, fd_card fd with
                 | FMsg idx, CSingle => match traverse f sc idx rest with
                                        | Some (chain, mi', fd') => Some (fd :: chain, mi', fd')
                                        | None => None end
                 | _, _ => None
                 end
          end
      end
  | _, _ => None
  end.

(* whole messages: the canonical subset of protojson the harness generates: objects keyed by JSON or proto names, scalars in
   their canonical forms (the C09 decoder agrees with protojson on those), nested objects, arrays, string-keyed objects for
   maps; null leaves a field unset; unknown names are discarded *)
Fixpoint decode_msg (fuel : nat) (sc : schema) (mi : nat) (j : jv) : res msg :=
  match fuel with
  | O => Err
  | S f =>
      match j with
      | JObj entries =>
          fold_res (fun (m : msg) (e : bytes * jv) =>
            let fs := fields_of sc mi in
            match (match find (fun fd => bytes_eqb (fd_json fd) (fst e)) fs with Some fd => Some fd
                   | None => find (fun fd => bytes_eqb (fd_name fd) (fst e)) fs end) with
            | None => Ok m
            | Some fd =>
                match snd e with
                | JNull => Ok m
                | v =>
                  if match mget (fd_name fd) m with Some _ => true | None => false end then Err       (* duplicate field *)
                  else if negb (Z.eqb (fd_oneof fd) 0) && negb (match oneof_set fs (fd_oneof fd) m with [] => true | _ => false end) then Err
                  else
                  match fd_card fd, fd_kind fd with
                  | CSingle, FScalar k => match unmarshal_scalar true k v with
                                          | Ok FSkip => Ok m
                                          | Ok x => Ok (mset (fd_name fd) (MS x) m)
                                          | Err => Err end
                  | CSingle, FMsg idx => match decode_msg f sc idx v with Ok s => Ok (mset (fd_name fd) (MM s) m) | Err => Err end
                  | CList, FScalar k => match unmarshal_list true k v with
                                        | Ok l => Ok (mset (fd_name fd) (ML (map MS l)) m) | Err => Err end
                  | CList, FMsg idx => match v with
                                       | JArr items => match collect (map (decode_msg f sc idx) items) with
                                                       | Ok l => Ok (mset (fd_name fd) (ML (map MM l)) m) | Err => Err end
                                       | _ => Err end
                  | CMap kk, FScalar k => match unmarshal_map true kk k v with
                                          | Ok l => Ok (mset (fd_name fd) (MP (fold_left (fun acc p => map_set (MS (fst p)) (MS (snd p)) acc) l [])) m)
                                          | Err => Err end
                  | CMap _, FMsg _ => Err
                  end
                end
            end) entries []
      | _ => Err
      end
  end.

(* Decoder.Decode(msg, fd) for a field: the C09 field codec; message fields go through decode_msg *)
Definition decode_field (sc : schema) (fd : fdesc) (m : msg) (j : jv) : res msg :=
  match fd_card fd, fd_kind fd with
  | CSingle, FScalar k => match unmarshal_scalar true k j with
                          | Ok FSkip => Ok m
                          | Ok x => Ok (mset (fd_name fd) (MS x) m)
                          | Err => Err end
  | CSingle, FMsg idx => match decode_msg 8 sc idx j with Ok s => Ok (mset (fd_name fd) (MM s) m) | Err => Err end
  | CList, FScalar k => match unmarshal_list true k j with
                        | Ok l => Ok (mset (fd_name fd) (ML (match mget (fd_name fd) m with Some (ML old) => old | _ => [] end ++ map MS l)) m)
                        | Err => Err end
  | CMap kk, FScalar k => match unmarshal_map true kk k j with
                          | Ok l => Ok (mset (fd_name fd) (MP (fold_left (fun acc p => map_set (MS (fst p)) (MS (snd p)) acc) l
                                                                   (match mget (fd_name fd) m with Some (MP old) => old | _ => [] end))) m)
                          | Err => Err end
  | _, _ => Err
  end.

(* apply f to the message reached through the chain of singular message fields, creating them on the way *)
Fixpoint at_chain (chain : list fdesc) (m : msg) (f : msg -> res msg) : res msg :=
  match chain with
  | [] => f m
  | fd :: r =>
      let sub := match mget (fd_name fd) m with Some (MM s) => s | _ => [] end in
      match at_chain r sub f with Ok s' => Ok (mset (fd_name fd) (MM s') m) | Err => Err end
  end.

(* ---------- transcodeFunc ---------- *)
Inductive outcome := Done (m : msg) | Fail (code : Z).
Definition s_star : bytes := [42%N].

Definition body_phase (sc : schema) (bodypath : bytes) (body : option jv) : outcome :=
  if match bodypath with [] => true | _ => false end then Done []
  else if bytes_eqb bodypath s_star then
    match body with
    | None => Done []
    | Some j => match decode_msg 8 sc O j with Ok m => Done m | Err => Fail 3 end
    end
  else
    let els := split_dot bodypath in
    match traverse (length els) sc O els with
    | None => Fail 13
    | Some (chain, _, fd) =>
        match at_chain chain [] (fun m => match body with None => Ok m | Some j => decode_field sc fd m j end) with
        | Ok m => Done m
        | Err => Fail 3
        end
    end.

Definition filter_seqs (bodypath : bytes) (params : list (bytes * bytes)) : list (list bytes) :=
  (if match bodypath with [] => true | _ => false end then [] else [split_dot bodypath]) ++ map (fun p => split_dot (fst p)) params.

Definition transcode (sc : schema) (bodypath : bytes) (params : list (bytes * bytes)) (query : list (bytes * list bytes)) (body : option jv) : outcome :=
  match body_phase sc bodypath body with
  | Fail c => Fail c
  | Done m0 =>
      match fold_res (fun m p => populate sc m (split_dot (fst p)) [snd p]) params m0 with
      | Err => Fail 3
      | Ok m1 =>
          if bytes_eqb bodypath s_star then Done m1
          else match fold_res (query_step sc (filter_seqs bodypath params)) query m1 with
               | Ok m2 => Done m2
               | Err => Fail 3
               end
      end
  end.
