(* C08 / C17, finding F33: who writes to the response, and when.  The web streams hand every Send to a goroutine and wait
   for it with withCtx (webbridge/http.go): when the call's context ends, Send returns at once and that goroutine is
   ABANDONED - it still writes when it gets to it.  This is that protocol as a small transition system, for the code as it
   is ([locked = false]) and for the discipline a repair would introduce ([locked = true]: the data write and the trailer
   write exclude each other, and a write that comes after the trailer is dropped).  Definitions only. *)
From GB Require Export Base.Val.
Open Scope Z_scope.

Inductive wact :=
| PumpSend        (* the target->client pump calls Send: a writer goroutine is spawned *)
| WriterBegin     (* the writer goroutine reaches the Write (locked: takes the lock, or finds the response finished) *)
| WriterEnd       (* the client has taken the bytes: the Write returns *)
| SendReturns     (* withCtx sees the writer's result: Send returns normally *)
| ReqFails        (* the request direction fails: Forward is about to return, the call's context ends *)
| PumpAbandon     (* withCtx sees the context end first: Send returns, the writer is left behind *)
| PumpExit        (* the pump, not inside Send, sees the context end *)
| HandlerTrailer  (* Forward has returned (its pumps have): the handler writes the trailer frame *)
| HandlerReturn.  (* ServeHTTP returns *)

Record wst := {
  sending : bool;    (* the pump is inside Send *)
  pending : bool;    (* a writer goroutine exists that has not reached its Write yet *)
  wbusy : bool;      (* a data Write is in progress *)
  ctx_done : bool;
  pump_done : bool;
  trailer : bool;    (* the trailer frame has been written *)
  returned : bool;   (* ServeHTTP has returned *)
  log : list Z;      (* frames in the order the client gets them: 0 data, 1 trailer *)
  late : nat         (* writes that completed after ServeHTTP had returned *)
}.
Definition w_init : wst :=
  {| sending := false; pending := false; wbusy := false; ctx_done := false; pump_done := false; trailer := false; returned := false; log := []; late := O |}.

Definition wstep (locked : bool) (s : wst) (a : wact) : option wst :=
  match a with
  | PumpSend =>
      if negb (sending s) && negb (pump_done s) && negb (pending s) && negb (wbusy s)
      then Some {| sending := true; pending := true; wbusy := wbusy s; ctx_done := ctx_done s; pump_done := pump_done s; trailer := trailer s;
                   returned := returned s; log := log s; late := late s |} else None
  | WriterBegin =>
      if pending s && negb (wbusy s) then
        if locked && trailer s
        then (* the response is finished: the write is dropped *)
             Some {| sending := sending s; pending := false; wbusy := false; ctx_done := ctx_done s; pump_done := pump_done s; trailer := trailer s;
                     returned := returned s; log := log s; late := late s |}
        else Some {| sending := sending s; pending := false; wbusy := true; ctx_done := ctx_done s; pump_done := pump_done s; trailer := trailer s;
                     returned := returned s; log := log s; late := late s |}
      else None
  | WriterEnd =>
      if wbusy s then
        Some {| sending := sending s; pending := pending s; wbusy := false; ctx_done := ctx_done s; pump_done := pump_done s; trailer := trailer s;
                returned := returned s; log := log s ++ [0]; late := if returned s then S (late s) else late s |}
      else None
  | SendReturns =>
      if sending s && negb (pending s) && negb (wbusy s)
      then Some {| sending := false; pending := false; wbusy := false; ctx_done := ctx_done s; pump_done := pump_done s; trailer := trailer s;
                   returned := returned s; log := log s; late := late s |} else None
  | ReqFails =>
      Some {| sending := sending s; pending := pending s; wbusy := wbusy s; ctx_done := true; pump_done := pump_done s; trailer := trailer s;
              returned := returned s; log := log s; late := late s |}
  | PumpAbandon =>
      if sending s && ctx_done s
      then Some {| sending := false; pending := pending s; wbusy := wbusy s; ctx_done := true; pump_done := true; trailer := trailer s;
                   returned := returned s; log := log s; late := late s |} else None
  | PumpExit =>
      if negb (sending s) && ctx_done s
      then Some {| sending := false; pending := pending s; wbusy := wbusy s; ctx_done := true; pump_done := true; trailer := trailer s;
                   returned := returned s; log := log s; late := late s |} else None
  | HandlerTrailer =>
      if pump_done s && negb (trailer s) && negb (locked && wbusy s)
      then Some {| sending := sending s; pending := pending s; wbusy := wbusy s; ctx_done := ctx_done s; pump_done := true; trailer := true;
                   returned := returned s; log := log s ++ [1]; late := late s |} else None
  | HandlerReturn =>
      if trailer s && negb (returned s)
      then Some {| sending := sending s; pending := pending s; wbusy := wbusy s; ctx_done := ctx_done s; pump_done := pump_done s; trailer := true;
                   returned := true; log := log s; late := late s |} else None
  end.

Fixpoint wrun (locked : bool) (l : list wact) (s : wst) : option wst :=
  match l with
  | [] => Some s
  | a :: r => match wstep locked s a with Some s' => wrun locked r s' | None => None end
  end.

(* what the client must see: data frames, then exactly one trailer frame *)
Fixpoint frames_ok (l : list Z) : bool :=
  match l with
  | [] => false
  | [k] => Z.eqb k 1
  | k :: r => Z.eqb k 0 && frames_ok r
  end.
