(* C20 / C03: path templates of google.api.http — the routing parser (internal/httprule/gwbased: tokenize, recursive
   descent, compile to gateway opcodes), the strict parser (internal/httprule: tokenize, parse), the grammar itself as
   well-formedness + rendering of an abstract template, and the matcher (grpc-gateway runtime.Pattern.MatchAndEscape as
   driven by routing/pattern_router.go RouteHTTP).  Definitions only. *)
From GB Require Export Base.Val.
Open Scope N_scope.

(* ---------- abstract templates ---------- *)
Inductive seg := SWild | SDeep | SLit (s : bytes) | SVar (path : list bytes) (segs : list seg).
Record template := { t_segs : list seg; t_verb : bytes }.

Definition c_slash := 47. Definition c_lbrace := 123. Definition c_rbrace := 125. Definition c_dot := 46.
Definition c_eq := 61. Definition c_colon := 58. Definition c_star := 42. Definition c_pct := 37.

(* ---------- characters ---------- *)
Definition is_alpha (c : N) : bool := ((65 <=? c) && (c <=? 90)) || ((97 <=? c) && (c <=? 122)).
Definition is_hex (c : N) : bool := is_digit c || ((65 <=? c) && (c <=? 70)) || ((97 <=? c) && (c <=? 102)).
(* pchar other than '%': unreserved, sub-delims, ':' and '@' *)
Definition is_pchar_plain (c : N) : bool :=
  is_alpha c || is_digit c ||
  existsb (N.eqb c) [45; 46; 95; 126;  33; 36; 38; 39; 40; 41; 42; 43; 44; 59; 61;  58; 64].
(* expectPChars / checkLiteral: pchars with well-formed percent escapes (fuel: the length) *)
Fixpoint pchars_f (fuel : nat) (s : bytes) : bool :=
  match fuel with
  | O => match s with [] => true | _ => false end
  | S f =>
      match s with
      | [] => true
      | c :: r => if c =? c_pct then match r with
                                     | h1 :: h2 :: r' => is_hex h1 && is_hex h2 && pchars_f f r'
                                     | _ => false end
                  else is_pchar_plain c && pchars_f f r
      end
  end.
Definition is_literal (s : bytes) : bool := pchars_f (length s) s.
(* IDENT = (ALPHA / "_") *(ALPHA / DIGIT / "_") *)
Definition is_ident (s : bytes) : bool :=
  match s with
  | [] => false
  | c :: r => (is_alpha c || (c =? 95)) && forallb (fun x => is_alpha x || is_digit x || (x =? 95)) r
  end.

(* ---------- tokenizer (both parsers share it; the routing one also splits the verb off) ---------- *)
(* st: 0 segment, 1 field path, 2 nested segments of a variable *)
Definition is_delim (st : nat) (c : N) : bool :=
  match st with
  | O => (c =? c_slash) || (c =? c_lbrace)
  | 1%nat => (c =? c_dot) || (c =? c_eq) || (c =? c_rbrace)
  | _ => (c =? c_slash) || (c =? c_rbrace)
  end.
Definition next_state (st : nat) (c : N) : nat :=
  if c =? c_lbrace then 1%nat else if c =? c_eq then 2%nat else if c =? c_rbrace then O else st.
Fixpoint scan (st : nat) (s : bytes) (cur : bytes) : list bytes :=
  match s with
  | [] => match cur with [] => [] | _ => [rev cur] end
  | c :: r => if is_delim st c
              then (match cur with [] => [] | _ => [rev cur] end) ++ [c] :: scan (next_state st c) r []
              else scan st r (c :: cur)
  end.
Definition eof : bytes := [0].

Fixpoint index_of (c : N) (s : bytes) (i : nat) : option nat :=
  match s with [] => None | x :: r => if x =? c then Some i else index_of c r (S i) end.
Fixpoint last_index_of (c : N) (s : bytes) (i : nat) (acc : option nat) : option nat :=
  match s with [] => acc | x :: r => last_index_of c r (S i) (if x =? c then Some i else acc) end.

(* gwbased tokenize: tokens (with the eof marker) and the verb *)
Definition gw_tokenize (path : bytes) : list bytes * bytes :=
  match path with
  | [] => ([eof], [])
  | _ =>
      let toks := scan O path [] in
      let l := length toks in
      let t := last toks [] in
      let after_var := match rev toks with _ :: p :: _ => bytes_eqb p [c_rbrace] | _ => false end in
      let idx := if after_var then index_of c_colon t O else last_index_of c_colon t O None in
      match idx with
      | Some O => (removelast toks ++ [eof], skipn 1 t)
      | Some i => (removelast toks ++ [firstn i t; eof], skipn (S i) t)
      | None => (toks ++ [eof], [])
      end
  end.

(* ---------- the routing parser (gwbased), after the repair of accept (finding F20) ---------- *)
Definition tok_is (c : N) (t : bytes) : bool := bytes_eqb t [c].
Definition s_deep : bytes := [c_star; c_star].

(* returns the parsed thing and the remaining tokens *)
Fixpoint gw_field_path_rest (fuel : nat) (toks : list bytes) (acc : list bytes) : option (list bytes * list bytes) :=
  match fuel with
  | O => None
  | S f =>
      match toks with
      | d :: r => if tok_is c_dot d
                  then match r with
                       | c :: r' => if is_ident c then gw_field_path_rest f r' (acc ++ [c]) else None
                       | [] => None end
                  else Some (acc, toks)
      | [] => Some (acc, toks)
      end
  end.
Definition gw_field_path (toks : list bytes) : option (list bytes * list bytes) :=
  match toks with
  | c :: r => if is_ident c then gw_field_path_rest (length toks) r [c] else None
  | [] => None
  end.

(* lenient: the '/' token satisfies every punctuation terminal (the code before the repair) *)
Section GwParser.
Variable lenient : bool.
Definition punct (c : N) (t : bytes) : bool := tok_is c t || (lenient && tok_is c_slash t).
Definition punct_s (s : bytes) (t : bytes) : bool := bytes_eqb t s || (lenient && tok_is c_slash t).

(* one segment; [inner] parses the segments of a variable *)
Definition gw_segment (inner : list bytes -> option (list seg * list bytes)) (toks : list bytes) : option (seg * list bytes) :=
  match toks with
  | [] => None
  | t :: r =>
      if punct c_star t then Some (SWild, r)
      else if punct_s s_deep t then Some (SDeep, r)
      else if is_literal t then Some (SLit t, r)
      else if punct c_lbrace t then
        match gw_field_path r with
        | None => None
        | Some (path, r1) =>
            match r1 with
            | e :: r2 =>
                if punct c_eq e then
                  match inner r2 with
                  | Some (segs, r3) =>
                      match r3 with
                      | c :: r4 => if punct c_rbrace c then Some (SVar path segs, r4) else None
                      | [] => None end
                  | None => None
                  end
                else if punct c_rbrace e then Some (SVar path [SWild], r2) else None
            | [] => None
            end
        end
      else None
  end.

Fixpoint gw_segments (fuel : nat) (toks : list bytes) : option (list seg * list bytes) :=
  match fuel with
  | O => None
  | S f =>
      match gw_segment (gw_segments f) toks with
      | None => None
      | Some (s, r) =>
          match r with
          | t :: r' => if punct c_slash t
                       then match gw_segments f r' with Some (more, r'') => Some (s :: more, r'') | None => None end
                       else Some ([s], r)
          | [] => Some ([s], r)
          end
      end
  end.

Definition gw_parse (tmpl : bytes) : option template :=
  match tmpl with
  | c :: path =>
      if (c =? c_slash) && negb (existsb (N.eqb 0) tmpl) then
        let '(toks, verb) := gw_tokenize path in
        if negb (is_literal verb) then None else
        match toks with
        | t :: _ =>
            if bytes_eqb t eof then Some {| t_segs := [SLit []]; t_verb := verb |}      (* the "/" template *)
            else match gw_segments (S (length toks)) toks with
                 | Some (segs, [e]) => if bytes_eqb e eof then Some {| t_segs := segs; t_verb := verb |} else None
                 | _ => None
                 end
        | [] => None
        end
      else None
  | [] => None
  end.
End GwParser.

(* ---------- compile to operations ---------- *)
Inductive op := OPush | OPushM | OLit (s : bytes) | OConcat (n : nat) | OCapture (v : bytes).
Definition join_with (sep : N) (l : list bytes) : bytes :=
  match l with [] => [] | a :: r => a ++ flat_map (fun x => sep :: x) r end.
Fixpoint compile_seg (s : seg) : list op :=
  match s with
  | SWild => [OPush]
  | SDeep => [OPushM]
  | SLit l => [OLit l]
  | SVar path segs => flat_map compile_seg segs ++ [OConcat (length segs); OCapture (join_with c_dot path)]
  end.
Definition compile (t : template) : list op := flat_map compile_seg (t_segs t).
Definition fields_of_ops (ops : list op) : list bytes := flat_map (fun o => match o with OCapture v => [v] | _ => [] end) ops.
(* runtime.NewPattern: at most one deep wildcard *)
Definition pattern_ok (ops : list op) : bool :=
  (length (filter (fun o => match o with OPushM => true | _ => false end) ops) <=? 1)%nat.
(* the number of fixed-size segments after the deep wildcard *)
Fixpoint tail_len (ops : list op) (seen : bool) : nat :=
  match ops with
  | [] => O
  | OPushM :: r => tail_len r true
  | (OPush | OLit _) :: r => (if seen then 1 else 0) + tail_len r seen
  | _ :: r => tail_len r seen
  end.

(* ---------- unescaping (runtime.unescape, UnescapingModeAllExceptReserved) ---------- *)
Definition hexv (c : N) : N := if is_digit c then c - 48 else if (97 <=? c) then c - 87 else c - 55.
Definition is_reserved (c : N) : bool :=
  existsb (N.eqb c) [33; 35; 36; 38; 39; 40; 41; 42; 43; 44; 47; 58; 59; 61; 63; 64; 91; 93].
(* None: a malformed escape *)
Fixpoint unescape_f (fuel : nat) (multi : bool) (s : bytes) : option bytes :=
  match fuel with
  | O => match s with [] => Some [] | _ => None end
  | S f =>
      match s with
      | [] => Some []
      | c :: r =>
          if c =? c_pct then
            match r with
            | h1 :: h2 :: r' =>
                if is_hex h1 && is_hex h2 then
                  let v := hexv h1 * 16 + hexv h2 in
                  match unescape_f f multi r' with
                  | Some t => Some (if multi && is_reserved v then c :: h1 :: h2 :: t else v :: t)
                  | None => None
                  end
                else None
            | _ => None
            end
          else match unescape_f f multi r with Some t => Some (c :: t) | None => None end
      end
  end.
Definition unescape (multi : bool) (s : bytes) : option bytes := unescape_f (length s) multi s.

(* ---------- the matcher: the stack machine of MatchAndEscape ---------- *)
Inductive mres := NotMatch | Malformed | Matched (vars : list (bytes * bytes)).
Fixpoint bind_var (k v : bytes) (l : list (bytes * bytes)) : list (bytes * bytes) :=
  match l with [] => [(k, v)] | (a, b) :: r => if bytes_eqb a k then (a, v) :: r else (a, b) :: bind_var k v r end.

Fixpoint run_ops (ops : list op) (tl : nat) (comps : list bytes) (stack : list bytes) (vars : list (bytes * bytes)) : mres :=
  match ops with
  | [] => match comps with [] => Matched vars | _ => NotMatch end
  | o :: rest =>
      match o with
      | OPush => match comps with
                 | c :: cs => match unescape false c with
                              | Some u => run_ops rest tl cs (u :: stack) vars
                              | None => Malformed end
                 | [] => NotMatch end
      | OLit l => match comps with
                  | c :: cs => if bytes_eqb c l then run_ops rest tl cs (c :: stack) vars else NotMatch
                  | [] => NotMatch end
      | OPushM => if (length comps <? tl)%nat then NotMatch
                  else let n := (length comps - tl)%nat in
                       match unescape true (join_with c_slash (firstn n comps)) with
                       | Some u => run_ops rest tl (skipn n comps) (u :: stack) vars
                       | None => Malformed end
      | OConcat n => run_ops rest tl comps (join_with c_slash (rev (firstn n stack)) :: skipn n stack) vars
      | OCapture v => match stack with
                      | top :: st => run_ops rest tl comps st (bind_var v top vars)
                      | [] => NotMatch end
      end
  end.

(* MatchAndEscape(components, verb): the pattern's verb must be the request's; a request verb that the pattern does not
   have goes back onto the last component *)
Definition match_pattern (ops : list op) (pverb : bytes) (comps : list bytes) (verb : bytes) : mres :=
  if bytes_eqb pverb verb then run_ops ops (tail_len ops false) comps [] []
  else match pverb with
       | _ :: _ => NotMatch
       | [] => let comps' := match comps with
                             | [] => [c_colon :: verb]
                             | _ => removelast comps ++ [last comps [] ++ c_colon :: verb] end in
               run_ops ops (tail_len ops false) comps' [] []
       end.

(* ---------- RouteHTTP for one route ---------- *)
Definition ends_with (s suffix : bytes) : bool := bytes_eqb (skipn (length s - length suffix) s) suffix && (length suffix <=? length s)%nat.
Inductive step := Skip | Abort (code : Z) | Found (vars : list (bytes * bytes)).
(* strict_verbs: the behaviour before the repair: a last component consisting only of the verb aborts the whole lookup *)
Definition route_step (abort_on_verb_only : bool) (ops : list op) (pverb : bytes) (comps : list bytes) : step :=
  let lastc := last comps [] in
  let has := match pverb with [] => false | _ => ends_with lastc (c_colon :: pverb) end in
  let vidx := (length lastc - length pverb - 1)%nat in
  if has && Nat.eqb vidx O then (if abort_on_verb_only then Abort 5 else Skip)
  else
    let '(mc, verb) := if has then (removelast comps ++ [firstn vidx lastc], skipn (S vidx) lastc) else (comps, []) in
    match match_pattern ops pverb mc verb with
    | Matched vars => Found vars
    | Malformed => Abort 3
    | NotMatch => Skip
    end.

Fixpoint split_slash (s : bytes) (cur : bytes) : list bytes :=
  match s with
  | [] => [rev cur]
  | c :: r => if c =? c_slash then rev cur :: split_slash r [] else split_slash r (c :: cur)
  end.

(* ---------- the grammar: well-formed abstract templates and their text ---------- *)
Definition wf_inner (s : seg) : bool :=
  match s with SWild => true | SLit l => is_literal l && negb (match l with [] => true | _ => false end) | _ => false end.
(* inside a variable: single segments, optionally ending in a deep wildcard *)
Fixpoint wf_var_segs (l : list seg) : bool :=
  match l with
  | [] => false
  | [SDeep] => true
  | [s] => wf_inner s
  | s :: r => wf_inner s && wf_var_segs r
  end.
Definition is_multi (s : seg) : bool :=
  match s with SDeep => true | SVar _ segs => match last segs SWild with SDeep => true | _ => false end | _ => false end.
Definition wf_seg (s : seg) : bool :=
  match s with
  | SWild | SDeep => true
  | SLit l => is_literal l && negb (match l with [] => true | _ => false end)
  | SVar path segs => negb (match path with [] => true | _ => false end) && forallb is_ident path && wf_var_segs segs
  end.
(* a multi segment only in the last position *)
Fixpoint wf_segs (l : list seg) : bool :=
  match l with
  | [] => false
  | [s] => wf_seg s
  | s :: r => wf_seg s && negb (is_multi s) && wf_segs r
  end.

Fixpoint render_seg (s : seg) : bytes :=
  match s with
  | SWild => [c_star]
  | SDeep => s_deep
  | SLit l => l
  | SVar path segs => c_lbrace :: join_with c_dot path ++ c_eq :: join_with c_slash (map render_seg segs) ++ [c_rbrace]
  end.
Definition render (t : template) : bytes :=
  c_slash :: join_with c_slash (map render_seg (t_segs t)) ++ match t_verb t with [] => [] | v => c_colon :: v end.

(* ---------- matching, directly on the abstract template (the specification of the stack machine) ---------- *)
(* a single segment against one component: the value it contributes to an enclosing capture *)
Inductive sres := SNo | SBad | SOk (value : bytes) (rest : list bytes) (vars : list (bytes * bytes)).

Fixpoint match_inner (segs : list seg) (tl : nat) (comps : list bytes) (acc : list bytes) : option (option (list bytes * list bytes)) :=
  (* Some None: malformed; None: no match; Some (Some (values, rest)) *)
  match segs with
  | [] => Some (Some (acc, comps))
  | s :: r =>
      match s with
      | SWild => match comps with
                 | c :: cs => match unescape false c with Some u => match_inner r tl cs (acc ++ [u]) | None => Some None end
                 | [] => None end
      | SLit l => match comps with
                  | c :: cs => if bytes_eqb c l then match_inner r tl cs (acc ++ [c]) else None
                  | [] => None end
      | SDeep => if (length comps <? tl)%nat then None
                 else let n := (length comps - tl)%nat in
                      match unescape true (join_with c_slash (firstn n comps)) with
                      | Some u => match_inner r tl (skipn n comps) (acc ++ [u])
                      | None => Some None end
      | SVar _ _ => None       (* variables do not nest *)
      end
  end.

Fixpoint match_segs (segs : list seg) (tl : nat) (comps : list bytes) (vars : list (bytes * bytes)) : mres :=
  match segs with
  | [] => match comps with [] => Matched vars | _ => NotMatch end
  | s :: r =>
      match s with
      | SVar path inner =>
          match match_inner inner tl comps [] with
          | None => NotMatch
          | Some None => Malformed
          | Some (Some (vals, rest)) => match_segs r tl rest (bind_var (join_with c_dot path) (join_with c_slash vals) vars)
          end
      | _ =>
          match match_inner [s] tl comps [] with
          | None => NotMatch
          | Some None => Malformed
          | Some (Some (_, rest)) => match_segs r tl rest vars
          end
      end
  end.
Definition no_nested (t : template) : bool :=
  forallb (fun s => match s with SVar _ inner => forallb (fun i => match i with SVar _ _ => false | _ => true end) inner | _ => true end) (t_segs t).
