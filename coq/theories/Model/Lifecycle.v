(* C16: target lifecycle — AdaptedClientPool (New / Get / controller.Close) and ReflectionRouter (Add / Remove).
   Definitions only.  The pool entry of a name is Reserved while its client is being constructed and Ready afterwards;
   a Reserved entry is exactly the "present-but-missing" state the property forbids Get to expose. *)
From GB Require Export Base.Val.
Open Scope Z_scope.

Inductive pentry := Reserved | Ready (conn : Z).
Definition pool := list (bytes * pentry).

Fixpoint p_load (n : bytes) (p : pool) : option pentry :=
  match p with [] => None | (k, e) :: r => if bytes_eqb n k then Some e else p_load n r end.
Definition p_delete (n : bytes) (p : pool) : pool := filter (fun kv => negb (bytes_eqb n (fst kv))) p.
Definition p_store (n : bytes) (e : pentry) (p : pool) : pool := (n, e) :: p_delete n p.

(* Get: 0 absent, 1 usable *)
Definition p_get (n : bytes) (p : pool) : Z :=
  match p_load n p with Some (Ready _) => 1 | _ => 0 end.

Record lstate := { l_pool : pool; l_targets : list bytes; l_closed : list Z; l_next : Z }.
Definition l_init : lstate := {| l_pool := []; l_targets := []; l_closed := []; l_next := 1 |}.

(* pool.New(n) with a constructor that fails or not.  Observed: result (0 ok, 1 ErrAlreadyDialed, 2 constructor error),
   and what Get(n) / New(n) answer when called from inside the constructor (re-entrantly): the reservation is held. *)
Definition pool_new (n : bytes) (fail : bool) (s : lstate) : lstate * (Z * Z * Z) :=
  match p_load n (l_pool s) with
  | Some _ => (s, (1, -1, -1))
  | None =>
      let reserved := p_store n Reserved (l_pool s) in
      let inner_get := p_get n reserved in
      let inner_new := 1 in
      if fail then ({| l_pool := p_delete n reserved; l_targets := l_targets s; l_closed := l_closed s; l_next := l_next s |}, (2, inner_get, inner_new))
      else ({| l_pool := p_store n (Ready (l_next s)) reserved; l_targets := l_targets s; l_closed := l_closed s; l_next := l_next s + 1 |}, (0, inner_get, inner_new))
  end.

(* controller.Close of the connection currently Ready under n: removed from the pool, connection closed *)
Definition pool_close (n : bytes) (s : lstate) : lstate :=
  match p_load n (l_pool s) with
  | Some (Ready c) => {| l_pool := p_delete n (l_pool s); l_targets := l_targets s; l_closed := c :: l_closed s; l_next := l_next s |}
  | _ => s
  end.

(* Stream on connection c: 14 (Unavailable) once closed, 0 otherwise *)
Definition conn_stream (c : Z) (s : lstate) : Z := if existsb (Z.eqb c) (l_closed s) then 14 else 0.

(* ReflectionRouter.Add / Remove *)
Definition router_add (n : bytes) (fail : bool) (s : lstate) : lstate * Z :=
  if existsb (bytes_eqb n) (l_targets s) then (s, 0)
  else
    let '(s1, (res, _, _)) := pool_new n fail s in
    if Z.eqb res 0
    then ({| l_pool := l_pool s1; l_targets := n :: l_targets s1; l_closed := l_closed s1; l_next := l_next s1 |}, 1)
    else (s1, 0).

Definition router_remove (n : bytes) (s : lstate) : lstate * Z :=
  if existsb (bytes_eqb n) (l_targets s)
  then let s1 := pool_close n s in
       ({| l_pool := l_pool s1; l_targets := filter (fun x => negb (bytes_eqb n x)) (l_targets s1); l_closed := l_closed s1; l_next := l_next s1 |}, 1)
  else (s, 0).

Inductive lop :=
| LNew (n : bytes) (fail : bool) | LClose (n : bytes) | LGet (n : bytes) | LStreamOld (c : Z)
| LAdd (n : bytes) (fail : bool) | LRemove (n : bytes).

Definition lstep (s : lstate) (o : lop) : lstate * val :=
  match o with
  | LNew n f => let '(s', (r, g, w)) := pool_new n f s in (s', VL [VN r; VN g; VN w])
  | LClose n => (pool_close n s, VL [VN (match p_load n (l_pool s) with Some (Ready c) => c | _ => 0 end)])
  | LGet n => (s, VL [VN (p_get n (l_pool s))])
  | LStreamOld c => (s, VL [VN (conn_stream c s)])
  | LAdd n f => let '(s', r) := router_add n f s in (s', VL [VN r])
  | LRemove n => let '(s', r) := router_remove n s in (s', VL [VN r])
  end.

Definition as_lop (v : val) : lop :=
  match as_Z (nthv 0 v) with
  | 0 => LNew (as_S (nthv 1 v)) (as_bool (nthv 2 v))
  | 1 => LClose (as_S (nthv 1 v))
  | 2 => LGet (as_S (nthv 1 v))
  | 3 => LStreamOld (as_Z (nthv 1 v))
  | 4 => LAdd (as_S (nthv 1 v)) (as_bool (nthv 2 v))
  | _ => LRemove (as_S (nthv 1 v))
  end.

Definition run_lifecycle (v : val) : val :=
  VL (snd (fold_left (fun acc o => let '(s, out) := acc in let '(s', r) := lstep s o in (s', out ++ [r]))
                     (map as_lop (as_L v)) (l_init, []))).

(* ---- the property, executable, from the history alone: a set of present names ----
   1: New/Add refused although the name is absent (or accepted although present)
   2: Get is present-but-missing (2) or disagrees with presence
   3: Stream on a removed connection does not fail with Unavailable (or fails while still present)
   4: re-entrant observation wrong: reservation not exclusive / half-initialised entry visible *)
Definition prop_lifecycle (input impl : val) : option Z :=
  (fix go (present : list bytes) (closed : list Z) (next : Z) (ops : list lop) (outs : list val) : option Z :=
     match ops, outs with
     | [], [] => None
     | o :: ops', out :: outs' =>
         let here n := existsb (bytes_eqb n) present in
         let r0 := as_Z (nthv 0 out) in
         match o with
         | LNew n f =>
             if here n then (if Z.eqb r0 1 then go present closed next ops' outs' else Some 1)
             else if negb (Z.eqb (as_Z (nthv 1 out)) 0) || negb (Z.eqb (as_Z (nthv 2 out)) 1) then Some 4
             else if f then (if Z.eqb r0 2 then go present closed next ops' outs' else Some 1)
             else (if Z.eqb r0 0 then go (n :: present) closed (next + 1) ops' outs' else Some 1)
         | LClose n =>
             if here n then (if Z.ltb 0 r0 then go (filter (fun x => negb (bytes_eqb n x)) present) (r0 :: closed) next ops' outs' else Some 2)
             else (if Z.eqb r0 0 then go present closed next ops' outs' else Some 2)
         | LGet n => if Z.eqb r0 (if here n then 1 else 0) then go present closed next ops' outs' else Some 2
         | LStreamOld c => if Z.eqb r0 (if existsb (Z.eqb c) closed then 14 else 0) then go present closed next ops' outs' else Some 3
         | LAdd n f =>
             if here n then (if Z.eqb r0 0 then go present closed next ops' outs' else Some 1)
             else if f then (if Z.eqb r0 0 then go present closed next ops' outs' else Some 1)
             else (if Z.eqb r0 1 then go (n :: present) closed (next + 1) ops' outs' else Some 1)
         | LRemove n =>
             (* the harness reports what only it can see as negative results: -11 an in-flight call did not end,
                -12 a later Stream on the removed connection did not fail with Unavailable, -13 goroutines left behind *)
             if Z.eqb r0 (-11) then Some 6 else if Z.eqb r0 (-12) then Some 3 else if Z.eqb r0 (-13) then Some 7 else
             if here n then (if Z.eqb r0 1 then go (filter (fun x => negb (bytes_eqb n x)) present) closed next ops' outs' else Some 1)
             else (if Z.eqb r0 0 then go present closed next ops' outs' else Some 1)
         end
     | _, _ => Some 5
     end) [] [] 1 (map as_lop (as_L input)) (as_L impl).

Definition chk_c16 : val -> val := mk_chk run_lifecycle prop_lifecycle.
