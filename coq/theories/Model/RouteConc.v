(* C11: the routers' update / close / lookup / re-watch paths as an LTS at the granularity of the yield points
   (DESIGN appendix A.2).  Definitions only.
   A watcher is identified by a number; tables record which watcher applied an entry, so that "a removed target never
   comes back" can be stated.  [wmutex]: is the per-watcher mutex of the F11 repair present. *)
From GB Require Export Base.Val.
Open Scope Z_scope.

Inductive rkind := KPattern | KService.

Record cdesc := { cd_id : Z; cd_svcs : list bytes }.

Inductive thr :=
| TUpd (w : nat) (n : bytes) (d : cdesc) (pc : nat)      (* 0 start, 1 passed the closed check, 2 (service) between phases, 9 done *)
| TClose (w : nat) (n : bytes) (pc : nat)                (* 0 start, 1 flag flipped, 9 returned, 8 panicked (double close) *)
| TLook (q : bytes) (res : option (option (bytes * Z * nat)))   (* None not yet run; Some r the recorded result *)
| TWatch (w : nat) (n : bytes) (res : option bool).

Record cstate := {
  kind : rkind; wmutex : bool;
  ptab : list (bytes * (Z * nat));                 (* pattern table: target -> (desc id, watcher) *)
  stab : list (bytes * (bytes * Z * nat));         (* service table: service -> (target, desc id, watcher) *)
  sclaims : list (bytes * list bytes);             (* svcRoutes *)
  sdescs : list (bytes * (cdesc * nat));           (* latest description per target (and who wrote it), sorted by name *)
  watched : list bytes;                            (* watcherSet *)
  live : list nat;                                 (* watchers that exist (Watch succeeded) *)
  closedw : list nat;                              (* watchers whose closed flag is set *)
  removed : list nat;                              (* watchers whose Close has executed removeTarget *)
  held : list nat;                                 (* per-watcher mutexes currently held *)
  tmu : bool;                                      (* the router's table mutex (held across both phases of updateRoutes) *)
  threads : list thr
}.

Definition mem_nat (x : nat) (l : list nat) : bool := existsb (Nat.eqb x) l.
Definition mem_b (x : bytes) (l : list bytes) : bool := existsb (bytes_eqb x) l.

Fixpoint a_get {A} (k : bytes) (l : list (bytes * A)) : option A :=
  match l with [] => None | (k', v) :: r => if bytes_eqb k k' then Some v else a_get k r end.
Definition a_del {A} (k : bytes) (l : list (bytes * A)) : list (bytes * A) := filter (fun kv => negb (bytes_eqb k (fst kv))) l.
Definition a_set {A} (k : bytes) (v : A) (l : list (bytes * A)) : list (bytes * A) := (k, v) :: a_del k l.
Fixpoint a_insert {A} (kv : bytes * A) (l : list (bytes * A)) : list (bytes * A) :=
  match l with [] => [kv] | kv' :: r => if bytes_leb (fst kv) (fst kv') then kv :: l else kv' :: a_insert kv r end.
Definition a_set_sorted {A} (k : bytes) (v : A) (l : list (bytes * A)) := a_insert (k, v) (a_del k l).

(* ---- service router phases (as in Model/Routers.v, with watcher tags) ---- *)
Fixpoint claim_phase (n : bytes) (id : Z) (w : nat) (svcs : list bytes) (t : list (bytes * (bytes * Z * nat))) (claimed : list bytes) :=
  match svcs with
  | [] => (t, claimed)
  | s :: r =>
      match a_get s t with
      | None => claim_phase n id w r (a_set s (n, id, w) t) (claimed ++ [s])
      | Some (n', _, _) => if bytes_eqb n' n then claim_phase n id w r (a_set s (n, id, w) t) (claimed ++ [s])
                           else claim_phase n id w r t claimed
      end
  end.

Fixpoint first_lister (svc : bytes) (cands : list (bytes * (cdesc * nat))) : option (bytes * Z * nat) :=
  match cands with
  | [] => None
  | (n, (d, w)) :: r => if mem_b svc (cd_svcs d) then Some (n, cd_id d, w) else first_lister svc r
  end.
Fixpoint c_append (n svc : bytes) (c : list (bytes * list bytes)) :=
  match c with
  | [] => [(n, [svc])]
  | (k, v) :: r => if bytes_eqb n k then (k, v ++ [svc]) :: r else (k, v) :: c_append n svc r
  end.
Definition hand_over (released : list bytes) (by_ : bytes) (t : list (bytes * (bytes * Z * nat))) (c : list (bytes * list bytes))
                     (ds : list (bytes * (cdesc * nat))) :=
  fold_left (fun tc svc =>
    match first_lister svc (a_del by_ ds) with
    | Some (n, id, w) => match a_get svc (fst tc) with
                         | None => (a_set svc (n, id, w) (fst tc), c_append n svc (snd tc))
                         | Some _ => tc
                         end
    | None => tc
    end) released (t, c).

Definition set_threads (s : cstate) (ts : list thr) : cstate :=
  {| kind := kind s; wmutex := wmutex s; ptab := ptab s; stab := stab s; sclaims := sclaims s; sdescs := sdescs s;
     watched := watched s; live := live s; closedw := closedw s; removed := removed s; held := held s; tmu := tmu s; threads := ts |}.

Definition lock (w : nat) (s : cstate) : cstate :=
  {| kind := kind s; wmutex := wmutex s; ptab := ptab s; stab := stab s; sclaims := sclaims s; sdescs := sdescs s;
     watched := watched s; live := live s; closedw := closedw s; removed := removed s;
     held := if wmutex s then w :: held s else held s; tmu := tmu s; threads := threads s |}.
Definition unlock (w : nat) (s : cstate) : cstate :=
  {| kind := kind s; wmutex := wmutex s; ptab := ptab s; stab := stab s; sclaims := sclaims s; sdescs := sdescs s;
     watched := watched s; live := live s; closedw := closedw s; removed := removed s;
     held := filter (fun x => negb (Nat.eqb x w)) (held s); tmu := tmu s; threads := threads s |}.
Definition can_lock (w : nat) (s : cstate) : bool := negb (wmutex s) || negb (mem_nat w (held s)).
Definition set_tmu (b : bool) (s : cstate) : cstate :=
  {| kind := kind s; wmutex := wmutex s; ptab := ptab s; stab := stab s; sclaims := sclaims s; sdescs := sdescs s;
     watched := watched s; live := live s; closedw := closedw s; removed := removed s; held := held s; tmu := b; threads := threads s |}.

(* table mutations *)
Definition upd_pattern (w : nat) (n : bytes) (d : cdesc) (s : cstate) : cstate :=
  {| kind := kind s; wmutex := wmutex s; ptab := a_set n (cd_id d, w) (ptab s); stab := stab s; sclaims := sclaims s; sdescs := sdescs s;
     watched := watched s; live := live s; closedw := closedw s; removed := removed s; held := held s; tmu := tmu s; threads := threads s |}.
Definition upd_service_add (w : nat) (n : bytes) (d : cdesc) (s : cstate) : cstate * list bytes :=
  let '(t1, claimed) := claim_phase n (cd_id d) w (cd_svcs d) (stab s) [] in
  ({| kind := kind s; wmutex := wmutex s; ptab := ptab s; stab := t1; sclaims := sclaims s; sdescs := sdescs s;
      watched := watched s; live := live s; closedw := closedw s; removed := removed s; held := held s; tmu := tmu s; threads := threads s |}, claimed).
(* second phase: what was claimed is recomputed from the table (services of d now held by n) *)
Definition held_by (n : bytes) (d : cdesc) (t : list (bytes * (bytes * Z * nat))) : list bytes :=
  filter (fun sv => match a_get sv t with Some (n', _, _) => bytes_eqb n' n | None => false end) (cd_svcs d).
Definition upd_service_del (w : nat) (n : bytes) (d : cdesc) (s : cstate) : cstate :=
  let claimed := held_by n d (stab s) in
  let old := match a_get n (sclaims s) with Some l => l | None => [] end in
  let outdated := filter (fun sv => negb (mem_b sv claimed)) old in
  let t2 := fold_left (fun t sv => a_del sv t) outdated (stab s) in
  let ds' := a_set_sorted n (d, w) (sdescs s) in
  let '(t3, c3) := hand_over outdated n t2 (a_set n claimed (sclaims s)) ds' in
  {| kind := kind s; wmutex := wmutex s; ptab := ptab s; stab := t3; sclaims := c3; sdescs := ds';
     watched := watched s; live := live s; closedw := closedw s; removed := removed s; held := held s; tmu := tmu s; threads := threads s |}.

Definition remove_all (w : nat) (n : bytes) (s : cstate) : cstate :=
  let released := match a_get n (sclaims s) with Some l => l | None => [] end in
  let ds' := a_del n (sdescs s) in
  let '(t3, c3) := match kind s with
                   | KService => hand_over released n (fold_left (fun t sv => a_del sv t) released (stab s)) (a_del n (sclaims s)) ds'
                   | KPattern => (stab s, sclaims s)
                   end in
  {| kind := kind s; wmutex := wmutex s;
     ptab := match kind s with KPattern => a_del n (ptab s) | KService => ptab s end;
     stab := t3; sclaims := c3; sdescs := match kind s with KService => ds' | KPattern => sdescs s end;
     watched := filter (fun x => negb (bytes_eqb n x)) (watched s); live := live s; closedw := closedw s; removed := w :: removed s;
     held := held s; tmu := tmu s; threads := threads s |}.

Definition lookup (q : bytes) (s : cstate) : option (bytes * Z * nat) :=
  match kind s with
  | KPattern => match a_get q (ptab s) with Some (id, w) => Some (q, id, w) | None => None end
  | KService => a_get q (stab s)
  end.

(* one step of thread t in state s (threads list NOT yet updated): new thread state and new global state *)
Definition thr_step (t : thr) (s : cstate) : option (thr * cstate) :=
  match t with
  | TUpd w n d 0 =>
      if negb (mem_nat w (live s)) then None
      else if negb (can_lock w s) then None
      else if mem_nat w (closedw s) then Some (TUpd w n d 9, s)
      else Some (TUpd w n d 1, lock w s)
  | TUpd w n d 1 =>
      if tmu s then None else
      match kind s with
      | KPattern => Some (TUpd w n d 9, unlock w (upd_pattern w n d s))
      | KService => Some (TUpd w n d 2, set_tmu true (fst (upd_service_add w n d s)))
      end
  | TUpd w n d 2 => Some (TUpd w n d 9, set_tmu false (unlock w (upd_service_del w n d s)))
  | TUpd _ _ _ _ => None
  | TClose w n 0 =>
      if negb (mem_nat w (live s)) then None
      else if mem_nat w (closedw s) then Some (TClose w n 8, s)
      else Some (TClose w n 1,
                 {| kind := kind s; wmutex := wmutex s; ptab := ptab s; stab := stab s; sclaims := sclaims s; sdescs := sdescs s;
                    watched := watched s; live := live s; closedw := w :: closedw s; removed := removed s; held := held s; tmu := tmu s; threads := threads s |})
  | TClose w n 1 => if can_lock w s && negb (tmu s) then Some (TClose w n 9, remove_all w n s) else None
  | TClose _ _ _ => None
  | TLook q None => Some (TLook q (Some (lookup q s)), s)
  | TLook _ (Some _) => None
  | TWatch w n None =>
      if mem_b n (watched s) then Some (TWatch w n (Some false), s)
      else Some (TWatch w n (Some true),
                 {| kind := kind s; wmutex := wmutex s; ptab := ptab s; stab := stab s; sclaims := sclaims s; sdescs := sdescs s;
                    watched := n :: watched s; live := w :: live s; closedw := closedw s; removed := removed s; held := held s; tmu := tmu s; threads := threads s |})
  | TWatch _ _ (Some _) => None
  end.

Fixpoint replace_nth {A} (i : nat) (x : A) (l : list A) : list A :=
  match l, i with
  | [], _ => []
  | _ :: r, O => x :: r
  | a :: r, S j => a :: replace_nth j x r
  end.

(* all enabled steps: (thread index, next state) *)
Fixpoint steps_from (i : nat) (ts : list thr) (s : cstate) : list (nat * cstate) :=
  match ts with
  | [] => []
  | t :: r =>
      (match thr_step t s with
       | Some (t', s') => [(i, set_threads s' (replace_nth i t' (threads s)))]
       | None => []
       end) ++ steps_from (S i) r s
  end.
Definition cnext (s : cstate) : list (nat * cstate) := steps_from 0 (threads s) s.

Inductive CReach (s0 : cstate) : cstate -> Prop :=
| CR0 : CReach s0 s0
| CRS : forall s i s', CReach s0 s -> In (i, s') (cnext s) -> CReach s0 s'.

(* run a schedule given as thread indices *)
Fixpoint crun (sched : list nat) (s : cstate) : option cstate :=
  match sched with
  | [] => Some s
  | i :: r => match nth_error (threads s) i with
              | Some t => match thr_step t s with
                          | Some (t', s') => crun r (set_threads s' (replace_nth i t' (threads s)))
                          | None => None
                          end
              | None => None
              end
  end.

Definition cinit (k : rkind) (mx : bool) (live0 : list nat) (watched0 : list bytes) (ts : list thr) : cstate :=
  {| kind := k; wmutex := mx; ptab := []; stab := []; sclaims := []; sdescs := []; watched := watched0; live := live0;
     closedw := []; removed := []; held := []; tmu := false; threads := ts |}.
