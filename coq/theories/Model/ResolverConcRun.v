(* C15, schedule replay: the concurrent poller model (ResolverConc.v) made executable at the granularity of the yield
   points compiled into reflection/resolver.go under the tag verif (resolver:poll:start, :before-select, :woken,
   :rearmed, resolver:resolvenow:loaded).  The harness enumerates schedules with [enum_c15], forces each one on the real
   resolver (goroutines parked at the yield points, the scripted reflection server as the target) and the checker compares
   the delivered updates, the number of polls and Close's return with [run_c15_sched].  Definitions only.

   actions: ( 0 ) the poller moves from its park point to the next; ( 1 i ) caller i's next step (load the notify
   function / call it); ( 2 ) Close (only where its outcome is determined: the poller is waiting and the resolve-now
   channel is open); ( 3 c ) the target's contract becomes c. *)
From GB Require Export Model.ResolverConc.
Open Scope Z_scope.

Inductive act := AP | AC (i : nat) | AX | AE (c : Z).

(* the poller between two park points.  poll:start -> before-select = read the contract and deliver (two LTS steps);
   before-select -> rearmed (through woken) = the resolve-now branch, taken only when the channel is closed;
   rearmed -> poll:start *)
Definition p_step (s : st) : option st :=
  match pc s with
  | PStart => match poller_steps false false s with
              | s1 :: _ => hd_error (poller_steps false false s1)
              | [] => None end
  | PSelect => if closed s then hd_error (poller_steps false false s) else None
  | PRearm => hd_error (poller_steps false false s)
  | _ => None
  end.

Definition c_step (s : st) (i : nat) : option st :=
  match nth_error (callers s) i with
  | Some CIdle => Some {| pc := pc s; closed := closed s; gen := gen s; polls := polls s; callers := set_nth i (CLoaded (polls s) (gen s)) (callers s);
                          closer_returned := closer_returned s; contract := contract s; last := last s; cbs := cbs s |}
  | Some (CLoaded k g) => Some {| pc := pc s; closed := if Nat.eqb g (gen s) then true else closed s; gen := gen s; polls := polls s;
                                  callers := set_nth i (CReturned k) (callers s);
                                  closer_returned := closer_returned s; contract := contract s; last := last s; cbs := cbs s |}
  | _ => None
  end.

Definition x_step (s : st) : option st :=
  if closed s then None else hd_error (closer_steps s).

Definition do_act (s : st) (a : act) : option st :=
  match a with
  | AP => p_step s
  | AC i => c_step s i
  | AX => x_step s
  | AE c => Some (env_steps s c)
  end.

Fixpoint run_acts (l : list act) (s : st) : option st :=
  match l with
  | [] => Some s
  | a :: r => match do_act s a with Some s' => run_acts r s' | None => None end
  end.

(* every maximal schedule: env changes 0 -> 1 -> 2 ... while the budget lasts *)
Fixpoint enum_acts (fuel : nat) (s : st) (envb : nat) (with_close : bool) (prefix : list act) : list (list act) :=
  match fuel with
  | O => [rev prefix]
  | S f =>
      let cand := [AP] ++ map AC (seq 0 (length (callers s))) ++ (if with_close then [AX] else [])
                  ++ (match envb with O => [] | S _ => [AE (contract s + 1)] end) in
      let nexts := flat_map (fun a => match do_act s a with
                                      | Some s' => [(a, s')]
                                      | None => [] end) cand in
      match nexts with
      | [] => [rev prefix]
      | _ => flat_map (fun p => enum_acts f (snd p) (match fst p with AE _ => pred envb | _ => envb end)
                                          (match fst p with AX => false | _ => with_close end) (fst p :: prefix)) nexts
      end
  end.

(* ---- val coding ---- *)
Definition v_act (a : act) : val :=
  match a with AP => VL [VN 0] | AC i => VL [VN 1; vnat i] | AX => VL [VN 2] | AE c => VL [VN 3; VN c] end.
Definition as_act (v : val) : act :=
  match as_Z (nthv 0 v) with 0 => AP | 1 => AC (as_nat (nthv 1 v)) | 2 => AX | _ => AE (as_Z (nthv 1 v)) end.

(* cfg = ( callers env-budget with-close ) *)
Definition enum_c15 (v : val) : val :=
  VL (map (fun sch => VL (map v_act sch))
          (enum_acts 40 (init (as_nat (nthv 0 v)) 0) (as_nat (nthv 1 v)) (as_bool (nthv 2 v)) [])).

(* input ( cfg schedule ) ; output ( delivered-contracts polls close-returned ) at the end of the schedule;
   the implementation appends ( late-callbacks quiescent-last ) - see the property *)
Definition run_c15_sched (v : val) : val :=
  let cfg := nthv 0 v in
  match run_acts (map as_act (as_L (nthv 1 v))) (init (as_nat (nthv 0 cfg)) 0) with
  | None => VL [VN (-2)]
  | Some s => VL [VL (map VN (cbs s)); vnat (polls s); vbool (closer_returned s)]
  end.

(* ---- the property, from the schedule alone ----
   4: a callback happened after Close had returned
   5: a resolve-now request was lost: some caller began (loaded the notify function) after the last contract change and
      its call returned, Close was not called - yet, left alone until nothing moves, the resolver's last delivered update
      is not the target's final contract
   6: the resolver did not reach the end of the schedule (a goroutine did not arrive at its park point) *)
Fixpoint last_env_pos (l : list act) (i : nat) (acc : option nat) : option nat :=
  match l with [] => acc | AE _ :: r => last_env_pos r (S i) (Some i) | _ :: r => last_env_pos r (S i) acc end.
Fixpoint final_contract (l : list act) (c : Z) : Z :=
  match l with [] => c | AE c' :: r => final_contract r c' | _ :: r => final_contract r c end.
(* positions of caller i's steps *)
Fixpoint caller_pos (l : list act) (i : nat) (k : nat) : list nat :=
  match l with
  | [] => []
  | AC j :: r => if Nat.eqb i j then k :: caller_pos r i (S k) else caller_pos r i (S k)
  | _ :: r => caller_pos r i (S k)
  end.
Definition issued_after_change (l : list act) (ncallers : nat) : bool :=
  let lim := match last_env_pos l O None with Some p => S p | None => O end in
  existsb (fun i => match caller_pos l i O with
                    | first :: _ :: _ => Nat.leb lim first
                    | _ => false end) (seq 0 ncallers).
Definition has_close (l : list act) : bool := existsb (fun a => match a with AX => true | _ => false end) l.

Definition prop_c15_sched (input impl : val) : option Z :=
  let cfg := nthv 0 input in
  let l := map as_act (as_L (nthv 1 input)) in
  match as_L impl with
  | [VN z] => Some 6
  | _ =>
      if negb (Z.eqb (as_Z (nthv 3 impl)) 0) then Some 4
      else if issued_after_change l (as_nat (nthv 0 cfg)) && negb (has_close l)
              && negb (Z.eqb (as_Z (nthv 4 impl)) (final_contract l 0)) then Some 5
      else None
  end.

(* the model says nothing about the two extra fields: compare the first three *)
Definition chk_c15_sched (c : val) : val :=
  let input := nthv 0 c in
  let impl := nthv 1 c in
  match prop_c15_sched input impl with
  | Some r => verdict_propfail r (run_c15_sched input)
  | None => if val_eqb (run_c15_sched input) (VL (firstn 3 (as_L impl))) then verdict_ok else verdict_mismatch (run_c15_sched input)
  end.
