(* Executable side of the forwarder model: val coding of scripts, exhaustive exploration of [next] (used ONLY to
   validate the model against the code and to look for failing inputs), observables, executable property. *)
From GB Require Export Model.Forward.
Open Scope Z_scope.

Definition as_initem (v : val) : initem :=
  match as_Z (nthv 0 v) with 0 => IMsg (as_Z (nthv 1 v)) | 1 => IEof | _ => IErr (as_Z (nthv 1 v)) end.
Definition as_outitem (v : val) : nat * bool * outitem :=
  (as_nat (nthv 0 v), as_bool (nthv 1 v),
   match as_Z (nthv 2 v) with 0 => OMsg (as_Z (nthv 3 v)) | 1 => OEof | _ => OErr (as_Z (nthv 3 v)) end).
Definition as_optfail (v : val) : option (nat * Z) :=
  match as_L v with [k; e] => Some (as_nat k, as_Z e) | _ => None end.

(* ( cs ss in_recv in_send_fail open out_send_fail out_recv ctx_kind in_aware out_aware ) *)
Definition as_script (v : val) : script :=
  {| client_streaming := as_bool (nthv 0 v); server_streaming := as_bool (nthv 1 v);
     in_recv := map as_initem (as_L (nthv 2 v));
     in_send_fail := as_optfail (nthv 3 v);
     open_res := match as_L (nthv 4 v) with [] => OpenOk | [e] => if Z.eqb (as_Z e) (-1) then OpenBlock else OpenErr (as_Z e) | _ => OpenOk end;
     out_send_fail := match as_optfail (nthv 5 v) with Some (k, e) => Some (k, if Z.eqb e (-1) then EEof else ESt e) | None => None end;
     out_recv := map as_outitem (as_L (nthv 6 v));
     ctx_kind := match as_Z (nthv 7 v) with 0 => CtxNone | 1 => CtxCancel | _ => CtxDeadline end;
     in_aware := as_bool (nthv 8 v); out_aware := as_bool (nthv 9 v) |}.

Definition v_zl (l : list Z) : val := VL (map VN l).
Definition v_res (r : res) : val := match r with RNil => VN 0 | RErr e => VN e end.

(* what the harness can see of a finished call: requests seen by the target, half-close seen, stream closed,
   responses seen by the client, header/trailer set, result code (0 = nil) ; ( -1 ) = the call did not return *)
Definition obs (s : state) : val :=
  match mp s with
  | MRet r => VL [v_zl (sent_out s); vbool (0 <? close_send s)%nat; vbool (0 <? closed s)%nat; v_zl (sent_in s);
                  vbool (0 <? hdr_set s)%nat; vbool (0 <? trl_set s)%nat; v_res r; vbool (created s)]
  | _ => VL [VN (-1)]
  end.

Definition v_ferr (f : option ferr) : val :=
  match f with
  | None => VN 0 | Some FOk => VN 1
  | Some (FIn EEof) => VN 2 | Some (FOut EEof) => VN 3
  | Some (FIn (ESt e)) => VL [VN 4; VN e] | Some (FOut (ESt e)) => VL [VN 5; VN e]
  end.
Definition v_state (s : state) : val :=
  VL [ match mp s with
       | M0 => VN 0 | MOpen => VN 1 | MURecv => VN 2 | MUOpen m => VL [VN 3; VN m] | MUSend m => VL [VN 4; VN m]
       | MUCloseSend => VN 5 | MSpawn => VN 6 | MSelect => VN 7 | MDClose r => VL [VN 8; v_res r]
       | MDCancel r => VL [VN 9; v_res r] | MDWait r => VL [VN 10; v_res r] | MRet r => VL [VN 11; v_res r] end;
       match ip s with IIdle => VN 0 | IRecvP => VN 1 | ISendP m => VL [VN 2; VN m] | IPut f => VL [VN 3; v_ferr (Some f)] | IDone => VN 4 end;
       match op s with OIdle => VN 0 | ORecvP b => VL [VN 1; vbool b] | OSendP m => VL [VN 2; VN m] | OURecv1 => VN 3
                     | OURecv2 m => VL [VN 4; VN m] | OUSend m => VL [VN 5; VN m] | OPut f => VL [VN 6; v_ferr (Some f)] | ODone => VN 7 end;
       v_ferr (islot s); v_ferr (oslot s); vnat (in_pos s); vnat (out_pos s); vnat (n_in_sends s); vnat (n_out_sends s);
       vnat (length (sent_out s)); vnat (close_send s); vnat (closed s); vnat (length (sent_in s)); vnat (hdr_set s); vnat (trl_set s);
       VN (match fired s with CtxNone => 0 | CtxCancel => 1 | CtxDeadline => 2 end); vbool (cancel_called s) ].

Definition vmem (v : val) (l : list val) : bool := existsb (val_eqb v) l.

Section Explore.
  Variable sc : script.
  (* worklist exploration with a visited set; one unit of fuel per dequeued state *)
  Fixpoint explore (fuel : nat) (work : list state) (seen finals : list val) : list val * bool :=
    match fuel with
    | O => (finals, match work with [] => true | _ => false end)
    | S f =>
        match work with
        | [] => (finals, true)
        | s :: w =>
            let key := v_state s in
            if vmem key seen then explore f w seen finals
            else
              let succ := map snd (next sc s) in
              let o := obs s in
              let finals' := match mp s, succ with
                             | MRet _, _ => if vmem o finals then finals else o :: finals
                             | _, [] => if vmem o finals then finals else o :: finals     (* stuck: the call never returns *)
                             | _, _ => finals
                             end in
              explore f (succ ++ w) (key :: seen) finals'
        end
    end.
End Explore.

Definition outcomes (sc : script) : list val * bool := explore sc (Z.to_nat 400000) [init] [] [].

Definition run_fwd (v : val) : val := let '(fs, complete) := outcomes (as_script v) in VL [VL fs; vbool complete].

(* ---- the property, executable, on one observed outcome ----
   1: requests seen by the target are not a prefix of what the client sent (dropped/duplicated/reordered/altered)
   2: responses seen by the client are not a prefix of what the target sent
   3: a non-streaming direction carried more than one message
   4: the call returned without closing the outgoing stream it created
   5: the call did not return although every adapter honours the context and a terminating event was possible... (reported by the harness as (-1))
   6: success reported but not all of the target's messages were delivered / half-close lost
   7: the reported status has no source (not the target's, not an adapter error, not the context's) *)
Fixpoint is_prefix (a b : list Z) : bool :=
  match a, b with
  | [], _ => true
  | x :: a', y :: b' => Z.eqb x y && is_prefix a' b'
  | _, [] => false
  end.

Fixpoint msgs_before_eof (l : list (nat * bool * outitem)) : option (list Z) :=
  match l with
  | (_, _, OMsg m) :: r => match msgs_before_eof r with Some ms => Some (m :: ms) | None => None end
  | (_, _, OEof) :: _ => Some []
  | _ => None
  end.

Definition script_codes (sc : script) : list Z :=
  flat_map (fun i => match i with IErr e => [e] | _ => [] end) (in_recv sc) ++
  (match in_send_fail sc with Some (_, e) => [e] | None => [] end) ++
  (match open_res sc with OpenErr e => [e] | _ => [] end) ++
  (match out_send_fail sc with Some (_, ESt e) => [e] | _ => [] end) ++
  flat_map (fun x => match snd x with OErr e => [e] | _ => [] end) (out_recv sc).

Definition prop_fwd (input impl : val) : option Z :=
  let sc := as_script input in
  match as_L impl with
  | [VN _] => None   (* did not return: judged in chk_fwd against the model's own stuck states *)
  | [so; cs; cl; si; _; _; r; cr] =>
      let sent_o := map as_Z (as_L so) in
      let sent_i := map as_Z (as_L si) in
      let code := as_Z r in
      if negb (is_prefix sent_o (in_msgs (in_recv sc))) then Some 1
      else if negb (is_prefix sent_i (out_msgs (out_recv sc))) then Some 2
      else if (negb (client_streaming sc) && (1 <? length sent_o)%nat) || (negb (server_streaming sc) && (1 <? length sent_i)%nat) then Some 3
      else if as_bool cr && negb (as_bool cl) then Some 4
      else if Z.eqb code 0 then
        (if server_streaming sc
         then match msgs_before_eof (out_recv sc) with
              | Some ms => if list_eqb Z.eqb sent_i ms then None else Some 6
              | None => Some 6
              end
         else match out_msgs (out_recv sc) with m :: _ => if list_eqb Z.eqb sent_i [m] then None else Some 6 | [] => Some 6 end)
      else if existsb (Z.eqb code) (script_codes sc) || Z.eqb code 14 || Z.eqb code 1 ||
              (Z.eqb code 4 && match ctx_kind sc with CtxDeadline => true | _ => false end) then None
      else Some 7
  | _ => Some 5
  end.

(* membership of the observed outcome in the explored set replaces equality *)
Definition chk_fwd (c : val) : val :=
  let input := nthv 0 c in
  let impl := nthv 1 c in
  match prop_fwd input impl with
  | Some r => verdict_propfail r (VL [])
  | None =>
      let '(fs, complete) := outcomes (as_script input) in
      if vmem impl fs || negb complete then verdict_ok
      else match as_L impl with
           | [VN _] => verdict_propfail 5 (VL fs)    (* a hang the model cannot produce: every modelled run returns *)
           | _ => verdict_mismatch (VL fs)
           end
  end.

(* ---- end-to-end part (GRPCProxy over bufconn, idle client): input ( cs ss k code ) ; impl ( observed-code timely ).
   The model's answer is the statement of c02_progress + c01: the client sees the target's status, promptly. ---- *)
Definition run_e2e (v : val) : val := VL [VN (as_Z (nthv 3 v)); VN 1].
Definition prop_e2e (input impl : val) : option Z :=
  if negb (as_bool (nthv 1 impl)) then Some 5
  else if Z.eqb (as_Z (nthv 0 impl)) (as_Z (nthv 3 input)) then None else Some 7.
Definition chk_fwd_e2e : val -> val := mk_chk run_e2e prop_e2e.

(* ---------- C01, byte identity through the real ServiceRouter and GRPCProxy (messages are opaque in the forwarder model: the
   model of this part is the identity on both message sequences and on the final status) ----------
   input ( method requests responses final-status ) ; impl ( received-by-target received-by-client final-status )
   the final status is the marshalled status proto (code, message, details); empty for OK
     8: the target did not receive exactly the bytes the client sent, in order
     9: the client did not receive exactly the bytes the target sent, in order
     10: the client did not receive the target's final status - code, message and details *)
Definition run_c01_bytes (v : val) : val := VL [nthv 1 v; nthv 2 v; nthv 3 v].
Definition prop_c01_bytes (input impl : val) : option Z :=
  if negb (val_eqb (nthv 0 impl) (nthv 1 input)) then Some 8
  else if negb (val_eqb (nthv 1 impl) (nthv 2 input)) then Some 9
  else if negb (val_eqb (nthv 2 impl) (nthv 3 input)) then Some 10 else None.
Definition chk_c01_bytes : val -> val := mk_chk run_c01_bytes prop_c01_bytes.
