(* C09: field-level JSON codec of transcoding/json.go (after the F9 repairs) and the canonical proto3 JSON mapping for one
   field.  Definitions only.  JSON text <-> value is encoding/json's tokenizer (modelled, not verified): the model works on
   JSON VALUES; number literals are kept as text so that integrality and range are decided exactly. *)
From GB Require Export Base.Val.
From GB Require Import Model.MDFilter.   (* base64 *)
Open Scope Z_scope.

Inductive jv := JNull | JBool (b : bool) | JNum (lit : bytes) | JStr (s : bytes) | JArr (l : list jv) | JObj (l : list (bytes * jv)).

Inductive kind := KBool | KInt32 | KInt64 | KUint32 | KUint64 | KFloat | KDouble | KString | KBytes | KEnum (names : list (bytes * Z)).

Inductive fv :=
| FBool (b : bool) | FInt (z : Z) | FSpecial (k : Z) (* 0 NaN, 1 +Inf, 2 -Inf *) | FFinite   (* a finite float: its bits are compared on the Go side *)
| FStr (s : bytes) | FBytes (s : bytes) | FEnum (n : Z) | FSkip.

Inductive res (A : Type) := Ok (a : A) | Err.
Arguments Ok {A} a.
Arguments Err {A}.

(* ---- JSON number literals: optional minus, integer part without leading zeros, optional fraction, optional exponent;
   value = mant x 10^exp ---- *)
Fixpoint take_digits (s : bytes) : bytes * bytes :=
  match s with
  | c :: r => if is_digit c then let '(d, rest) := take_digits r in (c :: d, rest) else ([], s)
  | [] => ([], [])
  end.
Fixpoint digits_Z (acc : Z) (ds : bytes) : Z :=
  match ds with [] => acc | c :: r => digits_Z (acc * 10 + (Z.of_N c - 48)) r end.

Record numlit := { nl_neg : bool; nl_mant : Z; nl_exp : Z; nl_explen : nat }.

(* the JSON number grammar: optional minus, integer part without leading zeros, optional fraction with at least one digit,
   optional exponent with at least one digit.  Written with boolean tests so that proofs can follow it. *)
Definition split_minus (s : bytes) : bool * bytes :=
  match s with c :: r => if (c =? 45)%N then (true, r) else (false, s) | [] => (false, s) end.
Definition int_part_ok (ip : bytes) : bool :=
  match ip with [] => false | c :: r => negb ((c =? 48)%N && negb (match r with [] => true | _ => false end)) end.
(* fraction digits, rest, well-formed *)
Definition split_frac (s : bytes) : bytes * bytes * bool :=
  match s with
  | c :: r => if (c =? 46)%N then let '(f, r') := take_digits r in (f, r', negb (match f with [] => true | _ => false end))
              else ([], s, true)
  | [] => ([], s, true)
  end.
(* exponent value and the number of characters after the e *)
Definition split_exp (s : bytes) : option (Z * nat) :=
  match s with
  | [] => Some (0, O)
  | c :: r =>
      if ((c =? 101) || (c =? 69))%N then
        let '(eneg, r1) := match r with
                           | x :: y => if (x =? 45)%N then (true, y) else if (x =? 43)%N then (false, y) else (false, r)
                           | [] => (false, r) end in
        let '(ed, r2) := take_digits r1 in
        match ed, r2 with
        | _ :: _, [] => Some (if eneg then - digits_Z 0 ed else digits_Z 0 ed, length r)
        | _, _ => None
        end
      else None
  end.
Definition parse_number (s : bytes) : option numlit :=
  let '(neg, s1) := split_minus s in
  let '(ip, s2) := take_digits s1 in
  if negb (int_part_ok ip) then None else
  let '(fp, s3, fok) := split_frac s2 in
  if negb fok then None else
  match split_exp s3 with
  | Some (e, elen) => Some {| nl_neg := neg; nl_mant := digits_Z 0 (ip ++ fp); nl_exp := e - Z.of_nat (length fp); nl_explen := elen |}
  | None => None
  end.

(* the exact integer a literal denotes, if it denotes one *)
Definition lit_integer (n : numlit) : option Z :=
  let v := if nl_exp n <? 0
           then (if (nl_mant n) mod (10 ^ (- nl_exp n)) =? 0 then Some (nl_mant n / 10 ^ (- nl_exp n)) else None)
           else Some (nl_mant n * 10 ^ (nl_exp n)) in
  match v with Some z => Some (if nl_neg n then - z else z) | None => None end.

(* jsonParseInteger: exponent texts longer than 4 characters (after the e) are refused outright *)
Definition json_integer (s : bytes) : option Z :=
  match parse_number s with
  | Some n => if (4 <? nl_explen n)%nat then None else lit_integer n
  | None => None
  end.

Definition in_range (k : kind) (z : Z) : bool :=
  match k with
  | KInt32 => (-2147483648 <=? z) && (z <=? 2147483647)
  | KInt64 => (-9223372036854775808 <=? z) && (z <=? 9223372036854775807)
  | KUint32 => (0 <=? z) && (z <=? 4294967295)
  | KUint64 => (0 <=? z) && (z <=? 18446744073709551615)
  | _ => true
  end.

(* magnitude test |mant * 10^exp| >= bound, exactly *)
Definition mag_ge (n : numlit) (bound : Z) : bool :=
  if nl_exp n <? 0 then bound * 10 ^ (- nl_exp n) <=? nl_mant n else bound <=? nl_mant n * 10 ^ (nl_exp n).
Definition f32_overflow : Z := 2 ^ 128 - 2 ^ 103.     (* values from here on round to infinity in float32 *)
Definition f64_overflow : Z := 2 ^ 1024 - 2 ^ 970.

(* ---- strconv.ParseFloat's grammar (readFloat), which quoted floats go through: optional sign, decimal or 0x-hexadecimal
   mantissa with at most one '.', underscores (checked afterwards by underscoreOK), exponent e / p (mandatory for hex);
   value = mant * 10^e10 * 2^e2 ---- *)
Record gflit := { gf_mant : Z; gf_e10 : Z; gf_e2 : Z }.
Definition hexval (c : N) : option Z :=
  if is_digit c then Some (Z.of_N c - 48)
  else if ((97 <=? c) && (c <=? 102))%N then Some (Z.of_N c - 87)
  else if ((65 <=? c) && (c <=? 70))%N then Some (Z.of_N c - 55) else None.
Definition digval (hex : bool) (c : N) : option Z := if hex then hexval c else if is_digit c then Some (Z.of_N c - 48) else None.

(* returns the rest, saw-digits, mantissa, number of digits after the dot *)
Fixpoint scan_mant (hex : bool) (s : bytes) (sawdot sawdig : bool) (mant nfrac : Z) : bytes * bool * Z * Z :=
  match s with
  | c :: r =>
      if (c =? 95)%N then scan_mant hex r sawdot sawdig mant nfrac
      else if (c =? 46)%N then (if sawdot then (s, sawdig, mant, nfrac) else scan_mant hex r true sawdig mant nfrac)
      else match digval hex c with
           | Some d => scan_mant hex r sawdot true (mant * (if hex then 16 else 10) + d) (if sawdot then nfrac + 1 else nfrac)
           | None => (s, sawdig, mant, nfrac)
           end
  | [] => ([], sawdig, mant, nfrac)
  end.
(* exponent digits: digits and underscores *)
Fixpoint scan_exp (s : bytes) (acc : Z) : bytes * Z :=
  match s with
  | c :: r => if (c =? 95)%N then scan_exp r acc else if is_digit c then scan_exp r (acc * 10 + (Z.of_N c - 48)) else (s, acc)
  | [] => ([], acc)
  end.

(* underscoreOK: an underscore must follow a digit or the base prefix and be followed by a digit. saw: 0 '^', 1 digit, 2 '_', 3 other *)
Fixpoint us_scan (hex : bool) (s : bytes) (saw : nat) : bool :=
  match s with
  | [] => negb (Nat.eqb saw 2)
  | c :: r =>
      if match digval hex c with Some _ => true | None => false end then us_scan hex r 1
      else if (c =? 95)%N then (if Nat.eqb saw 1 then us_scan hex r 2 else false)
      else if Nat.eqb saw 2 then false else us_scan hex r 3
  end.
Definition lowerc (c : N) : N := if ((65 <=? c) && (c <=? 90))%N then (c + 32)%N else c.
Definition underscore_ok (s : bytes) : bool :=
  let s1 := match s with c :: r => if ((c =? 45) || (c =? 43))%N then r else s | [] => s end in
  match s1 with
  | 48%N :: c :: r => let l := lowerc c in
                      if ((l =? 98) || (l =? 111) || (l =? 120))%N then us_scan (l =? 120)%N r 1 else us_scan false s1 0
  | _ => us_scan false s1 0
  end.

Definition go_float (s : bytes) : option (bool * gflit) :=
  let '(neg, s1) := match s with
                    | 45%N :: r => (true, r)
                    | 43%N :: r => (false, r)
                    | _ => (false, s) end in
  let '(hex, s2) := match s1 with
                    | 48%N :: c :: r => if (lowerc c =? 120)%N then (true, r) else (false, s1)
                    | _ => (false, s1) end in
  let '(s3, sawdig, mant, nfrac) := scan_mant hex s2 false false 0 0 in
  if negb sawdig then None else
  let finish (rest : bytes) (e : Z) :=
    match rest with
    | [] => if existsb (N.eqb 95) s && negb (underscore_ok s) then None
            else Some (neg, if hex then {| gf_mant := mant; gf_e10 := 0; gf_e2 := e - 4 * nfrac |}
                            else {| gf_mant := mant; gf_e10 := e - nfrac; gf_e2 := 0 |})
    | _ => None
    end in
  match s3 with
  | c :: r =>
      if (lowerc c =? (if hex then 112 else 101))%N then
        let '(eneg, r1) := match r with 45%N :: x => (true, x) | 43%N :: x => (false, x) | _ => (false, r) end in
        match r1 with
        | d :: _ => if is_digit d then let '(r2, e) := scan_exp r1 0 in finish r2 (if eneg then - e else e) else None
        | [] => None
        end
      else None
  | [] => if hex then None else finish [] 0
  end.

(* |mant * 10^e10 * 2^e2| >= bound, exactly *)
Definition gf_ge (g : gflit) (bound : Z) : bool :=
  let num := gf_mant g * 10 ^ (Z.max (gf_e10 g) 0) * 2 ^ (Z.max (gf_e2 g) 0) in
  let den := 10 ^ (Z.max (- gf_e10 g) 0) * 2 ^ (Z.max (- gf_e2 g) 0) in
  bound * den <=? num.

Fixpoint lookup_name (n : bytes) (l : list (bytes * Z)) : option Z :=
  match l with [] => None | (k, v) :: r => if bytes_eqb n k then Some v else lookup_name n r end.
Fixpoint lookup_num (z : Z) (l : list (bytes * Z)) : option bytes :=
  match l with [] => None | (k, v) :: r => if Z.eqb z v then Some k else lookup_num z r end.

(* strconv.ParseFloat's special values: optional sign + inf|infinity, or nan, case-insensitively *)
Definition s_inf : bytes := [105;110;102]%N.
Definition s_infinity : bytes := [105;110;102;105;110;105;116;121]%N.
Definition s_nan : bytes := [110;97;110]%N.
Definition float_special (s : bytes) : option Z :=
  let l := lower s in
  match l with
  | 43%N :: r => if bytes_eqb r s_inf || bytes_eqb r s_infinity then Some 1 else None
  | 45%N :: r => if bytes_eqb r s_inf || bytes_eqb r s_infinity then Some 2 else None
  | _ => if bytes_eqb l s_inf || bytes_eqb l s_infinity then Some 1 else if bytes_eqb l s_nan then Some 0 else None
  end.

Definition float_bound (k : kind) : Z := match k with KFloat => f32_overflow | _ => f64_overflow end.
Definition float_of_lit (k : kind) (n : numlit) : res fv := if mag_ge n (float_bound k) then Err else Ok FFinite.

(* base64 as encoding/json decodes []byte: StdEncoding, padded, CR/LF ignored *)
Definition b64_std (s : bytes) : option bytes := let t := strip_crlf s in b64_go true (length t) t.

(* the JSON types the proto3 JSON mapping allows for a kind (null stands for "absent" everywhere) *)
Definition type_ok (k : kind) (j : jv) : bool :=
  match j, k with
  | JNull, _ => true
  | JBool _, KBool => true
  | JNum _, (KInt32 | KInt64 | KUint32 | KUint64 | KFloat | KDouble | KEnum _) => true
  | JStr _, KBool => false
  | JStr _, _ => true
  | _, _ => false
  end.

(* ---- the code's decoder for one scalar ---- *)
Definition unmarshal_scalar (discard : bool) (k : kind) (j : jv) : res fv :=
  match k, j with
  | KBool, JBool b => Ok (FBool b)
  | KBool, JNull => Ok (FBool false)
  | KBool, _ => Err
  | (KInt32 | KInt64 | KUint32 | KUint64), JNull => Ok (FInt 0)
  | (KInt32 | KInt64 | KUint32 | KUint64), (JNum s | JStr s) =>
      match json_integer s with
      | Some z => if in_range k z then Ok (FInt z) else Err
      | None => Err
      end
  | (KInt32 | KInt64 | KUint32 | KUint64), _ => Err
  | (KFloat | KDouble), JNum s =>
      match parse_number s with
      | Some n => float_of_lit k n          (* strconv.ParseFloat(text, bits of the field): rounded once *)
      | None => Err
      end
  | (KFloat | KDouble), JStr s =>
      match float_special s with
      | Some sp => Ok (FSpecial sp)
      | None => match go_float s with Some (_, g) => if gf_ge g (float_bound k) then Err else Ok FFinite | None => Err end
      end
  | (KFloat | KDouble), _ => Err
  | KString, JStr s => Ok (FStr s)
  | KString, JNull => Ok (FStr [])
  | KString, _ => Err
  | KBytes, JStr s => match b64_std s with Some b => Ok (FBytes b) | None => Err end
  | KBytes, JNull => Ok (FBytes [])
  | KBytes, _ => Err
  | KEnum names, JStr s => match lookup_name s names with
                           | Some z => Ok (FEnum z)
                           | None => if discard then Ok FSkip else Err
                           end
  | KEnum _, JNum s =>
      match parse_number s with
      | Some n => match lit_integer n with
                  | Some z => if (-2147483648 <=? z) && (z <=? 2147483647) then Ok (FEnum z) else Err
                  | None => Err
                  end
      | None => Err
      end
  | KEnum _, _ => Err
  end.

(* the code before the repairs, for integers: json.Number.Int64 with its error discarded, then a Go integer conversion *)
Definition wrap (bits : Z) (signed : bool) (z : Z) : Z :=
  let m := z mod 2 ^ bits in if signed && (2 ^ (bits - 1) <=? m) then m - 2 ^ bits else m.
Definition unmarshal_int_old (k : kind) (s : bytes) : Z :=
  let i := match parse_number s with
           | Some n => match nl_exp n, nl_explen n with
                       | 0, O => let z := if nl_neg n then - nl_mant n else nl_mant n in
                                 if z <? -9223372036854775808 then -9223372036854775808
                                 else if 9223372036854775807 <? z then 9223372036854775807 else z
                       | _, _ => 0                       (* ParseInt fails on '.', 'e': 0 *)
                       end
           | None => 0 end in
  match k with
  | KInt32 => wrap 32 true i | KUint32 => wrap 32 false i | KUint64 => wrap 64 false i | _ => i
  end.

(* ---- the code's encoder for one scalar ---- *)
Fixpoint pos_digits (fuel : nat) (z : Z) (acc : bytes) : bytes :=
  match fuel with
  | O => acc
  | S f => if z <? 10 then Z.to_N (48 + z) :: acc else pos_digits f (z / 10) (Z.to_N (48 + z mod 10) :: acc)
  end.
Definition dec_of_Z (z : Z) : bytes :=
  if z <? 0 then 45%N :: pos_digits 80 (- z) [] else pos_digits 80 z [].

Definition b64_char (n : N) : N :=
  if (n <? 26)%N then (65 + n)%N else if (n <? 52)%N then (71 + n)%N else if (n <? 62)%N then (n - 4)%N else if (n =? 62)%N then 43%N else 47%N.
Fixpoint b64_encode (s : bytes) : bytes :=
  match s with
  | a :: b :: c :: r =>
      let v := (a * 65536 + b * 256 + c)%N in
      b64_char (v / 262144) :: b64_char ((v / 4096) mod 64) :: b64_char ((v / 64) mod 64) :: b64_char (v mod 64) :: b64_encode r
  | [a; b] =>
      let v := (a * 65536 + b * 256)%N in
      [b64_char (v / 262144); b64_char ((v / 4096) mod 64); b64_char ((v / 64) mod 64); 61%N]
  | [a] =>
      let v := (a * 65536)%N in
      [b64_char (v / 262144); b64_char ((v / 4096) mod 64); 61%N; 61%N]
  | [] => []
  end.

Definition s_NaN : bytes := [78;97;78]%N.
Definition s_Infinity : bytes := [73;110;102;105;110;105;116;121]%N.
Definition marshal_scalar (k : kind) (v : fv) : option jv :=
  match k, v with
  | KBool, FBool b => Some (JBool b)
  | (KInt32 | KInt64 | KUint32 | KUint64), FInt z => Some (JNum (dec_of_Z z))
  | (KFloat | KDouble), FSpecial 0 => Some (JStr s_NaN)
  | (KFloat | KDouble), FSpecial 1 => Some (JStr s_Infinity)
  | (KFloat | KDouble), FSpecial _ => Some (JStr (45%N :: s_Infinity))
  | KString, FStr s => Some (JStr s)
  | KBytes, FBytes s => Some (JStr (b64_encode s))
  | KEnum names, FEnum z => Some (match lookup_num z names with Some n => JStr n | None => JNum (dec_of_Z z) end)
  | _, _ => None
  end.

(* canonical proto3 JSON emits 64-bit integers as strings *)
Definition pj_encode (k : kind) (v : fv) : option jv :=
  match k, v with
  | (KInt64 | KUint64), FInt z => Some (JStr (dec_of_Z z))
  | _, _ => marshal_scalar k v
  end.

(* ---- lists and maps ---- *)
Fixpoint collect {A} (l : list (res A)) : res (list A) :=
  match l with
  | [] => Ok []
  | Err :: _ => Err
  | Ok a :: r => match collect r with Ok t => Ok (a :: t) | Err => Err end
  end.
Definition not_skip (v : fv) : bool := match v with FSkip => false | _ => true end.

Definition unmarshal_list (discard : bool) (k : kind) (j : jv) : res (list fv) :=
  match j with
  | JNull => Ok []
  | JArr items => match collect (map (unmarshal_scalar discard k) items) with Ok l => Ok (filter not_skip l) | Err => Err end
  | _ => Err
  end.

(* map keys arrive as JSON object keys (strings); bool keys are the texts true / false *)
Definition s_true : bytes := [116;114;117;101]%N.
Definition s_false : bytes := [102;97;108;115;101]%N.
Definition unmarshal_key (kk : kind) (key : bytes) : res fv :=
  match kk with
  | KBool => if bytes_eqb key s_true then Ok (FBool true) else if bytes_eqb key s_false then Ok (FBool false) else Err
  | _ => unmarshal_scalar false kk (JStr key)
  end.
Definition unmarshal_map (discard : bool) (kk vk : kind) (j : jv) : res (list (fv * fv)) :=
  match j with
  | JNull => Ok []
  | JObj entries =>
      match collect (map (fun e => match unmarshal_key kk (fst e), unmarshal_scalar discard vk (snd e) with
                                    | Ok a, Ok b => Ok (a, b) | _, _ => Err end) entries) with
      | Ok l => Ok (filter (fun p => not_skip (snd p)) l)
      | Err => Err
      end
  | _ => Err
  end.

(* ---- encoding lists and maps: marshalList / marshalMap (map keys through MapKey.String) ---- *)
Fixpoint collect_opt {A} (l : list (option A)) : option (list A) :=
  match l with
  | [] => Some []
  | None :: _ => None
  | Some a :: r => match collect_opt r with Some t => Some (a :: t) | None => None end
  end.
Definition marshal_list (k : kind) (l : list fv) : option jv :=
  match collect_opt (map (marshal_scalar k) l) with Some js => Some (JArr js) | None => None end.
Definition key_text (kk : kind) (v : fv) : option bytes :=
  match kk, v with
  | KBool, FBool true => Some s_true
  | KBool, FBool false => Some s_false
  | (KInt32 | KInt64 | KUint32 | KUint64), FInt z => Some (dec_of_Z z)
  | KString, FStr s => Some s
  | _, _ => None
  end.
Definition marshal_map (kk vk : kind) (l : list (fv * fv)) : option jv :=
  match collect_opt (map (fun e => match key_text kk (fst e), marshal_scalar vk (snd e) with
                                   | Some a, Some b => Some (a, b) | _, _ => None end) l) with
  | Some es => Some (JObj es)
  | None => None
  end.
