(* C20: the lookup structure of the strict parser (internal/httprule/trie.go): Add and Find on a trie whose edges are
   literals, the single wildcard and the multi wildcard, with the verbs in a map at the node where the segments end.
   Definitions only.  Templates are identified by their position in the list of Adds (the harness maps the pointer the real
   trie returns to that position).  Go iterates n.verbs in map order, so where several verbs fit the model returns all
   candidates; the correspondence is "the real answer is one of them" (and "none" iff there is no candidate). *)
From GB Require Export Model.Template Model.TemplateRun.
Open Scope N_scope.

(* segments as the trie stores them: variables are replaced by their inner segments (node.addVariable) *)
Inductive fseg := FWild | FDeep | FLit (l : bytes).
Definition flat_inner (s : seg) : list fseg :=
  match s with SWild => [FWild] | SDeep => [FDeep] | SLit l => [FLit l] | SVar _ _ => [] end.
Definition flat_seg (s : seg) : list fseg :=
  match s with SVar _ inner => flat_map flat_inner inner | _ => flat_inner s end.
Definition flatten (segs : list seg) : list fseg := flat_map flat_seg segs.

Inductive node := Node (tmpl : option nat) (lits : list (bytes * node)) (verbs : list (bytes * nat)) (wild multi : option node).
Definition empty_node : node := Node None [] [] None None.
Definition n_tmpl (n : node) := match n with Node t _ _ _ _ => t end.
Definition n_lits (n : node) := match n with Node _ l _ _ _ => l end.
Definition n_verbs (n : node) := match n with Node _ _ v _ _ => v end.
Definition n_wild (n : node) := match n with Node _ _ _ w _ => w end.
Definition n_multi (n : node) := match n with Node _ _ _ _ m => m end.

Fixpoint lit_get (l : bytes) (lits : list (bytes * node)) : option node :=
  match lits with [] => None | (k, c) :: r => if bytes_eqb k l then Some c else lit_get l r end.
(* n.literals[l] = f (n.literals[l] or a new node) *)
Fixpoint lit_upd (l : bytes) (f : node -> node) (lits : list (bytes * node)) : list (bytes * node) :=
  match lits with
  | [] => [(l, f empty_node)]
  | (k, c) :: r => if bytes_eqb k l then (k, f c) :: r else (k, c) :: lit_upd l f r
  end.
Fixpoint verb_get (v : bytes) (verbs : list (bytes * nat)) : option nat :=
  match verbs with [] => None | (k, i) :: r => if bytes_eqb k v then Some i else verb_get v r end.
Fixpoint verb_set (v : bytes) (i : nat) (verbs : list (bytes * nat)) : list (bytes * nat) :=
  match verbs with
  | [] => [(v, i)]
  | (k, j) :: r => if bytes_eqb k v then (k, i) :: r else (k, j) :: verb_set v i r
  end.
Definition or_empty (o : option node) : node := match o with Some n => n | None => empty_node end.

(* Trie.Add: walk / create the edges of the flattened segments, then node.addVerb *)
Fixpoint insert (fs : list fseg) (verb : bytes) (id : nat) (n : node) {struct fs} : node :=
  match n with
  | Node t lits verbs w m =>
      match fs with
      | [] => match verb with
              | [] => Node (Some id) lits verbs w m
              | _ => Node t lits (verb_set verb id verbs) w m
              end
      | FWild :: r => Node t lits verbs (Some (insert r verb id (or_empty w))) m
      | FDeep :: r => Node t lits verbs w (Some (insert r verb id (or_empty m)))
      | FLit l :: r => Node t (lit_upd l (insert r verb id) lits) verbs w m
      end
  end.

Fixpoint build_from (k : nat) (ts : list template) (n : node) : node :=
  match ts with
  | [] => n
  | t :: r => build_from (S k) r (insert (flatten (t_segs t)) (t_verb t) k n)
  end.
Definition build (ts : list template) : node := build_from O ts empty_node.

(* dfsLeaf.  [wild]: the component that led here was consumed by a wildcard.  [old]: the code before the repair (finding
   F30) looked at the verbs also after a literal had matched the whole last component. *)
Definition dfs_leaf (old : bool) (n : node) (orig : bytes) (wild : bool) : list nat :=
  match n_tmpl n with
  | Some i => [i]
  | None => if wild || old
            then map snd (filter (fun kv => ends_with orig (c_colon :: fst kv)) (n_verbs n))
            else []
  end.

(* dfs: [comps] are the components still to be consumed; the empty list is the call with last = true *)
Fixpoint dfs (old : bool) (comps : list bytes) (n : node) (orig : bytes) (wild : bool) : list nat :=
  match comps with
  | [] => dfs_leaf old n orig wild
  | c :: rest =>
      match lit_get c (n_lits n) with
      | Some child => dfs old rest child orig false
      | None =>
          let by_verb :=
            match rest with
            | [] => match last_index_of c_colon c O None with
                    | Some i => match lit_get (firstn i c) (n_lits n) with
                                | Some next => verb_get (skipn (S i) c) (n_verbs next)
                                | None => None end
                    | None => None end
            | _ => None end in
          match by_verb with
          | Some i => [i]
          | None =>
              match n_wild n with
              | Some w => dfs old rest w orig true
              | None => match n_multi n with
                        | Some m => dfs_leaf old m orig true
                        | None => [] end
              end
          end
      end
  end.

(* Trie.Find for one HTTP method: strings.TrimPrefix(path, "/"), then dfs over the components *)
Definition trim_slash (path : bytes) : bytes :=
  match path with c :: p => if c =? c_slash then p else path | [] => [] end.
Definition find (old : bool) (root : node) (path : bytes) : list nat :=
  let p := trim_slash path in dfs old (split_slash p []) root p false.

(* ---------- correspondence and property on the implementation's answer ----------
   input ( templates path ) ; impl ( ) | ( index ) *)
Definition as_templates (v : val) : list template := map as_template (as_L v).
(* 1: the trie returned a template that does not match the path (the property, as before)
   5: the real trie found nothing although the model has a candidate, or returned a template that is not among the model's
      candidates (model mismatch, reported as such) *)
Definition chk_c20_trie_model (c : val) : val :=
  let input := nthv 0 c in let impl := nthv 1 c in
  let cands := find false (build (as_templates (nthv 0 input))) (as_S (nthv 1 input)) in
  match prop_c20_trie input impl with
  | Some r => verdict_propfail r (VL (map vnat cands))
  | None =>
      match as_L impl with
      | [VN i] => if existsb (Nat.eqb (Z.to_nat i)) cands then verdict_ok else verdict_mismatch (VL (map vnat cands))
      | _ => match cands with [] => verdict_ok | _ => verdict_mismatch (VL (map vnat cands)) end
      end
  end.
