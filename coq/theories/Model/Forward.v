(* Model of grpcadapter.ProxyForwarder.Forward (forwarder.go) as a labelled transition system at the granularity
   of its blocking adapter calls and channel operations (DESIGN appendix A.1).  Definitions only.

   Threads: Main, I2O (client->target pump), O2I (target->client pump), Env (the call context firing).
   Messages are opaque integers (the forwarder never inspects them).  [next] lists ALL enabled atomic steps of
   ALL threads; a blocked adapter call contributes a step only when its adapter honours the context and the
   context is done.  The same [next] is what the invariants are proved about, what [explore] enumerates for
   the correspondence, and what replays a schedule. *)
From GB Require Export Base.Val.
From RecordUpdate Require Import RecordSet.
Import RecordSetNotations.
Open Scope Z_scope.

(* ---- errors and scripts ---- *)
Inductive err := EEof | ESt (code : Z).
Definition err_eqb (a b : err) : bool :=
  match a, b with EEof, EEof => true | ESt x, ESt y => Z.eqb x y | _, _ => false end.

Inductive initem := IMsg (m : Z) | IEof | IErr (e : Z).            (* what Incoming.Recv yields, in order; then it blocks *)
Inductive outitem := OMsg (m : Z) | OEof | OErr (e : Z).           (* what outgoing.Recv yields *)
Inductive openres := OpenOk | OpenErr (e : Z) | OpenBlock.
Inductive sres := SOk | SEofR | SErrR (e : Z).
Inductive ctxkind := CtxNone | CtxCancel | CtxDeadline.

Record script := {
  client_streaming : bool; server_streaming : bool;
  in_recv : list initem;
  in_send_fail : option (nat * Z);          (* the k-th Incoming.Send (and later ones) fails with this code *)
  open_res : openres;
  out_send_fail : option (nat * err);       (* the k-th outgoing.Send (and later ones) returns EOF / an error *)
  out_recv : list (nat * bool * outitem);   (* (requests needed, half-close needed, item) *)
  ctx_kind : ctxkind;                       (* which context event the environment may fire, at any time *)
  in_aware : bool; out_aware : bool         (* do the adapters honour the context *)
}.

(* ---- state ---- *)
Inductive ferr := FIn (e : err) | FOut (e : err) | FOk.            (* forwardError{incomingErr | outgoingErr | nil,nil} *)
Inductive res := RNil | RErr (e : Z).

Inductive mpc :=
| M0 | MOpen | MURecv | MUOpen (m : Z) | MUSend (m : Z) | MUCloseSend | MSpawn | MSelect
| MDClose (r : res) | MDCancel (r : res) | MDWait (r : res) | MRet (r : res).
Inductive ipc := IIdle | IRecvP | ISendP (m : Z) | IPut (f : ferr) | IDone.
Inductive opc := OIdle | ORecvP (first : bool) | OSendP (m : Z) | OURecv1 | OURecv2 (m : Z) | OUSend (m : Z) | OPut (f : ferr) | ODone.

Record state := {
  mp : mpc; ip : ipc; op : opc;
  islot : option ferr; oslot : option ferr;
  in_pos : nat; out_pos : nat; n_in_sends : nat; n_out_sends : nat;
  sent_out : list Z; close_send : nat; closed : nat; sent_in : list Z;
  hdr_set : nat; trl_set : nat;
  fired : ctxkind; cancel_called : bool; created : bool
}.
#[export] Instance eta_state : Settable _ :=
  settable! Build_state <mp; ip; op; islot; oslot; in_pos; out_pos; n_in_sends; n_out_sends;
                         sent_out; close_send; closed; sent_in; hdr_set; trl_set; fired; cancel_called; created>.

Definition init : state :=
  {| mp := M0; ip := IIdle; op := OIdle; islot := None; oslot := None; in_pos := 0; out_pos := 0;
     n_in_sends := 0; n_out_sends := 0; sent_out := []; close_send := 0; closed := 0; sent_in := [];
     hdr_set := 0; trl_set := 0; fired := CtxNone; cancel_called := false; created := false |}.

Inductive label := LEnv | LMain | LI2O | LO2I.

Section LTS.
  Variable sc : script.

  Definition ctx_done (s : state) : bool :=
    cancel_called s || match fired s with CtxNone => false | _ => true end.
  Definition ctx_code (s : state) : Z := match fired s with CtxDeadline => 4 | _ => 1 end.

  (* ---- adapter calls: list of possible (result, state after the call's own effects) ---- *)
  (* Incoming.Recv *)
  Definition call_in_recv (s : state) : list (initem * state) :=
    (match nth_error (in_recv sc) (in_pos s) with
     | Some it => [(it, s <| in_pos := S (in_pos s) |>)]
     | None => []
     end) ++
    (if in_aware sc && ctx_done s then [(IErr (ctx_code s), s)] else []).

  (* Incoming.Send m *)
  Definition call_in_send (m : Z) (s : state) : list (option Z * state) :=
    (match in_send_fail sc with
     | Some (k, e) => if (k <=? n_in_sends s)%nat then [(Some e, s <| n_in_sends := S (n_in_sends s) |>)]
                      else [(None, s <| n_in_sends := S (n_in_sends s) |> <| sent_in := sent_in s ++ [m] |>)]
     | None => [(None, s <| n_in_sends := S (n_in_sends s) |> <| sent_in := sent_in s ++ [m] |>)]
     end) ++
    (if in_aware sc && ctx_done s then [(Some (ctx_code s), s)] else []).

  (* Outgoing.Stream *)
  Definition call_open (s : state) : list (option Z * state) :=
    (match open_res sc with
     | OpenOk => [(None, s <| created := true |>)]
     | OpenErr e => [(Some e, s)]
     | OpenBlock => []
     end) ++
    (if out_aware sc && ctx_done s then [(Some (ctx_code s), s)] else []).

  (* outgoing.Send m ; after Close the stream answers Canceled *)
  Definition call_out_send (m : Z) (s : state) : list (sres * state) :=
    if (0 <? closed s)%nat then [(SErrR 1, s)] else
    (match out_send_fail sc with
     | Some (k, r) => if (k <=? n_out_sends s)%nat then [(match r with EEof => SEofR | ESt e => SErrR e end, s <| n_out_sends := S (n_out_sends s) |>)]
                      else [(SOk, s <| n_out_sends := S (n_out_sends s) |> <| sent_out := sent_out s ++ [m] |>)]
     | None => [(SOk, s <| n_out_sends := S (n_out_sends s) |> <| sent_out := sent_out s ++ [m] |>)]
     end) ++
    (if out_aware sc && ctx_done s then [(SErrR (ctx_code s), s)] else []).

  (* outgoing.Recv *)
  Definition call_out_recv (s : state) : list (outitem * state) :=
    if (0 <? closed s)%nat then [(OErr 1, s)] else
    (match nth_error (out_recv sc) (out_pos s) with
     | Some (need, hc, it) =>
         if (need <=? length (sent_out s))%nat && (negb hc || (0 <? close_send s)%nat)
         then [(it, s <| out_pos := S (out_pos s) |>)] else []
     | None => []
     end) ++
    (if out_aware sc && ctx_done s then [(OErr (ctx_code s), s)] else []).

  (* ---- threads ---- *)
  Definition env_steps (s : state) : list (label * state) :=
    (* the call context fires at most once, and only while it can still matter: before Main's own cancel() *)
    if cancel_called s then [] else
    match fired s, ctx_kind sc with
    | CtxNone, CtxNone => []
    | CtxNone, k => [(LEnv, s <| fired := k |>)]
    | _, _ => []
    end.

  Definition wg (s : state) : nat :=
    (match ip s with IIdle | IDone => 0 | _ => 1 end + match op s with OIdle | ODone => 0 | _ => 1 end)%nat.

  Definition is_eof_ferr (f : ferr) : bool :=
    match f with FIn EEof | FOut EEof => true | _ => false end.

  Definition main_steps (s : state) : list (label * state) :=
    map (fun s' => (LMain, s'))
    match mp s with
    | M0 => [s <| mp := if client_streaming sc then MOpen else MURecv |>]
    | MOpen =>
        map (fun rs => match fst rs with
                       | None => snd rs <| ip := IRecvP |> <| mp := MSpawn |>
                       | Some e => snd rs <| mp := MDCancel (RErr e) |>
                       end) (call_open s)
    | MURecv =>
        map (fun rs => match fst rs with
                       | IMsg m => snd rs <| mp := MUOpen m |>
                       | IEof => snd rs <| mp := MDCancel (RErr 14) |>
                       | IErr e => snd rs <| mp := MDCancel (RErr e) |>
                       end) (call_in_recv s)
    | MUOpen m =>
        map (fun rs => match fst rs with
                       | None => snd rs <| mp := MUSend m |>
                       | Some e => snd rs <| mp := MDCancel (RErr e) |>
                       end) (call_open s)
    | MUSend m =>
        map (fun rs => match fst rs with
                       | SOk | SEofR => snd rs <| mp := MUCloseSend |>
                       | SErrR e => snd rs <| closed := S (closed (snd rs)) |> <| mp := MDCancel (RErr e) |>
                       end) (call_out_send m s)
    | MUCloseSend => [s <| close_send := S (close_send s) |> <| mp := MSpawn |>]
    | MSpawn => [s <| op := if server_streaming sc then ORecvP true else OURecv1 |> <| mp := MSelect |>]
    | MSelect =>
        (if ctx_done s then [s <| mp := MDClose (RErr (ctx_code s)) |>] else []) ++
        (match islot s with
         | Some f =>
             [if is_eof_ferr f then s <| islot := None |> <| close_send := S (close_send s) |>
              else s <| islot := None |> <| mp := MDClose (match f with FIn (ESt e) | FOut (ESt e) => RErr e | _ => RNil end) |>]
         | None => []
         end) ++
        (match oslot s with
         | Some f => [s <| oslot := None |> <| mp := MDClose (match f with
                                                              | FIn (ESt e) | FOut (ESt e) => RErr e
                                                              | FIn EEof | FOut EEof => RErr (-1)   (* io.EOF returned as the error: never produced by O2I *)
                                                              | FOk => RNil end) |>]
         | None => []
         end)
    | MDClose r => [s <| closed := S (closed s) |> <| mp := MDCancel r |>]
    | MDCancel r => [s <| cancel_called := true |> <| mp := MDWait r |>]
    | MDWait r => if Nat.eqb (wg s) 0 then [s <| mp := MRet r |>] else []
    | MRet _ => []
    end.

  Definition i2o_steps (s : state) : list (label * state) :=
    map (fun s' => (LI2O, s'))
    match ip s with
    | IRecvP =>
        map (fun rs => match fst rs with
                       | IMsg m => snd rs <| ip := ISendP m |>
                       | IEof => snd rs <| ip := IPut (FIn EEof) |>
                       | IErr e => snd rs <| ip := IPut (FIn (ESt e)) |>
                       end) (call_in_recv s)
    | ISendP m =>
        map (fun rs => match fst rs with
                       | SOk => snd rs <| ip := IRecvP |>
                       | SEofR => snd rs <| ip := IPut (FOut EEof) |>
                       | SErrR e => snd rs <| ip := IPut (FOut (ESt e)) |>
                       end) (call_out_send m s)
    | IPut f => match islot s with None => [s <| islot := Some f |> <| ip := IDone |>] | Some _ => [] end
    | IIdle | IDone => []
    end.

  Definition o2i_steps (s : state) : list (label * state) :=
    map (fun s' => (LO2I, s'))
    match op s with
    | ORecvP first =>
        map (fun rs =>
               let s1 := if first then snd rs <| hdr_set := S (hdr_set (snd rs)) |> else snd rs in
               match fst rs with
               | OMsg m => s1 <| op := OSendP m |>
               | OEof => s1 <| trl_set := S (trl_set s1) |> <| op := OPut FOk |>
               | OErr e => s1 <| trl_set := S (trl_set s1) |> <| op := OPut (FOut (ESt e)) |>
               end) (call_out_recv s)
    | OSendP m =>
        map (fun rs => match fst rs with
                       | None => snd rs <| op := ORecvP false |>
                       | Some e => snd rs <| op := OPut (FIn (ESt e)) |>
                       end) (call_in_send m s)
    | OURecv1 =>
        map (fun rs => match fst rs with
                       | OMsg m => snd rs <| op := OURecv2 m |>
                       | OEof => snd rs <| hdr_set := S (hdr_set (snd rs)) |> <| trl_set := S (trl_set (snd rs)) |> <| op := OPut (FOut (ESt 14)) |>
                       | OErr e => snd rs <| hdr_set := S (hdr_set (snd rs)) |> <| trl_set := S (trl_set (snd rs)) |> <| op := OPut (FOut (ESt e)) |>
                       end) (call_out_recv s)
    | OURecv2 m =>
        map (fun rs => match fst rs with
                       | OMsg _ => snd rs <| hdr_set := S (hdr_set (snd rs)) |> <| op := OUSend m |>      (* misbehaving target: second message dropped, no trailer *)
                       | OEof => snd rs <| hdr_set := S (hdr_set (snd rs)) |> <| trl_set := S (trl_set (snd rs)) |> <| op := OUSend m |>
                       | OErr e => snd rs <| hdr_set := S (hdr_set (snd rs)) |> <| trl_set := S (trl_set (snd rs)) |> <| op := OPut (FOut (ESt e)) |>
                       end) (call_out_recv s)
    | OUSend m =>
        map (fun rs => match fst rs with
                       | None => snd rs <| op := OPut FOk |>
                       | Some e => snd rs <| op := OPut (FIn (ESt e)) |>
                       end) (call_in_send m s)
    | OPut f => match oslot s with None => [s <| oslot := Some f |> <| op := ODone |>] | Some _ => [] end
    | OIdle | ODone => []
    end.

  Definition next (s : state) : list (label * state) :=
    env_steps s ++ main_steps s ++ i2o_steps s ++ o2i_steps s.

  Inductive Reach : state -> Prop :=
  | R0 : Reach init
  | RS : forall s l s', Reach s -> In (l, s') (next s) -> Reach s'.

  Definition final (s : state) : bool := match mp s with MRet _ => true | _ => false end.

  (* run a schedule: at each point take the k-th enabled step *)
  Fixpoint run_sched (ks : list nat) (s : state) : option state :=
    match ks with
    | [] => Some s
    | k :: r => match nth_error (next s) k with Some (_, s') => run_sched r s' | None => None end
    end.
End LTS.

(* ---- script projections used by the statements ---- *)
Fixpoint in_msgs (l : list initem) : list Z :=
  match l with IMsg m :: r => m :: in_msgs r | _ => [] end.
Fixpoint out_msgs (l : list (nat * bool * outitem)) : list Z :=
  match l with (_, _, OMsg m) :: r => m :: out_msgs r | _ => [] end.
