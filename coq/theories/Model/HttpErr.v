(* C10: gRPC outcome -> HTTP status and error body (webbridge/webbridge.go writeError / transcodeError, transcoding Bind
   negotiation).  Definitions only. *)
From GB Require Export Base.Val.
Open Scope Z_scope.

(* grpc-gateway runtime.HTTPStatusFromCode (a dependency; its table is re-stated here and compared on all 17 codes every run) *)
Definition http_of_code (c : Z) : Z :=
  match c with
  | 0 => 200 | 1 => 499 | 2 => 500 | 3 => 400 | 4 => 504 | 5 => 404 | 6 => 409 | 7 => 403 | 8 => 429
  | 9 => 400 | 10 => 409 | 11 => 400 | 12 => 501 | 13 => 500 | 14 => 503 | 15 => 500 | 16 => 401
  | _ => 500
  end.

(* the canonical mapping of https://github.com/grpc/grpc/blob/master/doc/statuscodes.md, as a list indexed by code *)
Definition canonical_http : list Z := [200; 499; 500; 400; 504; 404; 409; 403; 429; 400; 409; 400; 501; 500; 503; 500; 401].

Inductive body := BNone | BText (carries_message : bool) | BStatus (code : Z) (carries_message : bool) (details : nat).

(* writeError: what is written for an error [code] (optionally with an explicit HTTP status), depending on whether a byte
   was already written, whether the request is already cancelled, whether the request is bound to a route (a response
   transcoder exists) and whether the Status message can be encoded with the target's descriptors *)
Definition write_error (written canceled bound encodable : bool) (code : Z) (override : option Z) (details : nat)
  : option (Z * body) :=
  if written then None                                   (* nothing is rendered after the first byte *)
  else if canceled then Some (499, BNone)
  else
    let st := match override with Some h => h | None => http_of_code code end in
    if negb bound then Some (st, BText true)
    else if encodable then Some (st, BStatus code true details)
    else Some (st, BText true).                          (* fallback: still the readable message (F10 repaired) *)

(* the code before the F10 repair wrote an empty body in the fallback *)
Definition write_error_old (written canceled bound encodable : bool) (code : Z) (override : option Z) (details : nat)
  : option (Z * body) :=
  if written then None else if canceled then Some (499, BNone)
  else let st := match override with Some h => h | None => http_of_code code end in
       if negb bound then Some (st, BText true)
       else if encodable then Some (st, BStatus code true details) else Some (st, BNone).

(* ---- content negotiation in Bind ---- *)
(* cts: the media types of the Content-Type header lines that parse (mime.ParseMediaType), in order; None = unparsable.
   accepts: Accept header lines, compared literally.  known: media types with a marshaler. *)
Definition pick_request (known : list bytes) (default : bytes) (cts : list (option bytes)) : option bytes :=
  match cts with
  | [] => Some default
  | _ => match filter (fun c => match c with Some m => existsb (bytes_eqb m) known | None => false end) cts with
         | Some m :: _ => Some m
         | _ => None                                        (* 415 Unsupported Media Type *)
         end
  end.
Definition pick_response (known : list bytes) (req : bytes) (accepts : list bytes) : bytes :=
  match filter (fun a => existsb (bytes_eqb a) known) accepts with
  | a :: _ => a
  | [] => req
  end.
Definition s_sse : bytes := [116;101;120;116;47;101;118;101;110;116;45;115;116;114;101;97;109]%N.
Definition wants_sse (known : list bytes) (accepts : list bytes) : bool :=
  match filter (fun a => existsb (bytes_eqb a) known) accepts with
  | [] => existsb (bytes_eqb s_sse) accepts
  | _ => false
  end.

(* ---- val coding: input ( written canceled bound encodable code override-opt details ) ; output ( status bodykind code msg details ) ---- *)
Definition v_body (b : body) : val :=
  match b with
  | BNone => VL [VN 0]
  | BText m => VL [VN 1; vbool m]
  | BStatus c m d => VL [VN 2; VN c; vbool m; vnat d]
  end.
Definition run_http_err (v : val) : val :=
  match write_error (as_bool (nthv 0 v)) (as_bool (nthv 1 v)) (as_bool (nthv 2 v)) (as_bool (nthv 3 v)) (as_Z (nthv 4 v))
                    (match as_L (nthv 5 v) with [h] => Some (as_Z h) | _ => None end) (as_nat (nthv 6 v)) with
  | None => VL []
  | Some (st, b) => VL [VN st; v_body b]
  end.

(* the property on the implementation's observables ( status body ):
   1: wrong HTTP status for the gRPC code / explicit status not honoured
   2: empty body or body without the error message
   3: bound request: not a decodable Status with code/message/details (or text although encodable)
   4: unbound request answered with something else than plain text *)
Definition prop_http_err (input impl : val) : option Z :=
  let written := as_bool (nthv 0 input) in
  let canceled := as_bool (nthv 1 input) in
  let bound := as_bool (nthv 2 input) in
  let encodable := as_bool (nthv 3 input) in
  let code := as_Z (nthv 4 input) in
  let override := match as_L (nthv 5 input) with [h] => Some (as_Z h) | _ => None end in
  if written then (match as_L impl with [] => None | _ => Some 5 end)   (* 5: an error was rendered after the first response byte *)
  else if canceled then None else
  let st := as_Z (nthv 0 impl) in
  let b := nthv 1 impl in
  let kind := as_Z (nthv 0 b) in
  if negb (Z.eqb st (match override with Some h => h | None => nth (Z.to_nat code) canonical_http 500 end)) then Some 1
  else if Z.eqb kind 0 then Some 2
  else if Z.eqb kind 1 then (if negb (as_bool (nthv 1 b)) then Some 2 else if bound && encodable then Some 3 else None)
  else (* status body *)
    if negb bound then Some 4
    else if Z.eqb (as_Z (nthv 1 b)) code && as_bool (nthv 2 b) && Nat.eqb (as_nat (nthv 3 b)) (as_nat (nthv 6 input)) then None else Some 3.
Definition chk_c10_err : val -> val := mk_chk run_http_err prop_http_err.

(* negotiation: input ( content-types(opt list) accepts streaming-kind ) ; output ( 415? request-ct response-ct sse ) *)
Definition s_json : bytes := [97;112;112;108;105;99;97;116;105;111;110;47;106;115;111;110]%N.
Definition run_negotiate (v : val) : val :=
  let cts := map (fun x => match as_L x with [m] => Some (as_S m) | _ => None end) (as_L (nthv 0 v)) in
  let accepts := map as_S (as_L (nthv 1 v)) in
  let cs := as_bool (nthv 2 v) in
  let ss := as_bool (nthv 3 v) in
  match pick_request [s_json] s_json cts with
  | None => VL [VN 415]
  | Some r =>
      if wants_sse [s_json] accepts then
        (if cs || negb ss then VL [VN 3]            (* SSE refused for client-streaming or non-streaming methods *)
         else VL [VN 0; VS r; VS s_sse])
      else VL [VN 0; VS r; VS (pick_response [s_json] r accepts)]
  end.
Definition prop_negotiate (input impl : val) : option Z :=
  if val_eqb impl (run_negotiate input) then None else Some 1.
Definition chk_c10_neg : val -> val := mk_chk run_negotiate prop_negotiate.

(* ---------- the target's allow-listed response header and trailer (part trailers) ----------
   input ( server-streaming messages outcome-code sse ) ; impl ( header-as-header trailer-as-header trailer-as-http-trailer status )
   6: the allow-listed response header is not an HTTP header of the response
   7: the allow-listed trailer is not visible: it must be an HTTP HEADER whenever nothing had been written when the call
      ended (an error or an empty stream before the first message, unary calls), and at least an HTTP trailer otherwise *)
Definition chk_c10_trailers (c : val) : val :=
  let input := nthv 0 c in
  let impl := nthv 1 c in
  let streaming := as_bool (nthv 0 input) in
  let nmsgs := as_Z (nthv 1 input) in
  let hdr := as_bool (nthv 0 impl) in
  let trl_h := as_bool (nthv 1 impl) in
  let trl_t := as_bool (nthv 2 impl) in
  if negb hdr then verdict_propfail 6 (VL [])
  else if (negb streaming || Z.eqb nmsgs 0) && negb trl_h then verdict_propfail 7 (VL [])
  else if negb (trl_h || trl_t) then verdict_propfail 7 (VL [])
  else verdict_ok.
