(* C15: the schedules that are forced on the real resolver (Model/ResolverConcRun.v) are runs of the LTS about which the
   theorems of ResolverConcProofs.v speak: every action is one or two LTS steps. *)
From Coq Require Import List Bool ZArith Lia.
From GB Require Import Model.ResolverConc Model.ResolverConcRun Proofs.ResolverConcProofs.
Import ListNotations.

Lemma reach_trans ra tm s0 s1 s2 : Reach ra tm s0 s1 -> Reach ra tm s1 s2 -> Reach ra tm s0 s2.
Proof. intros R1 R2. induction R2 as [|s s' _ IH ST]; [exact R1 | exact (RS ra tm s0 s s' IH ST)]. Qed.

Lemma hd_error_in {A} (l : list A) x : hd_error l = Some x -> In x l.
Proof. destruct l; [discriminate|]. intros H. injection H as <-. left. reflexivity. Qed.

Lemma caller_step_in s i s' : c_step s i = Some s' -> In s' (caller_steps s).
Proof.
  unfold c_step, caller_steps. intros H. apply in_flat_map. exists i. split.
  - apply in_seq. destruct (nth_error (callers s) i) eqn:E; [|discriminate].
    assert (i < length (callers s))%nat by (apply nth_error_Some; congruence). lia.
  - destruct (nth_error (callers s) i) as [[| |]|]; try discriminate; injection H as <-; left; reflexivity.
Qed.

Lemma do_act_reach s a s' : do_act s a = Some s' -> Reach false false s s'.
Proof.
  destruct a as [|i| |c]; cbn [do_act].
  - unfold p_step. destruct (pc s) eqn:P; try discriminate.
    + destruct (poller_steps false false s) as [|s1 l] eqn:E1; [discriminate|]. intros H. apply hd_error_in in H.
      apply (RS _ _ _ s1); [apply (RS _ _ _ s); [apply R0 | apply SPoll; rewrite E1; left; reflexivity] | apply SPoll; exact H].
    + destruct (closed s); [|discriminate]. intros H. apply hd_error_in in H. apply (RS _ _ _ s); [apply R0 | apply SPoll; exact H].
    + intros H. apply hd_error_in in H. apply (RS _ _ _ s); [apply R0 | apply SPoll; exact H].
  - intros H. apply (RS _ _ _ s); [apply R0 | apply SCall; exact (caller_step_in _ _ _ H)].
  - unfold x_step. destruct (closed s); [discriminate|]. intros H. apply hd_error_in in H. apply (RS _ _ _ s); [apply R0 | apply SClose; exact H].
  - intros H. injection H as <-. apply (RS _ _ _ s); [apply R0 | apply SEnv].
Qed.

Theorem forced_schedules_are_runs : forall l s s', run_acts l s = Some s' -> Reach false false s s'.
Proof.
  induction l as [|a l IH]; intros s s' H; cbn [run_acts] in H; [injection H as <-; apply R0|].
  destruct (do_act s a) as [s1|] eqn:E; [|discriminate].
  exact (reach_trans _ _ _ _ _ (do_act_reach _ _ _ E) (IH _ _ H)).
Qed.

(* hence, for a replayed schedule: a caller that has returned and after whose beginning no poll has started leaves the waiting
   poller's resolve-now branch enabled - the request cannot be lost in any forced schedule either *)
Corollary forced_not_lost n c0 l s i k : run_acts l (init n c0) = Some s ->
  nth_error (callers s) i = Some (CReturned k) -> polls s = k -> pc s = PSelect -> closed s = true /\ p_step s <> None.
Proof.
  intros R C P S. destruct (resolve_now_not_lost false n c0 s i k (forced_schedules_are_runs _ _ _ R) C P S) as [CL (s' & IN & _)].
  split; [exact CL|]. unfold p_step. rewrite S, CL. destruct (poller_steps false false s); [destruct IN | discriminate].
Qed.

(* the schedule the seeded change C15-3 loses a request on is one of the enumerated ones *)
Example enum_has_witness : In [AP; AC 0; AC 0] (map (firstn 3) (enum_acts 40 (init 1 0) 0 false [])).
Proof. vm_compute. auto 10. Qed.
