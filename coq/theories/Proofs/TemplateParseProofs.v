(* C20: the routing parser accepts the token sequence of every well-formed template and returns that template *)
From Coq Require Import Lia NArith List Bool.
From GB Require Import Model.Template Model.TemplateRun Proofs.MDFilterProofs Proofs.TemplateProofs.
(* tok_flat, good_lit, good_flat, good_seg, no_colon, verb_ok, good_template: Model/TemplateRun.v (the check evaluates them) *)
Import ListNotations.
Open Scope N_scope.

Definition tk (c : N) : bytes := [c].
Fixpoint toks_inner (inner : list seg) : list bytes :=
  match inner with [] => [] | s :: r => match r with [] => [tok_flat s] | _ => tok_flat s :: tk c_slash :: toks_inner r end end.
Fixpoint toks_path (p : list bytes) : list bytes :=
  match p with [] => [] | i :: r => match r with [] => [i] | _ => i :: tk c_dot :: toks_path r end end.
Definition toks_seg (s : seg) : list bytes :=
  match s with SVar p inner => tk c_lbrace :: toks_path p ++ tk c_eq :: toks_inner inner ++ [tk c_rbrace] | _ => [tok_flat s] end.
Fixpoint toks_segs (l : list seg) : list bytes :=
  match l with [] => [] | s :: r => match r with [] => toks_seg s | _ => toks_seg s ++ tk c_slash :: toks_segs r end end.

Definition not_tok (c : N) (rest : list bytes) : Prop := match rest with t :: _ => tok_is c t = false | [] => True end.

Lemma tok_is_tk c d : tok_is c (tk d) = (d =? c).
Proof. unfold tok_is, tk, bytes_eqb. cbn. destruct (d =? c); reflexivity. Qed.
Lemma punct_strict c t : punct false c t = tok_is c t.
Proof. unfold punct. cbn [andb]. apply orb_false_r. Qed.
Lemma punct_s_strict s t : punct_s false s t = bytes_eqb t s.
Proof. unfold punct_s. cbn [andb]. apply orb_false_r. Qed.

(* one flat segment *)
Lemma flat_segment inner s rest : good_flat s = true -> gw_segment false inner (tok_flat s :: rest) = Some (s, rest).
Proof.
  intros G. unfold gw_segment. rewrite punct_strict, punct_s_strict. destruct s as [| |l|p i]; try discriminate; cbn [tok_flat].
  - reflexivity.
  - reflexivity.
  - cbn [good_flat] in G. unfold good_lit in G. apply andb_true_iff in G. destruct G as [G G3]. apply andb_true_iff in G. destruct G as [G G2].
    apply andb_true_iff in G. destruct G as [_ G1].
    apply negb_true_iff in G2, G3. unfold tok_is. rewrite G2, G3, G1. reflexivity.
Qed.

Lemma toks_inner_cons s r : r <> [] -> toks_inner (s :: r) = tok_flat s :: tk c_slash :: toks_inner r.
Proof. destruct r; [contradiction|reflexivity]. Qed.

Lemma after_segment f s r rest' :
  gw_segment false (gw_segments false f) r = Some (s, rest') ->
  gw_segments false (S f) r =
    match rest' with
    | t :: r' => if tok_is c_slash t then match gw_segments false f r' with Some (more, r'') => Some (s :: more, r'') | None => None end
                 else Some ([s], rest')
    | [] => Some ([s], rest')
    end.
Proof. intros H. cbn [gw_segments]. rewrite H. destruct rest' as [|t r']; [reflexivity|]. rewrite punct_strict. reflexivity. Qed.

(* the inner segments of a variable *)
Lemma inner_parse : forall inner f rest, forallb good_flat inner = true -> inner <> [] -> not_tok c_slash rest ->
  (length inner <= f)%nat -> gw_segments false f (toks_inner inner ++ rest) = Some (inner, rest).
Proof.
  induction inner as [|s inner IH]; intros f rest G NE NS L; [contradiction|].
  cbn [forallb] in G. apply andb_true_iff in G. destruct G as [Gs G].
  destruct f as [|f]; [cbn in L; lia|].
  destruct inner as [|s2 inner].
  - cbn [toks_inner app]. rewrite (after_segment f s _ rest (flat_segment _ s rest Gs)).
    destruct rest as [|t r]; [reflexivity|]. cbn [not_tok] in NS. rewrite NS. reflexivity.
  - rewrite toks_inner_cons by discriminate. cbn [app].
    rewrite (after_segment f s _ _ (flat_segment _ s _ Gs)). rewrite tok_is_tk. change (c_slash =? c_slash) with true. cbv iota.
    rewrite (IH f rest G ltac:(discriminate) NS ltac:(cbn [length] in *; lia)). reflexivity.
Qed.

(* field paths *)
Lemma fpr_step f i r acc : is_ident i = true ->
  gw_field_path_rest (S f) (tk c_dot :: i :: r) acc = gw_field_path_rest f r (acc ++ [i]).
Proof. intros Gi. cbn [gw_field_path_rest]. rewrite tok_is_tk. change (c_dot =? c_dot) with true. cbv iota. rewrite Gi. reflexivity. Qed.
Lemma fpr_stop f rest acc : not_tok c_dot rest -> gw_field_path_rest (S f) rest acc = Some (acc, rest).
Proof. intros ND. cbn [gw_field_path_rest]. destruct rest as [|t r]; [reflexivity|]. cbn [not_tok] in ND. rewrite ND. reflexivity. Qed.
Lemma field_path_rest : forall p f acc rest, forallb is_ident p = true -> not_tok c_dot rest -> (length p <= f)%nat ->
  gw_field_path_rest (S f) (flat_map (fun i => [tk c_dot; i]) p ++ rest) acc = Some (acc ++ p, rest).
Proof.
  induction p as [|i p IH]; intros f acc rest G ND L.
  - cbn [flat_map app]. rewrite app_nil_r. apply fpr_stop; exact ND.
  - cbn [forallb] in G. apply andb_true_iff in G. destruct G as [Gi G]. cbn [length] in L. destruct f as [|f]; [lia|].
    cbn [flat_map app]. rewrite (fpr_step _ i _ acc Gi).
    rewrite (IH f (acc ++ [i]) rest G ND ltac:(lia)). rewrite <- app_assoc. reflexivity.
Qed.
Lemma toks_path_shape i p : toks_path (i :: p) = i :: flat_map (fun j => [tk c_dot; j]) p.
Proof.
  revert i; induction p as [|j p IH]; intros i; [reflexivity|].
  change (toks_path (i :: j :: p)) with (i :: tk c_dot :: toks_path (j :: p)). rewrite IH. reflexivity.
Qed.
Lemma field_path_parse p rest : p <> [] -> forallb is_ident p = true -> not_tok c_dot rest ->
  gw_field_path (toks_path p ++ rest) = Some (p, rest).
Proof.
  intros NE G ND. destruct p as [|i p]; [contradiction|]. cbn [forallb] in G. apply andb_true_iff in G. destruct G as [Gi G].
  rewrite toks_path_shape. cbn [app gw_field_path]. rewrite Gi.
  pose proof (field_path_rest p (length (flat_map (fun j => [tk c_dot; j]) p ++ rest)) [i] rest G ND) as H.
  cbn [length]. apply H. rewrite app_length. clear. induction p; cbn; lia.
Qed.

(* one segment of any kind *)
Lemma segment_parse f s rest : good_seg s = true ->
  (match s with SVar _ inner => (length inner <= f)%nat | _ => True end) ->
  gw_segment false (gw_segments false f) (toks_seg s ++ rest) = Some (s, rest).
Proof.
  intros G L. destruct s as [| |l|p inner].
  - exact (flat_segment _ SWild rest G).
  - exact (flat_segment _ SDeep rest G).
  - exact (flat_segment _ (SLit l) rest G).
  - cbn [good_seg] in G. apply andb_true_iff in G. destruct G as [G Gi]. apply andb_true_iff in G. destruct G as [G Ne].
    apply andb_true_iff in G. destruct G as [Np Gp].
    assert (p <> []) as NEp by (destruct p; [discriminate|discriminate]).
    assert (inner <> []) as NEi by (destruct inner; [discriminate|discriminate]).
    cbn [toks_seg app]. unfold gw_segment. rewrite punct_strict, punct_s_strict, tok_is_tk.
    change (c_lbrace =? c_star) with false. change (bytes_eqb (tk c_lbrace) s_deep) with false. change (is_literal (tk c_lbrace)) with false. cbv iota.
    rewrite punct_strict, tok_is_tk. change (c_lbrace =? c_lbrace) with true. cbv iota.
    rewrite <- !app_assoc. cbn [app].
    rewrite (field_path_parse p _ NEp Gp). 2:{ cbn [not_tok]. rewrite tok_is_tk. reflexivity. }
    cbv beta iota. rewrite punct_strict, tok_is_tk. change (c_eq =? c_eq) with true. cbv beta iota.
    rewrite <- app_assoc. cbn [app]. rewrite (inner_parse inner f _ Gi NEi). 2:{ cbn [not_tok]. rewrite tok_is_tk. reflexivity. } 2:{ exact L. }
    cbv beta iota. rewrite punct_strict, tok_is_tk. reflexivity.
Qed.

Definition inner_len (s : seg) : nat := match s with SVar _ inner => length inner | _ => O end.

(* the whole segment list *)
Theorem segments_parse : forall segs f rest, forallb good_seg segs = true -> segs <> [] -> not_tok c_slash rest ->
  (length segs + fold_right Nat.max O (map inner_len segs) <= f)%nat ->
  gw_segments false f (toks_segs segs ++ rest) = Some (segs, rest).
Proof.
  induction segs as [|s segs IH]; intros f rest G NE NS L; [contradiction|].
  cbn [forallb] in G. apply andb_true_iff in G. destruct G as [Gs G]. cbn [length map fold_right] in L.
  destruct f as [|f]; [lia|].
  assert (Ls : match s with SVar _ inner => (length inner <= f)%nat | _ => True end).
  { destruct s; try exact I. cbn [inner_len] in L. lia. }
  destruct segs as [|s2 segs].
  - cbn [toks_segs]. rewrite (after_segment f s _ rest (segment_parse f s rest Gs Ls)).
    destruct rest as [|t r]; [reflexivity|]. cbn [not_tok] in NS. rewrite NS. reflexivity.
  - change (toks_segs (s :: s2 :: segs)) with (toks_seg s ++ tk c_slash :: toks_segs (s2 :: segs)). rewrite <- app_assoc. cbn [app].
    rewrite (after_segment f s _ _ (segment_parse f s _ Gs Ls)). rewrite tok_is_tk. change (c_slash =? c_slash) with true. cbv iota.
    rewrite (IH f rest G ltac:(discriminate) NS). reflexivity.
    cbn [length map fold_right] in *. lia.
Qed.

(* ================= the tokenizer ================= *)
Lemma scan_run st t : forall rest cur, forallb (fun c => negb (is_delim st c)) t = true ->
  scan st (t ++ rest) cur = scan st rest (rev t ++ cur).
Proof.
  induction t as [|c t IH]; intros rest cur H; [reflexivity|].
  cbn [forallb] in H. apply andb_true_iff in H. destruct H as [Hc H]. apply negb_true_iff in Hc.
  cbn [app scan]. rewrite Hc. rewrite (IH rest (c :: cur) H). cbn [rev]. rewrite <- app_assoc. reflexivity.
Qed.
Lemma scan_delim st d rest cur : is_delim st d = true ->
  scan st (d :: rest) cur = (match cur with [] => [] | _ => [rev cur] end) ++ [d] :: scan (next_state st d) rest [].
Proof. intros H. cbn [scan]. rewrite H. reflexivity. Qed.

(* a non-empty token followed by a delimiter *)
Lemma scan_token st t d rest : t <> [] -> forallb (fun c => negb (is_delim st c)) t = true -> is_delim st d = true ->
  scan st (t ++ d :: rest) [] = t :: [d] :: scan (next_state st d) rest [].
Proof.
  intros NE H D. rewrite (scan_run st t _ [] H). rewrite app_nil_r. rewrite (scan_delim st d rest _ D).
  rewrite rev_involutive. destruct (rev t) eqn:R; [|reflexivity].
  exfalso. apply NE. rewrite <- (rev_involutive t), R. reflexivity.
Qed.
(* a non-empty token at the very end *)
Lemma scan_last st t : t <> [] -> forallb (fun c => negb (is_delim st c)) t = true -> scan st t [] = [t].
Proof.
  intros NE H. rewrite <- (app_nil_r t) at 1. rewrite (scan_run st t [] [] H). rewrite app_nil_r. cbn [scan].
  rewrite rev_involutive. destruct (rev t) eqn:R; [|reflexivity]. exfalso. apply NE. rewrite <- (rev_involutive t), R. reflexivity.
Qed.

(* ---- character classes ---- *)
Definition pc_char (c : N) : bool := is_pchar_plain c || (c =? c_pct) || is_hex c.
Lemma pchars_chars : forall fuel l, pchars_f fuel l = true -> forallb pc_char l = true.
Proof.
  induction fuel as [|f IH]; intros l H; [destruct l; [reflexivity|discriminate]|].
  destruct l as [|c r]; [reflexivity|]. cbn [pchars_f] in H.
  destruct (c =? c_pct) eqn:E.
  - destruct r as [|h1 [|h2 r']]; try discriminate. apply andb_true_iff in H. destruct H as [H H3]. apply andb_true_iff in H. destruct H as [H1 H2].
    assert (P0 : pc_char c = true) by (unfold pc_char; rewrite E, orb_true_r; reflexivity).
    assert (P1 : pc_char h1 = true) by (unfold pc_char; rewrite H1; apply orb_true_r).
    assert (P2 : pc_char h2 = true) by (unfold pc_char; rewrite H2; apply orb_true_r).
    cbn [forallb]. rewrite !andb_true_iff. repeat split; auto.
  - apply andb_true_iff in H. destruct H as [H1 H2].
    assert (P0 : pc_char c = true) by (unfold pc_char; rewrite H1; reflexivity).
    cbn [forallb]. rewrite andb_true_iff. split; auto.
Qed.
Lemma pc_char_not c d : pc_char d = false -> pc_char c = true -> (c =? d) = false.
Proof. intros Hd Hc. destruct (N.eqb_spec c d) as [->|]; [rewrite Hd in Hc; discriminate|reflexivity]. Qed.
Lemma pc_slash : pc_char c_slash = false. Proof. reflexivity. Qed.
Lemma pc_lbrace : pc_char c_lbrace = false. Proof. reflexivity. Qed.
Lemma pc_rbrace : pc_char c_rbrace = false. Proof. reflexivity. Qed.
Lemma pc_nul : pc_char 0 = false. Proof. reflexivity. Qed.

Lemma literal_nodelim l st : is_literal l = true -> (st = 0 \/ st = 2)%nat -> forallb (fun c => negb (is_delim st c)) l = true.
Proof.
  intros H S. apply pchars_chars in H. apply forallb_forall. intros c Hin. rewrite forallb_forall in H. specialize (H c Hin).
  apply negb_true_iff. destruct S as [-> | ->]; cbn [is_delim].
  - rewrite (pc_char_not c _ pc_slash H), (pc_char_not c _ pc_lbrace H). reflexivity.
  - rewrite (pc_char_not c _ pc_slash H), (pc_char_not c _ pc_rbrace H). reflexivity.
Qed.

Definition id_char (c : N) : bool := is_alpha c || is_digit c || (c =? 95).
Lemma ident_chars i : is_ident i = true -> forallb id_char i = true /\ i <> [].
Proof.
  unfold is_ident. destruct i as [|c r]; [discriminate|]. intros H. apply andb_true_iff in H. destruct H as [H1 H2]. split; [|discriminate].
  cbn [forallb]. unfold id_char at 1. apply orb_true_iff in H1. destruct H1 as [H1|H1]; rewrite H1, ?orb_true_r; cbn [orb andb]; exact H2.
Qed.
Lemma id_char_not c d : id_char d = false -> id_char c = true -> (c =? d) = false.
Proof. intros Hd Hc. destruct (N.eqb_spec c d) as [->|]; [rewrite Hd in Hc; discriminate|reflexivity]. Qed.
Lemma ident_nodelim i : is_ident i = true -> forallb (fun c => negb (is_delim 1 c)) i = true.
Proof.
  intros H. destruct (ident_chars i H) as [H' _]. apply forallb_forall. intros c Hin. rewrite forallb_forall in H'. specialize (H' c Hin).
  apply negb_true_iff. cbn [is_delim].
  rewrite (id_char_not c c_dot eq_refl H'), (id_char_not c c_eq eq_refl H'), (id_char_not c c_rbrace eq_refl H'). reflexivity.
Qed.

(* flat tokens: non-empty, no delimiters of the states 0 and 2 *)
Lemma flat_token s st : good_flat s = true -> (st = 0 \/ st = 2)%nat ->
  tok_flat s <> [] /\ forallb (fun c => negb (is_delim st c)) (tok_flat s) = true.
Proof.
  intros G S. destruct s as [| |l|p i]; try discriminate; cbn [tok_flat].
  - split; [discriminate|]. destruct S as [-> | ->]; reflexivity.
  - split; [discriminate|]. destruct S as [-> | ->]; reflexivity.
  - cbn [good_flat] in G. unfold good_lit in G. apply andb_true_iff in G. destruct G as [G _]. apply andb_true_iff in G. destruct G as [G _].
    apply andb_true_iff in G. destruct G as [NE G].
    split; [|exact (literal_nodelim l st G S)]. intros ->. discriminate.
Qed.

(* ---- text of the pieces ---- *)
Definition text_inner (inner : list seg) : bytes := join_with c_slash (map tok_flat inner).
Definition text_path (p : list bytes) : bytes := join_with c_dot p.

Lemma join_cons sep a b r : join_with sep (a :: b :: r) = a ++ sep :: join_with sep (b :: r).
Proof. reflexivity. Qed.

(* inside a variable, after the '=': tokens of the inner segments, then the closing brace switches back to state 0 *)
Lemma scan_inner : forall inner rest, forallb good_flat inner = true -> inner <> [] ->
  scan 2 (text_inner inner ++ c_rbrace :: rest) [] = toks_inner inner ++ tk c_rbrace :: scan 0 rest [].
Proof.
  induction inner as [|s inner IH]; intros rest G NE; [contradiction|].
  cbn [forallb] in G. apply andb_true_iff in G. destruct G as [Gs G].
  destruct (flat_token s 2 Gs (or_intror eq_refl)) as [Tne Tnd].
  destruct inner as [|s2 inner].
  - unfold text_inner. cbn [map join_with flat_map toks_inner app]. rewrite app_nil_r.
    rewrite (scan_token 2 (tok_flat s) c_rbrace rest Tne Tnd eq_refl). reflexivity.
  - unfold text_inner. cbn [map]. rewrite join_cons. rewrite <- app_assoc. cbn [app].
    rewrite (scan_token 2 (tok_flat s) c_slash _ Tne Tnd eq_refl). change (next_state 2 c_slash) with 2%nat.
    rewrite toks_inner_cons by discriminate. cbn [app]. f_equal. f_equal.
    apply (IH rest G). discriminate.
Qed.

(* the field path, after the '{': identifiers separated by dots, then '=' switches to state 2 *)
Lemma scan_path : forall p rest, forallb is_ident p = true -> p <> [] ->
  scan 1 (text_path p ++ c_eq :: rest) [] = toks_path p ++ tk c_eq :: scan 2 rest [].
Proof.
  induction p as [|i p IH]; intros rest G NE; [contradiction|].
  cbn [forallb] in G. apply andb_true_iff in G. destruct G as [Gi G].
  destruct (ident_chars i Gi) as [_ Ine]. pose proof (ident_nodelim i Gi) as Ind.
  destruct p as [|j p].
  - unfold text_path. cbn [join_with flat_map toks_path app]. rewrite app_nil_r.
    rewrite (scan_token 1 i c_eq rest Ine Ind eq_refl). reflexivity.
  - unfold text_path. rewrite join_cons. rewrite <- app_assoc. cbn [app].
    rewrite (scan_token 1 i c_dot _ Ine Ind eq_refl). change (next_state 1 c_dot) with 1%nat.
    change (toks_path (i :: j :: p)) with (i :: tk c_dot :: toks_path (j :: p)). cbn [app]. f_equal. f_equal.
    apply (IH rest G). discriminate.
Qed.

Definition text_seg (s : seg) : bytes :=
  match s with SVar p inner => c_lbrace :: text_path p ++ c_eq :: text_inner inner ++ [c_rbrace] | _ => tok_flat s end.

(* a variable at the top level (state 0, nothing pending) *)
Lemma scan_var p inner rest : good_seg (SVar p inner) = true ->
  scan 0 (text_seg (SVar p inner) ++ rest) [] = toks_seg (SVar p inner) ++ scan 0 rest [].
Proof.
  intros G. cbn [good_seg] in G. apply andb_true_iff in G. destruct G as [G Gi]. apply andb_true_iff in G. destruct G as [G Ne].
  apply andb_true_iff in G. destruct G as [Np Gp].
  assert (p <> []) as NEp by (destruct p; discriminate). assert (inner <> []) as NEi by (destruct inner; discriminate).
  cbn [text_seg toks_seg app]. rewrite (scan_delim 0 c_lbrace _ [] eq_refl). cbn [app]. change (next_state 0 c_lbrace) with 1%nat.
  f_equal. rewrite <- !app_assoc. cbn [app]. rewrite (scan_path p _ Gp NEp). rewrite <- app_assoc. cbn [app]. f_equal. f_equal.
  rewrite (scan_inner inner rest Gi NEi). rewrite <- app_assoc. reflexivity.
Qed.

(* the whole segment list followed by a suffix that is part of the last token (":verb" or nothing) *)
Definition text_segs (segs : list seg) : bytes := join_with c_slash (map text_seg segs).
Fixpoint toks_suffix (segs : list seg) (suffix : bytes) : list bytes :=
  match segs with
  | [] => []
  | s :: r =>
      match r with
      | [] => match s with
              | SVar _ _ => toks_seg s ++ match suffix with [] => [] | _ => [suffix] end
              | _ => [tok_flat s ++ suffix]
              end
      | _ => toks_seg s ++ tk c_slash :: toks_suffix r suffix
      end
  end.

Lemma scan_segs : forall segs suffix, forallb good_seg segs = true -> segs <> [] ->
  forallb (fun c => negb (is_delim 0 c)) suffix = true ->
  scan 0 (text_segs segs ++ suffix) [] = toks_suffix segs suffix.
Proof.
  induction segs as [|s segs IH]; intros suffix G NE SF; [contradiction|].
  cbn [forallb] in G. apply andb_true_iff in G. destruct G as [Gs G].
  destruct segs as [|s2 segs].
  - unfold text_segs. cbn [map join_with flat_map toks_suffix]. rewrite app_nil_r.
    destruct s as [| |l|p inner].
    + apply scan_last; [discriminate|]. cbn [text_seg tok_flat app forallb]. exact SF.
    + apply scan_last; [discriminate|]. cbn [text_seg tok_flat app forallb]. exact SF.
    + destruct (flat_token (SLit l) 0 Gs (or_introl eq_refl)) as [Tne Tnd]. cbn [text_seg tok_flat] in *.
      apply scan_last; [destruct l; [contradiction|discriminate]|]. rewrite forallb_app, Tnd, SF. reflexivity.
    + rewrite (scan_var p inner suffix Gs). f_equal. destruct suffix as [|c sf]; [reflexivity|].
      apply scan_last; [discriminate|exact SF].
  - unfold text_segs. cbn [map]. rewrite join_cons. rewrite <- app_assoc. cbn [app].
    change (toks_suffix (s :: s2 :: segs) suffix) with (toks_seg s ++ tk c_slash :: toks_suffix (s2 :: segs) suffix).
    destruct s as [| |l|p inner].
    + rewrite (scan_token 0 (tok_flat SWild) c_slash _ ltac:(discriminate) eq_refl eq_refl). cbn [toks_seg app]. f_equal. f_equal.
      apply (IH suffix G ltac:(discriminate) SF).
    + rewrite (scan_token 0 (tok_flat SDeep) c_slash _ ltac:(discriminate) eq_refl eq_refl). cbn [toks_seg app]. f_equal. f_equal.
      apply (IH suffix G ltac:(discriminate) SF).
    + destruct (flat_token (SLit l) 0 Gs (or_introl eq_refl)) as [Tne Tnd].
      rewrite (scan_token 0 (tok_flat (SLit l)) c_slash _ Tne Tnd eq_refl). cbn [toks_seg app]. f_equal. f_equal.
      apply (IH suffix G ltac:(discriminate) SF).
    + rewrite (scan_var p inner _ Gs). f_equal. rewrite (scan_delim 0 c_slash _ [] eq_refl). cbn [app]. f_equal.
      apply (IH suffix G ltac:(discriminate) SF).
Qed.

(* ================= verb extraction ================= *)
Lemma no_colon_index t : forallb (fun c => negb (c =? c_colon)) t = true ->
  forall i acc, index_of c_colon t i = None /\ last_index_of c_colon t i acc = acc.
Proof.
  induction t as [|c t IH]; intros H i acc; [split; reflexivity|].
  cbn [forallb] in H. apply andb_true_iff in H. destruct H as [Hc H]. apply negb_true_iff in Hc.
  cbn [index_of last_index_of]. rewrite Hc. exact (IH H (S i) acc).
Qed.
Lemma last_index_split t0 verb : forallb (fun c => negb (c =? c_colon)) verb = true ->
  forall i acc, last_index_of c_colon (t0 ++ c_colon :: verb) i acc = Some (i + length t0)%nat.
Proof.
  intros NV. induction t0 as [|c t0 IH]; intros i acc.
  - cbn [app last_index_of length]. change (c_colon =? c_colon) with true. cbv iota.
    rewrite (proj2 (no_colon_index verb NV (S i) (Some i))). f_equal. lia.
  - cbn [app last_index_of length]. rewrite IH. f_equal. lia.
Qed.

Definition is_flat_seg (s : seg) : bool := match s with SVar _ _ => false | _ => true end.

Lemma suffix_decomp : forall segs suffix, segs <> [] ->
  (exists pre s, is_flat_seg s = true /\ last segs SWild = s /\ toks_segs segs = pre ++ [tok_flat s] /\
                 toks_suffix segs suffix = pre ++ [tok_flat s ++ suffix] /\ (pre = [] \/ exists pre', pre = pre' ++ [tk c_slash]))
  \/ (exists p inner pre, last segs SWild = SVar p inner /\ toks_segs segs = pre ++ [tk c_rbrace] /\
                 toks_suffix segs suffix = toks_segs segs ++ match suffix with [] => [] | _ => [suffix] end).
Proof.
  induction segs as [|s segs IH]; intros suffix NE; [contradiction|].
  destruct segs as [|s2 segs].
  - destruct s as [| |l|p inner].
    + left. exists [], SWild. repeat split; auto.
    + left. exists [], SDeep. repeat split; auto.
    + left. exists [], (SLit l). repeat split; auto.
    + right. exists p, inner, (tk c_lbrace :: toks_path p ++ tk c_eq :: toks_inner inner). repeat split; auto.
      cbn [toks_segs toks_seg]. rewrite !app_comm_cons. rewrite <- app_assoc. cbn [app]. reflexivity.
  - destruct (IH suffix ltac:(discriminate)) as [(pre & s' & F & L & T1 & T2 & P)|(p & inner & pre & L & T1 & T2)].
    + left. exists (toks_seg s ++ tk c_slash :: pre), s'. split; [exact F|]. split; [exact L|].
      change (toks_segs (s :: s2 :: segs)) with (toks_seg s ++ tk c_slash :: toks_segs (s2 :: segs)).
      change (toks_suffix (s :: s2 :: segs) suffix) with (toks_seg s ++ tk c_slash :: toks_suffix (s2 :: segs) suffix).
      rewrite T1, T2. repeat (rewrite <- app_assoc; cbn [app]). repeat split; auto.
      right. destruct P as [->|[pre' ->]].
      * exists (toks_seg s). reflexivity.
      * exists (toks_seg s ++ tk c_slash :: pre'). rewrite <- app_assoc. reflexivity.
    + right. exists p, inner, (toks_seg s ++ tk c_slash :: pre). split; [exact L|].
      change (toks_segs (s :: s2 :: segs)) with (toks_seg s ++ tk c_slash :: toks_segs (s2 :: segs)).
      change (toks_suffix (s :: s2 :: segs) suffix) with (toks_seg s ++ tk c_slash :: toks_suffix (s2 :: segs) suffix).
      rewrite T2, T1. repeat (rewrite <- app_assoc; cbn [app]). split; reflexivity.
Qed.

Lemma rev_pre_slash pre' x : match rev ((pre' ++ [tk c_slash]) ++ [x]) with _ :: p :: _ => bytes_eqb p [c_rbrace] | _ => false end = false.
Proof. rewrite rev_unit, rev_unit. reflexivity. Qed.

Definition vsuffix (verb : bytes) : bytes := match verb with [] => [] | _ => c_colon :: verb end.

(* the conditions under which the text reads back as (segs, verb) *)

Lemma removelast_unit {A} (l : list A) x : removelast (l ++ [x]) = l.
Proof. apply removelast_last. Qed.
Lemma last_unit {A} (l : list A) x d : last (l ++ [x]) d = x.
Proof. apply last_last. Qed.

Lemma scan_nonempty segs suffix : segs <> [] -> toks_suffix segs suffix <> [].
Proof.
  intros NE. destruct (suffix_decomp segs suffix NE) as [(pre & s' & _ & _ & _ & T2 & _)|(p & inner & pre & _ & T1 & T2)].
  - rewrite T2. destruct pre; discriminate.
  - rewrite T2, T1. destruct pre; discriminate.
Qed.

Lemma skipn_past {A} (t0 : list A) c v : skipn (S (length t0)) (t0 ++ c :: v) = v.
Proof. induction t0 as [|a t0 IH]; [reflexivity|exact IH]. Qed.

Lemma tokenize_text segs verb : segs <> [] -> forallb good_seg segs = true -> is_literal verb = true -> verb_ok segs verb = true ->
  gw_tokenize (text_segs segs ++ vsuffix verb) = (toks_segs segs ++ [eof], verb).
Proof.
  intros NE G LV VO.
  assert (SF : forallb (fun c => negb (is_delim 0 c)) (vsuffix verb) = true).
  { destruct verb as [|v0 v]; [reflexivity|]. unfold vsuffix.
    change (forallb (fun c => negb (is_delim 0 c)) (c_colon :: v0 :: v)) with (negb (is_delim 0 c_colon) && forallb (fun c => negb (is_delim 0 c)) (v0 :: v)).
    rewrite (literal_nodelim _ 0%nat LV (or_introl eq_refl)). reflexivity. }
  pose proof (scan_segs segs (vsuffix verb) G NE SF) as SC.
  unfold gw_tokenize. remember (text_segs segs ++ vsuffix verb) as path eqn:EP. destruct path as [|c0 path'].
  { exfalso. cbn [scan] in SC. symmetry in SC. exact (scan_nonempty segs _ NE SC). }
  rewrite SC. clear SC EP c0 path'.
  destruct (suffix_decomp segs (vsuffix verb) NE) as [(pre & s' & F & L & T1 & T2 & P)|(p & inner & pre & L & T1 & T2)].
  - (* the last segment is flat: the verb is part of its token *)
    rewrite T2, T1. rewrite last_unit, removelast_unit.
    assert (AV : match rev (pre ++ [tok_flat s' ++ vsuffix verb]) with _ :: q :: _ => bytes_eqb q [c_rbrace] | _ => false end = false).
    { destruct P as [->|[pre' ->]]; [reflexivity|apply rev_pre_slash]. }
    rewrite AV. unfold verb_ok in VO. rewrite L in VO.
    destruct verb as [|v0 v].
    + cbn [vsuffix]. rewrite app_nil_r. assert (NC : no_colon (tok_flat s') = true) by (destruct s'; try discriminate; exact VO).
      rewrite (proj2 (no_colon_index _ NC 0%nat None)). reflexivity.
    + assert (NC : no_colon (v0 :: v) = true) by (destruct s'; try discriminate; exact VO).
      cbn [vsuffix]. rewrite (last_index_split (tok_flat s') (v0 :: v) NC 0%nat None). cbn [Nat.add].
      assert (TL : (0 < length (tok_flat s'))%nat).
      { destruct s' as [| |l|]; try discriminate; cbn; try lia.
        assert (In (SLit l) segs) as Hin by (rewrite <- L; clear -NE; induction segs as [|a [|b r] IH]; [contradiction|left; reflexivity|right; apply IH; discriminate]).
        rewrite forallb_forall in G. specialize (G _ Hin). cbn in G. unfold good_lit in G. destruct l; [discriminate|cbn; lia]. }
      destruct (length (tok_flat s')) as [|k] eqn:EL; [lia|].
      rewrite <- EL. rewrite firstn_app, firstn_all, Nat.sub_diag. cbn [firstn]. rewrite app_nil_r.
      rewrite skipn_past. rewrite <- app_assoc. reflexivity.
  - (* the last segment is a variable: the verb is a token of its own *)
    rewrite T2, T1.
    destruct verb as [|v0 v].
    + cbn [vsuffix]. rewrite app_nil_r. rewrite last_unit.
      assert (NC : no_colon (tk c_rbrace) = true) by reflexivity.
      destruct (match rev (pre ++ [tk c_rbrace]) with _ :: q :: _ => bytes_eqb q [c_rbrace] | _ => false end);
        [rewrite (proj1 (no_colon_index _ NC 0%nat None))|rewrite (proj2 (no_colon_index _ NC 0%nat None))]; reflexivity.
    + cbn [vsuffix]. rewrite last_unit, removelast_unit. rewrite rev_unit, rev_unit. cbn [bytes_eqb]. change (bytes_eqb (tk c_rbrace) [c_rbrace]) with true. cbv iota.
      cbn [index_of]. change (c_colon =? c_colon) with true. cbv iota. cbn [skipn]. reflexivity.
Qed.

(* ================= the theorem ================= *)
Lemma inner_render inner : forallb good_flat inner = true -> map render_seg inner = map tok_flat inner.
Proof.
  induction inner as [|s inner IH]; intros G; [reflexivity|]. cbn [forallb] in G. apply andb_true_iff in G. destruct G as [Gs G].
  cbn [map]. rewrite (IH G). destruct s; try discriminate; reflexivity.
Qed.
Lemma seg_render s : good_seg s = true -> render_seg s = text_seg s.
Proof.
  destruct s as [| |l|p inner]; intros G; try reflexivity.
  cbn [good_seg] in G. apply andb_true_iff in G. destruct G as [_ Gi].
  cbn [render_seg text_seg]. unfold text_inner, text_path. rewrite (inner_render inner Gi). reflexivity.
Qed.
Lemma segs_render segs : forallb good_seg segs = true -> map render_seg segs = map text_seg segs.
Proof.
  induction segs as [|s segs IH]; intros G; [reflexivity|]. cbn [forallb] in G. apply andb_true_iff in G. destruct G as [Gs G].
  cbn [map]. rewrite (IH G), (seg_render s Gs). reflexivity.
Qed.

(* no NUL anywhere in the text *)
Definition nz (t : bytes) : bool := forallb (fun c => negb (c =? 0)) t.
Lemma literal_nz l : is_literal l = true -> nz l = true.
Proof.
  intros H. apply pchars_chars in H. apply forallb_forall. intros c Hin. rewrite forallb_forall in H. specialize (H c Hin).
  apply negb_true_iff. exact (pc_char_not c 0 pc_nul H).
Qed.
Lemma ident_nz i : is_ident i = true -> nz i = true.
Proof.
  intros H. destruct (ident_chars i H) as [H' _]. apply forallb_forall. intros c Hin. rewrite forallb_forall in H'. specialize (H' c Hin).
  apply negb_true_iff. exact (id_char_not c 0 eq_refl H').
Qed.
Lemma nz_app a b : nz (a ++ b) = nz a && nz b. Proof. apply forallb_app. Qed.
Lemma nz_join sep l : (sep =? 0) = false -> forallb nz l = true -> nz (join_with sep l) = true.
Proof.
  intros Hs H. destruct l as [|a r]; [reflexivity|]. cbn [forallb] in H. apply andb_true_iff in H. destruct H as [Ha H].
  cbn [join_with]. rewrite nz_app, Ha. cbn [andb]. induction r as [|b r IH]; [reflexivity|].
  cbn [forallb] in H. apply andb_true_iff in H. destruct H as [Hb H]. cbn [flat_map]. rewrite nz_app. cbn [nz forallb]. rewrite Hs. cbn [negb andb].
  fold (nz b). rewrite Hb. exact (IH H).
Qed.
Lemma flat_nz s : good_flat s = true -> nz (tok_flat s) = true.
Proof.
  destruct s as [| |l|]; intros G; try discriminate; try reflexivity.
  cbn [good_flat] in G. unfold good_lit in G. apply andb_true_iff in G. destruct G as [G _]. apply andb_true_iff in G. destruct G as [G _].
  apply andb_true_iff in G. destruct G as [_ G]. exact (literal_nz l G).
Qed.
Lemma seg_nz s : good_seg s = true -> nz (text_seg s) = true.
Proof.
  destruct s as [| |l|p inner]; intros G; try exact (flat_nz _ G).
  cbn [good_seg] in G. apply andb_true_iff in G. destruct G as [G Gi]. apply andb_true_iff in G. destruct G as [G _]. apply andb_true_iff in G. destruct G as [_ Gp].
  cbn [text_seg]. change (nz (c_lbrace :: ?x)) with (nz x). cbn [nz forallb]. change (negb (c_lbrace =? 0)) with true. cbn [andb].
  fold (nz (text_path p ++ c_eq :: text_inner inner ++ [c_rbrace])). rewrite nz_app.
  assert (nz (text_path p) = true) as ->.
  { apply nz_join; [reflexivity|]. apply forallb_forall. intros i Hin. rewrite forallb_forall in Gp. exact (ident_nz i (Gp i Hin)). }
  cbn [andb nz forallb]. change (negb (c_eq =? 0)) with true. cbn [andb]. fold (nz (text_inner inner ++ [c_rbrace])). rewrite nz_app.
  assert (nz (text_inner inner) = true) as ->.
  { apply nz_join; [reflexivity|]. apply forallb_forall. intros t Hin. apply in_map_iff in Hin. destruct Hin as (s & <- & Hs).
    rewrite forallb_forall in Gi. exact (flat_nz s (Gi s Hs)). }
  reflexivity.
Qed.


Lemma toks_len_bound segs : (length segs + fold_right Nat.max O (map inner_len segs) <= S (length (toks_segs segs ++ [eof])))%nat.
Proof.
  assert (A : forall s, (1 + inner_len s <= length (toks_seg s) + 1)%nat /\ (1 <= length (toks_seg s))%nat).
  { intros s. destruct s as [| |l|p inner]; cbn [toks_seg inner_len length]; try (split; lia).
    rewrite app_length. cbn [length]. rewrite app_length. cbn [length].
    assert (length inner <= length (toks_inner inner))%nat.
    { clear. induction inner as [|a [|b r] IH]; cbn [toks_inner length] in *; lia. } lia. }
  assert (B : forall segs, (length segs + fold_right Nat.max O (map inner_len segs) <= length (toks_segs segs) + 1)%nat).
  { induction segs0 as [|s [|s2 r] IH].
    - cbn. lia.
    - cbn [toks_segs map fold_right length]. destruct (A s). lia.
    - change (toks_segs (s :: s2 :: r)) with (toks_seg s ++ tk c_slash :: toks_segs (s2 :: r)). rewrite app_length. cbn [length map fold_right] in *.
      destruct (A s). lia. }
  rewrite app_length. cbn [length]. specialize (B segs). lia.
Qed.

(* every well-formed template, rendered, is accepted by the routing parser, which returns exactly that template *)
Theorem parse_render t : good_template t = true -> gw_parse false (render t) = Some t.
Proof.
  destruct t as [segs verb]. unfold good_template. cbn [t_segs t_verb]. intros G.
  apply andb_true_iff in G. destruct G as [G VO]. apply andb_true_iff in G. destruct G as [G LV]. apply andb_true_iff in G. destruct G as [NEb GS].
  assert (NE : segs <> []) by (destruct segs; discriminate).
  assert (R : render {| t_segs := segs; t_verb := verb |} = c_slash :: text_segs segs ++ vsuffix verb).
  { unfold render, text_segs. cbn [t_segs t_verb]. rewrite (segs_render segs GS). destruct verb; reflexivity. }
  rewrite R. unfold gw_parse. change (c_slash =? c_slash) with true.
  assert (NZ : existsb (N.eqb 0) (c_slash :: text_segs segs ++ vsuffix verb) = false).
  { apply not_true_iff_false. intros E. apply existsb_exists in E. destruct E as (c & Hin & Hc). apply N.eqb_eq in Hc. subst c.
    assert (Z : nz (c_slash :: text_segs segs ++ vsuffix verb) = true).
    { cbn [nz forallb]. change (negb (c_slash =? 0)) with true. cbn [andb]. fold (nz (text_segs segs ++ vsuffix verb)). rewrite nz_app.
      assert (nz (text_segs segs) = true) as ->.
      { apply nz_join; [reflexivity|]. apply forallb_forall. intros x Hx. apply in_map_iff in Hx. destruct Hx as (s & <- & Hs).
        rewrite forallb_forall in GS. exact (seg_nz s (GS s Hs)). }
      destruct verb as [|v0 v]; [reflexivity|]. cbn [vsuffix andb nz forallb]. change (negb (c_colon =? 0)) with true. cbn [andb]. exact (literal_nz _ LV). }
    unfold nz in Z. rewrite forallb_forall in Z. specialize (Z 0 Hin). discriminate. }
  rewrite NZ. cbn [negb andb]. rewrite (tokenize_text segs verb NE GS LV VO). rewrite LV. cbn [negb].
  destruct (toks_segs segs ++ [eof]) as [|t0 tr] eqn:ET; [destruct (toks_segs segs); discriminate|].
  assert (T0 : bytes_eqb t0 eof = false).
  { destruct segs as [|s segs']; [contradiction|]. cbn [forallb] in GS. apply andb_true_iff in GS. destruct GS as [Gs _].
    assert (H0 : exists rest, toks_segs (s :: segs') ++ [eof] = hd [] (toks_seg s) :: rest /\ toks_seg s <> []).
    { destruct s as [| |l|p inner]; destruct segs'; cbn [toks_segs toks_seg app hd]; eexists; split; try reflexivity; discriminate. }
    destruct H0 as (rest & E0 & _). rewrite E0 in ET. injection ET as <- _.
    destruct s as [| |l|p inner]; try reflexivity. cbn [toks_seg hd tok_flat].
    cbn [good_seg good_flat] in Gs. unfold good_lit in Gs. apply andb_true_iff in Gs. destruct Gs as [Gs _]. apply andb_true_iff in Gs. destruct Gs as [Gs _].
    apply andb_true_iff in Gs. destruct Gs as [_ Gl]. apply not_true_iff_false. intros E. apply bytes_eqb_eq in E. subst l. discriminate. }
  rewrite T0. rewrite <- ET.
  rewrite (segments_parse segs _ [eof] GS NE). 2:{ cbn [not_tok]. reflexivity. } 2:{ apply toks_len_bound. }
  rewrite bytes_eqb_refl. reflexivity.
Qed.

(* non-vacuity: a template with every construct satisfies the hypothesis *)
Definition bb (l : list N) : bytes := l.
Example good_example :
  good_template {| t_segs := [SLit (bb [118;49]); SVar [bb [110;97;109;101]; bb [105;100]] [SLit (bb [97;37;50;70]); SWild; SDeep]];
                   t_verb := bb [119;58;120] |} = true.
Proof. reflexivity. Qed.
Print Assumptions parse_render.

(* ---- templates of the language never nest variables: the matching theorems of C03 apply to all of them ---- *)
Lemma good_seg_ok s : good_seg s = true -> Proofs.TemplateProofs.seg_ok s = true.
Proof.
  destruct s as [| |l|p inner]; intros G; try reflexivity.
  cbn [good_seg] in G. apply andb_true_iff in G. destruct G as [_ Gi]. cbn [Proofs.TemplateProofs.seg_ok].
  apply forallb_forall. intros x Hx. rewrite forallb_forall in Gi. specialize (Gi x Hx). destruct x; try reflexivity; discriminate.
Qed.
Lemma good_template_seg_ok t : good_template t = true -> forallb Proofs.TemplateProofs.seg_ok (t_segs t) = true.
Proof.
  unfold good_template. intros G. apply andb_true_iff in G. destruct G as [G _]. apply andb_true_iff in G. destruct G as [G _].
  apply andb_true_iff in G. destruct G as [_ G]. apply forallb_forall. intros s Hs. rewrite forallb_forall in G. exact (good_seg_ok s (G s Hs)).
Qed.

(* from the TEXT of a binding's template to what it matches: the route compiled from render t behaves like t *)
Theorem text_to_route t comps : good_template t = true ->
  exists t', gw_parse false (render t) = Some t' /\ route_step false (compile t') (t_verb t') comps = spec_step t comps.
Proof.
  intros G. exists t. split; [exact (parse_render t G)|]. apply Proofs.TemplateProofs.route_step_spec. exact (good_template_seg_ok t G).
Qed.
