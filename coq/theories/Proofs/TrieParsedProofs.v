(* C20: the trie only ever holds templates that the strict parser returned (Trie.Add takes a *Template): every such
   template meets the hypothesis of the trie's soundness theorem, which therefore holds for every trie that can exist. *)
From Coq Require Import Lia NArith List Bool.
From GB Require Import Model.Template Model.TemplateRun Model.Strict Model.Trie Proofs.MDFilterProofs Proofs.TemplateProofs
  Proofs.TemplateParseProofs Proofs.TemplateSoundProofs Proofs.StrictProofs Proofs.TrieProofs.
Import ListNotations.
Open Scope N_scope.

Lemma literal_noslash v : is_literal v = true -> noslash v = true.
Proof.
  intros H. unfold noslash. apply negb_true_iff. apply not_true_iff_false. intros E. apply existsb_exists in E. destruct E as (c & Hin & Hc).
  apply N.eqb_eq in Hc. subst c. apply pchars_chars in H. rewrite forallb_forall in H. specialize (H _ Hin). rewrite pc_slash in H. discriminate.
Qed.

Lemma st_seg_ok_no_nested s : st_seg_ok s = true ->
  match s with SVar _ inner => forallb (fun i => match i with SVar _ _ => false | _ => true end) inner | _ => true end = true.
Proof.
  destruct s as [| |l|p inner]; intros H; try reflexivity.
  unfold st_seg_ok in H. apply andb_true_iff in H. destruct H as [H _]. cbn [good_seg] in H. apply andb_true_iff in H. destruct H as [_ GF].
  apply forallb_forall. intros x Hx. rewrite forallb_forall in GF. specialize (GF x Hx). destruct x; try reflexivity. discriminate.
Qed.

Theorem st_parse_trie_ok s t : st_parse s = Some t -> trie_template_ok t = true.
Proof.
  intros P. apply st_parse_sound in P. destruct P as [LV [(E & _)|(LA & _)]]; unfold trie_template_ok; rewrite (literal_noslash _ LV), andb_true_r.
  - unfold no_nested. rewrite E. reflexivity.
  - unfold no_nested. apply forallb_forall. intros x Hx. rewrite forallb_forall in LA. exact (st_seg_ok_no_nested x (LA x Hx)).
Qed.

Theorem trie_sound_parsed : forall texts ts p i t,
  Forall2 (fun s t => st_parse s = Some t) texts ts ->
  In i (find false (build ts) (c_slash :: p)) -> nth_error ts i = Some t -> template_matches t (c_slash :: p) = true.
Proof.
  intros texts ts p i t F. apply trie_find_sound. apply forallb_forall. intros x Hx.
  induction F as [|s y texts' ts' P F IH]; [destruct Hx|]. destruct Hx as [<-|Hx]; [exact (st_parse_trie_ok s y P) | exact (IH Hx)].
Qed.
