(* C20, the strict parser, the other direction: every string of the strict template language (StrictLang,
   Proofs/StrictProofs.v) is accepted, with exactly the structure it derives from - both spellings of a variable
   ("{p}" and "{p=*}"), every verb form.  Together with st_parse_sound: st_parse s = Some t <-> StrictLang t s. *)
From Coq Require Import Lia NArith List Bool.
From GB Require Import Model.Template Model.TemplateRun Model.Strict Proofs.MDFilterProofs Proofs.TemplateParseProofs Proofs.TemplateSoundProofs Proofs.StrictProofs.
Import ListNotations.
Open Scope N_scope.

(* ================= a segment as it is spelled: its text and its tokens ================= *)
Definition short_text (p : list bytes) : bytes := c_lbrace :: text_path p ++ [c_rbrace].
Definition short_toks (p : list bytes) : list bytes := tk c_lbrace :: toks_path p ++ [tk c_rbrace].
Definition SP (s : seg) (txt : bytes) (tks : list bytes) : Prop :=
  (txt = text_seg s /\ tks = toks_seg s) \/ (exists p, s = SVar p [SWild] /\ txt = short_text p /\ tks = short_toks p).

Lemma Rsegs_flat : forall inner txts, forallb good_flat inner = true -> Rsegs inner txts -> txts = map tok_flat inner.
Proof.
  induction inner as [|s inner IH]; intros txts G R; destruct txts as [|t txts]; try destruct R; [reflexivity|].
  cbn [forallb] in G. apply andb_true_iff in G. destruct G as [Gs G]. cbn [map]. f_equal; [|apply IH; assumption].
  destruct s as [| |l|p i]; try discriminate; cbn [Rseg tok_flat] in *; [assumption | assumption | tauto].
Qed.

Lemma Rseg_SP s txt : st_seg_ok s = true -> Rseg s txt -> exists tks, SP s txt tks.
Proof.
  intros OK R. destruct s as [| |l|p inner].
  - exists (toks_seg SWild). left. cbn in *. auto.
  - exists (toks_seg SDeep). left. cbn in *. auto.
  - exists (toks_seg (SLit l)). left. cbn in *. split; [tauto | reflexivity].
  - apply Rseg_var in R. destruct R as (P1 & P2 & [[-> ->]|(txts & RS & TN & ->)]).
    + exists (short_toks p). right. exists p. auto.
    + exists (toks_seg (SVar p inner)). left. split; [|reflexivity].
      unfold st_seg_ok in OK. cbn [good_seg] in OK. apply andb_true_iff in OK. destruct OK as [OK _]. apply andb_true_iff in OK. destruct OK as [_ GF].
      rewrite (Rsegs_flat inner txts GF RS). reflexivity.
Qed.

(* ================= parsing the tokens of a spelled segment ================= *)
Lemma ident_st i : is_ident i = true -> st_ident i = true.
Proof. destruct i; [discriminate | intros H; exact H]. Qed.

Lemma st_fpr_step f i r acc : is_ident i = true ->
  st_field_path_rest (S f) (tk c_dot :: i :: r) acc = st_field_path_rest f r (acc ++ [i]).
Proof. intros Gi. cbn [st_field_path_rest]. rewrite tok_is_tk. change (c_dot =? c_dot) with true. cbv iota. rewrite (ident_st i Gi). reflexivity. Qed.
Lemma st_fpr_stop f rest acc : not_tok c_dot rest -> st_field_path_rest (S f) rest acc = Some (acc, rest).
Proof. intros ND. cbn [st_field_path_rest]. destruct rest as [|t r]; [reflexivity|]. cbn [not_tok] in ND. rewrite ND. reflexivity. Qed.
Lemma st_field_path_rest_ok : forall p f acc rest, forallb is_ident p = true -> not_tok c_dot rest -> (length p <= f)%nat ->
  st_field_path_rest (S f) (flat_map (fun i => [tk c_dot; i]) p ++ rest) acc = Some (acc ++ p, rest).
Proof.
  induction p as [|i p IH]; intros f acc rest G ND L.
  - cbn [flat_map app]. rewrite app_nil_r. apply st_fpr_stop; exact ND.
  - cbn [forallb] in G. apply andb_true_iff in G. destruct G as [Gi G]. cbn [length] in L. destruct f as [|f]; [lia|].
    cbn [flat_map app]. rewrite (st_fpr_step _ i _ acc Gi).
    rewrite (IH f (acc ++ [i]) rest G ND ltac:(lia)). rewrite <- app_assoc. reflexivity.
Qed.
Lemma st_field_path_parse p rest : p <> [] -> forallb is_ident p = true -> not_tok c_dot rest ->
  st_field_path (toks_path p ++ rest) = Some (p, rest).
Proof.
  intros NE G ND. destruct p as [|i p]; [contradiction|]. cbn [forallb] in G. apply andb_true_iff in G. destruct G as [Gi G].
  rewrite toks_path_shape. cbn [app st_field_path]. rewrite (ident_st i Gi).
  pose proof (st_field_path_rest_ok p (length (flat_map (fun j => [tk c_dot; j]) p ++ rest)) [i] rest G ND) as H.
  cbn [length]. apply H. rewrite app_length. clear. induction p; cbn; lia.
Qed.

Lemma st_flat_segment inner s rest : good_flat s = true -> st_segment inner (tok_flat s :: rest) = Some (s, is_deep s, rest).
Proof.
  intros G. unfold st_segment. destruct s as [| |l|p i]; try discriminate; cbn [tok_flat is_deep].
  - reflexivity.
  - reflexivity.
  - cbn [good_flat] in G. unfold good_lit in G. apply andb_true_iff in G. destruct G as [G G3]. apply andb_true_iff in G. destruct G as [G G2].
    apply andb_true_iff in G. destruct G as [_ G1].
    apply negb_true_iff in G2, G3. unfold tok_is. rewrite G2, G3, G1. reflexivity.
Qed.

Lemma st_after_segment f s ms r rest' :
  st_segment (st_segments f) r = Some (s, ms, rest') ->
  st_segments (S f) r =
    if ms then Some ([s], true, rest') else
    match rest' with
    | t :: r' => if tok_is c_slash t then match st_segments f r' with Some (more, m, r'') => Some (s :: more, m, r'') | None => None end
                 else Some ([s], false, rest')
    | [] => Some ([s], false, rest')
    end.
Proof. intros H. cbn [st_segments]. rewrite H. reflexivity. Qed.

Lemma deep_only_last_cons s x r : deep_only_last (s :: x :: r) = negb (is_deep s) && deep_only_last (x :: r).
Proof. reflexivity. Qed.
Lemma multi_only_last_cons s x r : multi_only_last (s :: x :: r) = negb (is_multi s) && multi_only_last (x :: r).
Proof. reflexivity. Qed.

(* the inner segments of a variable *)
Lemma st_inner_parse : forall inner f rest, forallb good_flat inner = true -> inner <> [] -> deep_only_last inner = true ->
  not_tok c_slash rest -> (length inner <= f)%nat ->
  st_segments f (toks_inner inner ++ rest) = Some (inner, is_deep (last inner SWild), rest).
Proof.
  induction inner as [|s inner IH]; intros f rest G NE DL NS L; [contradiction|].
  cbn [forallb] in G. apply andb_true_iff in G. destruct G as [Gs G].
  destruct f as [|f]; [cbn in L; lia|].
  destruct inner as [|s2 inner].
  - cbn [toks_inner app last]. rewrite (st_after_segment f s _ _ rest (st_flat_segment _ s rest Gs)).
    destruct (is_deep s); [reflexivity|]. destruct rest as [|t r]; [reflexivity|]. cbn [not_tok] in NS. rewrite NS. reflexivity.
  - rewrite toks_inner_cons by discriminate. cbn [app].
    rewrite deep_only_last_cons in DL. apply andb_true_iff in DL. destruct DL as [D1 DL]. apply negb_true_iff in D1.
    rewrite (st_after_segment f s _ _ _ (st_flat_segment _ s _ Gs)). rewrite D1. rewrite tok_is_tk. change (c_slash =? c_slash) with true. cbv iota.
    rewrite (IH f rest G ltac:(discriminate) DL NS ltac:(cbn [length] in *; lia)).
    rewrite (last_cons_ne s (s2 :: inner) SWild ltac:(discriminate)). reflexivity.
Qed.

Lemma st_segment_parse f s txt tks rest : st_seg_ok s = true -> SP s txt tks ->
  (match s with SVar _ inner => (length inner <= f)%nat | _ => True end) ->
  st_segment (st_segments f) (tks ++ rest) = Some (s, is_multi s, rest).
Proof.
  intros OK SPx L. unfold st_seg_ok in OK. apply andb_true_iff in OK. destruct OK as [G DL].
  destruct s as [| |l|p inner].
  - destruct SPx as [[_ ->]|(q & X & _)]; [|discriminate]. exact (st_flat_segment _ SWild rest G).
  - destruct SPx as [[_ ->]|(q & X & _)]; [|discriminate]. exact (st_flat_segment _ SDeep rest G).
  - destruct SPx as [[_ ->]|(q & X & _)]; [|discriminate]. exact (st_flat_segment _ (SLit l) rest G).
  - cbn [good_seg] in G. apply andb_true_iff in G. destruct G as [G Gi]. apply andb_true_iff in G. destruct G as [G Ne].
    apply andb_true_iff in G. destruct G as [Np Gp].
    assert (p <> []) as NEp by (destruct p; [discriminate|discriminate]).
    assert (inner <> []) as NEi by (destruct inner; [discriminate|discriminate]).
    destruct SPx as [[_ ->]|(q & X & _ & ->)].
    + cbn [toks_seg app]. unfold st_segment. rewrite tok_is_tk.
      change (c_lbrace =? c_star) with false. change (bytes_eqb (tk c_lbrace) s_deep) with false. change (is_literal (tk c_lbrace)) with false. cbv iota.
      rewrite tok_is_tk. change (c_lbrace =? c_lbrace) with true. cbv iota.
      rewrite <- !app_assoc. cbn [app].
      rewrite (st_field_path_parse p _ NEp Gp). 2:{ cbn [not_tok]. rewrite tok_is_tk. reflexivity. }
      cbv beta iota. rewrite tok_is_tk. change (c_eq =? c_eq) with true. cbv beta iota.
      rewrite <- app_assoc. cbn [app]. rewrite (st_inner_parse inner f _ Gi NEi DL). 2:{ cbn [not_tok]. rewrite tok_is_tk. reflexivity. } 2:{ exact L. }
      cbv beta iota. rewrite tok_is_tk. change (c_rbrace =? c_rbrace) with true. cbv iota.
      cbn [is_multi]. destruct (last inner SWild); reflexivity.
    + injection X as <- ->. unfold short_toks. cbn [app]. unfold st_segment. rewrite tok_is_tk.
      change (c_lbrace =? c_star) with false. change (bytes_eqb (tk c_lbrace) s_deep) with false. change (is_literal (tk c_lbrace)) with false. cbv iota.
      rewrite tok_is_tk. change (c_lbrace =? c_lbrace) with true. cbv iota.
      rewrite <- !app_assoc. cbn [app].
      rewrite (st_field_path_parse p _ NEp Gp). 2:{ cbn [not_tok]. rewrite tok_is_tk. reflexivity. }
      cbv beta iota. rewrite !tok_is_tk. change (c_rbrace =? c_eq) with false. change (c_rbrace =? c_rbrace) with true. cbv iota. reflexivity.
Qed.

(* ================= spelled segment lists ================= *)
Definition sitem := (seg * bytes * list bytes)%type.
Definition i_seg (x : sitem) : seg := fst (fst x).
Definition i_txt (x : sitem) : bytes := snd (fst x).
Definition i_tks (x : sitem) : list bytes := snd x.
Definition item_ok (x : sitem) : Prop := st_seg_ok (i_seg x) = true /\ SP (i_seg x) (i_txt x) (i_tks x).
Fixpoint toks_all (l : list sitem) : list bytes :=
  match l with [] => [] | x :: r => match r with [] => i_tks x | _ => i_tks x ++ tk c_slash :: toks_all r end end.

Lemma build_items : forall segs txts, forallb st_seg_ok segs = true -> Rsegs segs txts ->
  exists l, map i_seg l = segs /\ map i_txt l = txts /\ Forall item_ok l.
Proof.
  induction segs as [|s segs IH]; intros txts OK R; destruct txts as [|t txts]; try (destruct R; fail).
  - exists []. auto.
  - destruct R as [Rs R]. cbn [forallb] in OK. apply andb_true_iff in OK. destruct OK as [Os OK].
    destruct (IH txts OK R) as (l & E1 & E2 & F). destruct (Rseg_SP s t Os Rs) as [tks S1].
    exists ((s, t, tks) :: l). cbn [map i_seg i_txt fst snd]. rewrite E1, E2. split; [reflexivity|]. split; [reflexivity|].
    constructor; [split; assumption | exact F].
Qed.

Theorem st_segments_parse : forall l f rest, Forall item_ok l -> l <> [] ->
  multi_only_last (map i_seg l) = true -> not_tok c_slash rest ->
  (length l + fold_right Nat.max O (map inner_len (map i_seg l)) <= f)%nat ->
  st_segments f (toks_all l ++ rest) = Some (map i_seg l, is_multi (last (map i_seg l) SWild), rest).
Proof.
  induction l as [|x l IH]; intros f rest F NE ML NS L; [contradiction|].
  inversion F as [|? ? [Ox Sx] F']; subst. cbn [length map fold_right] in L.
  destruct f as [|f]; [lia|].
  assert (Ls : match i_seg x with SVar _ inner => (length inner <= f)%nat | _ => True end).
  { destruct (i_seg x); try exact I. cbn [inner_len] in L. lia. }
  destruct l as [|y l].
  - cbn [toks_all map last]. rewrite (st_after_segment f _ _ _ rest (st_segment_parse f _ _ _ rest Ox Sx Ls)).
    destruct (is_multi (i_seg x)); [reflexivity|]. destruct rest as [|t r]; [reflexivity|]. cbn [not_tok] in NS. rewrite NS. reflexivity.
  - change (toks_all (x :: y :: l)) with (i_tks x ++ tk c_slash :: toks_all (y :: l)). rewrite <- app_assoc. cbn [app].
    cbn [map] in ML. rewrite multi_only_last_cons in ML. apply andb_true_iff in ML. destruct ML as [M1 ML]. apply negb_true_iff in M1.
    rewrite (st_after_segment f _ _ _ _ (st_segment_parse f _ _ _ _ Ox Sx Ls)). rewrite M1.
    rewrite tok_is_tk. change (c_slash =? c_slash) with true. cbv iota.
    rewrite (IH f rest F' ltac:(discriminate) ML NS).
    + cbn [map]. rewrite (last_cons_ne (i_seg x) (i_seg y :: map i_seg l) SWild ltac:(discriminate)). reflexivity.
    + cbn [length map fold_right] in *. lia.
Qed.

(* ================= the tokenizer on spelled segment lists ================= *)
Definition nd0 (t : bytes) : bool := forallb (fun c => negb (is_delim 0 c)) t.

Lemma scan_path_close : forall p rest, forallb is_ident p = true -> p <> [] ->
  scan 1 (text_path p ++ c_rbrace :: rest) [] = toks_path p ++ tk c_rbrace :: scan 0 rest [].
Proof.
  induction p as [|i p IH]; intros rest G NE; [contradiction|].
  cbn [forallb] in G. apply andb_true_iff in G. destruct G as [Gi G].
  destruct (ident_chars i Gi) as [_ Ine]. pose proof (ident_nodelim i Gi) as Ind.
  destruct p as [|j p].
  - unfold text_path. cbn [join_with flat_map toks_path app]. rewrite app_nil_r.
    rewrite (scan_token 1 i c_rbrace rest Ine Ind eq_refl). reflexivity.
  - unfold text_path. rewrite join_cons. rewrite <- app_assoc. cbn [app].
    rewrite (scan_token 1 i c_dot _ Ine Ind eq_refl). change (next_state 1 c_dot) with 1%nat.
    change (toks_path (i :: j :: p)) with (i :: tk c_dot :: toks_path (j :: p)). cbn [app]. f_equal. f_equal.
    apply (IH rest G). discriminate.
Qed.

Lemma scan_short p rest : p <> [] -> forallb is_ident p = true ->
  scan 0 (short_text p ++ rest) [] = short_toks p ++ scan 0 rest [].
Proof.
  intros NE G. unfold short_text, short_toks. cbn [app]. rewrite (scan_delim 0 c_lbrace _ [] eq_refl). cbn [app].
  change (next_state 0 c_lbrace) with 1%nat. f_equal. rewrite <- app_assoc. cbn [app].
  rewrite (scan_path_close p rest G NE). rewrite <- app_assoc. reflexivity.
Qed.

Lemma ok_good s : st_seg_ok s = true -> good_seg s = true.
Proof. unfold st_seg_ok. intros H. apply andb_true_iff in H. tauto. Qed.

Lemma scan_item x rest : item_ok x -> is_var (i_seg x) = true -> scan 0 (i_txt x ++ rest) [] = i_tks x ++ scan 0 rest [].
Proof.
  intros [OK S1] V. destruct x as [[s txt] tks]. cbn [i_seg i_txt i_tks fst snd] in *. destruct s as [| |l|p inner]; try discriminate.
  pose proof (ok_good _ OK) as G.
  destruct S1 as [[-> ->]|(q & X & -> & ->)].
  - exact (scan_var p inner rest G).
  - injection X as <- ->. cbn [good_seg] in G. apply andb_true_iff in G. destruct G as [G _]. apply andb_true_iff in G. destruct G as [G _].
    apply andb_true_iff in G. destruct G as [Np Gp]. apply scan_short; [destruct p; discriminate | exact Gp].
Qed.

Lemma flat_item x : item_ok x -> is_var (i_seg x) = false ->
  good_flat (i_seg x) = true /\ i_txt x = tok_flat (i_seg x) /\ i_tks x = [i_txt x] /\ i_txt x <> [] /\ nd0 (i_txt x) = true.
Proof.
  intros [OK S1] V. destruct x as [[s txt] tks]. cbn [i_seg i_txt i_tks fst snd] in *.
  assert (GF : good_flat s = true) by (pose proof (ok_good _ OK) as G; destruct s; try discriminate; exact G).
  destruct S1 as [[-> ->]|(q & X & _)]; [|subst s; discriminate].
  destruct (flat_token s 0%nat GF (or_introl eq_refl)) as [T1 T2].
  split; [exact GF|]. destruct s; try discriminate; cbn [text_seg toks_seg tok_flat] in *; auto.
Qed.

Theorem scan_items : forall l suffix, Forall item_ok l -> l <> [] ->
  (suffix = [] \/ (is_var (last (map i_seg l) SWild) = true /\ nd0 suffix = true)) ->
  scan 0 (join_with c_slash (map i_txt l) ++ suffix) [] = toks_all l ++ match suffix with [] => [] | _ => [suffix] end.
Proof.
  induction l as [|x l IH]; intros suffix F NE SF; [contradiction|].
  inversion F as [|? ? Ix F']; subst.
  destruct l as [|y l].
  - cbn [map join_with flat_map toks_all]. rewrite app_nil_r.
    destruct (is_var (i_seg x)) eqn:V.
    + rewrite (scan_item x suffix Ix V). f_equal. destruct suffix as [|c sf]; [reflexivity|].
      destruct SF as [X|[_ ND]]; [discriminate|]. apply scan_last; [discriminate | exact ND].
    + destruct SF as [->|[X _]]; [|cbn [map last] in X; congruence].
      destruct (flat_item x Ix V) as (_ & _ & -> & T1 & T2). rewrite !app_nil_r. apply scan_last; assumption.
  - cbn [map]. rewrite join_cons. rewrite <- app_assoc. cbn [app].
    change (toks_all (x :: y :: l)) with (i_tks x ++ tk c_slash :: toks_all (y :: l)). rewrite <- app_assoc. cbn [app].
    assert (SF' : suffix = [] \/ (is_var (last (map i_seg (y :: l)) SWild) = true /\ nd0 suffix = true)).
    { destruct SF as [->|[X ND]]; [left; reflexivity|]. right. split; [|exact ND]. cbn [map] in X.
      rewrite (last_cons_ne (i_seg x) (i_seg y :: map i_seg l) SWild ltac:(discriminate)) in X. exact X. }
    destruct (is_var (i_seg x)) eqn:V.
    + rewrite (scan_item x _ Ix V). f_equal. rewrite (scan_delim 0 c_slash _ [] eq_refl). cbn [app]. f_equal.
      exact (IH suffix F' ltac:(discriminate) SF').
    + destruct (flat_item x Ix V) as (_ & _ & -> & T1 & T2).
      rewrite (scan_token 0 (i_txt x) c_slash _ T1 T2 eq_refl). cbn [app]. f_equal. f_equal.
      exact (IH suffix F' ltac:(discriminate) SF').
Qed.

(* ================= fuel ================= *)
Lemma toks_path_len p : p <> [] -> (1 <= length (toks_path p))%nat.
Proof. destruct p as [|i [|j p]]; [contradiction | cbn; lia | cbn; lia]. Qed.

Lemma item_len x : item_ok x -> (1 + inner_len (i_seg x) <= length (i_tks x) + 1)%nat /\ (1 <= length (i_tks x))%nat.
Proof.
  intros [OK S1]. destruct x as [[s txt] tks]. cbn [i_seg i_txt i_tks fst snd] in *.
  destruct S1 as [[_ ->]|(q & -> & _ & ->)].
  - destruct s as [| |l|p inner]; cbn [toks_seg inner_len length]; try (split; lia).
    rewrite app_length. cbn [length]. rewrite app_length. cbn [length].
    assert (length inner <= length (toks_inner inner))%nat.
    { clear. induction inner as [|a [|b r] IH]; cbn [toks_inner length] in *; lia. } lia.
  - unfold short_toks. cbn [inner_len length]. rewrite app_length. cbn [length]. lia.
Qed.

Lemma items_len_bound : forall l rest, Forall item_ok l ->
  (length l + fold_right Nat.max O (map inner_len (map i_seg l)) <= S (length (toks_all l ++ rest)))%nat.
Proof.
  intros l rest F. rewrite app_length.
  assert (B : (length l + fold_right Nat.max O (map inner_len (map i_seg l)) <= length (toks_all l) + 1)%nat).
  { induction l as [|x [|y r] IH].
    - cbn. lia.
    - inversion F as [|? ? Ix _]; subst. cbn [toks_all map fold_right length]. destruct (item_len x Ix). lia.
    - inversion F as [|? ? Ix F']; subst. change (toks_all (x :: y :: r)) with (i_tks x ++ tk c_slash :: toks_all (y :: r)).
      rewrite app_length. cbn [length map fold_right] in *. destruct (item_len x Ix). specialize (IH F'). lia. }
  lia.
Qed.

(* ================= no NUL in the texts of the language; the first token is not the end marker ================= *)
Lemma nz_existsb t : nz t = true -> existsb (N.eqb 0) t = false.
Proof.
  induction t as [|c t IH]; intros H; [reflexivity|]. cbn [nz forallb] in H. apply andb_true_iff in H. destruct H as [Hc H].
  cbn [existsb]. rewrite N.eqb_sym. apply negb_true_iff in Hc. rewrite Hc. exact (IH H).
Qed.
Lemma path_nz p : forallb is_ident p = true -> nz (text_path p) = true.
Proof.
  intros Gp. apply nz_join; [reflexivity|]. apply forallb_forall. intros i Hin. rewrite forallb_forall in Gp. exact (ident_nz i (Gp i Hin)).
Qed.
Lemma Rseg_nz s txt : st_seg_ok s = true -> Rseg s txt -> nz txt = true.
Proof.
  intros OK R. destruct (Rseg_SP s txt OK R) as [tks [[-> _]|(p & -> & -> & _)]]; [exact (seg_nz s (ok_good s OK))|].
  pose proof (ok_good _ OK) as G. cbn [good_seg] in G. apply andb_true_iff in G. destruct G as [G _]. apply andb_true_iff in G. destruct G as [G _].
  apply andb_true_iff in G. destruct G as [_ Gp].
  unfold short_text. cbn [nz forallb]. change (negb (c_lbrace =? 0)) with true. cbn [andb]. fold (nz (text_path p ++ [c_rbrace])).
  rewrite nz_app, (path_nz p Gp). reflexivity.
Qed.
Lemma Rsegs_nz : forall segs txts, forallb st_seg_ok segs = true -> Rsegs segs txts -> forallb nz txts = true.
Proof.
  induction segs as [|s segs IH]; intros txts OK R; destruct txts as [|t txts]; try (destruct R; fail); [reflexivity|].
  destruct R as [Rs R]. cbn [forallb] in *. apply andb_true_iff in OK. destruct OK as [Os OK].
  rewrite (Rseg_nz s t Os Rs), (IH txts OK R). reflexivity.
Qed.

Lemma items_head l rest : Forall item_ok l -> l <> [] -> exists t0 tr, toks_all l ++ rest = t0 :: tr /\ bytes_eqb t0 eof = false.
Proof.
  intros F NE. destruct l as [|x l]; [contradiction|]. inversion F as [|? ? Ix _]; subst.
  assert (HD : exists t0 more, i_tks x = t0 :: more /\ bytes_eqb t0 eof = false).
  { destruct (is_var (i_seg x)) eqn:V.
    - destruct Ix as [OK S1]. destruct x as [[s txt] tks]. cbn [i_seg i_txt i_tks fst snd] in *. destruct s as [| |l0|p inner]; try discriminate.
      destruct S1 as [[_ ->]|(q & _ & _ & ->)]; eexists; eexists; (split; [reflexivity|reflexivity]).
    - destruct (flat_item x Ix V) as (GF & E & -> & T1 & _). exists (i_txt x), []. split; [reflexivity|].
      apply not_true_iff_false. intros B. apply bytes_eqb_eq in B. pose proof (flat_nz _ GF) as Z. rewrite <- E, B in Z. discriminate. }
  destruct HD as (t0 & more & E & B). destruct l as [|y l]; cbn [toks_all]; rewrite E; cbn [app]; eauto.
Qed.

Lemma parse_items l rest : Forall item_ok l -> l <> [] -> multi_only_last (map i_seg l) = true -> not_tok c_slash rest ->
  st_segments (S (length (toks_all l ++ rest))) (toks_all l ++ rest) = Some (map i_seg l, is_multi (last (map i_seg l) SWild), rest).
Proof. intros F NE ML NS. apply st_segments_parse; try assumption. apply items_len_bound. exact F. Qed.

Lemma st_parse_of_tokens path t0 tr : nz path = true -> scan 0 path [] ++ [eof] = t0 :: tr -> bytes_eqb t0 eof = false ->
  st_parse (c_slash :: path) =
  match st_segments (S (length (t0 :: tr))) (t0 :: tr) with Some (segs, _, lft) => st_template segs lft | None => None end.
Proof.
  intros Z E B. unfold st_parse. change (c_slash =? c_slash) with true.
  assert (existsb (N.eqb 0) (c_slash :: path) = false) as -> by (cbn [existsb]; rewrite (nz_existsb path Z); reflexivity).
  cbn [negb andb]. unfold st_tokenize. rewrite E, B. reflexivity.
Qed.

Lemma no_colon_last_none l0 : no_colon l0 = true -> last_index_of c_colon l0 0 None = None.
Proof. intros H. exact (proj2 (no_colon_index l0 H 0%nat None)). Qed.

Lemma not_slash_colon v : tok_is c_slash (c_colon :: v) = false.
Proof. reflexivity. Qed.
Lemma colon_not_eof v : bytes_eqb (c_colon :: v) eof = false.
Proof. reflexivity. Qed.

(* a literal with a verb glued on is a good literal *)
Lemma glued_good x v : is_literal x = true -> is_literal v = true -> good_lit (x ++ c_colon :: v) = true.
Proof.
  intros Lx Lv. unfold good_lit. rewrite lit_colon_split, Lx, Lv.
  assert (NS : forall y, ~ In c_colon y -> bytes_eqb (x ++ c_colon :: v) y = false).
  { intros y NI. apply not_true_iff_false. intros B. apply bytes_eqb_eq in B. apply NI. rewrite <- B. apply in_or_app. right. left. reflexivity. }
  rewrite (NS [c_star]), (NS s_deep).
  - destruct x; reflexivity.
  - cbn. intros [X|[X|[]]]; discriminate.
  - cbn. intros [X|[]]; discriminate.
Qed.

Lemma firstn_exact {A} (a b : list A) : firstn (length a) (a ++ b) = a.
Proof. rewrite firstn_app, firstn_all, Nat.sub_diag. cbn. apply app_nil_r. Qed.

Lemma flat_literal s : good_flat s = true -> is_literal (tok_flat s) = true.
Proof.
  destruct s as [| |l|]; intros G; try discriminate; try reflexivity.
  cbn [good_flat] in G. unfold good_lit in G. apply andb_true_iff in G. destruct G as [G _]. apply andb_true_iff in G. destruct G as [G _].
  apply andb_true_iff in G. tauto.
Qed.

Lemma st_finish_eof segs verb : st_finish segs verb [eof] = Some {| t_segs := segs; t_verb := verb |}.
Proof. reflexivity. Qed.

(* ================= the theorem ================= *)
Theorem st_parse_complete t s : StrictLang t s -> st_parse s = Some t.
Proof.
  destruct t as [segs verb]. unfold StrictLang. cbn [t_segs t_verb].
  intros [LV [(-> & NC & FORM) | (LA & LB & txts & RS & TN & FORM)]].
  - (* the root *)
    destruct FORM as [-> | [-> ->]]; [|reflexivity].
    assert (Lw : is_literal (c_colon :: verb) = true).
    { change (c_colon :: verb) with ([] ++ c_colon :: verb). rewrite lit_colon_split. exact LV. }
    assert (SC : scan 0 (c_colon :: verb) [] = [c_colon :: verb]).
    { apply scan_last; [discriminate | exact (literal_nodelim _ 0%nat Lw (or_introl eq_refl))]. }
    rewrite (st_parse_of_tokens (c_colon :: verb) (c_colon :: verb) [eof] (literal_nz _ Lw) ltac:(rewrite SC; reflexivity) (colon_not_eof verb)).
    assert (GW : good_flat (SLit (c_colon :: verb)) = true) by exact (glued_good [] verb eq_refl LV).
    cbn [length].
    rewrite (st_after_segment _ _ _ _ _ (st_flat_segment _ (SLit (c_colon :: verb)) [eof] GW)). cbn [is_deep].
    change (tok_is c_slash eof) with false. cbv iota.
    unfold st_template. cbn [last].
    change (c_colon :: verb) with ([] ++ c_colon :: verb) at 1. rewrite (last_index_split [] verb NC 0%nat None).
    reflexivity.
  - destruct (build_items segs txts LA RS) as (l & E1 & E2 & F).
    assert (NE : l <> []) by (intros ->; cbn in E2; congruence).
    pose proof (Rsegs_nz segs txts LA RS) as ZT.
    assert (ZJ : nz (join_with c_slash txts) = true) by (apply nz_join; [reflexivity | exact ZT]).
    subst segs txts.
    destruct FORM as [[-> VF] | (-> & -> & NCL)].
    + assert (Lw : is_literal (c_colon :: verb) = true).
      { change (c_colon :: verb) with ([] ++ c_colon :: verb). rewrite lit_colon_split. exact LV. }
      assert (Z : nz (join_with c_slash (map i_txt l) ++ c_colon :: verb) = true) by (rewrite nz_app, ZJ; exact (literal_nz _ Lw)).
      destruct (is_var (last (map i_seg l) SWild)) eqn:V.
      * (* after a variable the verb is a token of its own *)
        pose proof (scan_items l (c_colon :: verb) F NE (or_intror (conj V (literal_nodelim _ 0%nat Lw (or_introl eq_refl))))) as SC.
        destruct (items_head l ([c_colon :: verb] ++ [eof]) F NE) as (t0 & tr & ET & B).
        rewrite (st_parse_of_tokens _ t0 tr Z ltac:(rewrite SC, <- app_assoc; exact ET) B).
        rewrite <- ET. rewrite (parse_items l ([c_colon :: verb] ++ [eof]) F NE LB (not_slash_colon verb)).
        unfold st_template. destruct (last (map i_seg l) SWild) eqn:LS; try discriminate V.
        cbn [app]. rewrite (colon_not_eof verb), Lw. change (c_colon =? c_colon) with true. cbv iota. reflexivity.
      * (* the verb is glued to the last, flat, segment: the parser reads one literal and splits it at its last colon *)
        destruct VF as [X|NC]; [discriminate|].
        destruct (exists_last NE) as (l0 & x & ->).
        apply Forall_app in F. destruct F as [F0 Fx]. inversion Fx as [|? ? Ix _]; subst.
        rewrite map_app in V, LB. cbn [map] in V, LB. rewrite last_last in V.
        destruct (flat_item x Ix V) as (GF & ETX & TK & T1 & T2).
        pose proof (flat_literal _ GF) as LX. rewrite <- ETX in LX.
        set (w := i_txt x ++ c_colon :: verb) in *.
        assert (GW : good_lit w = true) by exact (glued_good (i_txt x) verb LX LV).
        set (x' := (SLit w, w, [w]) : sitem).
        assert (Ix' : item_ok x').
        { split; [unfold st_seg_ok; cbn [i_seg x' fst good_seg good_flat]; rewrite GW; reflexivity | left; split; reflexivity]. }
        assert (F' : Forall item_ok (l0 ++ [x'])) by (apply Forall_app; split; [exact F0 | constructor; [exact Ix' | constructor]]).
        assert (NE' : l0 ++ [x'] <> []) by (destruct l0; discriminate).
        assert (LB' : multi_only_last (map i_seg (l0 ++ [x'])) = true).
        { rewrite map_app. cbn [map]. rewrite (multi_only_last_snoc _ (i_seg x') (i_seg x)). exact LB. }
        assert (TXT : join_with c_slash (map i_txt (l0 ++ [x])) ++ c_colon :: verb = join_with c_slash (map i_txt (l0 ++ [x']))).
        { rewrite !map_app. cbn [map]. rewrite <- join_snoc. reflexivity. }
        rewrite TXT in Z |- *.
        pose proof (scan_items (l0 ++ [x']) [] F' NE' (or_introl eq_refl)) as SC. rewrite !app_nil_r in SC.
        destruct (items_head (l0 ++ [x']) [eof] F' NE') as (t0 & tr & ET & B).
        rewrite (st_parse_of_tokens _ t0 tr Z ltac:(rewrite SC; exact ET) B).
        rewrite <- ET. rewrite (parse_items (l0 ++ [x']) [eof] F' NE' LB' eq_refl).
        unfold st_template. rewrite !map_app. cbn [map]. rewrite !last_last, !removelast_unit. cbn [i_seg x' fst].
        unfold w at 1. rewrite (last_index_split (i_txt x) verb NC 0%nat None). cbn [Nat.add].
        unfold w. rewrite firstn_exact, skipn_past. rewrite !st_finish_eof.
        destruct x as [[sx tx] kx]. cbn [i_seg i_txt i_tks fst snd] in *. subst tx.
        destruct sx as [| |lx|]; try discriminate; cbn [tok_flat].
        -- reflexivity.
        -- reflexivity.
        -- cbn [good_flat] in GF. unfold good_lit in GF. apply andb_true_iff in GF. destruct GF as [GF G3]. apply andb_true_iff in GF. destruct GF as [GF G2].
           apply negb_true_iff in G2, G3. rewrite G2, G3. destruct lx; [contradiction | reflexivity].
    + (* no verb *)
      assert (Z : nz (join_with c_slash (map i_txt l)) = true) by exact ZJ.
      pose proof (scan_items l [] F NE (or_introl eq_refl)) as SC. rewrite !app_nil_r in SC.
      destruct (items_head l [eof] F NE) as (t0 & tr & ET & B).
      rewrite (st_parse_of_tokens _ t0 tr Z ltac:(rewrite SC; exact ET) B).
      rewrite <- ET. rewrite (parse_items l [eof] F NE LB eq_refl).
      unfold st_template. destruct (last (map i_seg l) SWild) as [| |l1|p1 i1] eqn:LS.
      * reflexivity.
      * reflexivity.
      * cbn [tok_flat] in NCL. rewrite (no_colon_last_none l1 NCL). reflexivity.
      * reflexivity.
Qed.

(* the two directions together: the strict parser accepts exactly the strict template language *)
Theorem st_parse_exact s t : st_parse s = Some t <-> StrictLang t s.
Proof. split; [apply st_parse_sound | apply st_parse_complete]. Qed.

(* the statement has instances: a template in both spellings of its variable *)
Example st_lang_short : StrictLang {| t_segs := [SLit [97]; SVar [[105;100]] [SWild]]; t_verb := [103] |} [47;97;47;123;105;100;125;58;103].  (* /a/{id}:g *)
Proof. apply st_parse_sound. vm_compute. reflexivity. Qed.
Example st_lang_long : StrictLang {| t_segs := [SLit [97]; SVar [[105;100]] [SWild]]; t_verb := [103] |} [47;97;47;123;105;100;61;42;125;58;103].  (* /a/{id=*}:g *)
Proof. apply st_parse_sound. vm_compute. reflexivity. Qed.

(* ================= the fuel of the model is never what decides ================= *)
(* Go's parser recurses without a bound; the model recurses on fuel and the entry point passes S (length tokens).
   Every recursive call is on a strictly shorter token list, so any larger fuel gives the same result: a None of the
   model is a refusal of the parser, never exhaustion. *)
Lemma st_fpr_len : forall fuel toks acc p rest, st_field_path_rest fuel toks acc = Some (p, rest) -> (length rest <= length toks)%nat.
Proof.
  induction fuel as [|f IH]; intros toks acc p rest H; cbn [st_field_path_rest] in H; [discriminate|].
  destruct toks as [|d r]; [injection H as _ <-; lia|].
  destruct (tok_is c_dot d); [|injection H as _ <-; lia].
  destruct r as [|c r']; [discriminate|]. destruct (st_ident c); [|discriminate].
  specialize (IH _ _ _ _ H). cbn [length]. lia.
Qed.
Lemma st_fp_len toks p rest : st_field_path toks = Some (p, rest) -> (length rest < length toks)%nat.
Proof.
  unfold st_field_path. destruct toks as [|c r]; [discriminate|]. destruct (st_ident c); [|discriminate].
  intros H. apply st_fpr_len in H. cbn [length]. lia.
Qed.

Definition shrinks (inner : list bytes -> option (list seg * bool * list bytes)) : Prop :=
  forall x segs m r, inner x = Some (segs, m, r) -> (length r <= length x)%nat.

Lemma st_segment_len inner toks s m r : shrinks inner -> st_segment inner toks = Some (s, m, r) -> (length r < length toks)%nat.
Proof.
  intros SI. unfold st_segment. destruct toks as [|t r0]; [discriminate|]. cbn [length].
  destruct (tok_is c_star t); [intros H; injection H as _ _ <-; lia|].
  destruct (bytes_eqb t s_deep); [intros H; injection H as _ _ <-; lia|].
  destruct (is_literal t); [intros H; injection H as _ _ <-; lia|].
  destruct (tok_is c_lbrace t); [|discriminate].
  destruct (st_field_path r0) as [[path r1]|] eqn:FP; [|discriminate]. apply st_fp_len in FP.
  destruct r1 as [|e r2]; [discriminate|]. cbn [length] in FP.
  destruct (tok_is c_eq e).
  - destruct (inner r2) as [[[segs multi] r3]|] eqn:IN; [|discriminate]. apply SI in IN.
    destruct r3 as [|c r4]; [discriminate|]. cbn [length] in IN. destruct (tok_is c_rbrace c); [|discriminate].
    intros H. injection H as _ _ <-. lia.
  - destruct (tok_is c_rbrace e); [|discriminate]. intros H. injection H as _ _ <-. lia.
Qed.

Lemma st_segments_shrinks : forall f, shrinks (st_segments f).
Proof.
  induction f as [|f IH]; intros toks segs m r H; cbn [st_segments] in H; [discriminate|].
  destruct (st_segment (st_segments f) toks) as [[[s ms] r0]|] eqn:SG; [|discriminate].
  apply (st_segment_len _ _ _ _ _ IH) in SG.
  destruct ms; [injection H as _ _ <-; lia|].
  destruct r0 as [|t r']; [injection H as _ _ <-; lia|]. cbn [length] in SG.
  destruct (tok_is c_slash t); [|injection H as _ _ <-; cbn [length]; lia].
  destruct (st_segments f r') as [[[more m'] r'']|] eqn:MORE; [|discriminate]. injection H as _ _ <-.
  apply IH in MORE. lia.
Qed.

Lemma st_segment_ext inner1 inner2 toks : (forall x, (length x < length toks)%nat -> inner1 x = inner2 x) ->
  st_segment inner1 toks = st_segment inner2 toks.
Proof.
  intros EXT. unfold st_segment. destruct toks as [|t r0]; [reflexivity|].
  destruct (tok_is c_star t); [reflexivity|]. destruct (bytes_eqb t s_deep); [reflexivity|]. destruct (is_literal t); [reflexivity|].
  destruct (tok_is c_lbrace t); [|reflexivity].
  destruct (st_field_path r0) as [[path r1]|] eqn:FP; [|reflexivity]. apply st_fp_len in FP.
  destruct r1 as [|e r2]; [reflexivity|]. cbn [length] in FP.
  destruct (tok_is c_eq e); [|reflexivity]. rewrite (EXT r2); [reflexivity | cbn [length]; lia].
Qed.

Theorem fuel_irrelevant : forall f1 f2 toks, (length toks < f1)%nat -> (length toks < f2)%nat -> st_segments f1 toks = st_segments f2 toks.
Proof.
  induction f1 as [|f1 IH]; intros f2 toks L1 L2; [lia|]. destruct f2 as [|f2]; [lia|]. cbn [st_segments].
  rewrite (st_segment_ext (st_segments f1) (st_segments f2) toks) by (intros x Lx; apply IH; lia).
  destruct (st_segment (st_segments f2) toks) as [[[s ms] r0]|] eqn:SG; [|reflexivity].
  apply (st_segment_len _ _ _ _ _ (st_segments_shrinks f2)) in SG.
  destruct ms; [reflexivity|]. destruct r0 as [|t r']; [reflexivity|]. cbn [length] in SG.
  destruct (tok_is c_slash t); [|reflexivity]. rewrite (IH f2 r') by lia. reflexivity.
Qed.
