From GB Require Import Model.MDFilter Model.Routers Model.SvcRoute Proofs.MDFilterProofs.
From Coq Require Import Lia.
Open Scope Z_scope.

Lemma cut_slash_app svc m : ~ In 47%N svc -> cut_slash (svc ++ 47%N :: m) = Some (svc, m).
Proof.
  induction svc as [|c svc IH]; intros H; simpl; [reflexivity|].
  destruct (N.eqb_spec c 47) as [->|N]; [exfalso; apply H; left; reflexivity|].
  rewrite IH; [reflexivity|]. intros I; apply H; right; exact I.
Qed.

Lemma cut_slash_none s : ~ In 47%N s -> cut_slash s = None.
Proof.
  induction s as [|c s IH]; intros H; simpl; [reflexivity|].
  destruct (N.eqb_spec c 47) as [->|N]; [exfalso; apply H; left; reflexivity|].
  rewrite IH; [reflexivity|]. intros I; apply H; right; exact I.
Qed.

Lemma cut_slash_sound s a b : cut_slash s = Some (a, b) -> s = a ++ 47%N :: b /\ ~ In 47%N a.
Proof.
  revert a b. induction s as [|c s IH]; intros a b H; simpl in H; [discriminate|].
  destruct (N.eqb_spec c 47) as [->|N].
  - injection H as <- <-. split; [reflexivity | intros []].
  - destruct (cut_slash s) as [[a' b']|] eqn:E; [|discriminate]. injection H as <- <-.
    destruct (IH a' b' eq_refl) as [-> NI]. split; [reflexivity|]. intros [I|I]; [congruence | contradiction].
Qed.

(* parse law: with or without the leading slash; any method string, verbatim *)
Theorem parse_law svc m : ~ In 47%N svc ->
  parse_rpc_name (47%N :: svc ++ 47%N :: m) = Some (svc, m) /\
  (svc <> [] -> parse_rpc_name (svc ++ 47%N :: m) = Some (svc, m)).
Proof.
  intros H. split.
  - unfold parse_rpc_name. simpl. apply cut_slash_app; exact H.
  - intros NE. unfold parse_rpc_name, strip_slash. destruct svc as [|c svc]; [congruence|]. cbn [app].
    destruct (N.eqb_spec c 47) as [->|N]; [exfalso; apply H; left; reflexivity|].
    apply (cut_slash_app (c :: svc) m H).
Qed.

(* whatever is accepted is split at the FIRST slash after the optional leading one; nothing else is accepted *)
Theorem parse_sound name svc m : parse_rpc_name name = Some (svc, m) ->
  (name = 47%N :: svc ++ 47%N :: m \/ name = svc ++ 47%N :: m) /\ ~ In 47%N svc.
Proof.
  unfold parse_rpc_name, strip_slash. intros H.
  destruct name as [|c r]; [discriminate|].
  destruct (N.eqb_spec c 47) as [->|N]; apply cut_slash_sound in H as [-> NI]; auto.
Qed.

Theorem parse_rejects name : ~ In 47%N (strip_slash name) -> parse_rpc_name name = None.
Proof. intros H. unfold parse_rpc_name. apply cut_slash_none. exact H. Qed.

(* the routing result: owner of the service table, method verbatim *)
Theorem route_found k http s svc m r :
  ~ In 47%N svc -> (k = KHttp -> http = s_post) ->
  probe_grpc s svc = Some r ->
  route_name k http s (full_name svc m) = VL [VN 0; VS (sr_target r); VS (obs_svc k svc); VS (full_name svc m)].
Proof.
  intros NI HP PR. unfold route_name.
  assert (P : parse_rpc_name (full_name svc m) = Some (svc, m)) by (apply parse_law; exact NI).
  destruct k; try (rewrite P, PR; reflexivity).
  rewrite (HP eq_refl). rewrite bytes_eqb_refl. rewrite P, PR. reflexivity.
Qed.

Theorem route_unknown k http s svc m :
  ~ In 47%N svc -> (k = KHttp -> http = s_post) ->
  probe_grpc s svc = None ->
  route_name k http s (full_name svc m) = VL [VN (match k with KHttp => 5 | _ => 12 end)].
Proof.
  intros NI HP PR. unfold route_name.
  assert (P : parse_rpc_name (full_name svc m) = Some (svc, m)) by (apply parse_law; exact NI).
  destruct k; try (rewrite P, PR; reflexivity).
  rewrite (HP eq_refl). rewrite bytes_eqb_refl. rewrite P, PR. reflexivity.
Qed.

Theorem route_non_post s name http : bytes_eqb http s_post = false -> route_name KHttp http s name = VL [VN 12; VN 405].
Proof. intros H. unfold route_name. rewrite H. reflexivity. Qed.

Example parse_ex : parse_rpc_name [47;97;46;66;47;77;47;120;37;50;70]%N = Some ([97;46;66], [77;47;120;37;50;70])%N.
Proof. reflexivity. Qed.
