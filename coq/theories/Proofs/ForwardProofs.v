From GB Require Import Model.Forward.
From RecordUpdate Require Import RecordSet.
Import RecordSetNotations.
From Coq Require Import Lia.
Open Scope Z_scope.

(* ---- inversion of [In (l, s') (next sc s)] into one goal per atomic step ---- *)
Ltac inv_in H :=
  repeat match type of H with
  | In _ (_ ++ _) => apply in_app_or in H; destruct H as [H|H]
  | In _ (map _ _) => apply in_map_iff in H; let x := fresh "x" in let E := fresh "E" in destruct H as (x & E & H)
  | In _ [] => destruct H
  | In _ (_ :: _) => destruct H as [H|H]
  | In _ (if ?c then _ else _) => let Q := fresh "Q" in destruct c eqn:Q
  | In _ (match ?x with _ => _ end) => let Q := fresh "Q" in destruct x eqn:Q
  | False => destruct H
  end.

Ltac step_cases H :=
  unfold next, env_steps, main_steps, i2o_steps, o2i_steps,
         call_in_recv, call_in_send, call_open, call_out_send, call_out_recv in H;
  inv_in H;
  repeat match goal with
  | E : (_, _) = (_, _) |- _ => injection E as ? ?
  | E : _ = (_ : label * state) |- _ => progress subst
  end; subst; cbn [fst snd] in *.

Ltac use_pcs :=
  repeat match goal with
  | Q : mp ?s = _ |- _ => rewrite Q in *; clear Q
  | Q : ip ?s = _ |- _ => rewrite Q in *; clear Q
  | Q : op ?s = _ |- _ => rewrite Q in *; clear Q
  end.

Section P.
  Variable sc : script.
  Notation Reach := (Reach sc).
  Notation next := (next sc).

  Lemma reach_ind (P : state -> Prop) :
    P init -> (forall s l s', Reach s -> P s -> In (l, s') (next s) -> P s') -> forall s, Reach s -> P s.
  Proof. intros H0 HS s R. induction R; eauto. Qed.

  (* ---- structural invariant: who is running when ---- *)
  Definition early (m : mpc) : bool :=
    match m with M0 | MOpen | MURecv | MUOpen _ | MUSend _ | MUCloseSend => true | _ => false end.
  Definition pre_o2i (m : mpc) : bool :=
    match m with M0 | MOpen | MURecv | MUOpen _ | MUSend _ | MUCloseSend | MSpawn => true | _ => false end.
  Definition waits (m : mpc) : bool := match m with MDWait _ | MRet _ => true | _ => false end.
  Definition isret (m : mpc) : bool := match m with MRet _ => true | _ => false end.
  Definition pre_created (m : mpc) : bool := match m with M0 | MOpen | MURecv | MUOpen _ => true | _ => false end.
  Definition post_close (m : mpc) : bool := match m with MDCancel _ | MDWait _ | MRet _ => true | _ => false end.
  Definition i_alive (i : ipc) : bool := match i with IIdle | IDone => false | _ => true end.
  Definition o_alive (o : opc) : bool := match o with OIdle | ODone => false | _ => true end.

  Definition Struct (s : state) : Prop :=
    (early (mp s) = true -> ip s = IIdle \/ (mp s = MOpen -> False) /\ False) /\
    (pre_o2i (mp s) = true -> op s = OIdle) /\
    (ip s <> IIdle -> client_streaming sc = true) /\ (mp s = MOpen -> client_streaming sc = true) /\
    (islot s <> None -> ip s = IDone) /\ (oslot s <> None -> op s = ODone) /\
    (waits (mp s) = true -> cancel_called s = true) /\
    (isret (mp s) = true -> i_alive (ip s) = false /\ o_alive (op s) = false) /\
    (pre_created (mp s) = true -> created s = false) /\
    (post_close (mp s) = true -> created s = true -> (1 <= closed s)%nat).

  Lemma struct_inv : forall s, Reach s -> Struct s.
  Proof.
    apply reach_ind.
    - unfold Struct; simpl. repeat split; auto; try discriminate; try congruence.
    - intros s l s' _ (A & B & C & C2 & D & E & F & G & H & I) Hs.
      step_cases Hs; unfold Struct;
        repeat match goal with |- context[match ?x with _ => _ end] => is_var x; destruct x end;
        cbn; use_pcs; cbn in *; repeat split; intros;
        repeat match goal with
        | X : ?a = true, K : ?a = true -> _ |- _ => specialize (K X)
        | K : true = true -> _ |- _ => specialize (K eq_refl)
        | K : ?x = ?x -> _ |- _ => specialize (K eq_refl)
        | Q : Nat.eqb (wg _) 0 = true |- _ => unfold wg in Q; apply Nat.eqb_eq in Q
        end;
        try match goal with |- context[if client_streaming sc then _ else _] => destruct (client_streaming sc) eqn:? end;
        try match goal with H : context[if client_streaming sc then _ else _] |- _ => destruct (client_streaming sc) eqn:? end;
        cbn in *;
        try match goal with Q : (match ip ?s with _ => _ end + match op ?s with _ => _ end)%nat = 0%nat |- _ => destruct (ip s), (op s); cbn in * end;
        try discriminate; try congruence; try tauto; try lia; try (intuition congruence).
  Qed.


  Local Arguments Nat.mul : simpl never.
  Local Arguments Nat.add : simpl never.
  Local Arguments Nat.sub : simpl never.

  (* ---- C02: a variant.  Every step strictly decreases [mu]; so every run is finite, of length <= mu init ---- *)
  Definition mu_i (s : state) : nat :=
    match ip s with
    | IIdle => 2 * length (in_recv sc) + 6
    | IRecvP => 2 * (length (in_recv sc) - in_pos s) + 3
    | ISendP _ => 2 * (length (in_recv sc) - in_pos s) + 4
    | IPut _ => 2 | IDone => 0
    end.
  Definition mu_o (s : state) : nat :=
    match op s with
    | OIdle => 2 * length (out_recv sc) + 12
    | ORecvP _ => 2 * (length (out_recv sc) - out_pos s) + 3
    | OSendP _ => 2 * (length (out_recv sc) - out_pos s) + 4
    | OURecv1 => 9 | OURecv2 _ => 7 | OUSend _ => 5 | OPut _ => 2 | ODone => 0
    end.
  Definition mu_m (s : state) : nat :=
    match mp s with
    | M0 => 20 | MOpen => 19 | MURecv => 19 | MUOpen _ => 18 | MUSend _ => 17 | MUCloseSend => 16 | MSpawn => 15
    | MSelect => 14 | MDClose _ => 13 | MDCancel _ => 12 | MDWait _ => 11 | MRet _ => 10
    end.
  Definition mu_e (s : state) : nat :=
    if cancel_called s then 0 else match fired s with CtxNone => 1 | _ => 0 end.
  Definition mu (s : state) : nat :=
    (mu_e s + mu_m s + mu_i s + mu_o s + match islot s with Some _ => 1 | None => 0 end)%nat.

  Theorem step_decreases s l s' : Struct s -> In (l, s') (next s) -> (mu s' < mu s)%nat.
  Proof.
    intros (A & B & _) Hs. step_cases Hs;
      repeat match goal with |- context[match ?x with _ => _ end] => is_var x; destruct x end;
      repeat match goal with
      | Q : nth_error ?l ?p = Some _ |- _ => assert (p < length l)%nat by (apply nth_error_Some; congruence); clear Q
      end;
      unfold mu, mu_e, mu_m, mu_i, mu_o; cbn; use_pcs; cbn in A, B;
      try (destruct (A eq_refl) as [A'|[_ []]]; rewrite A' in *); try (rewrite (B eq_refl) in * ); cbn;
      repeat match goal with
      | Q : cancel_called _ = _ |- _ => rewrite Q
      | Q : fired _ = _ |- _ => rewrite Q
      | Q : islot _ = _ |- _ => rewrite Q
      | |- context[if client_streaming sc then _ else _] => destruct (client_streaming sc)
      | |- context[if server_streaming sc then _ else _] => destruct (server_streaming sc)
      | |- context[match cancel_called ?s with _ => _ end] => destruct (cancel_called s)
      | |- context[match fired ?s with _ => _ end] => destruct (fired s)
      | |- context[match islot ?s with _ => _ end] => destruct (islot s)
      | |- context[match ctx_kind sc with _ => _ end] => destruct (ctx_kind sc)
      end; cbn; try lia.
  Qed.

  (* a run of n steps from s needs n <= mu s *)
  Inductive Run : state -> nat -> state -> Prop :=
  | Run0 : forall s, Run s 0 s
  | RunS : forall s l s' n s'', In (l, s') (next s) -> Run s' n s'' -> Run s (S n) s''.
  Theorem runs_bounded s n s' : Reach s -> Run s n s' -> (n + mu s' <= mu s)%nat.
  Proof.
    intros R H. induction H as [|s l s1 n s2 Hs _ IH]; [lia|].
    pose proof (step_decreases _ _ _ (struct_inv s R) Hs). specialize (IH (RS sc _ _ _ R Hs)). lia.
  Qed.


  Section DataInv.
  (* ---- C01: data invariants ---- *)
  Lemma firstn_S_nth {A} (l : list A) p x : nth_error l p = Some x -> firstn (S p) l = firstn p l ++ [x].
  Proof.
    revert p. induction l as [|a l IH]; intros [|p] H; simpl in *; try discriminate.
    - injection H as ->. reflexivity.
    - f_equal. apply IH, H.
  Qed.

  Lemma in_msgs_app l rest : in_msgs (map IMsg l ++ rest) = l ++ in_msgs rest.
  Proof. induction l; simpl; [reflexivity | f_equal; assumption]. Qed.

  Lemma prefix_of_firstn_in p l x : firstn p l = map IMsg x -> firstn (length x) (in_msgs l) = x.
  Proof.
    intros H. rewrite <- (firstn_skipn p l), H, in_msgs_app.
    rewrite firstn_app, Nat.sub_diag, firstn_all. simpl. apply app_nil_r.
  Qed.

  Definition items (l : list (nat * bool * outitem)) : list outitem := map snd l.
  Lemma out_msgs_app l rest (tr : list (nat * bool * outitem)) :
    items tr = map OMsg l ++ rest -> exists k, firstn k (out_msgs tr) = l.
  Proof.
    revert tr. induction l as [|m l IH]; intros tr H; [exists 0%nat; reflexivity|].
    destruct tr as [|[[n b] it] tr]; [discriminate|]. simpl in H. injection H as -> H.
    destruct (IH tr H) as [k Hk]. exists (S k). simpl. f_equal. exact Hk.
  Qed.
  Lemma items_firstn p l : items (firstn p l) = firstn p (items l).
  Proof. unfold items. symmetry. apply firstn_map. Qed.

  Lemma items_nth tr p n b x : nth_error tr p = Some (n, b, x) -> nth_error (items tr) p = Some x.
  Proof. intros H. unfold items. rewrite nth_error_map, H. reflexivity. Qed.
  Lemma prefix_of_firstn_out p tr x : firstn p (items tr) = map OMsg x -> exists k, x = firstn k (out_msgs tr).
  Proof.
    intros H. destruct (out_msgs_app x (skipn p (items tr)) tr) as [k Hk].
    - rewrite <- H. symmetry. apply firstn_skipn.
    - exists k. symmetry. exact Hk.
  Qed.
  Lemma prefix_in_ex p l x : firstn p l = map IMsg x -> exists k, x = firstn k (in_msgs l).
  Proof. intros H. exists (length x). symmetry. eapply prefix_of_firstn_in; eauto. Qed.
  Lemma firstn_single {A} p (l : list A) x : firstn p l = [x] -> exists rest, l = x :: rest.
  Proof. destruct l as [|a l]; destruct p; simpl; try discriminate. intros [= -> _]. eauto. Qed.
  Lemma first_out_msg tr m rest : items tr = OMsg m :: rest -> exists k, [m] = firstn k (out_msgs tr).
  Proof. intros H. destruct (out_msgs_app [m] rest tr H) as [k Hk]. exists k. symmetry. exact Hk. Qed.

  Definition pend_i (s : state) : list Z :=
    match ip s with ISendP m => [m] | IIdle => match mp s with MUOpen m | MUSend m => [m] | _ => [] end | _ => [] end.
  Definition pre_send (m : mpc) : bool := match m with M0 | MOpen | MURecv | MUOpen _ | MUSend _ => true | _ => false end.
  Definition live_i (s : state) : bool :=
    match ip s with IRecvP | ISendP _ => true | IIdle => pre_send (mp s) | _ => false end.
  Definition pend_o (s : state) : list Z :=
    match op s with OSendP m | OURecv2 m | OUSend m => [m] | _ => [] end.
  Definition live_o (s : state) : bool :=
    match op s with OIdle | ORecvP _ | OSendP _ | OURecv1 | OURecv2 _ => true | _ => false end.
  Definition unary_pre (o : opc) : bool := match o with OIdle | OURecv1 | OURecv2 _ | OUSend _ => true | _ => false end.
  Definition stream_pc (o : opc) : bool := match o with ORecvP _ | OSendP _ => true | _ => false end.

  Local Arguments firstn : simpl never.
  Local Arguments map : simpl never.
  Local Arguments app : simpl never.
  Local Arguments length : simpl never.

  Definition Data (s : state) : Prop :=
    (live_i s = true -> firstn (in_pos s) (in_recv sc) = map IMsg (sent_out s ++ pend_i s)) /\
    (exists k, sent_out s = firstn k (in_msgs (in_recv sc))) /\
    (ip s = IIdle -> pre_send (mp s) = true -> sent_out s = []) /\
    (ip s = IIdle -> (length (sent_out s) <= 1)%nat) /\
    (live_o s = true -> op s <> OIdle ->
       match op s with
       | OURecv2 _ => firstn (out_pos s) (items (out_recv sc)) = map OMsg (pend_o s)
       | _ => firstn (out_pos s) (items (out_recv sc)) = map OMsg (sent_in s ++ pend_o s)
       end) /\
    (exists k, sent_in s = firstn k (out_msgs (out_recv sc))) /\
    (unary_pre (op s) = true -> sent_in s = []) /\
    (match op s with OUSend m => exists rest, items (out_recv sc) = OMsg m :: rest | _ => True end) /\
    (server_streaming sc = false -> stream_pc (op s) = false /\ (length (sent_in s) <= 1)%nat) /\
    (server_streaming sc = true -> match op s with OURecv1 | OURecv2 _ | OUSend _ => False | _ => True end) /\
    (op s = OIdle -> out_pos s = 0%nat).

  Lemma data_inv : forall s, Reach s -> Data s.
  Proof.
    intros s R. pose proof R as R0. revert s R R0. 
    assert (G : forall s, Reach s -> Struct s /\ Data s).
    2:{ intros s R _. apply G, R. }
    apply reach_ind.
    - split; [apply struct_inv; constructor|]. unfold Data; cbn. repeat split; intros; auto; try discriminate; try (exists 0%nat; reflexivity); try lia.
    - intros s l s' R [St (D1 & D2 & D3 & D4 & D5 & D6 & D7 & D8 & D9 & D10 & D11)] Hs.
      split; [apply struct_inv; econstructor; eauto|].
      destruct St as (A & B & C & _).
      step_cases Hs;
        repeat match goal with |- context[match ?x with _ => _ end] => is_var x; destruct x end;
        unfold Data, live_i, live_o, pend_i, pend_o in *; cbn; use_pcs; cbn in *;
        repeat match goal with
        | K : true = true -> _ |- _ => specialize (K eq_refl)
        end;
        try match goal with K : _ \/ (_ -> False) /\ False |- _ => destruct K as [K|[_ []]] end;
        try match goal with K : ip ?s = IIdle |- _ => rewrite K in * end;
        try match goal with K : op ?s = OIdle |- _ => rewrite K in * end;
        try match goal with |- context[if server_streaming sc then _ else _] => destruct (server_streaming sc) eqn:? end;
        try match goal with |- context[if client_streaming sc then _ else _] => destruct (client_streaming sc) eqn:? end;
        cbn in *;
        repeat match goal with
        | K : true = true -> _ |- _ => specialize (K eq_refl)
        | K : ?x = ?x -> _ |- _ => specialize (K eq_refl)
        | K : ?a <> ?b -> _ |- _ => let N := fresh in assert (N : a <> b) by discriminate; specialize (K N); clear N
        | K : _ /\ _ |- _ => destruct K
        end;
        repeat split; intros; auto; try discriminate; try tauto; try congruence; try lia;
        repeat match goal with
        | K : ?a = ?b -> _, H : ?a = ?b |- _ => specialize (K H)
        | K : _ /\ _ |- _ => destruct K
        | K : exists _, _ |- _ => destruct K
        | K : op ?s = OIdle -> out_pos ?s = 0%nat, B : op ?s = OIdle |- _ => rewrite (K B) in *; clear K
        | K : out_pos ?s = 0%nat |- _ => rewrite K in *; clear K
        end;
        try discriminate; try congruence;
        rewrite ?app_nil_r in *;
        repeat match goal with
        | K : ?x = [] |- _ => rewrite K in *; clear K
        end;
        cbn [map app length] in *;
        try reflexivity; try lia; try congruence;
        eauto using prefix_in_ex, prefix_of_firstn_out, first_out_msg, firstn_single;
        repeat match goal with
        | K : firstn ?p ?l = _, Q : nth_error ?l ?p = Some _ |- context[firstn (S ?p) ?l] => rewrite (firstn_S_nth _ _ _ Q), K
        | K : firstn ?p (items ?l) = _, Q : nth_error ?l ?p = Some _ |- context[firstn (S ?p) (items ?l)] => rewrite (firstn_S_nth _ _ _ (items_nth _ _ _ _ _ Q)), K
        end;
        rewrite ?map_app, ?app_nil_r, <- ?app_assoc; cbn [map app length] in *;
        try reflexivity; try lia; try congruence.
  Qed.

  End DataInv.

  (* ---- C02: cleanup at return ---- *)
  Theorem final_clean s r : Reach s -> mp s = MRet r ->
    cancel_called s = true /\ i_alive (ip s) = false /\ o_alive (op s) = false /\ (created s = true -> (1 <= closed s)%nat).
  Proof.
    intros R E. destruct (struct_inv s R) as (_ & _ & _ & _ & _ & _ & F & G & _ & I).
    rewrite E in *. cbn in *. destruct (G eq_refl). auto.
  Qed.

  (* ---- C02/C12: where a status can come from ---- *)
  Definition script_codes : list Z :=
    flat_map (fun i => match i with IErr e => [e] | _ => [] end) (in_recv sc) ++
    (match in_send_fail sc with Some (_, e) => [e] | None => [] end) ++
    (match open_res sc with OpenErr e => [e] | _ => [] end) ++
    (match out_send_fail sc with Some (_, ESt e) => [e] | _ => [] end) ++
    flat_map (fun x => match snd x with OErr e => [e] | _ => [] end) (out_recv sc).

  (* a status in flight is the target's / an adapter's (scripted), Unavailable for an unexpected EOF, Canceled (closed
     stream or cancelled context), or DeadlineExceeded - the latter ONLY if the deadline really fired *)
  Definition just (s : state) (e : Z) : Prop :=
    In e script_codes \/ e = 14 \/ e = 1 \/ (e = 4 /\ fired s = CtxDeadline).
  Definition just_f (s : state) (f : ferr) : Prop :=
    match f with FIn (ESt e) | FOut (ESt e) => just s e | _ => True end.
  Definition just_r (s : state) (r : res) : Prop := match r with RErr e => just s e | RNil => True end.

  Definition Src (s : state) : Prop :=
    (match ip s with IPut f => just_f s f | _ => True end) /\
    (match op s with OPut f => just_f s f | _ => True end) /\
    (match islot s with Some f => just_f s f | None => True end) /\
    (match oslot s with Some f => just_f s f | None => True end) /\
    (match mp s with MDClose r | MDCancel r | MDWait r | MRet r => just_r s r | _ => True end) /\
    (match op s with OPut f => is_eof_ferr f = false | _ => True end) /\
    (match oslot s with Some f => is_eof_ferr f = false | None => True end).

  Lemma in_recv_code p e : nth_error (in_recv sc) p = Some (IErr e) -> In e script_codes.
  Proof.
    intros H. unfold script_codes. apply in_or_app. left. apply in_flat_map. exists (IErr e).
    split; [eapply nth_error_In; eauto | left; reflexivity].
  Qed.
  Lemma out_recv_code p n b e : nth_error (out_recv sc) p = Some (n, b, OErr e) -> In e script_codes.
  Proof.
    intros H. unfold script_codes. do 4 (apply in_or_app; right). apply in_flat_map. exists (n, b, OErr e).
    split; [eapply nth_error_In; eauto | left; reflexivity].
  Qed.
  Lemma in_send_code k e : in_send_fail sc = Some (k, e) -> In e script_codes.
  Proof. intros H. unfold script_codes. apply in_or_app; right. apply in_or_app; left. rewrite H. left; reflexivity. Qed.
  Lemma open_code e : open_res sc = OpenErr e -> In e script_codes.
  Proof. intros H. unfold script_codes. do 2 (apply in_or_app; right). apply in_or_app; left. rewrite H. left; reflexivity. Qed.
  Lemma out_send_code k e : out_send_fail sc = Some (k, ESt e) -> In e script_codes.
  Proof. intros H. unfold script_codes. do 3 (apply in_or_app; right). apply in_or_app; left. rewrite H. left; reflexivity. Qed.
  Lemma ctx_code_just s : just s (ctx_code s).
  Proof. unfold just, ctx_code. destruct (fired s); auto. Qed.

  Lemma src_inv : forall s, Reach s -> Src s.
  Proof.
    apply reach_ind.
    - unfold Src; cbn; repeat split; auto.
    - intros s l s' _ (S1 & S2 & S3 & S4 & S5 & S6 & S7) Hs.
      step_cases Hs;
        repeat match goal with |- context[match ?x with _ => _ end] => is_var x; destruct x end;
        unfold Src in *; cbn; use_pcs; cbn in *;
        repeat split; try assumption; try exact I;
        try (unfold just_f, just_r, just in *; cbn;
             match goal with
             | Q : fired ?s = CtxNone |- context[match ?x with _ => _ end] =>
                 destruct x; try exact I;
                 repeat match goal with f : ferr |- _ => destruct f as [[|?]|[|?]|] | r : res |- _ => destruct r end;
                 cbn in *; try exact I; rewrite ?Q in *; intuition congruence
             end);
        try (match goal with |- context[match ?x with _ => _ end] => destruct x eqn:? end; cbn in *; try exact I; try assumption);
        unfold just_f, just_r in *; cbn in *;
        try assumption; try exact I;
        try (unfold just; eauto 6 using ctx_code_just, in_recv_code, out_recv_code, in_send_code, open_code, out_send_code);
        try apply ctx_code_just.
      all: cbn in *; try assumption; try exact I; try apply ctx_code_just;
           try (fold (just s (ctx_code s)); apply ctx_code_just).
      all: try (repeat match goal with |- match ?x with _ => _ end => destruct x as [| |] || destruct x end; cbn in *; try exact I; try assumption;
                unfold just in *; cbn in *; intuition congruence).
      all: unfold just_f, just_r, just in *; cbn in *; try assumption; try discriminate.
      all: try (repeat match goal with f : ferr |- _ => destruct f as [[|?]|[|?]|] end; cbn in *; try exact I; try assumption; try discriminate; intuition congruence).
      all: try (match goal with H : (if ?c then _ else _) = _ |- _ => destruct c; discriminate H end).
      all: try exact S1; try exact S2; try exact S3; try exact S4; try exact S5; try exact S6; try exact S7.
  Qed.


  (* the status a call returns has a source; DeadlineExceeded in particular only if the deadline really fired
     (or the target / an adapter itself reported it) *)
  Theorem result_source s e : Reach s -> mp s = MRet (RErr e) ->
    In e script_codes \/ e = 14 \/ e = 1 \/ (e = 4 /\ fired s = CtxDeadline).
  Proof. intros R E. destruct (src_inv s R) as (_ & _ & _ & _ & S5 & _). rewrite E in S5. exact S5. Qed.

  Theorem deadline_exceeded_means_deadline s : Reach s -> mp s = MRet (RErr 4) -> ~ In 4 script_codes -> fired s = CtxDeadline.
  Proof. intros R E N. destruct (result_source s 4 R E) as [H|[H|[H|[_ H]]]]; try discriminate; try contradiction. exact H. Qed.

  (* ---- C02: progress.  With context-aware adapters, once the context is done or a pump has reported, some thread can move ---- *)
  Definition thread_steps (s : state) := main_steps sc s ++ i2o_steps sc s ++ o2i_steps sc s.

  Lemma nonempty_map {A B} (f : A -> B) l : l <> [] -> map f l <> [].
  Proof. destruct l; simpl; congruence. Qed.
  Lemma nonempty_app_r {A} (a b : list A) : b <> [] -> a ++ b <> [].
  Proof. destruct a; simpl; auto; congruence. Qed.
  Lemma nonempty_app_l {A} (a b : list A) : a <> [] -> a ++ b <> [].
  Proof. destruct a; simpl; auto; congruence. Qed.

  Hypothesis aware : in_aware sc = true /\ out_aware sc = true.

  Lemma in_recv_enabled s : ctx_done s = true -> call_in_recv sc s <> [].
  Proof. intros D. unfold call_in_recv. destruct aware as [-> _]. rewrite D. apply nonempty_app_r. discriminate. Qed.
  Lemma in_send_enabled m s : call_in_send sc m s <> [].
  Proof. unfold call_in_send. apply nonempty_app_l. destruct (in_send_fail sc) as [[k e]|]; [destruct (k <=? n_in_sends s)%nat|]; discriminate. Qed.
  Lemma open_enabled s : ctx_done s = true -> call_open sc s <> [].
  Proof. intros D. unfold call_open. destruct aware as [_ ->]. rewrite D. apply nonempty_app_r. discriminate. Qed.
  Lemma out_send_enabled m s : call_out_send sc m s <> [].
  Proof.
    unfold call_out_send. destruct (0 <? closed s)%nat; [discriminate|]. apply nonempty_app_l.
    destruct (out_send_fail sc) as [[k e]|]; [destruct (k <=? n_out_sends s)%nat|]; discriminate.
  Qed.
  Lemma out_recv_enabled s : ctx_done s = true -> call_out_recv sc s <> [].
  Proof.
    intros D. unfold call_out_recv. destruct (0 <? closed s)%nat; [discriminate|].
    destruct aware as [_ ->]. rewrite D. apply nonempty_app_r. discriminate.
  Qed.

  Lemma i2o_enabled s : Struct s -> ctx_done s = true -> i_alive (ip s) = true -> i2o_steps sc s <> [].
  Proof.
    intros (_ & _ & _ & _ & D & _) C A. unfold i2o_steps. apply nonempty_map.
    destruct (ip s) eqn:E; try discriminate.
    - apply nonempty_map, in_recv_enabled, C.
    - apply nonempty_map, out_send_enabled.
    - destruct (islot s) eqn:S; [|discriminate]. assert (X : IPut f = IDone) by (apply D; discriminate). discriminate.
  Qed.

  Lemma o2i_enabled s : Struct s -> ctx_done s = true -> o_alive (op s) = true -> o2i_steps sc s <> [].
  Proof.
    intros (_ & _ & _ & _ & _ & D & _) C A. unfold o2i_steps. apply nonempty_map.
    destruct (op s) eqn:E; try discriminate;
      try (apply nonempty_map; first [apply out_recv_enabled, C | apply in_send_enabled]).
    destruct (oslot s) eqn:S; [|discriminate]. assert (X : OPut f = ODone) by (apply D; discriminate). discriminate.
  Qed.

  Theorem progress s : Struct s -> final s = false ->
    (ctx_done s = true \/ islot s <> None \/ oslot s <> None) -> thread_steps s <> [].
  Proof.
    intros St NF Ev. unfold thread_steps.
    destruct (mp s) eqn:E; try (unfold final in NF; rewrite E in NF; discriminate);
      try (apply nonempty_app_l; unfold main_steps; rewrite E; apply nonempty_map; discriminate).
    - (* MOpen *) destruct St as (A & B & _ & _ & D & D2 & _). rewrite E in *. cbn in *.
      destruct Ev as [C|[S|S]].
      + apply nonempty_app_l. unfold main_steps. rewrite E. apply nonempty_map, nonempty_map, open_enabled, C.
      + exfalso. apply D in S. destruct (A eq_refl) as [X|[_ []]]. congruence.
      + exfalso. apply D2 in S. rewrite (B eq_refl) in S. discriminate.
    - (* MURecv *) destruct St as (A & B & _ & _ & D & D2 & _). rewrite E in *. cbn in *.
      destruct Ev as [C|[S|S]].
      + apply nonempty_app_l. unfold main_steps. rewrite E. apply nonempty_map, nonempty_map, in_recv_enabled, C.
      + exfalso. apply D in S. destruct (A eq_refl) as [X|[_ []]]. congruence.
      + exfalso. apply D2 in S. rewrite (B eq_refl) in S. discriminate.
    - (* MUOpen *) destruct St as (A & B & _ & _ & D & D2 & _). rewrite E in *. cbn in *.
      destruct Ev as [C|[S|S]].
      + apply nonempty_app_l. unfold main_steps. rewrite E. apply nonempty_map, nonempty_map, open_enabled, C.
      + exfalso. apply D in S. destruct (A eq_refl) as [X|[_ []]]. congruence.
      + exfalso. apply D2 in S. rewrite (B eq_refl) in S. discriminate.
    - (* MUSend *) apply nonempty_app_l. unfold main_steps. rewrite E. apply nonempty_map, nonempty_map, out_send_enabled.
    - (* MSelect *) apply nonempty_app_l. unfold main_steps. rewrite E. apply nonempty_map.
      destruct Ev as [C|[S|S]].
      + rewrite C. discriminate.
      + apply nonempty_app_r, nonempty_app_l. destruct (islot s); [discriminate | congruence].
      + apply nonempty_app_r, nonempty_app_r. destruct (oslot s); [discriminate | congruence].
    - (* MDWait *) pose proof St as (_ & _ & _ & _ & _ & _ & F & _). rewrite E in F. cbn in F.
      assert (C : ctx_done s = true) by (unfold ctx_done; rewrite (F eq_refl); reflexivity).
      destruct (i_alive (ip s)) eqn:IA.
      { apply nonempty_app_r, nonempty_app_l, i2o_enabled; auto. }
      destruct (o_alive (op s)) eqn:OA.
      { apply nonempty_app_r, nonempty_app_r, o2i_enabled; auto. }
      apply nonempty_app_l. unfold main_steps. rewrite E.
      assert (W : wg s = 0%nat) by (unfold wg; destruct (ip s), (op s); cbn in *; try discriminate; reflexivity).
      rewrite W. discriminate.
  Qed.


  (* ---- user-facing corollaries ---- *)
  Theorem requests_prefix s : Reach s -> exists k, sent_out s = firstn k (in_msgs (in_recv sc)).
  Proof. intros R. destruct (data_inv s R) as (_ & H & _). exact H. Qed.

  Theorem responses_prefix s : Reach s -> exists k, sent_in s = firstn k (out_msgs (out_recv sc)).
  Proof. intros R. destruct (data_inv s R) as (_ & _ & _ & _ & _ & H & _). exact H. Qed.

  Theorem unary_request_bound s : Reach s -> client_streaming sc = false -> (length (sent_out s) <= 1)%nat.
  Proof.
    intros R H. destruct (data_inv s R) as (_ & _ & _ & D4 & _). destruct (struct_inv s R) as (_ & _ & C & _).
    apply D4. destruct (ip s) eqn:E; try reflexivity; exfalso;
      (assert (X : client_streaming sc = true) by (apply C; discriminate)); congruence.
  Qed.

  Theorem unary_response_bound s : Reach s -> server_streaming sc = false -> (length (sent_in s) <= 1)%nat.
  Proof. intros R H. destruct (data_inv s R) as (_ & _ & _ & _ & _ & _ & _ & _ & D9 & _). apply D9, H. Qed.

  (* after a terminating event no reachable non-final state is stuck, and all runs are finite: every maximal run ends in MRet *)
  Theorem no_deadlock_after_event s : Reach s -> final s = false ->
    (ctx_done s = true \/ islot s <> None \/ oslot s <> None) -> exists l s', In (l, s') (next s).
  Proof.
    intros R NF Ev. pose proof (progress s (struct_inv s R) NF Ev) as P.
    unfold thread_steps in P. unfold Forward.next.
    destruct (main_steps sc s ++ i2o_steps sc s ++ o2i_steps sc s) as [|[l s'] r] eqn:E; [congruence|].
    exists l, s'. apply in_or_app. right. left; reflexivity.
  Qed.
End P.

(* F1: with an incoming adapter that ignores the context (proxy.go before the repair) an idle client keeps the call
   from ever returning although the target has ended it: a reachable, non-final state without any enabled step *)
Definition sc_idle_unaware : script :=
  {| client_streaming := true; server_streaming := true; in_recv := []; in_send_fail := None; open_res := OpenOk;
     out_send_fail := None; out_recv := [(0%nat, false, OErr 7)]; ctx_kind := CtxNone; in_aware := false; out_aware := true |}.

Theorem idle_client_unaware_stuck : exists s,
  run_sched sc_idle_unaware (repeat 0%nat 8) init = Some s /\ mp s = MDWait (RErr 7) /\ next sc_idle_unaware s = [].
Proof. eexists. split; [vm_compute; reflexivity|]. split; reflexivity. Qed.

Lemma run_sched_reach sc ks : forall s s', Reach sc s -> run_sched sc ks s = Some s' -> Reach sc s'.
Proof.
  induction ks as [|k ks IH]; intros s s' R H; simpl in H; [injection H as <-; exact R|].
  destruct (nth_error (next sc s) k) as [[l s1]|] eqn:E; [|discriminate].
  apply (IH s1 s'); [|exact H]. econstructor; [exact R|]. eapply nth_error_In; eauto.
Qed.

(* the same script with a context-aware incoming adapter: the idle client learns of the target's status *)
Definition sc_idle_aware : script :=
  {| client_streaming := true; server_streaming := true; in_recv := []; in_send_fail := None; open_res := OpenOk;
     out_send_fail := None; out_recv := [(0%nat, false, OErr 7)]; ctx_kind := CtxNone; in_aware := true; out_aware := true |}.
Example idle_client_aware_returns : exists s,
  run_sched sc_idle_aware (repeat 0%nat 11) init = Some s /\ mp s = MRet (RErr 7) /\ sent_in s = [] /\ (1 <= closed s)%nat.
Proof. eexists. split; [vm_compute; reflexivity|]. repeat split; vm_compute; auto. Qed.
