From GB Require Import Model.Timeout.
From Coq Require Import Lia.
Open Scope Z_scope.

Lemma unit_table_canonical : Extracted.timeout_units = spec_units.
Proof. reflexivity. Qed.

Lemma guard_canonical : Extracted.timeout_min_size = 2%nat /\ Extracted.timeout_max_size = 9%nat.
Proof. split; reflexivity. Qed.

Lemma rev_cons_split {A} (s : list A) (u : A) (r : list A) :
  rev s = u :: r -> s = rev r ++ [u].
Proof.
  intros H. rewrite <- (rev_involutive s), H. reflexivity.
Qed.

Lemma last_app1 {A} (l : list A) (u d : A) : last (l ++ [u]) d = u.
Proof. induction l as [|x l IH]; [reflexivity|]. simpl. destruct (l ++ [u]) eqn:E; [destruct l; discriminate|]. exact IH. Qed.

Lemma removelast_app1 {A} (l : list A) (u : A) : removelast (l ++ [u]) = l.
Proof. rewrite removelast_app by discriminate. simpl. apply app_nil_r. Qed.

Lemma digits_val_bounds : forall ds acc,
  all_digits ds = true -> 0 <= acc ->
  acc * 10 ^ Z.of_nat (length ds) <= digits_val acc ds < (acc + 1) * 10 ^ Z.of_nat (length ds).
Proof.
  induction ds as [|c r IH]; intros acc Hd Hacc.
  - simpl. lia.
  - simpl in Hd. apply andb_prop in Hd as [Hc Hr].
    unfold is_digit in Hc. apply andb_prop in Hc as [H1 H2].
    apply N.leb_le in H1, H2.
    cbn [digits_val length].
    specialize (IH (acc * 10 + (Z.of_N c - 48)) Hr ltac:(lia)).
    rewrite Nat2Z.inj_succ, Z.pow_succ_r by lia.
    assert (0 < 10 ^ Z.of_nat (length r)) by (apply Z.pow_pos_nonneg; lia).
    nia.
Qed.

Lemma digits_val_range ds :
  all_digits ds = true -> (length ds <= 8)%nat -> 0 <= digits_val 0 ds < 100000000.
Proof.
  intros Hd Hl.
  pose proof (digits_val_bounds ds 0 Hd ltac:(lia)) as B.
  assert (10 ^ Z.of_nat (length ds) <= 10 ^ 8) by (apply Z.pow_le_mono_r; lia).
  change (10 ^ 8) with 100000000 in *. lia.
Qed.

Lemma spec_unit_cases u k : assoc_N u spec_units = Some k ->
  k = 3600000000000 \/ k = 60000000000 \/ k = 1000000000 \/ k = 1000000 \/ k = 1000 \/ k = 1.
Proof.
  unfold spec_units; cbn [assoc_N].
  repeat (destruct (N.eqb u _); [intros [= <-]; tauto|]). discriminate.
Qed.

(* the code's decoder (after the F12 repair) is the grammar *)
Lemma decode_is_spec s : decode_timeout s = spec_decode s.
Proof.
  unfold decode_timeout, decode_timeout_with, spec_decode, unit_of.
  rewrite unit_table_canonical. destruct guard_canonical as [-> ->].
  destruct (rev s) as [|u rds] eqn:E.
  - apply (f_equal (@rev N)) in E. rewrite rev_involutive in E. subst s. reflexivity.
  - apply rev_cons_split in E. subst s. set (ds := rev rds).
    rewrite last_app1, removelast_app1, app_length. cbn [length].
    destruct (assoc_N u spec_units) as [k|] eqn:Ek.
    2:{ destruct (_ || _); reflexivity. }
    destruct (Nat.ltb_spec (length ds + 1) 2) as [Hlo|Hlo].
    { destruct ds; [|cbn [length] in Hlo; lia]. simpl. reflexivity. }
    destruct (Nat.ltb_spec 9 (length ds + 1)) as [Hhi|Hhi].
    { simpl. destruct (Nat.leb_spec (length ds) 8); [lia|]. rewrite andb_false_r. reflexivity. }
    cbn [orb].
    destruct (Nat.leb_spec 1 (length ds)); [|lia].
    destruct (Nat.leb_spec (length ds) 8); [|lia].
    cbn [andb]. unfold parse_uint.
    destruct ds as [|d0 dr] eqn:Eds; [cbn [length] in *; lia|]. rewrite <- Eds in *.
    destruct (all_digits ds) eqn:Hd; [|reflexivity].
    pose proof (digits_val_range ds Hd ltac:(lia)) as R.
    assert (max_hours = 2562047) by reflexivity.
    apply spec_unit_cases in Ek.
    destruct (Z.eqb_spec k hour_ns) as [Hk|Hk]; cbn [andb].
    + subst k. unfold hour_ns in *. rewrite Z.gtb_ltb.
      destruct (Z.ltb_spec max_hours (digits_val 0 ds)) as [Ht|Ht]; f_equal; unfold max_int64; lia.
    + f_equal. unfold hour_ns, max_int64 in *. lia.
Qed.

(* the grammar, relationally: this is the statement of the property *)
Definition grammar (s : bytes) (d : Z) : Prop :=
  exists ds u k, s = ds ++ [u] /\ (1 <= length ds <= 8)%nat /\ all_digits ds = true /\
                 assoc_N u spec_units = Some k /\ d = Z.min (digits_val 0 ds * k) max_int64.

Lemma spec_decode_grammar s d : spec_decode s = Some d <-> grammar s d.
Proof.
  unfold spec_decode, grammar. split.
  - destruct (rev s) as [|u rds] eqn:E; [discriminate|].
    apply rev_cons_split in E.
    destruct (assoc_N u spec_units) as [k|] eqn:Ek; [|discriminate].
    destruct (Nat.leb_spec 1 (length (rev rds))); [|discriminate].
    destruct (Nat.leb_spec (length (rev rds)) 8); [|discriminate].
    cbn [andb]. destruct (all_digits (rev rds)) eqn:Hd; [|discriminate].
    intros [= <-]. exists (rev rds), u, k. repeat split; auto; lia.
  - intros (ds & u & k & -> & [H1 H2] & Hd & Hk & ->).
    rewrite rev_app_distr. cbn [rev app]. rewrite rev_involutive, Hk.
    destruct (Nat.leb_spec 1 (length ds)); [|lia].
    destruct (Nat.leb_spec (length ds) 8); [|lia]. cbn [andb]. rewrite Hd. reflexivity.
Qed.

Theorem decode_spec s d : decode_timeout s = Some d <-> grammar s d.
Proof. rewrite decode_is_spec. apply spec_decode_grammar. Qed.

(* accepted values are representable, non-negative durations *)
Theorem decode_range s d : decode_timeout s = Some d -> 0 <= d <= max_int64.
Proof.
  rewrite decode_spec. intros (ds & u & k & _ & [_ Hl] & Hd & Hk & ->).
  pose proof (digits_val_range ds Hd Hl). apply spec_unit_cases in Hk. unfold max_int64. lia.
Qed.

(* exactness below saturation: every unit but H, and H up to 2562047 hours *)
Theorem decode_exact s ds u k :
  s = ds ++ [u] -> (1 <= length ds <= 8)%nat -> all_digits ds = true -> assoc_N u spec_units = Some k ->
  digits_val 0 ds * k <= max_int64 -> decode_timeout s = Some (digits_val 0 ds * k).
Proof.
  intros -> Hl Hd Hk Hle. apply decode_spec. exists ds, u, k. repeat split; auto; try lia.
Qed.

(* F12: with ParseInt (the code before the repair) a signed value is mis-read as a negative duration *)
Theorem decode_old_refuted : exists s d, decode_timeout_old s = Some d /\ ~ grammar s d.
Proof.
  exists [45; 53; 83]%N, (-5000000000). split; [vm_compute; reflexivity|].
  intros (ds & u & k & Hs & Hl & Hd & Hk & Hv).
  pose proof (digits_val_range ds Hd ltac:(lia)). apply spec_unit_cases in Hk. unfold max_int64 in Hv. lia.
Qed.

(* non-vacuity *)
Example decode_ex1 : decode_timeout [49; 48; 83]%N = Some 10000000000. Proof. reflexivity. Qed.
Example decode_ex2 : decode_timeout [53; 49; 50; 52; 48; 57; 52; 72]%N = Some max_int64. Proof. reflexivity. Qed.
Example decode_ex3 : decode_timeout [45; 53; 83]%N = None. Proof. reflexivity. Qed.

Lemma halved_never_later now d : now <= d -> now <= halved_deadline now d <= d.
Proof. intros H. unfold halved_deadline. assert (0 <= (d - now) / 2 <= d - now) by (split; [apply Z.div_pos; lia | apply Z.div_le_upper_bound; lia]). lia. Qed.
