From GB Require Import Model.MDFilter Model.Routers Proofs.MDFilterProofs.
From Coq Require Import Lia.
Open Scope Z_scope.

Section T.
  Variable valid : bytes -> bool.
  Variable matches : bytes -> bytes -> bool.

  (* abstract spec: latest description of every live (watched and updated) target *)
  Definition latest := list (bytes * desc).
  Fixpoint lget (n : bytes) (l : latest) : option desc :=
    match l with [] => None | (k, d) :: r => if bytes_eqb n k then Some d else lget n r end.
  Definition lset (n : bytes) (d : desc) (l : latest) : latest := (n, d) :: filter (fun kv => negb (bytes_eqb n (fst kv))) l.
  Definition ldel (n : bytes) (l : latest) : latest := filter (fun kv => negb (bytes_eqb n (fst kv))) l.

  Lemma lget_filter_other n k l : n <> k -> lget n (filter (fun kv => negb (bytes_eqb k (fst kv))) l) = lget n l.
  Proof.
    intros N. induction l as [|[k' d] l IH]; [reflexivity|]. simpl.
    destruct (bytes_eqb k k') eqn:E; simpl.
    - apply bytes_eqb_eq in E. subst k'. destruct (bytes_eqb n k) eqn:E2; [apply bytes_eqb_eq in E2; congruence | exact IH].
    - destruct (bytes_eqb n k'); [reflexivity | exact IH].
  Qed.
  Lemma lget_filter_same n l : lget n (filter (fun kv => negb (bytes_eqb n (fst kv))) l) = None.
  Proof.
    induction l as [|[k' d] l IH]; [reflexivity|]. simpl.
    destruct (bytes_eqb n k') eqn:E; simpl; [exact IH|]. rewrite E. exact IH.
  Qed.
  Lemma lget_lset n d l k : lget k (lset n d l) = if bytes_eqb k n then Some d else lget k l.
  Proof.
    unfold lset. simpl. destruct (bytes_eqb k n) eqn:E; [reflexivity|].
    apply lget_filter_other. apply bytes_eqb_neq in E. exact E.
  Qed.
  Lemma lget_ldel n l k : lget k (ldel n l) = if bytes_eqb k n then None else lget k l.
  Proof.
    unfold ldel. destruct (bytes_eqb k n) eqn:E.
    - apply bytes_eqb_eq in E. subst k. apply lget_filter_same.
    - apply lget_filter_other. apply bytes_eqb_neq in E. exact E.
  Qed.

  (* ---- per-HTTP-method representation invariant of the pattern table ---- *)
  Definition entries_ok (lt : latest) (http : bytes) (es : list entry) : Prop :=
    NoDup (map e_target es) /\
    (forall e, In e es -> exists d, lget (e_target e) lt = Some d /\ e_desc e = d_id d /\
                                   e_routes e = routes_for valid d http /\ e_routes e <> []) /\
    (forall n d, lget n lt = Some d -> routes_for valid d http <> [] -> exists e, In e es /\ e_target e = n).

  (* the probe, given the invariant: a path matched by exactly one live target's latest description is routed
     to that description's first matching binding; a path matched by none is NotFound *)
  Lemma probe_unique lt http path es n d r :
    entries_ok lt http es ->
    lget n lt = Some d -> first_match matches path (routes_for valid d http) = Some r ->
    (forall n' d', n' <> n -> lget n' lt = Some d' -> first_match matches path (routes_for valid d' http) = None) ->
    probe_entries matches path es = HFound n (d_id d) r.
  Proof.
    intros (ND & Snd & Cmp) Hn Hr Huniq.
    assert (NE : routes_for valid d http <> []) by (intros E; rewrite E in Hr; discriminate).
    destruct (Cmp n d Hn NE) as (e0 & I0 & T0).
    clear Cmp. induction es as [|e es IH]; [destruct I0|].
    simpl. destruct (Snd e (or_introl eq_refl)) as (de & L & Ed & Er & _).
    destruct (bytes_eqb (e_target e) n) eqn:E.
    - apply bytes_eqb_eq in E. rewrite E in L. rewrite Hn in L. injection L as <-.
      rewrite Er, Hr. rewrite E, Ed. reflexivity.
    - apply bytes_eqb_neq in E. rewrite Er, (Huniq _ _ E L).
      simpl in ND. inversion ND; subst.
      apply IH; auto.
      + intros e' I'. apply Snd. right; exact I'.
      + destruct I0 as [->|I0]; [congruence | exact I0].
  Qed.

  Lemma probe_none lt http path es :
    entries_ok lt http es ->
    (forall n d, lget n lt = Some d -> first_match matches path (routes_for valid d http) = None) ->
    probe_entries matches path es = HNotFound.
  Proof.
    intros (_ & Snd & _) Hnone. induction es as [|e es IH]; [reflexivity|].
    simpl. destruct (Snd e (or_introl eq_refl)) as (de & L & _ & Er & _).
    rewrite Er, (Hnone _ _ L). apply IH. intros e' I'. apply Snd. right; exact I'.
  Qed.

  (* ---- upd_method preserves the invariant ---- *)
  Lemma has_entry_In n es : has_entry n es = true <-> In n (map e_target es).
  Proof.
    unfold has_entry. rewrite existsb_exists. split.
    - intros (e & I & E). apply bytes_eqb_eq in E. subst n. apply in_map. exact I.
    - intros I. apply in_map_iff in I as (e & <- & I). exists e. split; [exact I | apply bytes_eqb_refl].
  Qed.

  Lemma map_target_replace n id rs es :
    map e_target (map (fun e => if bytes_eqb (e_target e) n then {| e_target := n; e_desc := id; e_routes := rs |} else e) es) = map e_target es.
  Proof.
    induction es as [|e es IH]; [reflexivity|]. simpl. rewrite IH. f_equal.
    destruct (bytes_eqb (e_target e) n) eqn:E; [apply bytes_eqb_eq in E; simpl; congruence | reflexivity].
  Qed.

  Lemma upd_method_ok lt http n d es :
    entries_ok lt http es -> entries_ok (lset n d lt) http (upd_method n (d_id d) (routes_for valid d http) es).
  Proof.
    intros (ND & Snd & Cmp). unfold upd_method.
    destruct (routes_for valid d http) as [|r0 rs] eqn:R.
    - (* no routes for this method: entry removed *)
      split; [|split].
      + clear Snd Cmp. induction es as [|e es IH]; [constructor|]. simpl in *. inversion ND; subst.
        destruct (bytes_eqb (e_target e) n); simpl; [apply IH; assumption|].
        constructor; [|apply IH; assumption].
        intros I. apply in_map_iff in I as (e' & Eq & I). apply filter_In in I as [I _]. apply H1. rewrite <- Eq. apply in_map; exact I.
      + intros e I. apply filter_In in I as [I E]. apply negb_true_iff in E.
        destruct (Snd e I) as (de & L & R1 & R2 & R3). exists de. rewrite lget_lset, E. auto.
      + intros n' d' L NE. rewrite lget_lset in L. destruct (bytes_eqb n' n) eqn:E.
        * injection L as <-. congruence.
        * destruct (Cmp n' d' L NE) as (e & I & T). exists e. split; [|exact T]. apply filter_In. split; [exact I|]. rewrite T, E. reflexivity.
    - destruct (has_entry n es) eqn:HE.
      + (* replaced in place *)
        split; [|split].
        * rewrite map_target_replace. exact ND.
        * intros e I. apply in_map_iff in I as (e0 & Eq & I0).
          destruct (bytes_eqb (e_target e0) n) eqn:E.
          -- subst e. cbn [e_target e_desc e_routes]. exists d. rewrite lget_lset, bytes_eqb_refl. repeat split; auto. discriminate.
          -- subst e. destruct (Snd e0 I0) as (de & L & R1 & R2 & R3). exists de. rewrite lget_lset, E. auto.
        * intros n' d' L NE. rewrite lget_lset in L. destruct (bytes_eqb n' n) eqn:E.
          -- apply bytes_eqb_eq in E. subst n'. apply has_entry_In in HE. apply in_map_iff in HE as (e0 & T0 & I0).
             eexists. split; [apply in_map; exact I0|]. rewrite T0, bytes_eqb_refl. reflexivity.
          -- destruct (Cmp n' d' L NE) as (e & I & T). eexists. split; [apply in_map; exact I|].
             rewrite T, E. exact T.
      + (* appended *)
        assert (NI : ~ In n (map e_target es)) by (intros I; apply has_entry_In in I; congruence).
        split; [|split].
        * rewrite map_app. simpl. clear - ND NI. induction es as [|e es IH]; simpl in *; [constructor; [tauto|constructor]|]. inversion ND; subst. constructor; [rewrite in_app_iff; simpl; intuition congruence | apply IH; intuition].
        * intros e I. apply in_app_or in I as [I|[<-|[]]].
          -- destruct (Snd e I) as (de & L & R1 & R2 & R3). exists de. rewrite lget_lset.
             destruct (bytes_eqb (e_target e) n) eqn:E; [apply bytes_eqb_eq in E; exfalso; apply NI; rewrite <- E; apply in_map; exact I | auto].
          -- cbn [e_target e_desc e_routes]. exists d. rewrite lget_lset, bytes_eqb_refl. repeat split; auto. discriminate.
        * intros n' d' L NE. rewrite lget_lset in L. destruct (bytes_eqb n' n) eqn:E.
          -- apply bytes_eqb_eq in E. subst n'. eexists. split; [apply in_or_app; right; left; reflexivity | reflexivity].
          -- destruct (Cmp n' d' L NE) as (e & I & T). exists e. split; [apply in_or_app; left; exact I | exact T].
  Qed.
End T.

Section T2.
  Variable valid : bytes -> bool.
  Variable matches : bytes -> bytes -> bool.

  Lemma upd_method_del_ok lt http n es :
    entries_ok valid lt http es -> entries_ok valid (ldel n lt) http (upd_method n 0 [] es).
  Proof.
    intros (ND & Snd & Cmp). unfold upd_method. split; [|split].
    - clear Snd Cmp. induction es as [|e es IH]; [constructor|]. simpl in *. inversion ND; subst.
      destruct (bytes_eqb (e_target e) n); simpl; [apply IH; assumption|].
      constructor; [|apply IH; assumption].
      intros I. apply in_map_iff in I as (e' & Eq & I). apply filter_In in I as [I _]. apply H1. rewrite <- Eq. apply in_map; exact I.
    - intros e I. apply filter_In in I as [I E]. apply negb_true_iff in E.
      destruct (Snd e I) as (de & L & R1 & R2 & R3). exists de. rewrite lget_ldel, E. auto.
    - intros n' d' L NE. rewrite lget_ldel in L. destruct (bytes_eqb n' n) eqn:E; [discriminate|].
      destruct (Cmp n' d' L NE) as (e & I & T). exists e. split; [|exact T]. apply filter_In. split; [exact I|]. rewrite T, E. reflexivity.
  Qed.

  Definition has_key (http : bytes) (t : ptable) : bool := existsb (fun he => bytes_eqb http (fst he)) t.
  Definition nonempty_e (he : bytes * list entry) : bool := negb (match snd he with [] => true | _ => false end).

  Lemma tbl_get_absent http t : has_key http t = false -> tbl_get http t = [].
  Proof.
    induction t as [|[h es] t IH]; [reflexivity|]. simpl. destruct (bytes_eqb http h); [discriminate | exact IH].
  Qed.

  Lemma has_key_In http t : has_key http t = true <-> In http (map fst t).
  Proof.
    unfold has_key. rewrite existsb_exists. split.
    - intros (he & I & E). apply bytes_eqb_eq in E. subst. apply in_map; exact I.
    - intros I. apply in_map_iff in I as (he & <- & I). exists he. split; [exact I | apply bytes_eqb_refl].
  Qed.

  Lemma tbl_get_map (f : bytes -> list entry -> list entry) http t :
    tbl_get http (map (fun he => (fst he, f (fst he) (snd he))) t) = if has_key http t then f http (tbl_get http t) else [].
  Proof.
    induction t as [|[h es] t IH]; [reflexivity|]. simpl.
    destruct (bytes_eqb http h) eqn:E; [apply bytes_eqb_eq in E; subst; reflexivity | exact IH].
  Qed.

  Lemma has_key_map (f : bytes -> list entry -> list entry) http t :
    has_key http (map (fun he => (fst he, f (fst he) (snd he))) t) = has_key http t.
  Proof. unfold has_key. induction t as [|[h es] t IH]; [reflexivity|]. simpl. rewrite IH. reflexivity. Qed.

  Lemma tbl_get_app http a b : tbl_get http (a ++ b) = if has_key http a then tbl_get http a else tbl_get http b.
  Proof.
    induction a as [|[h es] a IH]; [reflexivity|]. simpl. destruct (bytes_eqb http h); [reflexivity | exact IH].
  Qed.

  Lemma tbl_get_filter_nonempty http t : NoDup (map fst t) -> tbl_get http (filter nonempty_e t) = tbl_get http t.
  Proof.
    induction t as [|[h es] t IH]; intros ND; [reflexivity|]. simpl in *. inversion ND; subst.
    unfold nonempty_e at 1. simpl. destruct es as [|e es]; simpl.
    - destruct (bytes_eqb http h) eqn:E; [|apply IH; assumption].
      apply bytes_eqb_eq in E. subst h. rewrite IH by assumption. apply tbl_get_absent.
      destruct (has_key http t) eqn:K; [apply has_key_In in K; contradiction | reflexivity].
    - destruct (bytes_eqb http h); [reflexivity | apply IH; assumption].
  Qed.

  Lemma dedup_In x l : In x (dedup l) <-> In x l.
  Proof.
    induction l as [|y l IH]; simpl; [tauto|].
    destruct (existsb (bytes_eqb y) l) eqn:E.
    - rewrite IH. split; [auto|]. intros [->|I]; [|exact I].
      apply existsb_exists in E as (z & Iz & Ez). apply bytes_eqb_eq in Ez. subst. exact Iz.
    - simpl. rewrite IH. tauto.
  Qed.

  Lemma dedup_NoDup l : NoDup (dedup l).
  Proof.
    induction l as [|y l IH]; simpl; [constructor|].
    destruct (existsb (bytes_eqb y) l) eqn:E; [exact IH|].
    constructor; [|exact IH]. rewrite dedup_In. intros I.
    assert (existsb (bytes_eqb y) l = true) by (apply existsb_exists; exists y; split; [exact I | apply bytes_eqb_refl]). congruence.
  Qed.

  Lemma routes_for_absent d http : ~ In http (map r_http (all_routes valid d)) -> routes_for valid d http = [].
  Proof.
    unfold routes_for. induction (all_routes valid d) as [|r l IH]; intros N; [reflexivity|]. simpl in *.
    destruct (bytes_eqb (r_http r) http) eqn:E; [apply bytes_eqb_eq in E; exfalso; apply N; left; exact E|].
    apply IH. intros I. apply N. right; exact I.
  Qed.

  Lemma tbl_get_map_keys (g : bytes -> list entry) http fk :
    tbl_get http (map (fun h => (h, g h)) fk) = if existsb (bytes_eqb http) fk then g http else [].
  Proof.
    induction fk as [|h fk IH]; [reflexivity|]. simpl.
    destruct (bytes_eqb http h) eqn:E; [apply bytes_eqb_eq in E; subst; reflexivity | exact IH].
  Qed.

  Definition fresh_keys (d : desc) (t : ptable) : list bytes :=
    filter (fun h => negb (existsb (fun he => bytes_eqb h (fst he)) t)) (dedup (map r_http (all_routes valid d))).

  Lemma add_target_keys_nodup n d t : NoDup (map fst t) ->
    NoDup (map fst (map (fun he => (fst he, upd_method n (d_id d) (routes_for valid d (fst he)) (snd he))) t ++
                    map (fun h => (h, upd_method n (d_id d) (routes_for valid d h) [])) (fresh_keys d t))).
  Proof.
    intros ND. rewrite map_app, !map_map. cbn [fst].
    assert (E1 : map (fun x : bytes * list entry => fst x) t = map fst t) by reflexivity.
    rewrite E1, map_id.
    assert (NDf : NoDup (fresh_keys d t)) by (apply NoDup_filter, dedup_NoDup).
    assert (Disj : forall h, In h (fresh_keys d t) -> ~ In h (map fst t)).
    { intros h I K. apply filter_In in I as [_ I]. apply negb_true_iff in I.
      apply has_key_In in K. unfold has_key in K. congruence. }
    revert NDf Disj. generalize (fresh_keys d t) as fk. clear E1.
    induction (map fst t) as [|k ks IH]; intros fk NDf Disj; simpl; [exact NDf|].
    inversion ND; subst. constructor.
    - rewrite in_app_iff. intros [I|I]; [contradiction|]. apply (Disj k I). left; reflexivity.
    - apply IH; auto. intros h I K. apply (Disj h I). right; exact K.
  Qed.

  Lemma filter_keys_nodup (t : ptable) f : NoDup (map fst t) -> NoDup (map fst (filter f t)).
  Proof.
    induction t as [|he t IH]; intros ND; [constructor|]. simpl in *. inversion ND; subst.
    destruct (f he); simpl; [|apply IH; assumption].
    constructor; [|apply IH; assumption].
    intros I. apply in_map_iff in I as (x & Eq & I). apply filter_In in I as [I _]. apply H1. rewrite <- Eq. apply in_map; exact I.
  Qed.

  Theorem tbl_get_add_target n d t http : NoDup (map fst t) ->
    tbl_get http (add_target valid n d t) = upd_method n (d_id d) (routes_for valid d http) (tbl_get http t).
  Proof.
    intros ND. unfold add_target. fold (fresh_keys d t). fold nonempty_e.
    rewrite tbl_get_filter_nonempty by (apply add_target_keys_nodup; exact ND).
    rewrite tbl_get_app, (has_key_map (fun h es => upd_method n (d_id d) (routes_for valid d h) es)).
    rewrite (tbl_get_map (fun h es => upd_method n (d_id d) (routes_for valid d h) es)).
    destruct (has_key http t) eqn:K; [reflexivity|].
    rewrite (tbl_get_absent http t K).
    rewrite (tbl_get_map_keys (fun h => upd_method n (d_id d) (routes_for valid d h) [])).
    destruct (existsb (bytes_eqb http) (fresh_keys d t)) eqn:F; [reflexivity|].
    rewrite routes_for_absent; [reflexivity|].
    intros I. apply dedup_In in I.
    assert (In http (fresh_keys d t)) by (apply filter_In; split; [exact I | apply negb_true_iff; exact K]).
    assert (existsb (bytes_eqb http) (fresh_keys d t) = true) by (apply existsb_exists; exists http; split; [assumption | apply bytes_eqb_refl]).
    congruence.
  Qed.

  Theorem tbl_get_remove_target n t http : NoDup (map fst t) ->
    tbl_get http (remove_target n t) = upd_method n 0 [] (tbl_get http t).
  Proof.
    intros ND. unfold remove_target. fold nonempty_e.
    rewrite tbl_get_filter_nonempty.
    - rewrite (tbl_get_map (fun _ es => upd_method n 0 [] es)).
      destruct (has_key http t) eqn:K; [reflexivity|]. rewrite (tbl_get_absent http t K). reflexivity.
    - rewrite map_map. exact ND.
  Qed.

  (* ---- whole-table invariant and its preservation ---- *)
  Definition PInv (lt : latest) (t : ptable) : Prop :=
    NoDup (map fst t) /\ forall http, entries_ok valid lt http (tbl_get http t).

  Lemma PInv_init : PInv [] [].
  Proof. split; [constructor|]. intros http. split; [constructor|]. split; [intros e []|]. intros n d L. discriminate. Qed.

  Lemma PInv_add lt t n d : PInv lt t -> PInv (lset n d lt) (add_target valid n d t).
  Proof.
    intros [ND H]. split.
    - unfold add_target. fold (fresh_keys d t). apply filter_keys_nodup, add_target_keys_nodup, ND.
    - intros http. rewrite tbl_get_add_target by exact ND. apply upd_method_ok, H.
  Qed.

  Lemma PInv_remove lt t n : PInv lt t -> PInv (ldel n lt) (remove_target n t).
  Proof.
    intros [ND H]. split.
    - unfold remove_target. apply filter_keys_nodup. rewrite map_map. exact ND.
    - intros http. rewrite tbl_get_remove_target by exact ND. apply upd_method_del_ok, H.
  Qed.

  (* ---- histories ---- *)
  (* the abstract spec: latest description per live target; watching alone gives no description *)
  Definition spec_latest (wl : list bytes * latest) (o : op) : list bytes * latest :=
    let '(w, lt) := wl in
    match o with
    | OWatch n => if existsb (bytes_eqb n) w then (w, lt) else (n :: w, lt)
    | OUpdate n d => if existsb (bytes_eqb n) w then (w, lset n d lt) else (w, lt)
    | OClose n => if existsb (bytes_eqb n) w then (filter (fun x => negb (bytes_eqb n x)) w, ldel n lt) else (w, lt)
    end.

  Definition run_ops (ops : list op) : rstate := fold_left (fun s o => fst (step valid s o)) ops init_state.
  Definition run_spec (ops : list op) : list bytes * latest := fold_left spec_latest ops ([], []).

  Lemma history_inv_gen : forall ops s wl,
    st_watch s = fst wl -> PInv (snd wl) (st_pt s) ->
    let s' := fold_left (fun s o => fst (step valid s o)) ops s in
    let wl' := fold_left spec_latest ops wl in
    st_watch s' = fst wl' /\ PInv (snd wl') (st_pt s').
  Proof.
    induction ops as [|o ops IH]; intros s [w lt] W P; simpl in *; [auto|].
    apply IH.
    - destruct o as [n|n d|n]; simpl; unfold watched; rewrite W; destruct (existsb (bytes_eqb n) w); simpl; congruence.
    - destruct o as [n|n d|n]; simpl; unfold watched; rewrite W; destruct (existsb (bytes_eqb n) w); simpl; auto.
      + apply PInv_add; exact P.
      + apply PInv_remove; exact P.
  Qed.

  Theorem history_inv ops : st_watch (run_ops ops) = fst (run_spec ops) /\ PInv (snd (run_spec ops)) (st_pt (run_ops ops)).
  Proof. apply (history_inv_gen ops init_state ([], [])); [reflexivity | apply PInv_init]. Qed.

  (* C06, pattern router: after ANY history, a request matched by exactly one live target is routed to the first
     matching binding of that target's LATEST description; one matched by none is NotFound *)
  Theorem pattern_refines ops http path n d r :
    lget n (snd (run_spec ops)) = Some d ->
    first_match matches path (routes_for valid d http) = Some r ->
    (forall n' d', n' <> n -> lget n' (snd (run_spec ops)) = Some d' -> first_match matches path (routes_for valid d' http) = None) ->
    probe_http matches (st_pt (run_ops ops)) http path = HFound n (d_id d) r.
  Proof.
    intros L M U. destruct (history_inv ops) as [_ [_ H]]. unfold probe_http.
    eapply probe_unique; eauto.
  Qed.

  Theorem pattern_refines_none ops http path :
    (forall n d, lget n (snd (run_spec ops)) = Some d -> first_match matches path (routes_for valid d http) = None) ->
    probe_http matches (st_pt (run_ops ops)) http path = HNotFound.
  Proof.
    intros U. destruct (history_inv ops) as [_ [_ H]]. unfold probe_http. eapply probe_none; eauto.
  Qed.

  (* Watch succeeds iff the name is not currently watched *)
  Theorem watch_exclusive ops n :
    snd (step valid (run_ops ops) (OWatch n)) = (if existsb (bytes_eqb n) (fst (run_spec ops)) then 0 else 1).
  Proof.
    destruct (history_inv ops) as [W _]. simpl. unfold watched. rewrite W.
    destruct (existsb (bytes_eqb n) (fst (run_spec ops))); reflexivity.
  Qed.
End T2.

Section T3.
  Variable valid : bytes -> bool.
  Lemma bindings_routes_valid si mi bs : forall bi r, In r (bindings_routes valid si mi bi bs) -> valid (r_pattern r) = true.
  Proof.
    induction bs as [|b bs IH]; intros bi r I; simpl in I; [destruct I|].
    apply in_app_or in I as [I|I]; [|eapply IH; eauto].
    destruct (valid (b_pattern b)) eqn:V; [|destruct I]. destruct I as [<-|[]]. exact V.
  Qed.
  Lemma methods_routes_valid svc si ms : forall mi r, In r (methods_routes valid svc si mi ms) -> valid (r_pattern r) = true.
  Proof.
    induction ms as [|m ms IH]; intros mi r I; simpl in I; [destruct I|].
    apply in_app_or in I as [I|I]; [|eapply IH; eauto].
    unfold method_routes in I. destruct (m_bindings m) as [|b bs].
    - destruct (valid (rpc_name svc (m_name m))) eqn:V; [|destruct I]. destruct I as [<-|[]]. exact V.
    - eapply bindings_routes_valid; eauto.
  Qed.
  Lemma services_routes_valid ss : forall si r, In r (services_routes valid si ss) -> valid (r_pattern r) = true.
  Proof.
    induction ss as [|s ss IH]; intros si r I; simpl in I; [destruct I|].
    apply in_app_or in I as [I|I]; [eapply methods_routes_valid; eauto | eapply IH; eauto].
  Qed.
  Theorem routes_valid d http r : In r (routes_for valid d http) -> valid (r_pattern r) = true.
  Proof. unfold routes_for. intros I. apply filter_In in I as [I _]. eapply services_routes_valid; eauto. Qed.
End T3.
