From GB Require Import Model.RouteConc.
From Coq Require Import Lia.
Open Scope Z_scope.

(* ---- F11: without the per-watcher mutex a removed target comes back (witness schedule) ---- *)
Definition f11_threads : list thr :=
  [TUpd 1 [116;49]%N {| cd_id := 10; cd_svcs := [] |} 0; TClose 1 [116;49]%N 0; TLook [116;49]%N None].

Theorem removed_comes_back_without_mutex : exists s,
  crun [0; 1; 1; 0; 2]%nat (cinit KPattern false [1%nat] [[116;49]%N] f11_threads) = Some s /\
  mem_nat 1 (removed s) = true /\
  nth_error (threads s) 2 = Some (TLook [116;49]%N (Some (Some ([116;49]%N, 10, 1%nat)))).
Proof. eexists. split; [vm_compute; reflexivity|]. split; reflexivity. Qed.

(* with the mutex the same schedule is not even possible: Close cannot run its removal while the update is in flight *)
Example mutex_blocks_the_witness :
  crun [0; 1; 1]%nat (cinit KPattern true [1%nat] [[116;49]%N] f11_threads) = None.
Proof. vm_compute. reflexivity. Qed.

(* ---- list helpers ---- *)
Lemma nth_replace_same {A} (l : list A) i x : (i < length l)%nat -> nth_error (replace_nth i x l) i = Some x.
Proof. revert i. induction l as [|a l IH]; intros [|i] H; simpl in *; try lia; [reflexivity|]. apply IH. lia. Qed.
Lemma nth_replace_other {A} (l : list A) i j x : i <> j -> nth_error (replace_nth i x l) j = nth_error l j.
Proof. revert i j. induction l as [|a l IH]; intros [|i] [|j] H; simpl; try reflexivity; try congruence. apply IH. congruence. Qed.
Lemma replace_length {A} (l : list A) i x : length (replace_nth i x l) = length l.
Proof. revert i. induction l as [|a l IH]; intros [|i]; simpl; auto. Qed.

Lemma steps_from_inv s : forall ts k i s', In (i, s') (steps_from k ts s) ->
  exists t t' s1, (k <= i)%nat /\ nth_error ts (i - k) = Some t /\ thr_step t s = Some (t', s1) /\
                  s' = set_threads s1 (replace_nth i t' (threads s)).
Proof.
  induction ts as [|a ts IH]; intros k i s' H; simpl in H; [destruct H|].
  apply in_app_or in H as [H|H].
  - destruct (thr_step a s) as [[t' s1]|] eqn:E; [|destruct H]. destruct H as [H|[]]. injection H as <- <-.
    exists a, t', s1. repeat split; auto. replace (k - k)%nat with 0%nat by lia. reflexivity.
  - destruct (IH (S k) i s' H) as (t & t' & s1 & L & N & E & Es). exists t, t', s1. repeat split; auto; try lia.
    replace (i - k)%nat with (S (i - S k)) by lia. exact N.
Qed.

Lemma cnext_inv s i s' : In (i, s') (cnext s) ->
  exists t t' s1, nth_error (threads s) i = Some t /\ thr_step t s = Some (t', s1) /\
                  s' = set_threads s1 (replace_nth i t' (threads s)).
Proof.
  intros H. apply steps_from_inv in H as (t & t' & s1 & _ & N & E & Es). rewrite Nat.sub_0_r in N.
  exists t, t', s1. repeat split; assumption.
Qed.

(* ---- the invariant (pattern router, per-watcher mutex present) ---- *)
Definition is_holder (w : nat) (t : thr) : bool :=
  match t with TUpd w' _ _ pc => Nat.eqb w' w && (Nat.eqb pc 1 || Nat.eqb pc 2) | _ => false end.
Definition nh (ts : list thr) (w : nat) : nat := length (filter (is_holder w) ts).

Lemma nh_replace ts i t t' w : nth_error ts i = Some t ->
  (nh (replace_nth i t' ts) w + (if is_holder w t then 1 else 0) = nh ts w + (if is_holder w t' then 1 else 0))%nat.
Proof.
  unfold nh. revert i. induction ts as [|a ts IH]; intros [|i] H; simpl in *; try discriminate.
  - injection H as ->. destruct (is_holder w t), (is_holder w t'); simpl; lia.
  - specialize (IH i H). destruct (is_holder w a); simpl; lia.
Qed.

Section PatternInv.
  Variable name : nat -> bytes.     (* the name each watcher was created for *)

  Definition wf_thr (t : thr) : Prop :=
    match t with TUpd w n _ _ => n = name w | TClose w n _ => n = name w | _ => True end.

  Record Inv (s : cstate) : Prop := {
    i_kind : kind s = KPattern; i_mx : wmutex s = true;
    i_wf : forall t, In t (threads s) -> wf_thr t;
    i_held : forall w, mem_nat w (held s) = true <-> nh (threads s) w = 1%nat;
    i_le : forall w, (nh (threads s) w <= 1)%nat;
    i_hold_live : forall w, (1 <= nh (threads s) w)%nat -> mem_nat w (removed s) = false;
    i_rem_closed : forall w, mem_nat w (removed s) = true -> mem_nat w (closedw s) = true;
    i_closing : forall w n, In (TClose w n 1) (threads s) -> mem_nat w (closedw s) = true;
    i_tab : forall n d w, a_get n (ptab s) = Some (d, w) -> mem_nat w (removed s) = false /\ n = name w;
    i_nopc2 : forall w n d pc, In (TUpd w n d pc) (threads s) -> (2 <= pc)%nat -> pc = 9%nat
  }.

  Lemma mem_nat_cons x y l : mem_nat x (y :: l) = Nat.eqb x y || mem_nat x l.
  Proof. reflexivity. Qed.
  Lemma mem_nat_filter_neq x w l : mem_nat x (filter (fun y => negb (Nat.eqb y w)) l) = negb (Nat.eqb x w) && mem_nat x l.
  Proof.
    induction l as [|y l IH]; simpl; [rewrite andb_false_r; reflexivity|].
    destruct (Nat.eqb_spec y w) as [->|N]; simpl.
    - rewrite IH. destruct (Nat.eqb_spec x w) as [->|N2]; simpl; [reflexivity|].
      destruct (Nat.eqb_spec x w); [contradiction|]. reflexivity.
    - rewrite IH. destruct (Nat.eqb_spec x y) as [->|N2]; simpl.
      + destruct (Nat.eqb_spec y w); [contradiction|]. reflexivity.
      + reflexivity.
  Qed.

  Lemma a_get_del_same {A} k (l : list (bytes * A)) : a_get k (a_del k l) = None.
  Proof. induction l as [|[k' v] l IH]; simpl; [reflexivity|]. destruct (bytes_eqb k k') eqn:E; simpl; [exact IH|]. rewrite E. exact IH. Qed.
  Lemma bytes_eqb_true a b : bytes_eqb a b = true -> a = b.
  Proof.
    unfold bytes_eqb. revert b. induction a as [|x a IH]; destruct b as [|y b]; cbn [list_eqb]; intros H; try discriminate; [reflexivity|].
    apply andb_prop in H as [H1 H2]. apply N.eqb_eq in H1. f_equal; auto.
  Qed.
  Lemma bytes_eqb_rfl a : bytes_eqb a a = true.
  Proof. unfold bytes_eqb. induction a; cbn [list_eqb]; [reflexivity|]. rewrite N.eqb_refl. exact IHa. Qed.
  Lemma a_get_del_other {A} k k' (l : list (bytes * A)) : k <> k' -> a_get k' (a_del k l) = a_get k' l.
  Proof.
    intros N. induction l as [|[k2 v] l IH]; simpl; [reflexivity|].
    destruct (bytes_eqb k k2) eqn:E; simpl.
    - apply bytes_eqb_true in E. subst k2. destruct (bytes_eqb k' k) eqn:E2; [apply bytes_eqb_true in E2; congruence | exact IH].
    - destruct (bytes_eqb k' k2); [reflexivity | exact IH].
  Qed.

  Lemma In_replace {A} (l : list A) i x y : In y (replace_nth i x l) -> y = x \/ In y l.
  Proof.
    revert i. induction l as [|a l IH]; intros [|i] H; simpl in *; auto.
    - destruct H as [H|H]; auto.
    - destruct H as [H|H]; auto. destruct (IH i H); auto.
  Qed.

  Local Arguments nh : simpl never.
  Local Arguments mem_nat : simpl never.
  Local Arguments a_get : simpl never.

  Ltac nhr N w0 t' := let R := fresh "R" in pose proof (nh_replace _ _ _ t' w0 N) as R; cbn [is_holder] in R;
                      rewrite ?andb_false_r, ?Nat.eqb_refl in R; cbn [andb orb Nat.eqb] in R.

  Lemma step_preserves s i s' : Inv s -> In (i, s') (cnext s) -> Inv s'.
  Proof.
    intros [K MX WF HE LE HL RC CL TB P2] H.
    apply cnext_inv in H as (t & t' & s1 & N & E & ->).
    assert (It : In t (threads s)) by (eapply nth_error_In; eauto).
    pose proof (WF t It) as Wt.
    assert (WF' : forall t'', wf_thr t'' -> forall t0, In t0 (replace_nth i t'' (threads s)) -> wf_thr t0).
    { intros t'' W t0 I0. apply In_replace in I0 as [->|I0]; auto. }
    destruct t as [w n d pc|w n pc|q r|w n r]; simpl in E.
    - (* updater *)
      destruct pc as [|[|[|pc]]]; try discriminate.
      + (* pc 0 *)
        destruct (mem_nat w (live s)); [|discriminate]. cbn [negb] in E.
        unfold can_lock in E. rewrite MX in E. cbn [negb orb] in E.
        destruct (mem_nat w (held s)) eqn:Hw; [discriminate|]. cbn [negb] in E.
        assert (Z0 : nh (threads s) w = 0%nat).
        { pose proof (LE w). destruct (nh (threads s) w) as [|[|k]] eqn:Q; [reflexivity | | lia].
          assert (mem_nat w (held s) = true) by (apply HE; exact Q). congruence. }
        destruct (mem_nat w (closedw s)) eqn:Cw; injection E as <- <-.
        * refine (Build_Inv _ _ _ _ _ _ _ _ _ _ _); cbn [kind wmutex threads held removed closedw ptab set_threads]; auto.
          -- apply WF'. exact Wt.
          -- intros w0. nhr N w0 (TUpd w n d 9). split; intros X; [apply HE in X | apply HE]; lia.
          -- intros w0. nhr N w0 (TUpd w n d 9). specialize (LE w0). lia.
          -- intros w0 G. nhr N w0 (TUpd w n d 9). apply HL. lia.
          -- intros w0 n0 I0. apply In_replace in I0 as [I0|I0]; [discriminate | eauto].
          -- intros w0 n0 d0 pc0 I0 G. apply In_replace in I0 as [I0|I0]; [injection I0 as -> -> -> ->; reflexivity | eauto].
        * refine (Build_Inv _ _ _ _ _ _ _ _ _ _ _); unfold lock; rewrite MX; cbn [kind wmutex threads held removed closedw ptab set_threads]; auto.
          -- apply WF'. exact Wt.
          -- intros w0. nhr N w0 (TUpd w n d 1). rewrite mem_nat_cons.
             destruct (Nat.eqb_spec w0 w) as [Ew|Nw]; [subst w0|].
             ++ rewrite Nat.eqb_refl in R. cbn [andb orb] in R. cbn [orb]. split; [intros _; lia | reflexivity].
             ++ destruct (Nat.eqb_spec w w0); [congruence|]. cbn [andb orb] in R. cbn [orb]. split; intros X; [apply HE in X | apply HE]; lia.
          -- intros w0. nhr N w0 (TUpd w n d 1).
             destruct (Nat.eqb_spec w w0) as [Ew|Nw]; [subst w0|]; cbn [andb orb] in R; [lia | specialize (LE w0); lia].
          -- intros w0 G. nhr N w0 (TUpd w n d 1).
             destruct (Nat.eqb_spec w w0) as [Ew|Nw]; [subst w0|]; cbn [andb orb] in R.
             ++ destruct (mem_nat w (removed s)) eqn:Rw; [|reflexivity]. rewrite (RC w Rw) in Cw. discriminate.
             ++ apply HL. lia.
          -- intros w0 n0 I0. apply In_replace in I0 as [I0|I0]; [discriminate | eauto].
          -- intros w0 n0 d0 pc0 I0 G. apply In_replace in I0 as [I0|I0]; [injection I0 as -> -> -> ->; lia | eauto].
      + (* pc 1: mutate (pattern) *)
        destruct (tmu s); [discriminate|]. rewrite K in E. injection E as <- <-.
        pose proof (nh_replace (threads s) i _ (TUpd w n d 9) w N) as Rw. cbn [is_holder] in Rw. rewrite Nat.eqb_refl in Rw. cbn [andb orb Nat.eqb] in Rw.
        assert (H1 : nh (threads s) w = 1%nat) by (specialize (LE w); lia).
        refine (Build_Inv _ _ _ _ _ _ _ _ _ _ _); unfold unlock, upd_pattern; cbn [kind wmutex threads held removed closedw ptab set_threads]; auto.
        * apply WF'. exact Wt.
        * intros w0. rewrite mem_nat_filter_neq. nhr N w0 (TUpd w n d 9).
          destruct (Nat.eqb_spec w0 w) as [Ew|Nw]; [subst w0|]; cbn [negb andb].
          -- split; [discriminate | intros X; lia].
          -- destruct (Nat.eqb_spec w w0); [congruence|]. cbn [andb orb] in R. split; intros X; [apply HE in X | apply HE]; lia.
        * intros w0. nhr N w0 (TUpd w n d 9).
          destruct (Nat.eqb_spec w w0); cbn [andb orb] in R; specialize (LE w0); lia.
        * intros w0 G. nhr N w0 (TUpd w n d 9).
          destruct (Nat.eqb_spec w w0) as [Ew|Nw]; [subst w0|]; cbn [andb orb] in R; [lia | apply HL; lia].
        * intros w0 n0 I0. apply In_replace in I0 as [I0|I0]; [discriminate | eauto].
        * intros n0 d0 w0 G. unfold a_set, a_get in G. cbn [fst snd] in G. fold (@a_get (Z * nat)) in G.
          destruct (bytes_eqb n0 n) eqn:En.
          -- injection G as <- <-. apply bytes_eqb_true in En. subst n0. split; [apply HL; lia | exact Wt].
          -- rewrite a_get_del_other in G by (intros ->; rewrite bytes_eqb_rfl in En; discriminate). eauto.
        * intros w0 n0 d0 pc0 I0 G. apply In_replace in I0 as [I0|I0]; [injection I0 as -> -> -> ->; reflexivity | eauto].
      + (* pc 2: impossible for the pattern router *)
        exfalso. pose proof (P2 w n d 2%nat It ltac:(lia)) as X. discriminate.
    - (* closer *)
      destruct pc as [|[|pc]]; try discriminate.
      + destruct (mem_nat w (live s)); [|discriminate]. cbn [negb] in E.
        destruct (mem_nat w (closedw s)) eqn:Cw; injection E as <- <-.
        * refine (Build_Inv _ _ _ _ _ _ _ _ _ _ _); cbn [kind wmutex threads held removed closedw ptab set_threads]; auto.
          -- apply WF'. exact Wt.
          -- intros w0. nhr N w0 (TClose w n 8). split; intros X; [apply HE in X | apply HE]; lia.
          -- intros w0. nhr N w0 (TClose w n 8). specialize (LE w0). lia.
          -- intros w0 G. nhr N w0 (TClose w n 8). apply HL. lia.
          -- intros w0 n0 I0. apply In_replace in I0 as [I0|I0]; [discriminate | eauto].
          -- intros w0 n0 d0 pc0 I0 G. apply In_replace in I0 as [I0|I0]; [discriminate | eauto].
        * refine (Build_Inv _ _ _ _ _ _ _ _ _ _ _); cbn [kind wmutex threads held removed closedw ptab set_threads]; auto.
          -- apply WF'. exact Wt.
          -- intros w0. nhr N w0 (TClose w n 1). split; intros X; [apply HE in X | apply HE]; lia.
          -- intros w0. nhr N w0 (TClose w n 1). specialize (LE w0). lia.
          -- intros w0 G. nhr N w0 (TClose w n 1). apply HL. lia.
          -- intros w0 Rw. rewrite mem_nat_cons. rewrite (RC w0 Rw). apply orb_true_r.
          -- intros w0 n0 I0. rewrite mem_nat_cons. apply In_replace in I0 as [I0|I0].
             ++ injection I0 as <- <-. rewrite Nat.eqb_refl. reflexivity.
             ++ rewrite (CL w0 n0 I0). apply orb_true_r.
          -- intros w0 n0 d0 pc0 I0 G. apply In_replace in I0 as [I0|I0]; [discriminate | eauto].
      + (* removal *)
        unfold can_lock in E. rewrite MX in E. cbn [negb orb] in E.
        destruct (mem_nat w (held s)) eqn:Hw; [discriminate|]. cbn [negb andb] in E.
        destruct (tmu s); [discriminate|]. cbn [negb] in E. injection E as <- <-.
        assert (Z0 : nh (threads s) w = 0%nat).
        { pose proof (LE w). destruct (nh (threads s) w) as [|[|k]] eqn:Q; [reflexivity | | lia].
          assert (mem_nat w (held s) = true) by (apply HE; exact Q). congruence. }
        unfold remove_all. rewrite K.
        refine (Build_Inv _ _ _ _ _ _ _ _ _ _ _); cbn [kind wmutex threads held removed closedw ptab set_threads]; auto.
        * apply WF'. exact Wt.
        * intros w0. nhr N w0 (TClose w n 9). split; intros X; [apply HE in X | apply HE]; lia.
        * intros w0. nhr N w0 (TClose w n 9). specialize (LE w0). lia.
        * intros w0 G. nhr N w0 (TClose w n 9). rewrite mem_nat_cons.
          destruct (Nat.eqb_spec w0 w) as [Ew|Nw]; [subst w0; lia|]. cbn [orb]. apply HL. lia.
        * intros w0 Rw. rewrite mem_nat_cons in Rw. destruct (Nat.eqb_spec w0 w) as [Ew|Nw]; [subst w0; eapply CL; exact It | apply RC; exact Rw].
        * intros w0 n0 I0. apply In_replace in I0 as [I0|I0]; [discriminate | eauto].
        * intros n0 d0 w0 G.
          destruct (bytes_eqb n n0) eqn:En.
          -- apply bytes_eqb_true in En. subst n0. rewrite a_get_del_same in G. discriminate.
          -- rewrite a_get_del_other in G by (intros ->; rewrite bytes_eqb_rfl in En; discriminate).
             destruct (TB n0 d0 w0 G) as [G1 G2]. split; [|exact G2]. rewrite mem_nat_cons.
             destruct (Nat.eqb_spec w0 w) as [Ew|Nw]; [|exact G1]. subst w0. simpl in Wt. subst n n0. rewrite bytes_eqb_rfl in En. discriminate.
        * intros w0 n0 d0 pc0 I0 G. apply In_replace in I0 as [I0|I0]; [discriminate | eauto].
    - (* lookup *)
      destruct r; [discriminate|]. injection E as <- <-.
      refine (Build_Inv _ _ _ _ _ _ _ _ _ _ _); cbn [kind wmutex threads held removed closedw ptab set_threads]; auto.
      + apply WF'. exact I.
      + intros w0. nhr N w0 (TLook q (Some (lookup q s))). split; intros X; [apply HE in X | apply HE]; lia.
      + intros w0. nhr N w0 (TLook q (Some (lookup q s))). specialize (LE w0). lia.
      + intros w0 G. nhr N w0 (TLook q (Some (lookup q s))). apply HL. lia.
      + intros w0 n0 I0. apply In_replace in I0 as [I0|I0]; [discriminate | eauto].
      + intros w0 n0 d0 pc0 I0 G. apply In_replace in I0 as [I0|I0]; [discriminate | eauto].
    - (* watch *)
      destruct r; [discriminate|].
      destruct (mem_b n (watched s)); injection E as <- <-;
      (refine (Build_Inv _ _ _ _ _ _ _ _ _ _ _); cbn [kind wmutex threads held removed closedw ptab set_threads]; auto;
       [ apply WF'; exact I
       | intros w0; match goal with |- context[TWatch w n (Some ?b)] => nhr N w0 (TWatch w n (Some b)) end; split; intros X; [apply HE in X | apply HE]; lia
       | intros w0; match goal with |- context[TWatch w n (Some ?b)] => nhr N w0 (TWatch w n (Some b)) end; specialize (LE w0); lia
       | intros w0 G; match goal with G : context[TWatch w n (Some ?b)] |- _ => nhr N w0 (TWatch w n (Some b)) end; apply HL; lia
       | intros w0 n0 I0; apply In_replace in I0 as [I0|I0]; [discriminate | eauto]
       | intros w0 n0 d0 pc0 I0 G; apply In_replace in I0 as [I0|I0]; [discriminate | eauto] ]).
  Qed.

  (* ---- the theorem: every reachable state of any thread set ---- *)
  Theorem inv_reach s0 s : Inv s0 -> CReach s0 s -> Inv s.
  Proof. intros I R. induction R; [exact I | eapply step_preserves; eauto]. Qed.

  Lemma init_inv live0 watched0 ts : (forall t, In t ts -> wf_thr t) ->
    (forall w, nh ts w = 0%nat) -> (forall w n pc, In (TClose w n pc) ts -> pc = 0%nat) ->
    (forall w n d pc, In (TUpd w n d pc) ts -> pc = 0%nat) ->
    Inv (cinit KPattern true live0 watched0 ts).
  Proof.
    intros W Z C U. refine (Build_Inv _ _ _ _ _ _ _ _ _ _ _); cbn [kind wmutex threads held removed closedw ptab cinit]; auto.
    - intros w. rewrite Z. split; discriminate.
    - intros w. rewrite Z. lia.
    - intros w n I. apply C in I. discriminate.
    - intros n d w G. discriminate.
    - intros w n d pc I G. apply U in I. lia.
  Qed.

  (* C11: in every reachable state, under every interleaving, no table entry was applied through a watcher whose
     Close has executed its removal: a removed target never comes back, so no later lookup is routed to it *)
  Theorem removed_stays_removed s0 s q n d w : Inv s0 -> CReach s0 s ->
    lookup q s = Some (n, d, w) -> mem_nat w (removed s) = false.
  Proof.
    intros I R L. pose proof (inv_reach s0 s I R) as [K _ _ _ _ _ _ _ TB _].
    unfold lookup in L. rewrite K in L. destruct (a_get q (ptab s)) as [[d0 w0]|] eqn:G; [|discriminate].
    injection L as <- <- <-. apply (TB q d0 w0 G).
  Qed.
End PatternInv.
