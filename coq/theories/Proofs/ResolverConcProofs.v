From GB Require Import Model.ResolverConc.
From Coq Require Import Lia.
Open Scope Z_scope.

Lemma nth_set_same l : forall i x, (i < length l)%nat -> nth_error (set_nth i x l) i = Some x.
Proof. induction l as [|a l IH]; intros [|i] x H; simpl in *; try lia; [reflexivity | apply IH; lia]. Qed.
Lemma nth_set_other l : forall i j x, i <> j -> nth_error (set_nth i x l) j = nth_error l j.
Proof. induction l as [|a l IH]; intros [|i] [|j] x H; simpl; try reflexivity; try congruence. apply IH. congruence. Qed.

Section Faithful.
  Variable timer : bool.
  Notation step := (step false timer).
  Notation Reach := (Reach false timer).

  (* the invariant: a returned ResolveNow call after whose beginning no poll has started yet has left its mark - the
     current channel is closed (so the select's resolve-now branch is enabled), or the poller is already on its way into
     the next poll, or the resolver was closed *)
  Definition Inv (s : st) : Prop :=
    (forall i k, nth_error (callers s) i = Some (CReturned k) -> (k <= polls s)%nat /\
        (polls s = k -> closed s = true \/ pc s = PRearm \/ pc s = PExit)) /\
    (forall i k g, nth_error (callers s) i = Some (CLoaded k g) -> (k <= polls s)%nat /\ (g <= gen s)%nat /\
        ((g < gen s)%nat -> (k < polls s)%nat \/ pc s = PRearm \/ pc s = PExit)).

  Lemma inv_init n c0 : Inv (init n c0).
  Proof.
    split; intros i k; [|intros g]; intros H; exfalso; unfold init in H; cbn in H;
      apply nth_error_In, repeat_spec in H; discriminate.
  Qed.

  Lemma inv_step s s' : Inv s -> step s s' -> Inv s'.
  Proof.
    intros [IR IL] H. inversion H as [a b H1|a b H1|a b H1|a c]; subst; clear H; try rename H1 into H.
    - (* poller *)
      unfold poller_steps in H. destruct (pc s) eqn:P; cbn [In] in H.
      + destruct H as [<-|[]]. split; cbn; [intros i k G; destruct (IR i k G) as [A B] | intros i k g G; destruct (IL i k g G) as (A & B & C)];
          repeat split; auto; intros X; [destruct (B X) as [Y|[Y|Y]] | destruct (C X) as [Y|[Y|Y]]]; auto; congruence.
      + destruct H as [<-|[]]. split; cbn; [intros i k G; destruct (IR i k G) as [A B] | intros i k g G; destruct (IL i k g G) as (A & B & C)];
          repeat split; auto; intros X; [destruct (B X) as [Y|[Y|Y]] | destruct (C X) as [Y|[Y|Y]]]; auto; congruence.
      + apply in_app_or in H as [H|H].
        * destruct (closed s); [|destruct H]. destruct H as [<-|[]].
          split; cbn; [intros i k G; destruct (IR i k G) as [A B] | intros i k g G; destruct (IL i k g G) as (A & B & C)]; repeat split; auto; lia.
        * destruct timer; [|destruct H]. destruct H as [<-|[]].
          split; cbn; [intros i k G; destruct (IR i k G) as [A B] | intros i k g G; destruct (IL i k g G) as (A & B & C)]; repeat split; auto; try lia.
      + destruct H as [<-|[]].
        split; cbn; [intros i k G; destruct (IR i k G) as [A B] | intros i k g G; destruct (IL i k g G) as (A & B & C)]; repeat split; auto; try lia.
      + destruct H.
    - (* callers *)
      unfold caller_steps in H. apply in_flat_map in H as (i & Hi & H). apply in_seq in Hi.
      destruct (nth_error (callers s) i) as [[|k g|k]|] eqn:N; cbn [In] in H; try destruct H as [H|[]]; try destruct H.
      + subst. split; cbn; intros j.
        * intros k G. destruct (Nat.eq_dec i j) as [->|NE]; [rewrite nth_set_same in G by lia; discriminate|].
          rewrite nth_set_other in G by exact NE. apply (IR j k G).
        * intros k g G. destruct (Nat.eq_dec i j) as [->|NE].
          -- rewrite nth_set_same in G by lia. injection G as <- <-. repeat split; auto; lia.
          -- rewrite nth_set_other in G by exact NE. apply (IL j k g G).
      + subst. destruct (IL i k g N) as (A & B & C). split; cbn; intros j.
        * intros k' G. destruct (Nat.eq_dec i j) as [->|NE].
          -- rewrite nth_set_same in G by lia. injection G as <-. split; [exact A|]. intros X.
             destruct (Nat.eqb_spec g (gen s)) as [E|NE']; [left; reflexivity|].
             assert (L : (g < gen s)%nat) by lia. destruct (C L) as [Y|[Y|Y]]; [lia | auto | auto].
          -- rewrite nth_set_other in G by exact NE. destruct (IR j k' G) as [A' B']. split; [exact A'|]. intros X.
             destruct (B' X) as [Y|[Y|Y]]; auto. left. destruct (Nat.eqb g (gen s)); [reflexivity | exact Y].
        * intros k' g' G. destruct (Nat.eq_dec i j) as [->|NE]; [rewrite nth_set_same in G by lia; discriminate|].
          rewrite nth_set_other in G by exact NE. apply (IL j k' g' G).
    - (* closer *)
      unfold closer_steps in H. destruct (pc s) eqn:P; try destruct H. destruct (closer_returned s); [destruct H|].
      destruct H as [<-|[]]. split; cbn; [intros i k G; destruct (IR i k G) as [A B] | intros i k g G; destruct (IL i k g G) as (A & B & C)];
        repeat split; auto.
    - split; cbn; [intros i k G; apply (IR i k G) | intros i k g G; apply (IL i k g G)].
  Qed.

  Theorem inv_reach n c0 s : Reach (init n c0) s -> Inv s.
  Proof. intros R. induction R; [apply inv_init | eapply inv_step; eauto]. Qed.

  (* C15: a resolve-now request is never lost.  In every reachable state, under every interleaving: if a ResolveNow call
     has returned and no poll has started since the call began, then a poller that is waiting has its resolve-now
     branch enabled - it cannot stay asleep - and the poll it then starts reads the contract afresh *)
  Theorem resolve_now_not_lost n c0 s i k : Reach (init n c0) s ->
    nth_error (callers s) i = Some (CReturned k) -> polls s = k -> pc s = PSelect ->
    closed s = true /\ exists s', In s' (poller_steps false timer s) /\ pc s' = PRearm.
  Proof.
    intros R G E P. destruct (inv_reach _ _ _ R) as [IR _]. destruct (IR i k G) as [_ B].
    destruct (B E) as [C|[C|C]]; try congruence. split; [exact C|].
    unfold poller_steps. rewrite P, C. eexists. split; [left; reflexivity | reflexivity].
  Qed.

  Theorem next_poll_reads_afresh s s' c : pc s = PStart -> In s' (poller_steps false timer s) -> contract s = c -> pc s' = PRead c.
  Proof. intros P H <-. unfold poller_steps in H. rewrite P in H. destruct H as [<-|[]]. reflexivity. Qed.

  (* no callback after Close has returned: the closer returns only by handing the poller its exit, and an exited poller
     neither moves nor delivers *)
  Lemma closed_exit_step s s' : (closer_returned s = true -> pc s = PExit) -> step s s' -> (closer_returned s' = true -> pc s' = PExit).
  Proof.
    intros I H. inversion H as [a b H1|a b H1|a b H1|a c]; subst; clear H; try rename H1 into H.
    - intros X. unfold poller_steps in H. destruct (pc s) eqn:P; cbn [In] in H;
        try (destruct H as [<-|[]]; cbn in X; specialize (I X); congruence); try destruct H.
      apply in_app_or in H as [H|H]; [destruct (closed s)|destruct timer]; try destruct H as [<-|[]]; try destruct H; cbn in X; specialize (I X); congruence.
    - unfold caller_steps in H. apply in_flat_map in H as (i & _ & H).
      destruct (nth_error (callers s) i) as [[|k g|k]|]; cbn [In] in H; try destruct H as [<-|[]]; try destruct H; cbn; exact I.
    - unfold closer_steps in H. destruct (pc s); try destruct H. destruct (closer_returned s); [destruct H|]. destruct H as [<-|[]]. reflexivity.
    - exact I.
  Qed.

  Theorem close_returned_means_exit n c0 s : Reach (init n c0) s -> closer_returned s = true -> pc s = PExit.
  Proof. intros R. induction R; [discriminate | eapply closed_exit_step; eauto]. Qed.

  Theorem no_callback_after_exit s s' : pc s = PExit -> step s s' -> pc s' = PExit /\ cbs s' = cbs s /\ last s' = last s.
  Proof.
    intros P H. inversion H as [a b H1|a b H1|a b H1|a c]; subst; clear H; try rename H1 into H.
    - unfold poller_steps in H. rewrite P in H. destruct H.
    - unfold caller_steps in H. apply in_flat_map in H as (i & _ & H).
      destruct (nth_error (callers s) i) as [[|k g|k]|]; cbn [In] in H; try destruct H as [<-|[]]; try destruct H; cbn; auto.
    - unfold closer_steps in H. rewrite P in H. destruct H.
    - cbn. auto.
  Qed.

  Theorem no_callback_after_close n c0 s s' : Reach (init n c0) s -> closer_returned s = true -> Reach s s' -> cbs s' = cbs s.
  Proof.
    intros R C R'. pose proof (close_returned_means_exit _ _ _ R C) as P.
    assert (G : pc s' = PExit /\ cbs s' = cbs s).
    { induction R' as [|s1 s2 R1 IH H]; [auto|]. destruct IH as [P1 E1].
      destruct (no_callback_after_exit _ _ P1 H) as (P2 & E2 & _). split; [exact P2 | congruence]. }
    apply G.
  Qed.
End Faithful.

(* with the re-arming moved in front of every wait (the seeded change) a request issued during a poll IS lost: the caller
   has returned, no poll has started since, and the poller sleeps on an open channel *)
Theorem rearm_always_loses_a_request : exists s,
  run true false [0; 1; 1; 0]%nat (init 1 7) = Some s /\
  nth_error (callers s) 0 = Some (CReturned 1) /\ polls s = 1%nat /\ pc s = PSelect /\ closed s = false /\
  poller_steps true false s = [].
Proof. eexists. split; [vm_compute; reflexivity|]. repeat split. Qed.

(* the same schedule on the faithful loop: the channel stays closed *)
Example faithful_keeps_the_request : exists s,
  run false false [0; 1; 1; 0]%nat (init 1 7) = Some s /\ pc s = PSelect /\ closed s = true.
Proof. eexists. split; [vm_compute; reflexivity|]. split; reflexivity. Qed.
